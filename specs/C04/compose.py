"""C04, part 6: COMPOSITION -- what `converged` certifies about the program AS THE CALLER STATED IT (over the reals, BOUNDED shapes).

Three real functions are walked one after the other in ONE environment (progwp.ProgWP):
    program_t::program_t(Q, c, A, b, G, h)      on the caller's symbolic blocks (scaling.walk_ctor: reduce() by its contract, ::normalize by the
                                                clauses proved for it): the program the solver HOLDS (reduced, normalised)
    program_t::update(x, u, v, miu, state)      at an arbitrary (x, u, v): the residual fields of the state; state.m_x is that same x (the
                                                data-flow fact "the fields done() reads were computed at the returned point" is the CBMC target
                                                solve_with_inequality_res)
    solver_t::done(program, state, epsilon, ..) on exactly that program and state, with program_t::feasible walked in place
so that `state.m_status == converged` is a term over the CALLER's coefficients.  From it (hypotheses: the three factors are >= 1e-3, proved
for ::normalize):
    decision         converged <=> feasible' && eta < epsilon && ||rdual||_2 < epsilon && ||rprim||_2 < epsilon, where feasible' is
                     (no equalities or ||A'x - b'||_2 < epsilon2) && (no inequalities or every (G'x - h')_i < epsilon2) of the HELD program
                     (A', b') = (A_r, b_r) / dA, (G', h') = (G, h) / dG: feasible() is evaluated on the normalised, reduced program, at state.m_x
    unscale_*        lemmas on the extracted terms: dA * rprim_i == (A_r x - b_r)_i, dG * (G'x - h')_i == (Gx - h)_i, m_mufx * rdual_k == (Qx + c + G'u~ +
                     A_r'v~)_k, m_mufx * eta == -u~'(Gx - h) with u~ = (m_mufx / dG) u, v~ = (m_mufx / dA) v
    caller_equality_rows     converged ==> |(A_r x - b_r)_i| < epsilon * dA for every row the reduction left (and < epsilon2 * dA from feasible())
    equality_tolerance       with the arithmetic side condition  epsilon * dA <= 1e-6 (1 + ||b_r||_inf):  |(A_r x - b_r)_i| <= 1e-6 (1 + ||b_r||_inf)
    caller_inequality_rows   converged ==> (Gx - h)_i < epsilon2 * dG for every row the caller stated
    inequality_tolerance     with the side condition  epsilon2 * dG <= 1e-6 (1 + ||h||_inf):  (Gx - h)_i <= 1e-6 (1 + ||h||_inf)
    caller_dual_residual     converged ==> |(Qx + c + G'u~ + A_r'v~)_k| < epsilon * M for every k, M = m_mufx = max(1e-3, ||Q||_F, ||c||_2)
    caller_gap               converged ==> -u~'(Gx - h) < epsilon * M
Each composed clause is a CHAIN: the lemma is shown on the extracted terms, the clause itself with the extracted residual terms generalised to
arbitrary reals that satisfy the lemma (Vcg.vc(abstract=..)): linear arithmetic plus one product per row.
(A_r, b_r) are the rows reduce() left: the caller's own rows when [A | b] has full row rank (obligation `full rank` of reduce1_vcs), linear
combinations of them otherwise."""
import astload
from nvwp import V, Unsupported, real_lit
from cxx2c import unwrap
from linalg import Vcg, AV, MV, t_dot, t_matvec, t_transpose, conj, eqs, rsum
from eig import rabs, rmax
import residuals
import scaling
from residuals import fninfo, line_of, vsub, void_literal

TU = residuals.TU
FLT = residuals.FLT
TOL = real_lit(1e-6)


def h_feasible(wp, node, args, obj):
    """program.feasible(state): the callee's own body (reference locals, one return expression) evaluated in the caller's environment with
    `this` = the program it is called on and its parameter bound to the argument"""
    o = unwrap(obj)
    if o.get('kind') == 'CXXThisExpr':
        prefix = wp.this_prefix
    elif o.get('kind') == 'DeclRefExpr':
        prefix = wp.obj_key(o) + '.'
    else:
        raise Unsupported(f'{wp.name}: feasible() on something that is neither *this nor a named object')
    fn = astload.find_definition(TU, FLT, 'feasible')
    params = [c for c in fn['inner'] if c['kind'] == 'ParmVarDecl']
    if len(params) != 1 or len(args) != 1:
        raise Unsupported(f'{wp.name}: feasible with {len(params)} parameters')
    a = unwrap(args[0])
    if a.get('kind') != 'DeclRefExpr':
        raise Unsupported(f'{wp.name}: feasible(<not a named state>)')
    pk = f'feasible::{params[0].get("name", "arg")}'
    saved = (wp.this_prefix, dict(wp.alias), dict(wp.objalias), dict(wp.idmap))
    wp.idmap[params[0].get('id')] = pk
    wp.objalias[pk] = wp.obj_key(a)
    wp.this_prefix = prefix
    wp.feasible_at = wp.obj_key(a)
    try:
        body = [c for c in fn['inner'] if c['kind'] == 'CompoundStmt'][0]
        ret = None
        for s in body.get('inner', []):
            if s.get('kind') == 'NullStmt' or void_literal(s):
                continue
            if ret is not None:
                raise Unsupported(f'{wp.name}: feasible(): statement after the return')
            if s.get('kind') == 'DeclStmt':
                wp.ex(s)
            elif s.get('kind') == 'ReturnStmt':
                ret = wp.conv(wp.ev(s['inner'][0]), 'Bool', 'bool')
            else:
                raise Unsupported(f'{wp.name}: feasible(): statement kind {s.get("kind")}')
        if ret is None:
            raise Unsupported(f'{wp.name}: feasible() without a return')
        return ret
    finally:
        wp.this_prefix, wp.alias, wp.objalias, wp.idmap = saved


def h_epsilon2(wp, node, args, callee):
    """nano::epsilon2<double>(): a fixed tolerance of include/nano/core/numeric.h (roundpow10(sqrt(DBL_EPSILON)) = 1e-8): ONE real constant, nothing
    is assumed about its value (the composed clauses are stated in terms of it)"""
    if '(declare-const epsilon2 Real)' not in wp.decls:
        wp.decls.append('(declare-const epsilon2 Real)')
    return V('epsilon2', 'Real', 'double')


DROP = lambda wp, node, args, obj: V('0', 'Int', 'int')
MEMBERS = [(r'^feasible\|(const )?nano::program::solver_t::program_t', h_feasible), (r'^(info|warn|error)\|(const )?nano::logger_t', DROP)]
CALLS = [(r'^epsilon2\|', h_epsilon2)]


def walk(n, p, m, hasQ, pr):
    path = astload.REPO + '/' + TU
    wp, ctor, P = scaling.walk_ctor(n, p, m, hasQ, pr)
    wp.name = f'converged_means[n={n},p={p}->{pr},m={m},{"QP" if hasQ else "LP"}]'
    wp.members = MEMBERS + list(wp.members)
    wp.calls = CALLS + list(wp.calls)
    q = len(wp.env['self.m_b'].c)
    ufn, kst, (x, u, v) = scaling.run_update(wp, residuals.UPDATE_HEADS[0][1], n, q, m, path)
    # the state done() looks at: its residual fields are the ones update just computed, its point is the x they were computed at
    wp.env[kst + '.m_x'] = AV(x, str(n))
    wp.ver[kst + '.m_x'] = 0
    wp.env[kst + '.m_status'] = wp.const('status0', 'Int', 'int')
    done = astload.find_definition(TU, FLT, 'done')
    keys = [k for k, _ in wp.bind_params(done)]
    if len(keys) != 4:
        raise Unsupported(f'{wp.name}: done() has {len(keys)} parameters')
    kprog, kst2, keps, klog = keys
    wp.objalias[kprog + '#done'] = 'self'
    wp.objalias[kst2 + '#done'] = kst
    params = [c for c in done['inner'] if c['kind'] == 'ParmVarDecl']
    wp.idmap[params[0].get('id')] = kprog + '#done'
    wp.idmap[params[1].get('id')] = kst2 + '#done'
    wp.scalar(keps, 'epsilon')
    nob = len(wp.obligations)
    before = {k: getattr(v_, 't', None) for k, v_ in wp.env.items()}
    rets = []
    wp.post = lambda w, rv: (rets.append(w.guard), [])[1]
    wp.run(done, path)
    if len(rets) != 1:
        raise Unsupported(f'{wp.name}: done(): {len(rets)} return paths')
    changed = sorted(k for k, t in before.items() if k in wp.env and getattr(wp.env[k], 't', None) != t)
    own = wp.obligations[nob:]
    return dict(wp=wp, ctor=ctor, done=done, P=P, kst=kst, x=x, u=u, v=v, q=q, changed=changed, own=own, path=path)


def converged_vcs(n, p, m, hasQ, pr, info):
    W = walk(n, p, m, hasQ, pr)
    wp, P, kst, x, u, v, q, path = (W[k] for k in ('wp', 'P', 'kst', 'x', 'u', 'v', 'q', 'path'))
    done = W['done']
    line = line_of(done)
    info.append(fninfo('converged_means[reals]', 'program_t::program_t + program_t::update + solver_t::done + program_t::feasible (composition)', path, done))
    calls = getattr(wp, 'norm_calls', [])
    props = list(getattr(wp, 'norm_props', []))
    by = {(c['keyA'], c['keyb']): c for c in calls}
    want = [('self.m_Q', 'self.m_c'), ('self.m_A', 'self.m_b'), ('self.m_G', 'self.m_h')]
    g = Vcg(wp, wp.name, hyps=props + ['(> miu 1.0)'], bound=f'n = {n}, p = {p} (reduced to {pr}), m = {m}', path=path)
    out = g.from_wp()
    if len(calls) != 3 or any(k not in by for k in want):
        return out + [g.vc('each of (m_Q, m_c), (m_A, m_b), (m_G, m_h) is normalised exactly once, as a PAIR', [], 'false', line=line), g.canary()]
    dQ, dA, dG = (by[k]['d'] for k in want)
    mufx = wp.env['self.m_mufx'].t
    H = scaling.held(wp)
    Ar, br = scaling.reduced_rows(wp, P, n, p, pr)
    S = lambda f: wp.env[f'{kst}.{f}']
    enum = {nm: val for (ty, nm), val in wp.enums.items() if ty.endswith('solver_status')}
    ok = {'converged', 'unbounded', 'unfeasible'} <= set(enum)
    out.append(g.vc('done() assigns one of converged / unbounded / unfeasible to m_status and nothing else', [],
                    'true' if ok and W['changed'] == [kst + '.m_status'] else 'false', about=f'written: {W["changed"]}; statuses: {sorted(enum)}', line=line))
    if not ok or getattr(wp, 'feasible_at', None) != kst:
        out.append(g.vc('feasible() is evaluated on the state done() decides about', [], 'false', line=line))
        return out + [g.canary()]
    conv = f'(= {S("m_status").t} {enum["converged"]})'
    eps, eps2 = 'epsilon', 'epsilon2'
    if '(declare-const epsilon2 Real)' not in wp.decls:
        wp.decls.append('(declare-const epsilon2 Real)')
    # ---- the decision, against an independent statement of it on the HELD program
    tbh = residuals.textbook(H, x, u, v, n, q, m, hasQ)
    norm2 = lambda ts: f'(nv_sqrt {rsum([f"(* {t} {t})" for t in ts])})'
    feas = conj(([f'(< {norm2(tbh["rprim"])} {eps2})'] if q else []) + [f'(< {t} {eps2})' for t in tbh['Gxh']])
    eta, rdual, rprim = S('m_eta').t, list(S('m_rdual').c), list(S('m_rprim').c)
    dec = conj([feas, f'(< {eta} {eps})', f'(< {norm2(rdual)} {eps})', f'(< {norm2(rprim)} {eps})'])
    # (the compared quantities are generalised to arbitrary reals: the decision does not depend on what they are made of)
    out.append(g.vc('decision: converged <=> feasible(held program, state.m_x) && eta < epsilon && ||rdual||_2 < epsilon && ||rprim||_2 < epsilon '
                    '(feasible() is evaluated on the NORMALISED, REDUCED program)', [], f'(= {conv} {dec})', line=line,
                    abstract=(list(dict.fromkeys(rprim + tbh['rprim'] + tbh['Gxh'] + rdual + [eta])), 'd')))
    # ---- un-scaling lemmas on the extracted terms
    callers = dict(Q=P['Q'], c=P['c'], A=Ar, b=br, G=P['G'], h=P['h'])
    ut = [f'(* (/ {mufx} {dG}) {t})' for t in u]
    vt = [f'(* (/ {mufx} {dA}) {t})' for t in v]
    tbc = residuals.textbook(callers, x, ut, vt, n, q, m, hasQ)
    lem_prim = [f'(= (* {dA} {a}) {b_})' for a, b_ in zip(rprim, tbc['rprim'])]
    lem_feq = [f'(= (* {dA} {a}) {b_})' for a, b_ in zip(tbh['rprim'], tbc['rprim'])]
    lem_ineq = [f'(= (* {dG} {a}) {b_})' for a, b_ in zip(tbh['Gxh'], tbc['Gxh'])]
    lem_dual = [f'(= (* {mufx} {a}) {b_})' for a, b_ in zip(rdual, tbc['rdual'])]
    lem_gap = [f'(= (* {mufx} {eta}) {tbc["eta"]})'] if m else []
    pos = [f'(> {mufx} 0.0)', f'(> {dA} 0.0)', f'(> {dG} 0.0)']
    out.append(g.vc('unscale_factors: the three scaling factors are positive', [], conj(pos), line=line))
    if q:
        out.append(g.vc('unscale_rprim: dA * rprim_i == (A_r x - b_r)_i, and the same for the vector feasible() tests', [], conj(lem_prim + lem_feq), line=line))
    if m:
        out.append(g.vc('unscale_ineq: dG * (G\'x - h\')_i == (Gx - h)_i for the vector feasible() tests', [], conj(lem_ineq), line=line))
        out.append(g.vc('unscale_gap: m_mufx * eta == -u~\'(Gx - h) with u~ = (m_mufx / dG) u', [], conj(lem_gap), line=line))
    out.append(g.vc('unscale_rdual: m_mufx * rdual_k == (Qx + c + G\'u~ + A_r\'v~)_k', [], conj(lem_dual), line=line))
    # ---- the composed clauses: residual terms generalised to arbitrary reals that satisfy the lemmas
    def chain(label, lemmas, absterms, claim, extra=()):
        terms = list(dict.fromkeys(absterms))
        return g.vc(label, [conv] + pos + list(lemmas) + list(extra), claim, line=line, abstract=(terms, 'r'))
    # the chain VCs start from the EXTRACTED decision (`state.m_status == converged` as done() / feasible() compute it), not from its restatement
    if q:
        rows = tbc['rprim']
        out.append(chain('caller_equality_rows: converged ==> |(A_r x - b_r)_i| < epsilon * dA (and < epsilon2 * dA) for every equality row the reduction left',
                         lem_prim + lem_feq, rprim + tbh['rprim'] + rows + rdual + tbh['Gxh'] + [eta],
                         conj([f'(and (< {rabs(t)} (* {eps} {dA})) (< {rabs(t)} (* {eps2} {dA})))' for t in rows])))
        binf = '0.0'
        for t in br:
            binf = rmax(binf, rabs(t))
        tol = f'(* {TOL} (+ 1.0 {binf}))'
        out.append(chain('equality_tolerance: with epsilon * dA <= 1e-6 (1 + ||b_r||_inf): every equality row is violated by at most 1e-6 (1 + ||b_r||_inf)',
                         lem_prim + lem_feq, rprim + tbh['rprim'] + rows + rdual + tbh['Gxh'] + [eta] + [binf],
                         conj([f'(<= {rabs(t)} {tol})' for t in rows]), extra=[f'(<= (* {eps} {dA}) {tol})']))
    if m:
        rows = tbc['Gxh']
        out.append(chain('caller_inequality_rows: converged ==> (Gx - h)_i < epsilon2 * dG for every inequality row the caller stated',
                         lem_ineq, tbh['Gxh'] + rows + rdual + rprim + tbh['rprim'] + [eta], conj([f'(< {t} (* {eps2} {dG}))' for t in rows])))
        hinf = '0.0'
        for t in P['h']:
            hinf = rmax(hinf, rabs(t))
        tol = f'(* {TOL} (+ 1.0 {hinf}))'
        out.append(chain('inequality_tolerance: with epsilon2 * dG <= 1e-6 (1 + ||h||_inf): every inequality row holds within 1e-6 (1 + ||h||_inf)',
                         lem_ineq, tbh['Gxh'] + rows + rdual + rprim + tbh['rprim'] + [eta] + [hinf], conj([f'(<= {t} {tol})' for t in rows]),
                         extra=[f'(<= (* {eps2} {dG}) {tol})']))
        out.append(chain('caller_gap: converged ==> the surrogate duality gap of the caller\'s program, -u~\'(Gx - h), is below epsilon * M (M = m_mufx)',
                         lem_gap, [eta, tbc['eta']] + rdual + rprim + tbh['rprim'] + tbh['Gxh'], f'(< {tbc["eta"]} (* {eps} {mufx}))'))
    out.append(chain('caller_dual_residual: converged ==> every coefficient of the caller\'s dual residual Qx + c + G\'u~ + A_r\'v~ is below epsilon * M in '
                     'absolute value (M = m_mufx = max(1e-3, ||Q||_F, ||c||_2))',
                     lem_dual, rdual + tbc['rdual'] + rprim + tbh['rprim'] + tbh['Gxh'] + [eta],
                     conj([f'(< {rabs(t)} (* {eps} {mufx}))' for t in tbc['rdual']])))
    out.append(g.canary([conv]))
    return out


def jobs(tier, shapes, info):
    out = []
    quick = [(2, 1, 2, True, 1)]
    for (n, p, m) in shapes:
        for hasQ in (True, False):
            for pr in sorted({p, max(1, p - 1)} if p else {0}):
                if tier != 'thorough' and (n, p, m, hasQ, pr) not in quick:
                    continue
                out.append((lambda a=(n, p, m, hasQ, pr): converged_vcs(*a, info), f'converged means {(n, p, m, hasQ, pr)}'))
    return out
