"""C04: the dense linear-algebra walker of specs/C01/linalg.py (LinWP, double as Real, CONCRETE small shapes) with what the interior-point
code of src/program/{solver,state}.cpp needs on top of it:
  * vectors of DIFFERENT concrete lengths in one walk (n variables, p equalities, m inequalities): `vec(key, name, k)`;
  * `matrix.size()` = rows * cols (eig.EigWP knows size() of vectors only), `.lpNorm<2>()` of a matrix = Frobenius norm
    (nv_sqrt of the sum of the squared coefficients), `.lpNorm<Eigen::Infinity>()` of a vector = max_k |a_k|;
  * an `if` whose condition folds to a literal at the concrete shape executes the selected branch only (`if (!m_Q.size())`, `if (m > 0)`):
    the other branch multiplies matrices of shapes that do not exist in that case;
  * `M.array() /= s`, `v.array() /= s` through the whole-object view;  `a.array().max(0.0)` etc. come from eig.EigWP.
Everything walked here is the REAL function body (clang AST of the current working tree); the Eigen operators are the ASSUMED contracts
listed in the docstrings of specs/C06/eig.py and specs/C01/linalg.py plus the three items above."""
import os
import sys

sys.path.insert(0, os.path.join(os.path.dirname(os.path.abspath(__file__)), '..', 'C01'))
sys.path.insert(0, os.path.join(os.path.dirname(os.path.abspath(__file__)), '..', 'C06'))
import nvwp                                                       # noqa: E402
from nvwp import V, AND, NOT, OR, Unsupported                      # noqa: E402
from cxx2c import unwrap, strip_cv, qual                           # noqa: E402
from linalg import LinWP, AV, MV, RV, real_of, rsum                # noqa: E402
from eig import fold, rabs, rmax, type_str, lit_int                # noqa: E402


class ProgWP(LinWP):
    def __init__(self, name, **kw):
        super().__init__(name, 1, **kw)          # concrete mode; the individual shapes are those of the bound inputs
        self.objalias, self.enums = {}, {}

    # ------------------------------------------------------------------------------------------- inputs
    def vec(self, key, name, k):
        self.env[key] = AV([self.leaf(name, i) for i in range(k)], str(k))
        self.ver[key] = 0
        return self.env[key]

    def mat(self, key, name, rows, cols):
        if rows == 0 or cols == 0:
            self.env[key] = MV([[] for _ in range(rows)])
            self.env[key].cols = cols
            self.ver[key] = 0
            return self.env[key]
        return self.input_matrix(key, name, rows, cols)

    def scalar(self, key, name):
        self.env[key] = self.const(name, 'Real', 'double')
        return self.env[key]

    this_prefix = 'self.'

    def obj_key(self, base):
        """env prefix of a named class-typed object: parameters are looked up by declaration id (a renamed parameter keeps its key);
        `objalias` maps the parameter of a function walked in place (or of a second function walked in the same environment) to the
        object it is bound to (`done(program, state, ..)`: program -> self, state -> the state program_t::update filled)"""
        rd = base['referencedDecl']
        nm = self.idmap.get(rd.get('id'), rd.get('name'))
        seen = set()
        while nm in self.objalias and nm not in seen:
            seen.add(nm)
            nm = self.objalias[nm]
        return nm

    def member_name(self, n):
        base = unwrap(n['inner'][0])
        if base.get('kind') == 'CXXThisExpr':
            return self.this_prefix + n['name']          # `this` of a getter walked in place is the object it was called on
        if base.get('kind') == 'DeclRefExpr' and getattr(self, 'objalias', None):
            return self.obj_key(base) + '.' + n['name']
        return super().member_name(n)

    def ev(self, n):
        k = n.get('kind')
        if k == 'DeclRefExpr' and n.get('referencedDecl', {}).get('kind') == 'EnumConstantDecl':
            # an enumerator: enumerators of one enumeration are pairwise distinct integers (listed assumption; the values themselves are not used)
            rd = n['referencedDecl']
            key = (strip_cv(qual(rd.get('type'))), rd['name'])
            if key not in self.enums:
                self.enums[key] = len(self.enums)
            return V(str(self.enums[key]), 'Int', 'int')
        if k == 'BinaryOperator' and n.get('opcode') in ('&&', '||'):
            # `A.rows() == 0 || (A * x - b).lpNorm<2>() < eps`: when the left operand folds to the deciding literal at the concrete shape the
            # right operand is not evaluated (C++ short circuit; it may not even be defined: maxCoeff of an empty vector)
            a = fold(self.conv(self.ev(n['inner'][0]), 'Bool', 'bool').t)
            if (n['opcode'], a) in (('&&', 'false'), ('||', 'true')):
                return V(a, 'Bool', 'bool')
            if a in ('true', 'false'):
                return self.conv(self.ev(n['inner'][1]), 'Bool', 'bool')
        return super().ev(n)

    def read_stored(self, key, v):
        r = super().read_stored(key, v)
        if isinstance(r, MV) and isinstance(v, MV):
            r.cols = v.cols                        # a matrix without rows keeps its number of columns
        return r

    def cw(self, sym, a, b, node):
        if isinstance(b, AV) and isinstance(a, V) and sym in '+-/' and 'ArrayWrapper' in type_str(node):
            r = self.bin_cw(sym, a, b, node)       # scalar +- / array: Eigen broadcasts the scalar (arrays only; the functor was checked)
            return type(b)(r.c, r.n, r.deps)
        if isinstance(a, AV) and isinstance(b, V) and sym in '+-' and 'ArrayWrapper' in type_str(node):
            r = self.bin_cw(sym, a, b, node)
            return type(a)(r.c, r.n, r.deps)
        return super().cw(sym, a, b, node)

    # ------------------------------------------------------------------------------------------- members
    def eigen_member(self, n):
        me = n['inner'][0]
        if me.get('kind') != 'MemberExpr':
            return None
        name, obj, args = me.get('name'), me['inner'][0], n['inner'][1:]
        if name == 'transpose' and not args:
            o = self.ev(obj)
            if isinstance(o, MV) and (o.rows == 0 or o.cols == 0):
                r = MV([[] for _ in range(o.cols)], o.deps)
                r.cols = o.rows
                return r
        if name == 'block' and len(args) == 4:
            blk = self.block_of(n)
            key, r0, c0, nr, nc, _ = blk
            M = self.read_stored(key, self.env[key])
            r = MV([row[c0:c0 + nc] for row in M.m[r0:r0 + nr]], M.deps)
            r.cols = nc
            return r
        if name == 'asDiagonal' and not args:
            o = self.ev(obj)
            if isinstance(o, AV):
                if 'DiagonalWrapper' not in type_str(n):
                    raise Unsupported(f'{self.name}: asDiagonal() whose result type is not Eigen::DiagonalWrapper')
                k = len(o.c)
                return MV([[o.c[i] if i == j else '0.0' for j in range(k)] for i in range(k)], o.deps)
        if name == 'col' and len(args) == 1:
            o = self.ev(obj)
            if isinstance(o, MV):
                k = lit_int(self.ev(args[0]).t)
                inside = k is not None and 0 <= k < o.cols
                self.oblige('matrix column index within bounds', 'true' if inside else 'false', n)
                if not inside:
                    raise Unsupported(f'{self.name}: col({k}) of a {o.rows} x {o.cols} matrix')
                return AV([r[k] for r in o.m], str(o.rows), o.deps)
        if name == 'size' and not args and unwrap(obj).get('kind') != 'CXXThisExpr':
            o = self.ev(obj)
            if isinstance(o, MV):
                return V(str(o.rows * o.cols), 'Int', 'long')
        if name == 'lpNorm' and not args:
            o = self.ev(obj)
            targs = self.member_template_args(me)
            if isinstance(o, MV) and targs == ['2']:
                self.note('Eigen matrix.lpNorm<2>() (Frobenius)')
                return V(f'(nv_sqrt {rsum([f"(* {t} {t})" for r in o.m for t in r])})', 'Real', 'double')
            if isinstance(o, AV) and targs in (['Eigen::Infinity'], ['Infinity']):
                self.note('Eigen .lpNorm<Infinity>()')
                r = '0.0'
                for t in o.c:
                    r = rmax(r, rabs(t))
                return V(r, 'Real', 'double')
        return super().eigen_member(n)

    # ------------------------------------------------------------------------------------------- operators
    def eigen_operator(self, n):
        inner = n['inner']
        op = unwrap(inner[0]).get('referencedDecl', {}).get('name')
        args = inner[1:]
        if op == 'operator=' and len(args) == 2:
            blk = self.block_of(args[0])
            if blk is not None:
                return self.write_block(n, blk, args[1])
            lhs = unwrap(args[0])
            if lhs.get('kind') in ('DeclRefExpr', 'MemberExpr') and type_str(lhs).startswith('nano::tensor_t<nano::tensor_vector_storage_t'):
                # assignment to an OWNING tensor (matrix_t / vector_t) itself, not through a view: the tensor takes the shape of the value
                key = self.lkey(lhs)
                old = self.env.get(key)
                if isinstance(old, (AV, MV)):
                    rhs = self.ev(args[1])
                    if isinstance(old, MV) and isinstance(rhs, MV):
                        new = MV(rhs.m)
                        new.cols = rhs.cols
                    elif isinstance(old, AV) and not isinstance(old, RV) and isinstance(rhs, AV) and not isinstance(rhs, RV):
                        new = AV(rhs.c, str(len(rhs.c)) if self.dim is not None else rhs.n)      # generic coordinate: the symbolic length
                    else:
                        raise Unsupported(f'{self.name}: {type(rhs).__name__} assigned to the {type(old).__name__} {key}')
                    self.env[key] = new
                    self.ver[key] = self.ver.get(key, 0) + 1
                    self.written = getattr(self, 'written', set()) | {key}
                    return new
        if op in ('operator/=', 'operator*=') and len(args) == 2:
            key = self.lkey(args[0])
            if key is not None and isinstance(self.env.get(key), MV):
                s = self.ev(args[1])
                if isinstance(s, (AV, MV)):
                    raise Unsupported(f'{self.name}: matrix {op} non-scalar')
                if not self.whole_array_view(args[0]):
                    raise Unsupported(f'{self.name}: {op} on a matrix that is not written through .array()')
                st = real_of(self, s)
                sym = op[-2]
                if sym == '/':
                    self.oblige('real-model division is defined (divisor non-zero)', f'(not (= {st} 0.0))', n)
                old = self.env[key]
                new = MV([[f'({sym} {x} {st})' for x in r] for r in old.m])
                new.cols = old.cols
                self.env[key] = new
                self.ver[key] = self.ver.get(key, 0) + 1
                self.written = getattr(self, 'written', set()) | {key}
                self.note('Eigen matrix.array() ' + op[8:] + ' scalar')
                return self.env[key]
        return super().eigen_operator(n)

    def is_int(self, node):
        try:
            return self.sort_of(node['type'])[0] == 'Int'
        except Unsupported:
            return False

    def block_of(self, node):
        """(key, r0, c0, rows, cols, through .array()) when `node` is M.block(r0, c0, rows, cols) of a STORED matrix M, possibly seen through
        .array() / .matrix(); None otherwise"""
        u, arr = unwrap(node), False
        while u.get('kind') == 'CXXMemberCallExpr' and u['inner'][0].get('name') in ('array', 'matrix') and len(u['inner']) == 1:
            arr = arr or u['inner'][0]['name'] == 'array'
            u = unwrap(u['inner'][0]['inner'][0])
        if u.get('kind') != 'CXXMemberCallExpr' or u['inner'][0].get('name') != 'block' or len(u['inner']) != 5:
            return None
        key = self.lkey(u['inner'][0]['inner'][0])
        if key is None or not isinstance(self.env.get(key), MV):
            raise Unsupported(f'{self.name}: block() of something that is not a stored matrix')
        dims = [lit_int(self.ev(a).t) for a in u['inner'][1:]]
        if any(d is None for d in dims):
            raise Unsupported(f'{self.name}: block() with symbolic bounds')
        r0, c0, nr, nc = dims
        M = self.env[key]
        inside = 0 <= r0 and 0 <= c0 and 0 <= nr and 0 <= nc and r0 + nr <= M.rows and c0 + nc <= (M.cols if M.rows else c0 + nc)
        self.oblige('block lies inside the matrix', 'true' if inside else 'false', node)
        if not inside:
            raise Unsupported(f'{self.name}: block({r0}, {c0}, {nr}, {nc}) outside a {M.rows} x {M.cols} matrix')
        return key, r0, c0, nr, nc, arr

    def write_block(self, n, blk, rhs_node):
        key, r0, c0, nr, nc, arr = blk
        rhs = self.ev(rhs_node)
        if isinstance(rhs, MV):
            if (rhs.rows, rhs.cols if rhs.rows else nc) != (nr, nc) and nr * nc:
                raise Unsupported(f'{self.name}: a {rhs.rows} x {rhs.cols} matrix assigned to a {nr} x {nc} block')
            vals = rhs.m
        elif isinstance(rhs, V) and arr:
            s = real_of(self, rhs)
            vals = [[s] * nc for _ in range(nr)]
        else:
            raise Unsupported(f'{self.name}: block assignment of {type(rhs).__name__}')
        old = self.env[key]
        new = [list(r) for r in old.m]
        for i in range(nr):
            for j in range(nc):
                new[r0 + i][c0 + j] = vals[i][j]
        self.env[key] = MV(new)
        self.env[key].cols = old.cols
        self.ver[key] = self.ver.get(key, 0) + 1
        self.written = getattr(self, 'written', set()) | {key}
        self.note('Eigen matrix.block(..) = ..')
        return self.env[key]

    def whole_array_view(self, node):
        u = unwrap(node)
        return u.get('kind') == 'CXXMemberCallExpr' and u['inner'][0].get('name') == 'array' and len(u['inner']) == 1

    def decl_hook(self, wp, v, init):
        """`auto Ab = stack(..)` / `vector_t x = ..`: a local that OWNS its coefficients is a stored tensor of its own (a copy of the value)"""
        if init and v['type']['qualType'].rstrip().endswith('&') and not v['type']['qualType'].rstrip().endswith('&&'):
            u = unwrap(init[0])
            if u.get('kind') == 'MemberExpr':                # `const auto& A = m_A;`: another name of the stored member
                try:
                    key = self.member_name(u)
                except Unsupported:
                    key = None
                if key is not None and isinstance(self.env.get(key), (AV, MV)) and key in self.ver:
                    self.alias[v['name']] = key
                    return True
        if init and type_str(v).startswith('nano::tensor_t<nano::tensor_vector_storage_t') and not v['type']['qualType'].rstrip().endswith('&'):
            val = self.ev(init[0])
            if isinstance(val, MV):
                self.env[v['name']] = MV(val.m)
                self.env[v['name']].cols = val.cols
            elif isinstance(val, AV):
                self.env[v['name']] = AV(val.c, val.n)
            else:
                return super().decl_hook(wp, v, init)
            self.ver[v['name']] = 0
            return True
        return super().decl_hook(wp, v, init)

    # ------------------------------------------------------------------------------------------- statements
    def ex(self, n):
        if n.get('kind') == 'IfStmt' and not n.get('hasInit'):
            parts = n['inner']
            c = fold(self.conv(self.ev(parts[0]), 'Bool', 'bool').t)
            if c in ('true', 'false'):
                if c == 'true':
                    self.ex(parts[1])
                elif len(parts) > 2:
                    self.ex(parts[2])
                return
        return super().ex(n)
