"""C04, part 8: the INTERIOR-POINT INVARIANT of solver_t::solve_with_inequality as an inductive loop invariant over the reals (BOUNDED shapes):
        I(state):   G x - h < 0 componentwise   and   u > 0 componentwise        (x = state.m_x, u = state.m_u, (G, h) the held program)
base    the function's own prefix, executed from its entry on an arbitrary program and x0 (parameter reads arbitrary values in their registered
        domains): on the path that reaches the main loop, I holds (x = x0 passed the test max(G x0 - h) < 0, u = -1 / (G x0 - h))
step    ONE iteration of the main loop, executed from an ARBITRARY loop-head state that satisfies I, through the Newton direction, stage 1 and
        stage 2 of the backtracking and the in-place advance, to the end of the body: on every path that reaches the next loop head (fall-through;
        the `break` paths leave the loop) I holds again.  Ingredients, all on the extracted terms:
          * ::make_smax by exactly the clauses proved for it (spec.smax_real_vcs): precondition u > 0 componentwise OBLIGED at the call (it is
            the invariant), result r with 0 < r <= 1 and u_g + r du_g >= 0 for every g
          * the two backtracking loops by loop invariants of their own (checked on entry and preserved): 0 < s <= (s at loop entry), 0 <= iter <= max
          * stage 1 leaves through `break` only where (G (x + s dx) - h).maxCoeff() < 0 was evaluated for the current s (part of the path condition)
          * per row i the lemmas  test_i == a_i + s1 b_i  and  new_i == a_i + s2 b_i  (a = Gx - h, b = G dx: polynomial identities on the extracted
            terms), then with these terms generalised:  a_i < 0, a_i + s1 b_i < 0, 0 < s2 <= s1  ==>  a_i + s2 b_i < 0   (the strictly feasible
            set is convex)
          * u_g + s2 du_g >= 0 from make_smax's clause and 0 < s2 <= s0 r <= r;  > 0 needs s2 < r where du_g < 0: guaranteed by s0 < 1
            (default 0.999; the registered domain admits s0 == 1: then the invariant weakens to u >= 0 -- see `not_decided`)
        program_t::update / solver_state_t::update / done() / program_t::solve are replaced by the frames and clauses proved for them
        (residuals.py, newton.py, compose.py): they do not write x, u, v."""
import re

import astload
import nvwp
from nvwp import V, AND, NOT, OR, IMP, Unsupported, INT_RANGES
from cxx2c import unwrap, strip_cv, qual
from progwp import ProgWP
from linalg import Vcg, AV, MV, t_matvec, conj
from eig import lit_int, type_str, fold, EigWP
import residuals
import newton
from residuals import fninfo, line_of, vsub

TU = residuals.TU
FLT = residuals.FLT


class StepWP(ProgWP):
    """ProgWP + loops by INVARIANT (loops whose bound is symbolic: the backtracking loops), class-typed `return`, havoc of vectors"""

    def __init__(self, name, **kw):
        super().__init__(name, **kw)
        self.loop_invs = []             # invariants for the loops met, in order; a loop without one is unrolled (concrete bound)
        self.rets = []
        self.tests = []                 # maxCoeff / minCoeff evaluations: (name, coefficient terms, value term)
        self.nfresh = 0

    def fresh_like(self, key, old):
        self.nfresh += 1
        if isinstance(old, AV):
            r = AV([self.leaf(f'{key}!{self.nfresh}', k) for k in range(len(old.c))], old.n)
            self.ver[key] = self.ver.get(key, 0) + 1
            return r
        if isinstance(old, MV):
            raise Unsupported(f'{self.name}: havoc of the matrix {key}')
        v = self.fresh(old.s, key, old.c)
        if old.s == 'Int' and old.c in INT_RANGES:
            self.assume(self.in_range(v.t, old.c))
        return v

    def extremum(self, n, name, o, args):
        r = super().extremum(n, name, o, args)
        self.tests.append((name, list(o.c), r.t))
        return r

    def ex(self, n):
        if n.get('kind') == 'ReturnStmt' and not self.inline_rets:
            self.rets.append(self.guard)             # `return state;`: the path leaves the function (the value is the state as it is)
            self.guard = 'false'
            return
        return super().ex(n)

    def loop(self, n):
        if not self.loop_invs:
            return super().loop(n)
        inv = self.loop_invs.pop(0)
        if n['kind'] == 'ForStmt':
            init, condvar, cond, inc, body = n['inner']
        elif n['kind'] == 'WhileStmt':
            init, inc = None, None
            cond, body = n['inner'][0], n['inner'][1]
        else:
            raise Unsupported(f'{self.name}: loop of kind {n["kind"]}')
        if init:
            self.ex(init)
        mod = self.assigned_vars(body) | (self.assigned_vars(inc) if inc else set())
        if '*' in mod:
            raise Unsupported(f'{self.name}: loop assigns through an unknown location')
        self.loop_counter = self.find_counter(cond, mod) if cond else None
        inv.enter(self, mod)
        for label, claim in inv(self):
            self.oblige(f'{inv.tag}: invariant holds on entry: {label}', claim, n)
        for key in sorted(mod | set(inv.havoc(self))):
            if key in self.env:
                self.env[key] = self.fresh_like(key, self.env[key])
        g0, env_head = self.guard, dict(self.env)
        for _, claim in inv(self):
            self.assume(claim)
        c = self.conv(self.ev(cond), 'Bool', 'bool').t if cond else 'true'
        self.guard = AND(g0, c)
        self.loop_exits.append({'breaks': [], 'continues': []})
        try:
            self.ex(body)
        finally:
            exits = self.loop_exits.pop()
        for gc, envc in exits['continues']:
            self.env = self.merge(gc, envc, self.env)
            self.guard = OR(self.guard, gc)
        if inc:
            self.ev(inc)
        for key, v0 in env_head.items():
            v1 = self.env.get(key)
            if v1 is not None and getattr(v1, 't', None) != getattr(v0, 't', None) and key not in mod and key not in inv.havoc(self):
                raise Unsupported(f'{self.name}: {inv.tag}: the loop changes {key}, which is not havocked at the loop head')
        for label, claim in inv(self):
            self.oblige(f'{inv.tag}: invariant preserved: {label}', claim, n)
        self.oblige(f'{inv.tag}: variant decreases and is bounded below', inv.variant(self, env_head), n)
        self.env = env_head
        self.guard = AND(g0, NOT(c))
        for gb, envb in exits['breaks']:
            self.env = self.merge(gb, envb, self.env)
            self.guard = OR(self.guard, gb)


class BacktrackInv:
    """invariant of a backtracking loop `for (iter = 0; iter < max; ++iter) { if (accept(s)) break; else s *= beta; }`:
    0 < s <= (s at entry) and 0 <= iter <= max.  The step variable and the counter are found by their ROLE (the one real scalar the body assigns;
    the integer the condition bounds), so that renamed locals do not matter; `extra` lists state the body's callees write (havocked at the head)."""

    def __init__(self, tag, maxkey, extra=()):
        self.tag, self.maxkey, self.extra = tag, maxkey, list(extra)
        self.step = self.s_entry = self.counter = None

    def enter(self, wp, mod):
        reals = [k for k in sorted(mod) if isinstance(wp.env.get(k), V) and wp.env[k].s == 'Real']
        if len(reals) != 1 or wp.loop_counter is None:
            raise Unsupported(f'{wp.name}: {self.tag}: expected one real step variable and a counter, found {reals} / {wp.loop_counter}')
        self.step, self.counter = reals[0], wp.loop_counter
        self.s_entry = wp.env[self.step].t

    def havoc(self, wp):
        return self.extra

    def __call__(self, wp):
        s, it, mx = wp.env[self.step].t, wp.env[self.counter].t, wp.env[self.maxkey].t
        return [('0 < step <= step at loop entry', f'(and (< 0.0 {s}) (<= {s} {self.s_entry}))'), ('0 <= iter <= max', f'(and (<= 0 {it}) (<= {it} {mx}))')]

    def variant(self, wp, env_head):
        mx = wp.env[self.maxkey].t
        return f'(and (< (- {mx} {wp.env[self.counter].t}) (- {mx} {env_head[self.counter].t})) (>= (- {mx} {env_head[self.counter].t}) 0))'


# ------------------------------------------------------------------------------------------------- callee contracts
def fresh_bool(hint):
    def h(wp, node, args, callee_or_obj):
        return wp.fresh('Bool', hint, 'bool')
    return h


def fresh_real(hint):
    def h(wp, node, args, callee_or_obj):
        return wp.fresh('Real', hint, 'double')
    return h


def h_make_smax(wp, node, args, callee):
    """::make_smax(u, du) by exactly the clauses of spec.smax_real_vcs; its precondition (sizes agree, u > 0 componentwise) is obliged here"""
    u, du = wp.ev(args[0]), wp.ev(args[1])
    if not isinstance(u, AV) or not isinstance(du, AV):
        raise Unsupported(f'{wp.name}: make_smax on something that is not a pair of vectors')
    wp.oblige('precondition of ::make_smax: u.size() == du.size()', 'true' if len(u.c) == len(du.c) else 'false', node)
    wp.oblige('precondition of ::make_smax: u > 0 componentwise (the interior-point invariant)', conj([f'(> {t} 0.0)' for t in u.c]), node)
    if len(u.c) != len(du.c):
        raise Unsupported(f'{wp.name}: make_smax on vectors of different sizes')
    r = wp.fresh('Real', 'smax', 'double')
    wp.assume(f'(and (< 0.0 {r.t}) (<= {r.t} 1.0))')
    for a, b in zip(u.c, du.c):
        wp.assume(f'(>= (+ {a} (* {r.t} {b})) 0.0)')
    wp.smax = (r.t, list(u.c), list(du.c))
    return r


def state_key(wp, node):
    u = unwrap(node)
    if u.get('kind') != 'DeclRefExpr':
        raise Unsupported(f'{wp.name}: a state that is not a named object')
    return wp.obj_key(u)


RESIDUAL_FIELDS = ('m_fx', 'm_eta', 'm_rdual', 'm_rprim', 'm_rcent')


def h_program_update(wp, node, args, obj):
    """program.update(x, u, v, miu, state): FRAME proved in residuals.update_vcs: writes state.(m_fx, m_eta, m_rdual, m_rprim, m_rcent) only.  Their
    new values are arbitrary here (the invariant does not depend on them); the arguments are not evaluated (no side effects: expressions)"""
    st = state_key(wp, args[4])
    for f in RESIDUAL_FIELDS:
        k = f'{st}.{f}'
        wp.env[k] = wp.fresh_like(k, wp.env[k])
    wp.written = getattr(wp, 'written', set()) | {f'{st}.{f}' for f in RESIDUAL_FIELDS}
    return V('0', 'Int', 'int')


def h_state_update(wp, node, args, obj):
    """state.update(Q, c, A, b, G, h): FRAME proved in residuals.kkt_vcs: writes m_kkt only"""
    st = state_key(wp, obj)
    wp.env[f'{st}.m_kkt'] = wp.fresh('Real', 'kkt', 'double')
    return V('0', 'Int', 'int')


def h_done(wp, node, args, callee):
    """solver_t::done(program, state, epsilon, logger): FRAME proved in compose.converged_vcs: writes state.m_status only"""
    st = state_key(wp, args[1])
    wp.env[f'{st}.m_status'] = wp.fresh('Int', 'status', 'int')
    return V('0', 'Int', 'int')


def h_zero(wp, node, args, callee):
    k = lit_int(wp.ev(args[0]).t)
    if k is None or len(args) != 1:
        raise Unsupported(f'{wp.name}: vector_t::zero with a symbolic size')
    return AV(['0.0'] * k, str(k))


DROP = lambda wp, node, args, obj: V('0', 'Int', 'int')
MEMBERS = [(r'^update\|(const )?nano::program::solver_t::program_t', h_program_update), (r'^update\|(const )?nano::program::solver_state_t', h_state_update),
           (r'^residual\|(const )?nano::program::solver_state_t', fresh_real('residual')), (r'^solve\|(const )?nano::program::solver_t::program_t', newton.h_program_solve),
           (r'^info\|(const )?Eigen::LDLT', lambda wp, node, args, obj: wp.fresh('Int', 'ldlt_info', 'int')),     # the factorisation's own status: arbitrary
           (r'^rcond\|', fresh_real('rcond')), (r'^isPositive\|', fresh_bool('positive')), (r'^all_finite\|', fresh_bool('all_finite')),
           (r'^feasible\|(const )?nano::program::solver_t::program_t', fresh_bool('feasible')),
           (r'^(info|warn|error)\|(const )?nano::logger_t', DROP)]
CALLS = [(r'^make_smax\|', h_make_smax), (r'^done\|', h_done), (r'^isfinite\|', fresh_bool('isfinite')), (r'^zero\|', h_zero)]


def param_names(stmts):
    """solver parameter -> name of the local that holds it (`const auto s0 = parameter("solver::s0").value<scalar_t>();`)"""
    out = {}
    for st in stmts:
        if st.get('kind') != 'DeclStmt':
            continue
        for v in st['inner']:
            if v.get('kind') != 'VarDecl':
                continue
            for x in astload.walk(v):
                if x.get('kind') == 'StringLiteral' and str(x.get('value', '')).strip('"').startswith('solver::'):
                    out[str(x['value']).strip('"')[8:]] = v['name']
    return out


def param_domain(wp, names):
    """registered domains (solver.cpp, constructor): listed assumption of the spec"""
    e = lambda k: wp.env[names[k]].t
    hy = []
    if 's0' in names:
        hy.append(f'(and (< 0.0 {e("s0")}) (<= {e("s0")} 1.0))')
    if 'beta' in names:
        hy.append(f'(and (< 0.0 {e("beta")}) (< {e("beta")} 1.0))')
    if 'alpha' in names:
        hy.append(f'(and (< 0.0 {e("alpha")}) (< {e("alpha")} 1.0))')
    if 'miu' in names:
        hy.append(f'(> {e("miu")} 1.0)')
    for k in ('max_iters', 'max_lsearch_iters'):
        if k in names:
            hy.append(f'(and (<= 10 {e(k)}) (<= {e(k)} 1000))')
    return hy


def setup(name, n, p, m, hasQ):
    fn = astload.find_definition(TU, FLT, 'solve_with_inequality')
    wp = StepWP(name)
    wp.members = residuals.PROGRAM_GETTERS + MEMBERS + list(wp.members)
    wp.calls = CALLS + list(wp.calls)
    keys = [k for k, _ in wp.bind_params(fn)]
    kprog = keys[0]
    P = residuals.bind_program(wp, n, p, m, hasQ, prefix=kprog + '.')
    newton.bind_buffers(wp, kprog + '.', P['A'], n, p)
    wp.vec(keys[1], 'x0', n)
    wp.default_file, wp.guard, wp.returns, wp.ret_sort = astload.REPO + '/' + TU, 'true', 0, None
    wp.tu = astload.REPO + '/' + TU
    body = [c for c in fn['inner'] if c['kind'] == 'CompoundStmt'][0]['inner']
    loops = [i for i, s in enumerate(body) if s.get('kind') in ('ForStmt', 'WhileStmt')]
    if len(loops) != 1:
        raise Unsupported(f'{wp.name}: expected exactly one top-level main loop, found {len(loops)}')
    return wp, fn, kprog, keys[1], P, body, loops[0]


def bind_state_extras(wp):
    st = wp.state_name
    wp.env[f'{st}.m_iters'] = wp.const(f'|{st}.m_iters0|', 'Int', 'long')
    wp.env[f'{st}.m_status'] = wp.const(f'|{st}.m_status0|', 'Int', 'int')
    wp.env[f'{st}.m_ldlt_positive'] = wp.const(f'|{st}.m_ldlt_positive0|', 'Bool', 'bool')


def interior(wp, P, st):
    x, u = list(wp.env[f'{st}.m_x'].c), list(wp.env[f'{st}.m_u'].c)
    rows = vsub(t_matvec(P['G'], x), P['h'])
    return rows, u


def base_vcs(n, p, m, hasQ, info):
    path = astload.REPO + '/' + TU
    wp, fn, kprog, kx0, P, body, li = setup(f'interior_base[n={n},p={p},m={m},{"QP" if hasQ else "LP"}]', n, p, m, hasQ)
    names = param_names(body[:li])
    for st in body[:li]:
        if st.get('kind') == 'DeclStmt':
            newton.bind_prefix(wp, [st], kprog)
            if getattr(wp, 'state_name', None) and f'{wp.state_name}.m_iters' not in wp.env:
                bind_state_extras(wp)
        else:
            wp.ex(st)
    st = getattr(wp, 'state_name', None)
    if st is None:
        raise Unsupported(f'{wp.name}: no solver_state_t local in the prefix')
    info.append(fninfo('interior_base[reals]', 'nano::program::solver_t::solve_with_inequality (prefix, up to the main loop)', path, fn))
    line = line_of(body[li])
    g = Vcg(wp, wp.name, hyps=param_domain(wp, names), bound=f'n = {n}, p = {p}, m = {m}', path=path)
    out = g.from_wp()
    rows, u = interior(wp, P, st)
    x0rows = vsub(t_matvec(P['G'], list(wp.env[kx0].c)), P['h'])
    hy = list(wp.facts) + [wp.guard]
    out.append(g.vc('interior_base: G x - h < 0 componentwise when the main loop is entered (x is the x0 that passed the strict test)', hy,
                    conj([f'(< {t} 0.0)' for t in rows]), line=line, abstract=(list(dict.fromkeys(x0rows)), 'a')))
    out.append(g.vc('interior_base: u > 0 componentwise when the main loop is entered (u = -1 / (G x0 - h))', hy,
                    conj([f'(> {t} 0.0)' for t in u]), line=line, abstract=(list(dict.fromkeys(x0rows)), 'a')))
    out.append(g.vc('interior_base: a starting point that fails the strict test leaves before the loop, with x == x0', [],
                    'true' if len(wp.rets) == 1 and wp.guard != 'false' else 'false', about=f'{len(wp.rets)} early return(s)', line=line))
    out.append(g.canary(hy))
    return out


def step_vcs(n, p, m, hasQ, info):
    path = astload.REPO + '/' + TU
    wp, fn, kprog, kx0, P, body, li = setup(f'interior_step[n={n},p={p},m={m},{"QP" if hasQ else "LP"}]', n, p, m, hasQ)
    names = param_names(body[:li])
    newton.bind_prefix(wp, body[:li], kprog)
    st = getattr(wp, 'state_name', None)
    if st is None or 'max_lsearch_iters' not in names or 's0' not in names:
        raise Unsupported(f'{wp.name}: the prefix does not declare the state / the parameters s0, max_lsearch_iters')
    bind_state_extras(wp)
    loop = body[li]
    lbody = loop['inner'][-1]
    # ---- the loop-head state is arbitrary, and satisfies I
    rows0, u0 = interior(wp, P, st)
    head = [f'(< {t} 0.0)' for t in rows0] + [f'(> {t} 0.0)' for t in u0]
    for f in head:
        wp.assume(f)
    x_head = list(wp.env[f'{st}.m_x'].c)
    fields = [f'{st}.{f}' for f in RESIDUAL_FIELDS]
    wp.loop_invs = [BacktrackInv('stage1', names['max_lsearch_iters']), BacktrackInv('stage2', names['max_lsearch_iters'], extra=fields)]
    wp.written = set()
    wp.loop_exits.append({'breaks': [], 'continues': []})
    wp.ex(lbody)
    exits = wp.loop_exits.pop()
    for gc, envc in exits['continues']:
        wp.env = wp.merge(gc, envc, wp.env)
        wp.guard = OR(wp.guard, gc)
    info.append(fninfo('interior_step[reals]', 'nano::program::solver_t::solve_with_inequality (one iteration of the main loop)', path, fn))
    line = line_of(loop)
    dom = param_domain(wp, names)
    g = Vcg(wp, wp.name, hyps=dom, bound=f'n = {n}, p = {p}, m = {m}', path=path)
    # the walk's own obligations (divisions defined, make_smax precondition, the two backtracking invariants): residual terms generalised
    dirs = [nm for nm, v in wp.env.items() if isinstance(v, AV) and '.' not in nm and nm in wp.ver and nm != kx0]
    out = g.from_wp()
    out.append(g.vc('interior_step: both backtracking loops were met and given an invariant; the path to the next loop head exists', [],
                    'true' if not wp.loop_invs and wp.guard != 'false' else 'false', line=line))
    if wp.loop_invs or wp.guard == 'false' or getattr(wp, 'smax', None) is None:
        return out + [g.canary(list(wp.facts))]
    # ---- the next loop head
    rows1, u1 = interior(wp, P, st)
    x1 = list(wp.env[f'{st}.m_x'].c)
    hy = list(wp.facts) + [wp.guard]
    strict = [t for nm, cs, t in wp.tests if nm == 'maxCoeff' and len(cs) == m]
    if not strict:
        out.append(g.vc('interior_step: a strict-feasibility test (maxCoeff over the m inequality rows) guards the advance', [], 'false', line=line))
        return out + [g.canary(hy)]
    test_rows = [cs for nm, cs, t in wp.tests if nm == 'maxCoeff' and len(cs) == m][-1]
    # which step the test saw, which step the advance used: read off the terms (x + s * dx coefficient 0)
    s1, s2 = wp.stage_steps if getattr(wp, 'stage_steps', None) else (None, None)
    dxs = [k for k in dirs if len(wp.env[k].c) == n]
    lem_t, lem_n, bterms = [], [], []
    # b = G dx with dx read off the advance itself: x1_k == x_k + s2 * dx_k
    m_ = re.fullmatch(r'\(\+ (.+) \(\* (\|[^|]+\|) (.+)\)\)', x1[0]) if x1 else None
    if m_ is None or not x1[0].startswith(f'(+ {x_head[0]} '):
        out.append(g.vc('interior_step: the iterate is advanced in place as x + s * dx', [], 'false', about=x1[0][:200] if x1 else '', line=line))
        return out + [g.canary(hy)]
    s2 = m_.group(2)
    dx = []
    for k in range(n):
        mk = re.fullmatch(r'\(\+ ' + re.escape(x_head[k]) + r' \(\* ' + re.escape(s2) + r' (.+)\)\)', x1[k])
        if mk is None:
            out.append(g.vc('interior_step: the iterate is advanced in place as x + s * dx with ONE step for every coordinate', [], 'false', line=line))
            return out + [g.canary(hy)]
        dx.append(mk.group(1))
    b = t_matvec(P['G'], dx)
    # the step the strict test saw: the one symbol s1 with test_i == a_i + s1 * b_i (found among the havocked step constants)
    cands = sorted(set(re.findall(r'\|[A-Za-z_0-9]+![0-9]+\|', ' '.join(test_rows))))
    cands = [c for c in cands if f'(declare-const {c} Real)' in wp.decls]
    out.append(g.vc('interior_step: the strict-feasibility test is evaluated at x + s1 * dx for one step s1', [], 'true' if len(cands) == 1 else 'false',
                    about=f'step symbols in the test: {cands}', line=line))
    if len(cands) != 1:
        return out + [g.canary(hy)]
    s1 = cands[0]
    lem_t = [f'(= {t} (+ {a} (* {s1} {bi})))' for t, a, bi in zip(test_rows, rows0, b)]
    lem_n = [f'(= {t} (+ {a} (* {s2} {bi})))' for t, a, bi in zip(rows1, rows0, b)]
    out.append(g.vc('interior_lemma_test: per row (G (x + s1 dx) - h)_i == (G x - h)_i + s1 (G dx)_i on the extracted test', [], conj(lem_t), line=line))
    out.append(g.vc('interior_lemma_next: per row (G x+ - h)_i == (G x - h)_i + s2 (G dx)_i on the extracted advance', [], conj(lem_n), line=line))
    ab = list(dict.fromkeys(test_rows + rows1 + rows0 + b))
    out.append(g.vc('interior_step: G x - h < 0 componentwise at the next loop head (stage 1 tested a step s1 >= the step s2 finally taken; the strictly '
                    'feasible set is convex)', hy + lem_t + lem_n, conj([f'(< {t} 0.0)' for t in rows1]), line=line, abstract=(ab, 'row'), timeout=60))
    r, us, dus = wp.smax
    abu = list(dict.fromkeys(dus + rows0 + test_rows))
    out.append(g.vc('interior_step: u >= 0 componentwise at the next loop head (make_smax bounds the step, the backtracking only shrinks it)', hy,
                    conj([f'(>= {t} 0.0)' for t in u1]), line=line, abstract=(abu, 'du'), timeout=60))
    s0 = wp.env[names['s0']].t
    out.append(g.vc('interior_step: u > 0 componentwise at the next loop head when s0 < 1 (the default is 0.999; at the admitted boundary value s0 == 1 '
                    'a multiplier can reach 0 exactly)', hy + [f'(< {s0} 1.0)'], conj([f'(> {t} 0.0)' for t in u1]), line=line, abstract=(abu, 'du'), timeout=60))
    out.append(g.canary(hy))
    return out


def jobs(tier, shapes, info):
    out = []
    quick = [(2, 1, 2, True)]
    for (n, p, m) in shapes:
        if not m:
            continue
        for hasQ in (True, False):
            if tier != 'thorough' and (n, p, m, hasQ) not in quick:
                continue
            out.append((lambda a=(n, p, m, hasQ): base_vcs(*a, info), f'interior-point invariant, base {(n, p, m, hasQ)}'))
            out.append((lambda a=(n, p, m, hasQ): step_vcs(*a, info), f'interior-point invariant, step {(n, p, m, hasQ)}'))
    return out
