"""C04, part 5: the SEARCH DIRECTION of the primal-dual interior-point iteration is the Newton step of the residual map, over the reals, at small
concrete shapes (BOUNDED stand-ins).

program_t::solve<hessvar, rdual, rprim>   (every instantiation the translation unit holds) walked on a symbolic n x n `hessvar`, n-vector `rdual`,
    p-vector `rprim`, with m_lmat as the constructor leaves it (off-diagonal blocks m_A', m_A, lower-right block 0: obligation `KKT matrix buffer` of
    scaling.py) and Eigen::LDLT by its ASSUMED contract (compute(M) followed by solve(r) returns s with M s == r; what it returns when M is singular
    or ill-conditioned is numeric and not decided):
      KKT matrix   the matrix factorised is [[Q - hessvar, A'], [A, 0]]  (-hessvar without a Q)
      right side   the right-hand side is (-rdual, -rprim)
      result       m_lsol (and the returned reference) is the solution; the off-diagonal blocks of m_lmat are left as they were (invariant)
one iteration of solver_t::solve_with_inequality, from an ARBITRARY loop-head state (x, u, v, rdual, rcent, rprim) with Gx - h < 0, up to the point
    where (dx, dv, du) are assigned; program_t::solve replaced by exactly the three clauses above.  With f = Gx - h:
      Newton   Q dx + G'du + A'dv == -rdual,   -diag(u) G dx - diag(f) du == -rcent,   A dx == -rprim
    i.e. (dx, du, dv) solves the linearisation r_t(y) + Dr_t(y) dy == 0 of Boyd & Vandenberghe (11.54) for the residuals program_t::update defines
    (residuals.py): the elimination of du (hessvar = G' diag(u / f) G, right-hand side rdual + G'(rcent / f)) and its back-substitution are right.
The locals of the function's prefix (G, h, n, p, m, the parameters, state, dx, du, dv) are bound by READING their declarations (a reference to a
member of `program` is that member, `program.n()` is walked, a parameter value is an arbitrary number, `state` an arbitrary state)."""
import astload
from nvwp import V, Unsupported
from cxx2c import unwrap, strip_cv, qual
from progwp import ProgWP
from linalg import Vcg, AV, MV, t_dot, t_matvec, t_transpose, conj, eqs, rsum
from eig import lit_int
import residuals
from residuals import fninfo, line_of, vsub, vadd

TU = residuals.TU
FLT = residuals.FLT


def kkt_matrix(Q, H, A, n, p):
    top = [[(f'(- {Q[i][j]} {H[i][j]})' if Q else f'(- {H[i][j]})') for j in range(n)] + [A[k][i] for k in range(p)] for i in range(n)]
    bot = [[A[k][j] for j in range(n)] + ['0.0'] * p for k in range(p)]
    return top + bot


def bind_buffers(wp, prefix, A, n, p):
    """m_lmat as the constructor leaves it; m_lvec, m_lsol arbitrary"""
    L = [[wp.leaf(f'L_{i}_{j}', 'e') for j in range(n)] + [A[k][i] for k in range(p)] for i in range(n)]
    L += [[A[k][j] for j in range(n)] + ['0.0'] * p for k in range(p)]
    wp.env[prefix + 'm_lmat'] = MV(L)
    wp.ver[prefix + 'm_lmat'] = 0
    wp.vec(prefix + 'm_lvec', 'lvec0', n + p)
    wp.vec(prefix + 'm_lsol', 'lsol0', n + p)
    return L


# ------------------------------------------------------------------------------------------------- Eigen::LDLT, assumed contract
def h_ldlt_compute(wp, node, args, obj):
    M = wp.ev(args[0])
    if not isinstance(M, MV) or M.rows != M.cols:
        raise Unsupported(f'{wp.name}: LDLT::compute of something that is not a square matrix')
    wp.ldlt_matrix = [list(r) for r in M.m]
    return V('0', 'Int', 'int')


def h_ldlt_solve(wp, node, args, obj):
    r = wp.ev(args[0])
    M = getattr(wp, 'ldlt_matrix', None)
    if not isinstance(r, AV):
        raise Unsupported(f'{wp.name}: LDLT::solve of something that is not a vector')
    wp.oblige('LDLT::solve after LDLT::compute, with a right-hand side of the order of the matrix', 'true' if M is not None and len(r.c) == len(M) else 'false', node)
    wp.nsolve = getattr(wp, 'nsolve', 0) + 1
    s = [wp.leaf(f'ldlt_solution#{wp.nsolve}', k) for k in range(len(r.c))]
    wp.ldlt_solves = getattr(wp, 'ldlt_solves', []) + [(M, list(r.c), s)]
    return AV(s, str(len(s)))


LDLT = [(r'^compute\|(const )?Eigen::LDLT<', h_ldlt_compute), (r'^solve\|(const )?Eigen::(SolverBase<Eigen::)?LDLT<', h_ldlt_solve)]


# ------------------------------------------------------------------------------------------------- program_t::solve
def solve_instances():
    docs = astload.dump(TU, FLT)
    out = [d for d in astload.find_definitions(docs, 'solve') if astload.template_args(d) and len(astload.param_types(d)) == 3]
    uniq = {tuple(astload.template_args(d)): d for d in out}
    if not uniq:
        raise astload.ExtractionError('no instantiation of program_t::solve in ' + TU)
    return list(uniq.values())


def solve_vcs(k, fn, n, p, hasQ, info):
    path = astload.REPO + '/' + TU
    wp = ProgWP(f'program_solve#{k}[n={n},p={p},{"QP" if hasQ else "LP"}]')
    wp.members = residuals.PROGRAM_GETTERS + LDLT + list(wp.members)
    keys = [kk for kk, _ in wp.bind_params(fn)]
    P = residuals.bind_program(wp, n, p, 0, hasQ)
    L0 = bind_buffers(wp, 'self.', P['A'], n, p)
    H = [list(r) for r in wp.mat(keys[0], 'H', n, n).m]
    rd, rp = list(wp.vec(keys[1], 'rd', n).c), list(wp.vec(keys[2], 'rp', p).c)
    rets = []
    wp.post = lambda w, rv: (rets.append((w.guard, rv)), [])[1]
    wp.run(fn, path)
    if len(rets) != 1 or rets[0][0] != 'true' or not isinstance(rets[0][1], AV):
        raise Unsupported(f'{wp.name}: does not end in a single return of a vector')
    info.append(fninfo('program_solve[reals]', 'nano::program::solver_t::program_t::solve<..>', path, fn))
    line = line_of(fn)
    g = Vcg(wp, wp.name, bound=f'n = {n}, p = {p}', path=path)
    out = g.from_wp()
    solves = getattr(wp, 'ldlt_solves', [])
    out.append(g.vc('exactly one LDLT solve', [], 'true' if len(solves) == 1 else 'false', line=line))
    if len(solves) == 1:
        M, r, s = solves[0]
        K = kkt_matrix(P['Q'] if hasQ else None, H, P['A'], n, p)
        flat = lambda X: [t for row in X for t in row]
        out.append(g.vc('KKT matrix: the matrix factorised is [[Q - hessvar, A\'], [A, 0]]', [],
                        eqs(flat(M), flat(K)) if M is not None and len(M) == len(K) else 'false', line=line))
        out.append(g.vc('right side: the right-hand side is (-rdual, -rprim)', [], eqs(r, [f'(- {t})' for t in rd + rp]), line=line))
        out.append(g.vc('result: m_lsol, and the vector returned, is the LDLT solution', [], conj([eqs(wp.env['self.m_lsol'].c, s), eqs(rets[0][1].c, s)]), line=line))
        L1 = wp.env['self.m_lmat'].m
        keep = [f'(= {L1[i][j]} {L0[i][j]})' for i in range(n + p) for j in range(n + p) if i >= n or j >= n]
        out.append(g.vc('invariant: the off-diagonal and lower-right blocks of m_lmat are left as the constructor set them', [], conj(keep), line=line))
    out.append(g.canary())
    return out


# ------------------------------------------------------------------------------------------------- one iteration of solve_with_inequality
def h_program_solve(wp, node, args, obj):
    """program.solve(hessvar, rdual, rprim) by the clauses of solve_vcs: m_lsol := s with [[Q - hessvar, A'], [A, 0]] s == (-rdual, -rprim)"""
    pk = wp.lkey(obj)
    if pk is None:
        raise Unsupported(f'{wp.name}: solve on something that is not the program')
    pre = pk + '.'
    Hm, rd, rp = wp.ev(args[0]), wp.ev(args[1]), wp.ev(args[2])
    A, Q = wp.env[pre + 'm_A'], wp.env[pre + 'm_Q']
    n, p = len(wp.env[pre + 'm_c'].c), A.rows
    if not (isinstance(Hm, MV) and (Hm.rows, Hm.cols) == (n, n) and isinstance(rd, AV) and len(rd.c) == n and isinstance(rp, AV) and len(rp.c) == p):
        raise Unsupported(f'{wp.name}: program.solve with operands of the wrong shapes')
    K = kkt_matrix(Q.m if Q.rows else None, Hm.m, A.m, n, p)
    wp.nsolve = getattr(wp, 'nsolve', 0) + 1
    s = [wp.leaf(f'kkt_solution#{wp.nsolve}', k) for k in range(n + p)]
    wp.kkt_facts = getattr(wp, 'kkt_facts', []) + [eqs(t_matvec(K, s), [f'(- {t})' for t in list(rd.c) + list(rp.c)])]
    for key, val in ((pre + 'm_lsol', AV(s, str(n + p))), (pre + 'm_lvec', AV([f'(- {t})' for t in list(rd.c) + list(rp.c)], str(n + p))), (pre + 'm_lmat', MV(K))):
        wp.env[key] = val
        wp.ver[key] = wp.ver.get(key, 0) + 1
    return wp.read_stored(pre + 'm_lsol', wp.env[pre + 'm_lsol'])


def bind_prefix(wp, stmts, kprog):
    """the locals the loop body reads, from their own declarations"""
    for st in stmts:
        if st.get('kind') != 'DeclStmt':
            continue                                  # assignments / the starting-point test: the loop-head state is arbitrary anyway
        for v in st['inner']:
            if v.get('kind') != 'VarDecl':
                continue
            init = [x for x in v.get('inner', []) if x.get('kind') != 'FullComment']
            t = strip_cv(qual(v.get('type')))
            nm = v['name']
            u = unwrap(init[0]) if init else None
            while u is not None and u.get('kind') in ('ExprWithCleanups', 'MaterializeTemporaryExpr', 'CXXBindTemporaryExpr', 'CXXFunctionalCastExpr') and u.get('inner'):
                u = unwrap(u['inner'][0])
            if u is None:
                raise Unsupported(f'{wp.name}: local {nm} without initialiser')
            if u.get('kind') == 'MemberExpr' and unwrap(u['inner'][0]).get('kind') == 'DeclRefExpr' and wp.member_name(u) in wp.env:
                key = wp.member_name(u)
                if v['type']['qualType'].rstrip().endswith('&'):
                    wp.alias[nm] = key
                else:
                    wp.env[nm] = wp.env[key]
            elif u.get('kind') == 'CXXMemberCallExpr' and u['inner'][0].get('name') in ('n', 'p', 'm'):
                wp.env[nm] = wp.ev(u)
            elif u.get('kind') == 'CXXMemberCallExpr' and u['inner'][0].get('name') == 'value':
                s_, c_ = wp.sort_of(v['type'])
                wp.env[nm] = wp.const(f'|param_{nm}|', s_, c_)
                if s_ == 'Int':
                    wp.assume(wp.in_range(wp.env[nm].t, c_))
            elif t.endswith('solver_state_t'):
                n, m, p = (len(wp.env[kprog + '.m_c'].c), wp.env[kprog + '.m_G'].rows, wp.env[kprog + '.m_A'].rows)
                wp.state = residuals.bind_state(wp, n, p, m, prefix=nm + '.')
                for f in ('m_fx', 'm_eta', 'm_kkt', 'm_ldlt_rcond'):
                    wp.scalar(f'{nm}.{f}', f'state_{f}')
                wp.state_name = nm
            elif 'tensor_vector_storage_t, double, 1>' in t and u.get('kind') in ('CXXConstructExpr', 'CXXTemporaryObjectExpr') and len(u.get('inner', [])) == 1:
                k = lit_int(wp.ev(u['inner'][0]).t)
                if k is None:
                    raise Unsupported(f'{wp.name}: vector {nm} of symbolic size')
                wp.vec(nm, nm + '0', k)
            else:
                raise Unsupported(f'{wp.name}: local {nm} of type {t[:60]} is not one of the shapes the prefix reader knows')


def iteration_vcs(n, p, m, hasQ, info):
    path = astload.REPO + '/' + TU
    fn = astload.find_definition(TU, FLT, 'solve_with_inequality')
    wp = ProgWP(f'newton_step[n={n},p={p},m={m},{"QP" if hasQ else "LP"}]')
    wp.members = residuals.PROGRAM_GETTERS + [(r'^solve\|(const )?nano::program::solver_t::program_t', h_program_solve)] + list(wp.members)
    keys = [k for k, _ in wp.bind_params(fn)]
    kprog = keys[0]
    P = residuals.bind_program(wp, n, p, m, hasQ, prefix=kprog + '.')
    bind_buffers(wp, kprog + '.', P['A'], n, p)
    wp.vec(keys[1], 'x0', n)
    wp.default_file, wp.guard, wp.returns, wp.ret_sort = path, 'true', 0, None
    body = [c for c in fn['inner'] if c['kind'] == 'CompoundStmt'][0]['inner']
    loops = [i for i, s in enumerate(body) if s.get('kind') == 'ForStmt']
    if not loops:
        raise Unsupported(f'{wp.name}: no main loop')
    bind_prefix(wp, body[:loops[0]], kprog)
    st = getattr(wp, 'state_name', None)
    if st is None:
        raise Unsupported(f'{wp.name}: no solver_state_t local in the prefix')
    S = wp.state
    lbody = body[loops[0]]['inner'][-1]
    if lbody.get('kind') != 'CompoundStmt':
        raise Unsupported(f'{wp.name}: loop body is not a block')
    dirs = [nm for nm, v in wp.env.items() if isinstance(v, AV) and '.' not in nm and nm in wp.ver and nm != keys[1]]
    if len(dirs) != 3:
        raise Unsupported(f'{wp.name}: expected three direction vectors in the prefix, found {dirs}')
    wp.written = set()
    for s_ in lbody['inner']:
        wp.ex(s_)
        if wp.guard == 'false':
            raise Unsupported(f'{wp.name}: the iteration ends before the directions are assigned')
        if all(d in wp.written for d in dirs):
            break
    else:
        raise Unsupported(f'{wp.name}: the loop body never assigns all of {dirs}')
    # which is which: by length is ambiguous, so by the declaration order dx, du, dv of sizes n, m, p read from the prefix
    sized = {len(wp.env[d].c): d for d in dirs}
    info.append(fninfo('newton_step[reals]', 'nano::program::solver_t::solve_with_inequality (one iteration, up to the search direction)', path, fn))
    line = line_of(body[loops[0]])
    f = vsub(t_matvec(P['G'], S['x']), P['h'])
    hy = getattr(wp, 'kkt_facts', []) + [f'(< {t} 0.0)' for t in f]
    g = Vcg(wp, wp.name, hyps=hy, bound=f'n = {n}, p = {p}, m = {m}', path=path)
    out = g.from_wp()
    out.append(g.vc('exactly one KKT solve per iteration', [], 'true' if getattr(wp, 'nsolve', 0) == 1 else 'false', line=line))
    # identify dx / du / dv by their declared sizes n / m / p when these differ, else by declaration order (dx, du, dv in the source)
    order = dirs
    want = [n, m, p]
    if [len(wp.env[d].c) for d in order] != want:
        raise Unsupported(f'{wp.name}: direction vectors {order} do not have sizes (n, m, p) in declaration order')
    dx, du, dv = (list(wp.env[d].c) for d in order)
    Qdx = t_matvec(P['Q'], dx) if hasQ else None
    parts = ([Qdx] if hasQ else []) + [t_matvec(t_transpose(P['G']), du)] + ([t_matvec(t_transpose(P['A']), dv)] if p else [])
    out.append(g.vc('Newton, dual block: Q dx + G\'du + A\'dv == -rdual', [], eqs(vadd(*parts), [f'(- {t})' for t in S['rdual']]), line=line, timeout=60))
    Gdx = t_matvec(P['G'], dx)
    out.append(g.vc('Newton, centrality block: -diag(u) G dx - diag(Gx - h) du == -rcent', [],
                    eqs([f'(- (- (* {ui} {gi})) (* {fi} {di}))' for ui, gi, fi, di in zip(S['u'], Gdx, f, du)], [f'(- {t})' for t in S['rcent']]), line=line, timeout=60))
    if p:
        out.append(g.vc('Newton, primal block: A dx == -rprim', [], eqs(t_matvec(P['A'], dx), [f'(- {t})' for t in S['rprim']]), line=line, timeout=60))
    frame = [k for k in wp.written if k.startswith(st + '.')]
    out.append(g.vc('the iterate (x, u, v) and its residuals are not touched before the direction is known', [], 'true' if not frame else 'false',
                    about=f'written: {sorted(frame)}', line=line))
    out.append(g.canary())
    return out


def jobs(tier, shapes, info):
    out = []
    np_ = sorted({(n, p) for n, p, _ in shapes})
    for k, fn in enumerate(solve_instances()):
        for (n, p) in np_:
            for hasQ in (True, False):
                out.append((lambda a=(k, fn, n, p, hasQ): solve_vcs(*a, info), f'program_t::solve#{k} {(n, p, hasQ)}'))
    for (n, p, m) in shapes:
        if m:
            for hasQ in (True, False):
                out.append((lambda a=(n, p, m, hasQ): iteration_vcs(*a, info), f'newton step {(n, p, m, hasQ)}'))
    return out
