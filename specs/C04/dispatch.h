/* C04, part 4: the DISPATCH protocol of solver_t::solve (src/program/solver.cpp), numerics opaque (value identities of program.h).
 *
 * Under contract: the four overloads solver_t::solve(linear_program_t | quadratic_program_t [, x0], logger), the two delegating
 * constructors program_t(const linear_program_t&) / program_t(const quadratic_program_t&), both instantiations of ::make_x0 and
 * constraint_t<matrix_t, vector_t>::valid.  The six-argument constructor is its contract (target program_ctor: reduce() on the
 * equality pair, then the three normalisations); solve_with_inequality / solve_without_inequality are stubs that record WHICH program
 * and WHICH starting point they were handed and return an arbitrary state (their own contracts are the targets of program.h).
 *
 * Decided: the inequality block alone selects the routine (valid() <=> solve_with_inequality); the routine runs exactly once, on the
 * program built from the CALLER's blocks in the right roles (objective (Q | none, c), equalities (m_eq.m_A, m_eq.m_b) through reduce(),
 * inequalities (m_ineq.m_A, m_ineq.m_b)), each pair normalised as in NV_CONTRACT_program_ctor; the x0 overloads pass the caller's x0,
 * the others ::make_x0(program) (= make_strictly_feasible() when it yields a point, else the zero vector of c.size()); the state
 * returned to the caller is the state that routine returned. */
#ifndef NV_C04_DISPATCH_H
#define NV_C04_DISPATCH_H
#include "program.h"

/* equality_t / inequality_t <matrix_t, vector_t> (include/nano/program/constraint.h): the pair (m_A, m_b) */
struct nv_constr { struct nv_val m_A, m_b; };
/* linear_program_t / quadratic_program_t: the members of the base linear_constrained_t, then their own */
struct nv_lprog { struct nv_constr m_eq, m_ineq; struct nv_val m_c; };
struct nv_qprog { struct nv_constr m_eq, m_ineq; struct nv_val m_Q, m_c; };
/* std::optional<vector_t> */
struct nv_optvec { _Bool has; struct nv_val v; };
static _Bool nv_opt_has(const struct nv_optvec* o) { return o->has; }

/* constraint_t::valid(): (m_A.size() > 0 && m_b.size() > 0) && m_A.rows() == m_b.size() */
#define NV_VALID(c) ((NV_SIZE((c).m_A.ver) > 0 && NV_ROWS((c).m_b.ver) > 0) && NV_ROWS((c).m_A.ver) == NV_ROWS((c).m_b.ver))
#define NV_CONTRACT_constraint_valid \
__CPROVER_requires(NV_FRESH(self)) \
__CPROVER_assigns() \
__CPROVER_ensures(__CPROVER_return_value == NV_VALID(*self))

/* matrix_t{}: THE empty matrix (no coefficients) */
uint64_t __CPROVER_uninterpreted_e_nomatrix(int64_t);
#define NV_NOMATRIX __CPROVER_uninterpreted_e_nomatrix(0)
static struct nv_val nv_e_nomatrix(void) { return nv_opaque(NV_NOMATRIX); }
#define NV_ZEROVEC(n) __CPROVER_uninterpreted_e_zero(n)

/* linear_constrained_t::make_strictly_feasible() (src/program/constrained.cpp; LDLT trials): any optional point */
uint64_t nv_w_msf; _Bool nv_w_msf_has; int32_t nv_n_msf;
static struct nv_optvec nv_make_strictly_feasible(void)
{
  struct nv_optvec r; r.has = nv_nondet__Bool(); r.v = nv_fresh(); nv_w_msf = r.v.ver; nv_w_msf_has = r.has;
  if (nv_n_msf < 1000) nv_n_msf = nv_n_msf + 1;
  return r;
}

/* ------------------------------------------------------------------ ghost record of the dispatch */
struct nv_dispatch_t
{
  int32_t n_swi, n_swo;                       /* how often each routine ran */
  struct nv_val Q, c, A, b, G, h; double mufx; /* the program it was handed */
  uint64_t x0;                                /* the starting point it was handed (solve_with_inequality) */
  struct nv_pstate ret;                       /* the state it returned */
};
struct nv_dispatch_t nv_d;
static struct nv_pstate nv_nondet_pstate(void) { struct nv_pstate s; return s; }
static void nv_d_record(const struct nv_program* p)
{ nv_d.Q = p->m_Q; nv_d.c = p->m_c; nv_d.A = p->m_A; nv_d.b = p->m_b; nv_d.G = p->m_G; nv_d.h = p->m_h; nv_d.mufx = p->m_mufx; }
static struct nv_pstate nv_d_swo(const struct nv_solver* self, const struct nv_program* program, const struct nv_logger* logger)
{
  struct nv_pstate s = nv_nondet_pstate();
  nv_d_record(program); if (nv_d.n_swo < 1000) nv_d.n_swo = nv_d.n_swo + 1; nv_d.ret = s;
  return s;
}
static struct nv_pstate nv_d_swi(const struct nv_solver* self, const struct nv_program* program, const struct nv_val* x0, const struct nv_logger* logger)
{
  struct nv_pstate s = nv_nondet_pstate();
  nv_d_record(program); nv_d.x0 = x0->ver; if (nv_d.n_swi < 1000) nv_d.n_swi = nv_d.n_swi + 1; nv_d.ret = s;
  return s;
}

/* the six-argument constructor by its contract (proved in target program_ctor), extended by WHERE reduce() was applied */
void program_ctor(struct nv_program* self, struct nv_val Q, struct nv_val c, struct nv_val A, struct nv_val b, struct nv_val G, struct nv_val h);
/* program_t{program}: the extracted delegating constructor run on a fresh object */
void program_from_lp(struct nv_program* self, const struct nv_lprog* program);
void program_from_qp(struct nv_program* self, const struct nv_qprog* program);
static struct nv_program program_from_lp_value(const struct nv_lprog* program) { struct nv_program p; program_from_lp(&p, program); return p; }
static struct nv_program program_from_qp_value(const struct nv_qprog* program) { struct nv_program p; program_from_qp(&p, program); return p; }

/* ------------------------------------------------------------------ contracts */
/* the held program is the constructor's image of the caller's blocks, each in its role */
#define NV_HELD_FROM(P, Qv, cv, eq, ineq) \
  ((P).mufx == NV_M(NV_MIN_NORM, (Qv), (cv)) && (P).Q.ver == NV_DIVS((Qv), (P).mufx) && (P).c.ver == NV_DIVS((cv), (P).mufx) \
   && nv_w_Ain == (eq).m_A.ver && nv_w_bin == (eq).m_b.ver \
   && (P).A.ver == NV_DIVS(nv_w_Ared, NV_M(NV_MIN_NORM, nv_w_Ared, nv_w_bred)) && (P).b.ver == NV_DIVS(nv_w_bred, NV_M(NV_MIN_NORM, nv_w_Ared, nv_w_bred)) \
   && (P).G.ver == NV_DIVS((ineq).m_A.ver, NV_M(NV_MIN_NORM, (ineq).m_A.ver, (ineq).m_b.ver)) \
   && (P).h.ver == NV_DIVS((ineq).m_b.ver, NV_M(NV_MIN_NORM, (ineq).m_A.ver, (ineq).m_b.ver)))
#define NV_CONTRACT_program_from_lp \
__CPROVER_requires(NV_FRESH(self) && NV_FRESH(program)) \
__CPROVER_assigns(*self, nv_w_Ared, nv_w_bred, nv_w_Ain, nv_w_bin) \
__CPROVER_ensures(self->m_mufx == NV_M(NV_MIN_NORM, NV_NOMATRIX, program->m_c.ver) && self->m_Q.ver == NV_DIVS(NV_NOMATRIX, self->m_mufx) \
  && self->m_c.ver == NV_DIVS(program->m_c.ver, self->m_mufx)) \
__CPROVER_ensures(nv_w_Ain == program->m_eq.m_A.ver && nv_w_bin == program->m_eq.m_b.ver) \
__CPROVER_ensures(self->m_G.ver == NV_DIVS(program->m_ineq.m_A.ver, NV_M(NV_MIN_NORM, program->m_ineq.m_A.ver, program->m_ineq.m_b.ver)) \
  && self->m_h.ver == NV_DIVS(program->m_ineq.m_b.ver, NV_M(NV_MIN_NORM, program->m_ineq.m_A.ver, program->m_ineq.m_b.ver)))
#define NV_CONTRACT_program_from_qp \
__CPROVER_requires(NV_FRESH(self) && NV_FRESH(program)) \
__CPROVER_assigns(*self, nv_w_Ared, nv_w_bred, nv_w_Ain, nv_w_bin) \
__CPROVER_ensures(self->m_mufx == NV_M(NV_MIN_NORM, program->m_Q.ver, program->m_c.ver) && self->m_Q.ver == NV_DIVS(program->m_Q.ver, self->m_mufx) \
  && self->m_c.ver == NV_DIVS(program->m_c.ver, self->m_mufx)) \
__CPROVER_ensures(nv_w_Ain == program->m_eq.m_A.ver && nv_w_bin == program->m_eq.m_b.ver) \
__CPROVER_ensures(self->m_G.ver == NV_DIVS(program->m_ineq.m_A.ver, NV_M(NV_MIN_NORM, program->m_ineq.m_A.ver, program->m_ineq.m_b.ver)) \
  && self->m_h.ver == NV_DIVS(program->m_ineq.m_b.ver, NV_M(NV_MIN_NORM, program->m_ineq.m_A.ver, program->m_ineq.m_b.ver)))

/* ::make_x0(program): make_strictly_feasible() when it yields a point, else the zero vector with one coefficient per variable */
#define NV_MAKE_X0 \
__CPROVER_requires(NV_FRESH(program) && nv_n_msf == 0) \
__CPROVER_assigns(nv_w_msf, nv_w_msf_has, nv_n_msf) \
__CPROVER_ensures(nv_n_msf == 1 && __CPROVER_return_value.ver == (nv_w_msf_has ? nv_w_msf : NV_ZEROVEC(NV_ROWS(program->m_c.ver))))
#define NV_CONTRACT_make_x0_lp NV_MAKE_X0
#define NV_CONTRACT_make_x0_qp NV_MAKE_X0

/* the state handed back is the one the routine returned */
#define NV_SAME_STATE(a, b) ((a).m_status == (b).m_status && (a).m_iters == (b).m_iters && NV_SAME((a).m_fx, (b).m_fx) && (a).m_x.ver == (b).m_x.ver \
  && (a).m_u.ver == (b).m_u.ver && (a).m_v.ver == (b).m_v.ver && NV_SAME((a).m_eta, (b).m_eta) && (a).m_rdual.ver == (b).m_rdual.ver \
  && (a).m_rprim.ver == (b).m_rprim.ver && (a).m_rcent.ver == (b).m_rcent.ver && NV_SAME((a).m_kkt, (b).m_kkt))
#define NV_SOLVE_COMMON(Qv, X0) \
__CPROVER_requires(NV_FRESH(self) && NV_FRESH(program) && NV_FRESH(logger) && nv_d.n_swi == 0 && nv_d.n_swo == 0 && nv_n_msf == 0) \
__CPROVER_assigns(nv_d, nv_w_Ared, nv_w_bred, nv_w_Ain, nv_w_bin, nv_w_msf, nv_w_msf_has, nv_n_msf) \
/* the inequality block alone selects the routine, which runs exactly once */ \
__CPROVER_ensures(NV_VALID(program->m_ineq) ? (nv_d.n_swi == 1 && nv_d.n_swo == 0) : (nv_d.n_swi == 0 && nv_d.n_swo == 1)) \
/* ... on the program built from the caller's blocks, each in its role: reduce() on the equality pair, every pair normalised */ \
__CPROVER_ensures(NV_HELD_FROM(nv_d, (Qv), program->m_c.ver, program->m_eq, program->m_ineq)) \
/* ... from the requested starting point */ \
__CPROVER_ensures(NV_VALID(program->m_ineq) ==> nv_d.x0 == (X0)) \
/* ... and its state is what the caller gets */ \
__CPROVER_ensures(NV_SAME_STATE(NV_R, nv_d.ret))
#define NV_DEFAULT_X0 (nv_w_msf_has ? nv_w_msf : NV_ZEROVEC(NV_ROWS(program->m_c.ver)))
#define NV_CONTRACT_solve_lp NV_SOLVE_COMMON(NV_NOMATRIX, NV_DEFAULT_X0) \
__CPROVER_ensures(NV_VALID(program->m_ineq) ? nv_n_msf == 1 : nv_n_msf == 0)
#define NV_CONTRACT_solve_qp NV_SOLVE_COMMON(program->m_Q.ver, NV_DEFAULT_X0) \
__CPROVER_ensures(NV_VALID(program->m_ineq) ? nv_n_msf == 1 : nv_n_msf == 0)
#define NV_CONTRACT_solve_lp_x0 NV_SOLVE_COMMON(NV_NOMATRIX, x0->ver) __CPROVER_requires(NV_FRESH(x0)) __CPROVER_ensures(nv_n_msf == 0)
#define NV_CONTRACT_solve_qp_x0 NV_SOLVE_COMMON(program->m_Q.ver, x0->ver) __CPROVER_requires(NV_FRESH(x0)) __CPROVER_ensures(nv_n_msf == 0)

#endif
