"""C04: decision protocol of the primal-dual interior-point LP/QP solver (src/program/solver.cpp)."""
import os
import sys
sys.path.insert(0, os.path.dirname(os.path.abspath(__file__)))
import astload
from core import Fn, Target
import hooks
import nvwp
from cxx2c import unwrap, strip_cv, qual, Unsupported

H = 'specs/C04/program.h'
VAL = 'struct nv_val'
TYPES = [(r'^nano::program::solver_state_t$', 'struct nv_pstate'),
         (r'^nano::program::solver_t::program_t$', 'struct nv_program'),
         (r'^nano::program::solver_t$', 'struct nv_solver'),
         (r'^nano::logger_t$', 'struct nv_logger'), (r'reducer_t$', 'struct nv_reducer'),
         (r'^nano::solver_status$', 'int32_t'), (r'^Eigen::ComputationInfo$', 'int32_t'),
         # every matrix / vector / Eigen expression / decomposition is an opaque value identity
         (r'^nano::(vector_t|matrix_t)$|^nano::tensor_t<nano::tensor_vector_storage_t, double, [12]>$|^Eigen::.*>$', VAL)]
# Eigen / tensor operators -> uninterpreted algebra over value identities
CALLS = [(r'^operator\*\|[^|]*\|double(\||$)', 'nv_e_scale({0}, {1})'),
         (r'^operator\*\|', 'nv_e_mul({0}, {1})'),
         (r'^operator/\|[^|]*\|double(\||$)', 'nv_e_sdiv({0}, {1})'),
         (r'^operator/\|', 'nv_e_div({0}, {1})'),
         (r'^operator\+\|', 'nv_e_add({0}, {1})'),
         (r'^operator-\|[^|]*\(\) const\|', 'nv_e_neg({0})'), (r'^operator-\|[^|]*\|double(\||$)', 'nv_e_ssub({0}, {1})'),
         (r'^operator-\|', 'nv_e_sub({0}, {1})'),
         (r'^operator\+=\|', '({0} = nv_e_add({0}, {1}))'),
         (r'^operator=\|', '({0} = nv_e_same({1}))'),
         (r'^isfinite\|', 'nv_isfinite({0})'),
         (r'^epsilon2\|', 'nv_epsilon2()'),
         (r'^max\|double \(initializer_list<double>\)', '@fold:nv_fmax'),
         (r'^min\|const double &', 'nv_fmin({0}, {1})'), (r'^max\|const double &', 'nv_fmax({0}, {1})'), (r'^max\|double \(\) noexcept', 'nv_dbl_max()'),
         (r'^done\|', 'solver_done'),
         (r'^make_smax\|', 'make_smax'), (r'^move\|', '{0}'),
         (r'^ctor\|.*reducer_t\|void \(nano::matrix_t &', 'nv_reduce({&0}, {&1})'),
         (r'^zero\|', 'nv_e_zero({0})'), (r'^constant\|', 'nv_e_nan({0})'), (r'^operator\(\)\|', 'nv_vec_at({&0}, {1})'),
         (r'^ctor\|nano::tensor_t<nano::tensor_vector_storage_t, double, [12]>\|void \((long|nano::tensor_size_t)', 'nv_fresh()'),
         (r'^ctor\|nano::tensor_t<nano::tensor_vector_storage_t, double, [12]>\|void \(const Eigen::', 'nv_e_same({0})'),
         (r'^ctor\|nano::program::solver_state_t\|void \((const )?(long|nano::tensor_size_t)', 'pstate_ctor_value({0}, {1}, {2})')]
MEMBERS = [(r'^(info|warn|error)\|nano::logger_t', '@drop'),
           (r'^feasible\|nano::program::solver_t::program_t', 'program_feasible'),
           (r'^n\|nano::program::solver_t::program_t', 'nv_program_n'), (r'^p\|nano::program::solver_t::program_t', 'nv_program_p'),
           (r'^m\|nano::program::solver_t::program_t', 'nv_program_m'),
           (r'^solve\|nano::program::solver_t::program_t', 'nv_program_solve({self})'),
           (r'^update\|nano::program::solver_t::program_t', '({4} = nv_program_updated({self}, {4}, {0}, {1}, {2}))'),
           (r'^update\|nano::program::solver_state_t', '({obj}.m_kkt = nv_kkt_value())'),
           (r'^residual\|nano::program::solver_state_t', 'nv_pstate_residual'),
           (r'^(array|matrix|vector|transpose|asDiagonal)\|', 'nv_e_same({obj})'),
           (r'^lpNorm\|', 'nv_e_norm2({obj})'),
           (r'^maxCoeff\|', 'nv_e_maxcoeff({obj})'),
           (r'^size\|.*(double, 2>|tensor_base_t<double, 2)', 'nv_e_size({obj})'), (r'^(rows|size)\|', 'nv_e_rows({obj})'), (r'^dot\|', 'nv_e_dot({obj}, {0})'),
           (r'^Q\|nano::program::solver_t::program_t', '{*self}.m_Q'),
           (r'^all_finite\|', 'nv_e_all_finite({obj})'),
           (r'^isApprox\|', 'nv_e_isapprox({obj}, {0}, {1})'),
           (r'^segment\|', 'nv_e_segment({obj}, {0}, {1})'),
           (r'^rcond\|', '@nondet'), (r'^isPositive\|', '@nondet'),
           (r'^info\|Eigen::LDLT', '@nondet')]      # the factorisation's own status: says nothing about the residual of the solution


def _opcall(n, name):
    """operands of `a <op> b` written with an overloaded operator (looking through temporaries / no-op casts), else None"""
    u = unwrap(n)
    if u.get('kind') != 'CXXOperatorCallExpr':
        return None
    if unwrap(u['inner'][0]).get('referencedDecl', {}).get('name') != name:
        return None
    return u['inner'][1:]


def _is_double(n):
    return strip_cv(qual(n.get('type'))) == 'double'


def _scaled(n):
    """(s, D) if n is `s * D` with a scalar s, else None"""
    a = _opcall(n, 'operator*')
    if a is None or len(a) != 2 or not _is_double(a[0]) or _is_double(a[1]):
        return None
    return a


def strict_test_hook(P, n):
    """(G * (X + s * D) - h).maxCoeff()  ->  nv_maxcoeff_affine_along(G, X, s, D, h): same uninterpreted value as the generic
    algebra, plus the ghost record of where the strict-feasibility test was evaluated.  Any other shape falls through."""
    if n.get('kind') != 'CXXMemberCallExpr' or n['inner'][0].get('kind') != 'MemberExpr' or n['inner'][0].get('name') != 'maxCoeff':
        return None
    sub = _opcall(n['inner'][0]['inner'][0], 'operator-')
    if sub is None or len(sub) != 2:
        return None
    mul = _opcall(sub[0], 'operator*')
    if mul is None or len(mul) != 2 or _is_double(mul[0]):
        return None
    add = _opcall(mul[1], 'operator+')
    if add is None or len(add) != 2:
        return None
    sc = _scaled(add[1])
    if sc is None:
        return None
    P.note('(G * (X + s * D) - h).maxCoeff() -> nv_maxcoeff_affine_along')
    return f'nv_maxcoeff_affine_along({P.expr(mul[0])}, {P.expr(add[0])}, {P.expr(sc[0])}, {P.expr(sc[1])}, {P.expr(sub[1])})'


def advance_hook(P, n):
    """X += s * D  ->  X = nv_advanced(X, s, D): same uninterpreted value as the generic algebra (X + s * D), plus the
    ghost history of in-place advances.  Any other shape falls through to the generic `+=`."""
    if n.get('kind') != 'CXXOperatorCallExpr':
        return None
    a = _opcall(n, 'operator+=')
    if a is None or len(a) != 2:
        return None
    sc = _scaled(a[1])
    if sc is None:
        return None
    P.note('X += s * D -> nv_advanced')
    x = P.expr(a[0])
    return f'({x} = nv_advanced({x}, {P.expr(sc[0])}, {P.expr(sc[1])}))'


WHOLE_VIEWS = ('array', 'matrix', 'vector')
PART_VIEWS = ('block', 'segment', 'row', 'col', 'head', 'tail', 'transpose')


def view_assign_hook(P, n):
    """assignment THROUGH a view: `X.array() /= s`, `M.block(..) = E`, `M.block(..).array() = 0.0` write into the object X / M.
    Whole views with a scalar `/=`, `*=` give the exact uninterpreted value (X / s, s * X); anything else makes the object an
    opaque function of its old value and the right-hand side (havoc that still is a function: nv_e_written)."""
    if n.get('kind') != 'CXXOperatorCallExpr':
        return None
    rd = unwrap(n['inner'][0]).get('referencedDecl', {})
    op = rd.get('name', '')
    if op not in ('operator=', 'operator+=', 'operator-=', 'operator*=', 'operator/=') or len(n['inner']) != 3:
        return None
    lhs, rhs = unwrap(n['inner'][1]), n['inner'][2]
    views = []
    while lhs.get('kind') == 'CXXMemberCallExpr' and lhs['inner'][0].get('kind') == 'MemberExpr' and lhs['inner'][0].get('name') in WHOLE_VIEWS + PART_VIEWS:
        views.append(lhs['inner'][0]['name'])
        lhs = unwrap(lhs['inner'][0]['inner'][0])
    if not views:
        return None
    if lhs.get('valueCategory') != 'lvalue' or lhs.get('kind') not in ('DeclRefExpr', 'MemberExpr'):
        raise Unsupported('assignment through a view of something that is not a named object')
    obj = P.expr(lhs)
    whole = all(v in WHOLE_VIEWS for v in views)
    P.note(f'write through view .{"().".join(reversed(views))}() {op[8:]}')
    if whole and _is_double(rhs) and op == 'operator/=':
        return f'({obj} = nv_e_divs({obj}, {P.expr(rhs)}))'
    if whole and _is_double(rhs) and op == 'operator*=':
        return f'({obj} = nv_e_scale({P.expr(rhs)}, {obj}))'
    if _is_double(rhs):
        return f'({obj} = nv_e_written_s({obj}, {P.expr(rhs)}))'
    return f'({obj} = nv_e_written({obj}, {P.expr(rhs)}))'


_normalize_decl = []


def normalize_call_hook(P, n):
    """::normalize(A, b[, min_norm]) -> normalize(&A, &b, min_norm): an omitted min_norm is printed by clang as a bare
    CXXDefaultArgExpr; its value is read from the default of normalize's own parameter in the current source"""
    if n.get('kind') != 'CallExpr':
        return None
    rd = unwrap(n['inner'][0]).get('referencedDecl', {})
    if rd.get('name') != 'normalize' or len(n['inner']) != 4:
        return None
    if not _normalize_decl:
        _normalize_decl.append(astload.find_definition(TU, 'normalize', 'normalize', lambda d: len(astload.param_types(d)) == 3))
    a = n['inner'][1:]
    u = a[2]
    while u.get('kind') in ('ExprWithCleanups', 'MaterializeTemporaryExpr') and u.get('inner'):
        u = u['inner'][0]
    if u.get('kind') == 'CXXDefaultArgExpr':
        prm = [c for c in _normalize_decl[0]['inner'] if c.get('kind') == 'ParmVarDecl'][2]
        init = [c for c in prm.get('inner', []) if c.get('kind') != 'FullComment']
        if not init:
            raise Unsupported('normalize: default of min_norm is not in the dump')
        m = P.expr(init[0])
    else:
        m = P.expr(a[2])
    P.note('::normalize(A, b, min_norm)')
    return f'normalize({P.addr(a[0])}, {P.addr(a[1])}, {m})'


def update_along_hook(P, n):
    """program.update(X + sx * DX, U + su * DU, V + sv * DV, miu, state) -> state = nv_program_updated_along(...): the same values as
    the generic algebra, plus the ghost provenance of the trial point.  Any other shape falls through to the generic mapping."""
    if n.get('kind') != 'CXXMemberCallExpr' or n['inner'][0].get('kind') != 'MemberExpr' or n['inner'][0].get('name') != 'update':
        return None
    me = n['inner'][0]
    if 'solver_t::program_t' not in qual(me['inner'][0]['type']) or len(n['inner']) != 6:
        return None
    parts = []
    for a in n['inner'][1:4]:
        add = _opcall(a, 'operator+')
        sc = _scaled(add[1]) if add is not None and len(add) == 2 else None
        if sc is None:
            return None
        parts += [P.expr(add[0]), P.expr(sc[0]), P.expr(sc[1])]
    obj = me['inner'][0]
    prog = P.expr(obj) if me.get('isArrow') else P.addr(obj)
    st = P.expr(n['inner'][5])
    P.note('program.update(X + s * DX, U + s * DU, V + s * DV, ..) -> nv_program_updated_along')
    return f'({st} = nv_program_updated_along({prog}, {st}, {", ".join(parts)}))'


HOOKS = [hooks.param_hook(), strict_test_hook, advance_hook, view_assign_hook, normalize_call_hook, update_along_hook]
FEAS_ABS = [(r'^feasible\|nano::program::solver_t::program_t', 'nv_program_feasible_abs')]
COMMON = dict(types=TYPES, calls=CALLS, members=MEMBERS, hooks=HOOKS)
TU = 'src/program/solver.cpp'
FLT = 'solver_t::'      # one clang dump of solver.cpp serves every member function of solver_t and solver_t::program_t


# ------------------------------------------------------------------------------------------------- dispatch (specs/C04/dispatch.h)
DH = 'specs/C04/dispatch.h'
DTYPES = [(r'^nano::program::linear_program_t$', 'struct nv_lprog'), (r'^nano::program::quadratic_program_t$', 'struct nv_qprog'),
          (r'^nano::program::(equality|inequality|constraint)_t<', 'struct nv_constr'), (r'^std::optional<', 'struct nv_optvec')] + TYPES
DCALLS = [(r'^ctor\|nano::program::solver_t::program_t\|void \(const (nano::program::)?linear_program_t &\)', 'program_from_lp_value({&0})'),
          (r'^ctor\|nano::program::solver_t::program_t\|void \(const (nano::program::)?quadratic_program_t &\)', 'program_from_qp_value({&0})'),
          # the six-argument constructor (by value: Q, c, A, b, G, h), also as the target of the delegating constructors
          (r'^ctor\|nano::program::solver_t::program_t\|void \((nano::)?matrix_t, ', 'program_ctor({self}, {0}, {1}, {2}, {3}, {4}, {5})'),
          (r'^ctor\|nano::tensor_t<nano::tensor_vector_storage_t, double, 2>\|void \(\)', 'nv_e_nomatrix()'),          # matrix_t{}
          (r'^make_x0\|.*linear_program_t', 'make_x0_lp'), (r'^make_x0\|.*quadratic_program_t', 'make_x0_qp')] + CALLS
DMEMBERS = [(r'^valid\|', 'constraint_valid'),
            (r'^solve_without_inequality\|', 'nv_d_swo({self}, {&0}, {&1})'), (r'^solve_with_inequality\|', 'nv_d_swi({self}, {&0}, {&1}, {&2})'),
            (r'^make_strictly_feasible\|', 'nv_make_strictly_feasible()'),
            (r'^operator bool\|(const )?std::optional', 'nv_opt_has'), (r'^has_value\|(const )?std::optional', 'nv_opt_has'),
            (r'^value\|(const )?std::optional', '{obj}.v')] + MEMBERS
DCOMMON = dict(types=DTYPES, calls=DCALLS, members=DMEMBERS, hooks=HOOKS)


def dispatch_targets():
    kind = {'lp': 'linear_program_t', 'qp': 'quadratic_program_t'}
    pt = astload.param_types
    inst = lambda d: any(x.get('kind') == 'CXXThisExpr' and 'tensor_t<' in x.get('type', {}).get('qualType', '') for x in astload.walk(d))
    # the member of the INSTANTIATED constraint_t<matrix_t, vector_t> (the dump also holds the template's own, type-dependent body)
    valid = lambda: Fn('constraint_valid', TU, 'valid', flt='constraint_t', select=inst, self_struct='struct nv_constr', **DCOMMON)
    pctor = lambda: Fn('program_ctor', TU, 'program_t', flt=FLT, select=lambda d: len(pt(d)) == 6, kinds=('CXXConstructorDecl',),
                       self_struct='struct nv_program', **COMMON)
    pfrom = lambda k: Fn(f'program_from_{k}', TU, 'program_t', flt=FLT, select=lambda d: len(pt(d)) == 1 and kind[k] in pt(d)[0],
                         kinds=('CXXConstructorDecl',), self_struct='struct nv_program', **DCOMMON)
    mx0 = lambda k: Fn(f'make_x0_{k}', TU, 'make_x0', flt='make_x0', select=lambda d: kind[k] in (astload.template_args(d) or [''])[0], **DCOMMON)
    solve = lambda k, n: Fn(f'solve_{k}' + ('_x0' if n == 3 else ''), TU, 'solve', flt=FLT, select=lambda d: len(pt(d)) == n and kind[k] in pt(d)[0],
                            self_struct='struct nv_solver', **DCOMMON)
    out = [Target('constraint_valid', [valid()], DH)]
    for k in ('lp', 'qp'):
        out.append(Target(f'program_from_{k}', [pfrom(k), pctor()], DH, replace=['program_ctor']))
        out.append(Target(f'make_x0_{k}', [mx0(k)], DH))
        for n in (2, 3):
            out.append(Target(f'solve_{k}' + ('_x0' if n == 3 else ''), [solve(k, n), pfrom(k), pctor(), mx0(k), valid()], DH, replace=['program_ctor']))
    return out


def smax_real_vcs():
    """::make_smax over the reals (back end B): for u > 0 componentwise the result lies in (0, 1] and keeps u + s * du >= 0 at every
    (ghost) index; every coefficient read is in bounds; the loop terminates.  IEEE double is treated as a real here."""
    from nvwp import V
    from wplib import IdEnvWP, load, reach_vc
    docs, fn = load(TU, 'make_smax', 'make_smax', None)

    def vec(node):
        u = unwrap(node)
        if u.get('kind') != 'DeclRefExpr' or u['referencedDecl'].get('name') not in ('u', 'du'):
            raise nvwp.Unsupported('make_smax: coefficient access on something that is not the parameter u or du')
        return u['referencedDecl']['name'] + 'vec'

    def h_at(wp, n, args, callee):
        i = wp.ev(args[1])
        wp.oblige(f'coefficient index of {vec(args[0])} in bounds', f'(and (<= 0 {i.t}) (< {i.t} n))', n)
        return V(f'({vec(args[0])} {i.t})', 'Real', 'double')

    def h_min(wp, n, args, callee):
        a, b = wp.ev(args[0]), wp.ev(args[1])
        return V(f'(ite (< {b.t} {a.t}) {b.t} {a.t})', 'Real', 'double')

    def h_max(wp, n, args, callee):
        a, b = wp.ev(args[0]), wp.ev(args[1])
        return V(f'(ite (< {a.t} {b.t}) {b.t} {a.t})', 'Real', 'double')

    def inv(wp):
        i, smax = wp.env['i'].t, wp.env['smax'].t
        return [('0 <= i <= size', f'(and (<= 0 {i}) (<= {i} n) (= {wp.env["size"].t} n))'), ('smax > 0', f'(> {smax} 0.0)'),
                ('u_g + smax * du_g >= 0 for every index g already visited', f'(=> (and (<= 0 g) (< g {i})) (>= (+ (uvec g) (* {smax} (duvec g))) 0.0))')]
    inv.decreases = lambda wp, env: f'(- n {env["i"].t})'

    wp = IdEnvWP('make_smax_real', real=True,
                 calls=[(r'^operator\(\)\|', h_at), (r'^min\|const double &', h_min), (r'^max\|const double &', h_max),
                        (r'^max\|double \(\) noexcept', lambda wp, n, args, callee: V('dblmax', 'Real', 'double'))],
                 members=[(r'^size\|', lambda wp, n, args, obj: V('n', 'Int', 'long'))], invariants={1: inv})
    wp.decls += ['(declare-fun uvec (Int) Real)', '(declare-fun duvec (Int) Real)', '(declare-const n Int)', '(declare-const g Int)',
                 '(declare-const dblmax Real)']
    wp.assume('(and (<= 0 n) (<= n 4611686018427387904))')                                 # a vector size
    wp.assume('(>= dblmax 1.0)')                                                           # numeric_limits<double>::max()
    wp.assume('(forall ((k Int)) (=> (and (<= 0 k) (< k n)) (> (uvec k) 0.0)))')           # u > 0: the interior-point invariant
    wp.post = lambda wp, r: [('0 < result <= 1', f'(and (< 0.0 {r.t}) (<= {r.t} 1.0))'),
                             ('u_g + result * du_g >= 0 at every index g', f'(=> (and (<= 0 g) (< g n)) (>= (+ (uvec g) (* {r.t} (duvec g))) 0.0))')]
    wp.run(fn, astload.resolve_tu(TU))
    return wp.vcs('make_smax_real', astload.resolve_tu(TU), 'make_smax over the reals') + [reach_vc(wp, 'make_smax_real', astload.resolve_tu(TU))]


def build(tier):
    feas = lambda: Fn('program_feasible', TU, 'feasible', flt=FLT, self_struct='struct nv_program', **COMMON)
    done = lambda: Fn('solver_done', TU, 'done', flt=FLT, **COMMON)
    ctor = lambda: Fn('pstate_ctor', 'src/program/state.cpp', 'solver_state_t', flt='solver_state_t',
                      select=lambda d: len(astload.param_types(d)) == 3, self_struct='struct nv_pstate', **COMMON)
    smax = lambda: Fn('make_smax', TU, 'make_smax', flt='make_smax', **COMMON)
    swi = lambda cname='solve_with_inequality': Fn(cname, TU, 'solve_with_inequality', flt=FLT, self_struct='struct nv_solver',
                     **dict(COMMON, calls=[(r'^make_smax\|', 'nv_make_smax_any')] + CALLS))
    swo = lambda: Fn('solve_without_inequality', TU, 'solve_without_inequality', flt=FLT, self_struct='struct nv_solver', **COMMON)
    norm = lambda: Fn('normalize', TU, 'normalize', flt='normalize', select=lambda d: len(astload.param_types(d)) == 3, **COMMON)
    pctor = lambda: Fn('program_ctor', TU, 'program_t', flt=FLT, select=lambda d: len(astload.param_types(d)) == 6,
                       kinds=('CXXConstructorDecl',), self_struct='struct nv_program', **COMMON)
    upd = lambda cname, head: Fn(cname, TU, 'update', flt=FLT, self_struct='struct nv_program',
                                 select=lambda d: (astload.template_args(d) or [''])[0].startswith(head), **COMMON)
    done_abs = lambda: Fn('solver_done', TU, 'done', flt=FLT, **dict(COMMON, members=FEAS_ABS + MEMBERS))
    targets = [
        Target('program_feasible', [feas()], H),
        # cadical: the default SAT solver needs ~170 s for the (tiny) formula of the repaired three-comparison body, cadical ~1 s
        Target('solver_done', [done(), feas()], H, replace=['program_feasible'], cbmc_flags=['--sat-solver', 'cadical']),
        Target('solver_done_nan', [Fn('solver_done_nan', TU, 'done', flt=FLT, **COMMON), feas()], H, replace=['program_feasible'],
               cbmc_flags=['--sat-solver', 'cadical']),
        Target('pstate_ctor', [ctor()], H),
        # the scaling protocol: what the data is divided by, and what the reported objective is multiplied back with
        Target('normalize', [norm()], H),
        Target('program_ctor', [pctor(), norm()], H, replace=['normalize']),
        Target('program_update_vec', [upd('program_update_vec', 'nano::tensor_t')], H),
        Target('program_update_expr', [upd('program_update_expr', 'Eigen::CwiseBinaryOp')], H),
        Target('make_smax', [smax()], H),
        # done() is inlined (its own contract is target solver_done); inside it program_t::feasible is the abstract function
        Target('solve_with_inequality', [swi(), done_abs(), ctor()], H),
        Target('solve_with_inequality_adv', [swi('solve_with_inequality_adv'), done_abs(), ctor()], H),
        Target('solve_with_inequality_res', [swi('solve_with_inequality_res'), done_abs(), ctor()], H),
        Target('solve_without_inequality', [swo(), ctor()], H),
    ] + dispatch_targets()
    import realvcs
    bounded, finfo = realvcs.build(tier)
    import generic
    gvcs, ginfo = realvcs.guarded(generic.build, 'generic-coordinate obligations')()
    finfo = finfo + [f for f in ginfo if f['c_name'] not in {x['c_name'] for x in finfo}]
    return {
        'targets': targets, 'vcs': smax_real_vcs() + gvcs, 'bounded': bounded, 'functions': finfo,
        'decided': [
            'solver_t::done: status\' == converged <=> program.feasible(state) && eta < eps && no residual norm (|rdual|, |rprim|) is >= eps; '
            'otherwise unbounded if feasible, unfeasible if not; nothing but m_status is written (for norms that are not NaN this is literally '
            'max(eta, |rdual|, |rprim|) < eps)',
            'program_t::feasible(state) == (no equalities || |A x - b|_2 < eps2) && (no inequalities || max(G x - h) < eps2), evaluated on state.m_x',
            'solve_with_inequality, status protocol: max(G x0 - h) >= 0 => unfeasible, zero iterations, no linear solve, no residual update, x == x0; '
            'otherwise status == max_iters <=> iterations == max_iters, failed => a non-finite eta / |rdual| / |rprim| of the returned state, and '
            'converged / unbounded / unfeasible are exactly the decision of done() evaluated on the RETURNED (x, eta, rdual, rprim); '
            'all three loops terminate (variants), iteration count within [0, max_iters]',
            'solve_with_inequality, advance protocol: the returned (x, u, v) are x0 or the result of in-place advances along (dx, du, dv) of the '
            'same iteration with ONE common step s that lies between 0 and a step for which (G (x + s dx) - h).maxCoeff() < 0 was evaluated to '
            'true for exactly that x and dx (inductive invariant of the outer loop)',
            'solve_without_inequality: converged <=> valid && aprox, failed <=> !valid, unfeasible otherwise; returned x / v are the two segments '
            'of the one KKT solution; exactly one linear solve',
            'solver_state_t(n, m, p): status max_iters, zero iterations, all scalars NaN / 0 as declared (default member initialisers read from state.h)',
            '::make_smax: every coefficient read in bounds (given its own assert u.size() == du.size()), loop terminates, result <= 1 and never NaN, '
            'result >= 0 when every coefficient of u is > 0',
            '::normalize(A, b, min_norm): the returned factor is max(min_norm, |A|, |b|) >= min_norm and BOTH A and b are divided by exactly '
            'that factor; program_t(Q, c, A, b, G, h): m_mufx is the factor (Q, c) were divided by (floor 1e-3 = the default read from the '
            'source), (A, b) after the removal of dependent rows and (G, h) are each divided by their own common factor',
            'program_t::update (both instantiations): m_fx == (c.x, or 0.5 x.Qx + c.x when there is a Q), evaluated AT the x passed in, '
            'multiplied back by exactly m_mufx (uninterpreted float operations: a data-flow identity); only m_fx, m_eta, m_rdual, m_rprim, '
            'm_rcent are written',
            'solve_without_inequality: the residual fields / fx of the returned state are those of the returned (x, u, v)',
            'solve_with_inequality_res: converged => the residual fields done() certified and the reported fx were computed by '
            'program_t::update (a) at the returned (x, u, v), or (b) only when the line search of the FINAL iteration was exhausted '
            '(max_lsearch_iters consecutive trials) at the last trial point (x + s dx, u + s du, v + s dv), one common s, of that same line '
            'search started from the returned (x, u, v); a point of an earlier iteration, an unrelated point, or fields not recomputed after '
            '(x, u, v) moved are refuted',
            '::make_smax over the reals (SMT): for u > 0 componentwise the result is in (0, 1] and u_g + result * du_g >= 0 at every index g; '
            'coefficient reads in bounds; loop variant',
            'solver_t::solve dispatch (all four overloads, CBMC, numerics opaque): the inequality block alone selects the routine (m_ineq.valid() <=> '
            'solve_with_inequality), which runs exactly once on the program_t built from the CALLER\'s blocks in their roles -- objective (Q or the empty '
            'matrix, c), equalities (m_eq.m_A, m_eq.m_b) handed to reduce() BEFORE anything is scaled, inequalities (m_ineq.m_A, m_ineq.m_b), each pair '
            'normalised by its own factor as in program_ctor -- the x0 overloads pass the caller\'s x0 and never call make_strictly_feasible, the others pass '
            '::make_x0(program) (make_strictly_feasible() when it yields a point, else the zero vector of c.size()), and the state handed back is the state '
            'the routine returned; the delegating constructors program_t(linear_program_t) / program_t(quadratic_program_t), both ::make_x0 instantiations '
            'and constraint_t<matrix_t, vector_t>::valid ((A.size() > 0 && b.size() > 0) && A.rows() == b.size()) are under contract themselves',
            'BOUNDED (n <= 3 variables, p <= 2 equalities, m <= 2 inequalities, LP and QP; unbounded real coefficients; quick tier: 6 shapes, thorough: all 27), '
            'residual DEFINITIONS (specs/C04/residuals.py): program_t::update (both instantiations) computes, at exactly the (x, u, v) handed in, '
            'fx == mufx (x\'Qx/2 + c\'x), eta == -u\'(Gx - h), rdual == Qx + c + G\'u + A\'v, rprim == Ax - b, rcent == -diag(u)(Gx - h) - (eta / (miu m)) 1 '
            '(Boyd & Vandenberghe (11.53) with t = miu m / eta), leaves eta / rcent alone without inequalities and rprim without equalities, and writes nothing '
            'else; solver_state_t::residual() == ||(rdual, rcent, rprim)||_2; solver_state_t::update stores in m_kkt exactly the largest of the five KKT tests '
            '(infinity norms) at the stored (x, u, v) and writes nothing else',
            'GENERIC COORDINATE, every size (specs/C04/generic.py; arrays by their coefficient at one generic index, reductions as sums known up to their '
            'summand, a matrix-vector product as a NAMED array): ::normalize returns max(min_norm, ||A||_F, ||b||_2) >= min_norm and divides the generic '
            'coefficient of A and of b by it; program_t::update<vector_t> (QP and LP): eta == -sum_i u_i ((G x)_i - h_i) for m > 0 and untouched for m == 0, '
            'rcent_i == -u_i ((G x)_i - h_i) - eta / (miu m), rdual_i == (Q x)_i + c_i + (G\'u)_i + (A\'v)_i with the terms of absent blocks dropped, rprim_i == '
            '(A x)_i - b_i for p > 0, fx == mufx (1/2 sum x_i (Q x)_i + sum x_i c_i), operand sizes agree, and the products that occur are exactly Q x, G x, A x, G\'u, A\'v',
            'BOUNDED (same shapes), NORMALISATION (specs/C04/scaling.py): ::normalize returns d == max(min_norm, ||A||_F, ||b||_2) >= min_norm, divides BOTH A '
            'and b by d, and the scaled rows describe the same feasible / strictly feasible set row by row (=, <=, <), the scaled objective the same order of '
            'points; program_t(Q, c, A, b, G, h), walked initialiser by initialiser: m_mufx == M = max(1e-3, ||Q||_F, ||c||_2) of the CALLER\'s objective, each of '
            '(Q, c), (A_r, b_r) (what reduce() left), (G, h) is normalised exactly once as a pair by a factor >= 1e-3 (default floor read from the source), same '
            '(strictly) feasible sets, KKT matrix buffer blocks m_A\', m_A, 0; program_t::update run ON that program: the reported fx equals x\'Qx/2 + c\'x of the '
            'program AS THE CALLER STATED IT, and mufx * rdual, dA * rprim, mufx * eta are the residuals of the caller\'s program at (x, (mufx / dG) u, (mufx / dA) v)',
            'BOUNDED (same shapes), SEARCH DIRECTION (specs/C04/newton.py): program_t::solve (both instantiations) factorises exactly [[Q - hessvar, A\'], [A, 0]], '
            'solves for (-rdual, -rprim), stores / returns that solution and keeps the off-diagonal blocks; one iteration of solve_with_inequality from an arbitrary '
            'strictly feasible loop-head state assigns (dx, du, dv) that solve the Newton system of the residual map: Q dx + G\'du + A\'dv == -rdual, '
            '-diag(u) G dx - diag(Gx - h) du == -rcent, A dx == -rprim, with exactly one KKT solve and without touching the iterate',
            'BOUNDED (n <= 3, p <= 2), nano::program::reduce(A, b): without rows it returns false and touches nothing; otherwise [A | b] is decomposed as ONE '
            'matrix, once, and A\' / b\' are the first n columns / the last column of the same reduced matrix (consistent split), returns true; when [A | b] '
            'has full row rank (A, b) are handed back unchanged: the equality rows the solver holds are then the caller\'s own rows',
            'BOUNDED (rows <= 3, cols <= 4, every rank; quick tier: 2 x 3 with rank 2 and 1), ::reduce(matrix_t&) walked with a stub model of the Eigen::FullPivLU '
            'object (specs/C04/reduce.py): what is decomposed is A.transpose() of the matrix handed in, exactly once; rank == rows leaves A untouched; '
            'rank < rows replaces A by a matrix with exactly rank rows and the same columns (shapes DERIVED through leftCols / topRows / triangularView / '
            'toDenseMatrix / transpose / block / the two products); NAMED obligation default_threshold: every rank decision (rank(), dimensionOfKernel(), '
            'isInjective(), isSurjective(), isInvertible()) is taken on a decomposition object whose ghost flag `configured` is false, i.e. with Eigen\'s '
            'DEFAULT scale-relative threshold (setThreshold(x) sets the flag, setThreshold(Eigen::Default) clears it) -- rationale: the property\'s clause '
            '"the same holds when the program is restated with rescaled equality rows": a re-configured threshold drops genuine rows of a badly scaled '
            '[A | b] and the relaxed program is reported converged (seeded C04-4); any other member call on the decomposition object ends the walk (exit 2) naming the call',
            'BOUNDED (same shapes as the normalisation; quick tier: n = 2, p = 1, m = 2, QP), COMPOSITION (specs/C04/compose.py): program_t::program_t, '
            'program_t::update and solver_t::done (with program_t::feasible walked in place) executed one after the other in ONE environment on the caller\'s '
            'symbolic (Q, c, A, b, G, h): `state.m_status == converged` as a term over the CALLER\'s coefficients.  decision: converged <=> feasible\' && eta < '
            'epsilon && ||rdual||_2 < epsilon && ||rprim||_2 < epsilon where feasible\' = (no equalities or ||A\'x - b\'||_2 < epsilon2) && (no inequalities or every '
            '(G\'x - h\')_i < epsilon2) is evaluated on the HELD program (reduced, normalised: (A\', b\') = (A_r, b_r) / dA, (G\', h\') = (G, h) / dG) at state.m_x; '
            'done() writes m_status only.  Then, from the EXTRACTED decision and un-scaling lemmas shown on the extracted terms: converged ==> (caller_equality_rows) '
            '|(A_r x - b_r)_i| < epsilon dA and < epsilon2 dA for every equality row the reduction left (the caller\'s own rows when [A | b] has full row rank); '
            '(equality_tolerance) <= 1e-6 (1 + ||b_r||_inf) under the side condition epsilon dA <= 1e-6 (1 + ||b_r||_inf); (caller_inequality_rows) (G x - h)_i < '
            'epsilon2 dG for every inequality row the caller stated; (inequality_tolerance) <= 1e-6 (1 + ||h||_inf) under the side condition epsilon2 dG <= 1e-6 '
            '(1 + ||h||_inf); (caller_dual_residual) every coefficient of Qx + c + G\'u~ + A_r\'v~ is below epsilon M in absolute value; (caller_gap) -u~\'(Gx - h) < '
            'epsilon M; M = m_mufx = max(1e-3, ||Q||_F, ||c||_2), u~ = (M / dG) u, v~ = (M / dA) v, dA = max(1e-3, ||A_r||_F, ||b_r||_2), dG = max(1e-3, ||G||_F, ||h||_2)',
            'BOUNDED (quick tier: n = 2, p = 1, m = 2, QP; thorough: all shapes with m > 0), INTERIOR-POINT INVARIANT (specs/C04/invariant.py): I = (G x - h < 0 and '
            'u > 0 componentwise) is an inductive invariant of the main loop of solve_with_inequality over the reals.  base: the function\'s own prefix executed from '
            'its entry establishes I on the path that enters the loop (x = x0 passed max(G x0 - h) < 0, u = -1 / (G x0 - h)); the other path returns before the loop.  '
            'step: one whole iteration executed from an arbitrary loop-head state satisfying I: ::make_smax by the clauses proved for it with its precondition u > 0 '
            'OBLIGED at the call, both backtracking loops by invariants of their own (0 < s <= s at loop entry, 0 <= iter <= max; checked on entry, preserved, '
            'variant), stage 1 leaves through break only where (G (x + s dx) - h).maxCoeff() < 0 was evaluated, and on the path to the next loop head G x+ - h < 0 '
            '(convexity of the strictly feasible set: the step finally taken is at most the step tested), u+ >= 0, and u+ > 0 when s0 < 1; together with `same '
            'strictly feasible set` of the normalisation (held row < 0 <=> the caller\'s row < 0) every inequality row AS THE CALLER STATED IT holds strictly at '
            'every iterate, hence at the returned x (over the reals)',
            'BOUNDED (quick tier: n = 2, p = 1, QP; thorough: n <= 3, p <= 2), solve_without_inequality over the reals (specs/C04/swo.py), WITHOUT assuming that '
            'the LDLT solution solves the system: the returned x / v are the two segments of the vector the isApprox test looks at; the vectors compared are '
            'K (x, v) and (-c, b) with K = [[Q, A\'], [A, 0]] of the held program, precision epsilon2; converged <=> valid && aprox, failed <=> !valid, unfeasible '
            'otherwise; K (x, v) - (-c, b) is the KKT residual (Qx + c + A\'v, Ax - b); converged ==> ||(Qx + c + A\'v, Ax - b)||_2^2 <= epsilon2^2 (||c||^2 + ||b||^2)',
        ],
        'not_decided': [
            'all numeric tolerances of the property (1e-6 (1+|b|), objective gap vs f*), correctness of infeasible / unbounded detection, '
            'invariance under restatement: they depend on LDLT numerics',
            'how close the last trial point of an exhausted final line search is to the returned point (s <= s_tested * beta^max_lsearch_iters): '
            'numeric, not decided (the property tolerates 1e-6; native scenario `stale`: bitwise staleness in ~8% of converged runs, worst '
            'relative fx difference 7e-12 over 5.6M random programs)',
            'make_smax in IEEE arithmetic: result > 0 (the quotient -u_i / du_i can underflow to +0; proved over the reals only)',
            'the size precondition of make_smax at its call site in solve_with_inequality (u and du both have m coefficients) needs Eigen size '
            'reasoning; there make_smax is an arbitrary side-effect-free double',
            'the residual definitions, the normalisation, the KKT system and the Newton step for GENERAL sizes and in floating point: with the matrix products '
            'EXPANDED they are checked over the reals at n <= 3, p <= 2, m <= 2 only (bounded stand-ins, never counted as proved); for every size only the '
            'coefficient-wise / reduction structure around the (uninterpreted) products is proved (generic.py); inside the CBMC protocol targets program_t::solve / '
            'solver_state_t::update / residual stay havoc of what they assign',
            'Eigen::FullPivLU itself (in its default configuration the reduced rows span the same solution set and are independent; note that for a rank-deficient '
            '[A | b] they are linear COMBINATIONS of the caller\'s rows, not a subset, so the returned v are multipliers of the transformed rows) and nano::stack: '
            'assumed contracts; ::reduce is walked for shapes, frame and the threshold configuration only',
            'the tolerances of the composition are stated with their arithmetic SIDE CONDITIONS instead of being derived from the property\'s magnitudes: epsilon dA <= '
            '1e-6 (1 + ||b_r||_inf) holds for the default epsilon = 1e-10 whenever ||A_r||_F <= 1e4 (property: <= 1e2 sqrt(132)) -- but epsilon2 dG <= 1e-6 (1 + ||h||_inf) '
            'does NOT follow from the magnitudes (epsilon2 = 1e-8, ||G||_F up to 1.8e3 with ||h||_inf down to 1e-2): what feasible() certifies about the inequalities '
            'is weaker than the property\'s tolerance; on the solve_with_inequality path the inequality clause follows instead from the interior-point invariant '
            '(G x - h < 0 exactly, over the reals); the caller-units clauses are about the residuals at the (x, u, v) program_t::update was handed (see the stale case above)',
            'the interior-point invariant in IEEE arithmetic (the strict test is evaluated on x + s1 dx, the advance computes x + s2 dx: proved over the reals only), '
            'and u > 0 at the boundary value s0 == 1 of the registered domain (0 < s0 <= 1): the backtracking may accept the full step to the boundary u_i = 0; '
            'u >= 0 still holds, ::make_smax then returns 0 and the iteration stalls -- nothing about `converged` is affected, default s0 = 0.999',
            'the multipliers (m_u, m_v) handed back are those of the NORMALISED, reduced program: the library does not un-scale them (caller\'s multipliers: '
            '(mufx / dG) u, (mufx / dA) v for the reduced rows); the property\'s bound carries the factor M for this reason, nothing is refuted',
            'a malformed inequality block (A.rows() != b.size(), or an empty one) is not valid(): solve() then silently ignores the inequalities and runs '
            'solve_without_inequality (decided as the dispatch rule, outside the property\'s quantifier)',
            'that the LDLT solution satisfies the KKT system to any accuracy (numeric; the Newton obligations assume it; solve_without_inequality checks it with '
            'isApprox, see swo_kkt)',
        ],
        'assumptions': [
            'Eigen / tensor operators are pure functions of their operands\' values (uninterpreted algebra over value identities); views (array(), '
            'matrix(), vector()) and copies / assignments denote the same value',
            'lpNorm<2>() >= 0 or NaN; rows()/size() >= 0',
            'program_t::solve writes only the mutable buffers m_lmat, m_lvec, m_ldlt, m_lsol; solver_state_t::update writes only m_kkt; '
            'solver_state_t::residual is a function of (m_rdual, m_rcent, m_rprim) (read off src/program/solver.cpp:121-145, state.cpp:18-63; '
            'arguments of solve are not translated)',
            'inside solve_with/without_inequality program_t::update is its contract (targets program_update_vec / _expr): fx = objn(Q, c, x) * m_mufx '
            'with objn ONE uninterpreted symbol, the other residual fields arbitrary, ghost record of the (x, u, v) it was called with',
            'Eigen::LDLT::info() is an arbitrary status (it says nothing about the residual of the computed solution)',
            'a write through a partial view (block / segment) makes the object an uninterpreted function of its old value and the written value',
            'program_t::feasible is a deterministic function of (A, b, G, h, state.m_x): implied by the contract proved in target program_feasible, '
            'used as one uninterpreted symbol inside solve_with_inequality',
            'parameters lie in their registered domains (solver.cpp:207-214): 0 < s0 <= 1, 1 < miu <= 1e6, 0 < alpha < 1, 0 < beta < 1, '
            '0 <= epsilon, epsilon0 <= 1e-3, 10 <= max_iters, max_lsearch_iters <= 1000',
            'IEEE facts, everything else about double + - * / uninterpreted: a * b for 0 <= b <= 1 lies between 0 and a (NaN stays NaN, +-inf times '
            'b > 0 stays), -a flips the sign exactly, a / b for a, b < 0 is >= 0 or NaN',
            'make_smax_real VCs: IEEE double treated as a real; precondition u > 0 componentwise (the interior-point invariant: established for the call site '
            'over the reals, bounded shapes, by specs/C04/invariant.py given s0 < 1)',
            'logger calls have no effect on the modelled state (dropped, including the program.feasible(state) evaluated only for logging)',
            'solver_status enumerators are pairwise distinct (values copied from include/nano/solver/status.h)',
            'dispatch targets: solve_with_inequality / solve_without_inequality are stubs that record the program / x0 they are handed and return an arbitrary '
            'state (their contracts are the targets above); the six-argument program_t constructor is its contract (target program_ctor, now also: reduce() is '
            'applied to the (A, b) handed in); linear_constrained_t::make_strictly_feasible returns an arbitrary optional vector; matrix_t{} is ONE fixed value '
            '(the empty matrix); copies of vectors / matrices keep the value identity',
            'bounded real obligations: double is treated as real; Eigen / nano tensor operators have their mathematical meaning and a right-hand side is '
            'evaluated before it is assigned (closed list: docstrings of specs/C06/eig.py, specs/C01/linalg.py, specs/C04/progwp.py: + matrix.size(), '
            'matrix.lpNorm<2>() = Frobenius norm, vector.lpNorm<Infinity>() = max |a_k|, block(r, c, nr, nc), col(k), asDiagonal(), M.array() /= s, assignment to an '
            'owning tensor resizes it); std::sqrt / lpNorm<2> through sqrt(u)^2 == u, sqrt(u) >= 0 for u >= 0',
            'bounded real obligations, stated preconditions: 1 < miu (registered domain), min_norm > 0 for ::normalize (obliged at its three call sites), '
            'Gx - h < 0 componentwise at the loop head of solve_with_inequality (the hypothesis of the Newton obligations; shown to be an inductive invariant over '
            'the reals at the same bounded shapes by specs/C04/invariant.py), m_lmat as the constructor leaves it when '
            'program_t::solve is entered (proved for the constructor, preserved by solve)',
            'bounded real obligations, callee contracts: reduce(A, b) leaves (A, b) untouched for p = 0 or full row rank and replaces them by SOME (A_r, b_r) with '
            '1 <= p_r < p rows otherwise; ::reduce(Ab) likewise (both now exactly the clauses proved in scaling.reduce_vcs / reduce.reduce1_vcs; the RANK itself is a '
            'scenario parameter); assumed contracts of dependencies: Eigen::FullPivLU in its DEFAULT configuration: rank() is the numerical rank with a threshold relative '
            'to the largest pivot (invariant under a positive rescaling of a row), 0 <= rank <= min(rows, cols), permutationP() / permutationQ() / matrixLU() are matrices '
            'of the decomposition\'s shapes, the reduced rows describe the same solution set; leftCols / topRows / triangularView<Mode> / toDenseMatrix / block / transpose '
            'have their Eigen shapes; nano::stack(rows, cols, A, b) is [A | b] (shape '
            'conditions obliged); Eigen::LDLT: compute(M) then solve(r) returns s with M s == r; the loop-head state of solve_with_inequality, the parameter '
            'values and the contents of freshly allocated buffers are arbitrary',
            'generic-coordinate obligations: double as real; the closed list of Eigen operations of specs/C06/eig.py; a matrix-vector product M * v is an '
            'uninterpreted array of length rows(M) determined by (M, transposed?, v) (Eigen::Product checked in the deduced type, inner dimensions obliged); '
            'finite sums: equal summands (up to commutativity of + and *) give equal sums, sums of non-negative summands are non-negative (specs/C06/vcgen.py)',
            'composition (compose.py): state.m_x is the x program_t::update was handed (data flow: CBMC target solve_with_inequality_res, with its exhausted-line-search '
            'case); nano::epsilon2<double>() is ONE arbitrary real constant (nothing is assumed about its value); the arithmetic side conditions epsilon dA <= 1e-6 '
            '(1 + ||b_r||_inf) and epsilon2 dG <= 1e-6 (1 + ||h||_inf) of the two *_tolerance clauses are hypotheses of exactly those clauses',
            'invariant.py / swo.py: std::isfinite, all_finite(), LDLT::rcond() / isPositive(), state.residual() are arbitrary values; program_t::update, '
            'solver_state_t::update, done() are their proved frames (fresh values for what they write), program_t::solve the clauses of newton.solve_vcs; '
            'Eigen isApprox(a, b, prec) <=> ||a - b||^2 <= prec^2 min(||a||^2, ||b||^2) (Eigen\'s documented definition for vectors); parameter values lie in '
            'their registered domains',
        ],
        'trusted': [],
    }


def replay(rp):
    """native scenarios of replay/C04_replay.cpp (src/program/solver.cpp is included verbatim by the driver to reach the private
    functions; everything else is the library built from the working tree), chosen by the refuted target:
      solver_done*               the verifier's (eta, |rdual|, |rprim|, epsilon) in a real state -> the REAL solver_t::done
      normalize / program_*      LP / QP with objective norm below the 1e-3 floor: reported fx against the objective at x
      solve_without_inequality   contradicting equalities, no inequalities: converged must not be reported
      solve_with_inequality_res  small QPs: residual fields of a converged state recomputed at the returned (x, u, v)
      reduce_rows[..]            a QP with two independent equality rows, as stated and with the rows rescaled (x 100, / 100): converged => the STATED
                                 rows hold within 1e-6 (1 + |b|_inf) and both statements return the same point"""
    import math
    import replaylib
    out = {'reproduced': False, 'runs': []}
    tgt = rp['target']
    if '/mut_C04_' in os.environ.get('NV_SCRATCH', '') or os.environ.get('NV_NO_NATIVE_REPLAY'):
        out['skipped'] = 'canary-mutation run / NV_NO_NATIVE_REPLAY'       # mutation loops: the native drivers rebuild the library
        return out
    scen = {'normalize': ['scale'], 'program_ctor': ['scale'], 'program_update_vec': ['scale'], 'program_update_expr': ['scale'],
            'solve_without_inequality': ['noineq'], 'solve_with_inequality_res': ['stale', '200']}
    if tgt.startswith('reduce_rows'):
        scen[tgt] = ['rescale']
    if not tgt.startswith('solver_done') and tgt not in scen:
        out['note'] = 'no native driver for this target: the replay file carries the verifier output only'
        return out
    exe = replaylib.build_with_library('replay/C04_replay.cpp', 'C04_replay')
    if tgt in scen:
        rc, so, se = replaylib.run_driver(exe, scen[tgt], timeout=600)
        out['runs'].append({'scenario': scen[tgt], 'exit': rc, 'output': so.strip()[-2500:]})
        out['reproduced'] = rc == 1
        return out
    cands = []
    for fo in rp['failed_obligations']:
        ce = fo.get('counterexample') or {}
        eps = next((v for k, v in ce.items() if k.endswith('epsilon')), None)
        eta = next((v for k, v in ce.items() if k.endswith('.m_eta')), None)
        norms = [v for k, v in ce.items() if 'return_value_nv_e_norm2' in k]
        if isinstance(eps, float) and isinstance(eta, float) and len(norms) >= 2:
            cands.append([eta, norms[-2], norms[-1], eps])
    cands += [[0.0, float('nan'), 0.0, 1e-10], [0.0, 0.0, float('nan'), 1e-10], [1.0, 0.0, 0.0, 1e-10], [0.0, 1.0, 0.0, 1e-10], [0.0, 0.0, 1.0, 1e-10]]
    for c in cands:
        # a 1-coefficient residual vector has norm |value|: negative "norms" cannot occur, NaN / non-negative ones can
        if any(isinstance(x, float) and not math.isnan(x) and x < 0 for x in c[1:3]):
            continue
        rc, so, se = replaylib.run_driver(exe, ['done'] + [repr(float(x)) for x in c])
        out['runs'].append({'eta_rdual_rprim_epsilon': [repr(x) for x in c], 'exit': rc, 'output': so.strip()[:600]})
        if rc == 1:
            out['reproduced'] = True
    return out
