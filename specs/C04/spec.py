"""C04: decision protocol of the primal-dual interior-point LP/QP solver (src/program/solver.cpp)."""
import os
import astload
from core import Fn, Target, VC
import hooks
from cxx2c import unwrap, strip_cv, qual

H = 'specs/C04/program.h'
VAL = 'struct nv_val'
TYPES = [(r'^nano::program::solver_state_t$', 'struct nv_pstate'),
         (r'^nano::program::solver_t::program_t$', 'struct nv_program'),
         (r'^nano::program::solver_t$', 'struct nv_solver'),
         (r'^nano::logger_t$', 'struct nv_logger'),
         (r'^nano::solver_status$', 'int32_t'),
         # every matrix / vector / Eigen expression / decomposition is an opaque value identity
         (r'^nano::(vector_t|matrix_t)$|^nano::tensor_t<nano::tensor_vector_storage_t, double, [12]>$|^Eigen::.*>$', VAL)]
# Eigen / tensor operators -> uninterpreted algebra over value identities
CALLS = [(r'^operator\*\|[^|]*\|double$', 'nv_e_scale({0}, {1})'),
         (r'^operator\*\|', 'nv_e_mul({0}, {1})'),
         (r'^operator/\|[^|]*\|double$', 'nv_e_sdiv({0}, {1})'),
         (r'^operator/\|', 'nv_e_div({0}, {1})'),
         (r'^operator\+\|', 'nv_e_add({0}, {1})'),
         (r'^operator-\|[^|]*\(\) const\|', 'nv_e_neg({0})'),
         (r'^operator-\|', 'nv_e_sub({0}, {1})'),
         (r'^operator\+=\|', '({0} = nv_e_add({0}, {1}))'),
         (r'^operator=\|', '({0} = nv_e_same({1}))'),
         (r'^isfinite\|', 'nv_isfinite({0})'),
         (r'^epsilon2\|', 'nv_epsilon2()'),
         (r'^max\|double \(initializer_list<double>\)', '@fold:nv_fmax'),
         (r'^min\|const double &', 'nv_fmin({0}, {1})'), (r'^max\|double \(\) noexcept', 'nv_dbl_max()'),
         (r'^done\|', 'solver_done'),
         (r'^make_smax\|', 'make_smax'),
         (r'^zero\|', 'nv_e_zero({0})'), (r'^constant\|', 'nv_e_nan({0})'), (r'^operator\(\)\|', 'nv_vec_at({&0}, {1})'),
         (r'^ctor\|nano::tensor_t<nano::tensor_vector_storage_t, double, 1>\|void \(long', 'nv_fresh()'),
         (r'^ctor\|nano::tensor_t<nano::tensor_vector_storage_t, double, [12]>\|void \(const Eigen::', 'nv_e_same({0})'),
         (r'^ctor\|nano::program::solver_state_t\|void \((const )?(long|nano::tensor_size_t)', 'pstate_ctor_value({0}, {1}, {2})')]
MEMBERS = [(r'^(info|warn|error)\|nano::logger_t', '@drop'),
           (r'^feasible\|nano::program::solver_t::program_t', 'program_feasible'),
           (r'^(n|p|m)\|nano::program::solver_t::program_t', None),   # placeholder, replaced below
           (r'^solve\|nano::program::solver_t::program_t', 'nv_program_solve({self})'),
           (r'^update\|nano::program::solver_t::program_t', '({4} = nv_program_updated({4}))'),
           (r'^update\|nano::program::solver_state_t', '({obj}.m_kkt = nv_kkt_value())'),
           (r'^residual\|nano::program::solver_state_t', 'nv_pstate_residual'),
           (r'^(array|matrix|vector|transpose|asDiagonal)\|', 'nv_e_same({obj})'),
           (r'^lpNorm\|', 'nv_e_norm2({obj})'),
           (r'^maxCoeff\|', 'nv_e_maxcoeff({obj})'),
           (r'^(rows|size)\|', 'nv_e_rows({obj})'),
           (r'^all_finite\|', 'nv_e_all_finite({obj})'),
           (r'^isApprox\|', 'nv_e_isapprox({obj}, {0}, {1})'),
           (r'^segment\|', 'nv_e_segment({obj}, {0}, {1})'),
           (r'^rcond\|', '@nondet'), (r'^isPositive\|', '@nondet')]
MEMBERS = [m for m in MEMBERS if m[1] is not None]
MEMBERS[2:2] = [(r'^n\|nano::program::solver_t::program_t', 'nv_program_n'), (r'^p\|nano::program::solver_t::program_t', 'nv_program_p'),
                (r'^m\|nano::program::solver_t::program_t', 'nv_program_m')]


def _opcall(n, name):
    """operands of `a <op> b` written with an overloaded operator (looking through temporaries / no-op casts), else None"""
    u = unwrap(n)
    if u.get('kind') != 'CXXOperatorCallExpr':
        return None
    if unwrap(u['inner'][0]).get('referencedDecl', {}).get('name') != name:
        return None
    return u['inner'][1:]


def _is_double(n):
    return strip_cv(qual(n.get('type'))) == 'double'


def _scaled(n):
    """(s, D) if n is `s * D` with a scalar s, else None"""
    a = _opcall(n, 'operator*')
    if a is None or len(a) != 2 or not _is_double(a[0]) or _is_double(a[1]):
        return None
    return a


def strict_test_hook(P, n):
    """(G * (X + s * D) - h).maxCoeff()  ->  nv_maxcoeff_affine_along(G, X, s, D, h): same uninterpreted value as the generic
    algebra, plus the ghost record of where the strict-feasibility test was evaluated.  Any other shape falls through."""
    if n.get('kind') != 'CXXMemberCallExpr' or n['inner'][0].get('kind') != 'MemberExpr' or n['inner'][0].get('name') != 'maxCoeff':
        return None
    sub = _opcall(n['inner'][0]['inner'][0], 'operator-')
    if sub is None or len(sub) != 2:
        return None
    mul = _opcall(sub[0], 'operator*')
    if mul is None or len(mul) != 2 or _is_double(mul[0]):
        return None
    add = _opcall(mul[1], 'operator+')
    if add is None or len(add) != 2:
        return None
    sc = _scaled(add[1])
    if sc is None:
        return None
    P.note('(G * (X + s * D) - h).maxCoeff() -> nv_maxcoeff_affine_along')
    return f'nv_maxcoeff_affine_along({P.expr(mul[0])}, {P.expr(add[0])}, {P.expr(sc[0])}, {P.expr(sc[1])}, {P.expr(sub[1])})'


def advance_hook(P, n):
    """X += s * D  ->  X = nv_advanced(X, s, D): same uninterpreted value as the generic algebra (X + s * D), plus the
    ghost history of in-place advances.  Any other shape falls through to the generic `+=`."""
    if n.get('kind') != 'CXXOperatorCallExpr':
        return None
    a = _opcall(n, 'operator+=')
    if a is None or len(a) != 2:
        return None
    sc = _scaled(a[1])
    if sc is None:
        return None
    P.note('X += s * D -> nv_advanced')
    x = P.expr(a[0])
    return f'({x} = nv_advanced({x}, {P.expr(sc[0])}, {P.expr(sc[1])}))'


HOOKS = [hooks.param_hook(), strict_test_hook, advance_hook]
FEAS_ABS = [(r'^feasible\|nano::program::solver_t::program_t', 'nv_program_feasible_abs')]
COMMON = dict(types=TYPES, calls=CALLS, members=MEMBERS, hooks=HOOKS)
TU = 'src/program/solver.cpp'


def build(tier):
    feas = lambda: Fn('program_feasible', TU, 'feasible', flt='program_t::feasible', self_struct='struct nv_program', **COMMON)
    done = lambda: Fn('solver_done', TU, 'done', flt='solver_t::done', **COMMON)
    ctor = lambda: Fn('pstate_ctor', 'src/program/state.cpp', 'solver_state_t', flt='solver_state_t::solver_state_t',
                      select=lambda d: len(astload.param_types(d)) == 3, self_struct='struct nv_pstate', **COMMON)
    smax = lambda: Fn('make_smax', TU, 'make_smax', flt='make_smax', **COMMON)
    swi = lambda cname='solve_with_inequality': Fn(cname, TU, 'solve_with_inequality', flt='solver_t::solve_with_inequality', self_struct='struct nv_solver',
                     **dict(COMMON, calls=[(r'^make_smax\|', 'nv_make_smax_any')] + CALLS))
    swo = lambda: Fn('solve_without_inequality', TU, 'solve_without_inequality', flt='solver_t::solve_without_inequality', self_struct='struct nv_solver', **COMMON)
    done_abs = lambda: Fn('solver_done', TU, 'done', flt='solver_t::done', **dict(COMMON, members=FEAS_ABS + MEMBERS))
    targets = [
        Target('program_feasible', [feas()], H),
        Target('solver_done', [done(), feas()], H, replace=['program_feasible']),
        Target('solver_done_nan', [Fn('solver_done_nan', TU, 'done', flt='solver_t::done', **COMMON), feas()], H, replace=['program_feasible']),
        Target('pstate_ctor', [ctor()], H),
        Target('make_smax', [smax()], H),
        # done() is inlined (its own contract is target solver_done); inside it program_t::feasible is the abstract function
        Target('solve_with_inequality', [swi(), done_abs(), ctor()], H),
        Target('solve_with_inequality_adv', [swi('solve_with_inequality_adv'), done_abs(), ctor()], H),
        Target('solve_without_inequality', [swo(), ctor()], H),
    ]
    return {
        'targets': targets, 'vcs': [],
        'decided': [],
        'not_decided': [],
        'assumptions': [],
        'trusted': [],
    }
