"""C04, part 9: solver_t::solve_without_inequality over the reals (BOUNDED shapes): what the `aprox` test certifies.

The function is walked from its entry on an arbitrary held program (Q or none, c, A, b; no inequalities).  program_t::solve is replaced by the clauses
proved for it (newton.solve_vcs: m_lmat = [[Q - hessvar, A'], [A, 0]], m_lvec = (-rdual, -rprim), m_lsol = whatever the LDLT returned -- here
DELIBERATELY without the assumed contract `K s == r` of Eigen::LDLT: the point of the `aprox` test is to check the solution), program_t::update /
solver_state_t::update by their frames, std::isfinite(residual) is an arbitrary boolean `valid`, and
    Eigen isApprox(a, b, prec)   <=>   ||a - b||^2 <= prec^2 * min(||a||^2, ||b||^2)          (ASSUMED contract of the dependency: Eigen's definition)
Obligations:
    swo_solution   the returned x / v are the first n / last p coefficients of the ONE vector the test looks at (m_lsol)
    swo_status     converged <=> valid && aprox, failed <=> !valid, unfeasible otherwise, with aprox restated independently on the held program:
                   ||K (x, v) - (-c, b)||^2 <= epsilon2^2 min(||K (x, v)||^2, ||(c, b)||^2),  K = [[Q, A'], [A, 0]]
    swo_lemma      K (x, v) - (-c, b) == (Q x + c + A'v, A x - b): the vector tested is the KKT residual (rdual, rprim) of the held program at the returned point
    swo_kkt        converged ==> ||(Q x + c + A'v, A x - b)||_2^2 <= epsilon2^2 (||c||^2 + ||b||^2): the returned (x, v) satisfies the KKT system of the
                   normalised program within epsilon2 relative to its right-hand side (in particular every equality row within epsilon2 sqrt(||c||^2 + ||b||^2))
The CBMC target solve_without_inequality proves the same status rule with isApprox / isfinite uninterpreted, and that exactly one linear solve happens."""
import astload
from nvwp import V, Unsupported
from cxx2c import unwrap
from linalg import Vcg, AV, MV, t_matvec, conj, eqs, rsum
from eig import lit_int, rmin
import residuals
import newton
import compose
import invariant
from invariant import StepWP
from residuals import fninfo, line_of, vsub

TU = residuals.TU
FLT = residuals.FLT


def sq(ts):
    return rsum([f'(* {t} {t})' for t in ts])


def h_isapprox(wp, node, args, obj):
    a, b = wp.ev(obj), wp.ev(args[0])
    if not isinstance(a, AV) or not isinstance(b, AV) or len(a.c) != len(b.c) or len(args) != 2:
        raise Unsupported(f'{wp.name}: isApprox on something that is not a pair of vectors of one length plus a precision')
    prec = wp.conv(wp.ev(args[1]), 'Real', 'double').t
    d = [f'(- {x} {y})' for x, y in zip(a.c, b.c)]
    wp.approx = getattr(wp, 'approx', []) + [(list(a.c), list(b.c), prec)]
    return V(f'(<= {sq(d)} (* (* {prec} {prec}) {rmin(sq(a.c), sq(b.c))}))', 'Bool', 'bool')


def h_zero(wp, node, args, callee):
    dims = [lit_int(wp.ev(a).t) for a in args]
    if any(d is None for d in dims) or len(dims) not in (1, 2):
        raise Unsupported(f'{wp.name}: zero(..) with symbolic dimensions')
    if len(dims) == 1:
        return AV(['0.0'] * dims[0], str(dims[0]))
    r = MV([['0.0'] * dims[1] for _ in range(dims[0])])
    r.cols = dims[1]
    return r


MEMBERS = [(r'^isApprox\|', h_isapprox)]
CALLS = [(r'^zero\|', h_zero)] + compose.CALLS


def swo_vcs(n, p, hasQ, info):
    path = astload.REPO + '/' + TU
    fn = astload.find_definition(TU, FLT, 'solve_without_inequality')
    wp = StepWP(f'swo[n={n},p={p},{"QP" if hasQ else "LP"}]')
    wp.members = residuals.PROGRAM_GETTERS + MEMBERS + invariant.MEMBERS + list(wp.members)
    wp.calls = CALLS + invariant.CALLS + list(wp.calls)
    keys = [k for k, _ in wp.bind_params(fn)]
    kprog = keys[0]
    P = residuals.bind_program(wp, n, p, 0, hasQ, prefix=kprog + '.')
    newton.bind_buffers(wp, kprog + '.', P['A'], n, p)
    wp.default_file, wp.guard, wp.returns, wp.ret_sort = path, 'true', 0, None
    wp.tu = path
    body = [c for c in fn['inner'] if c['kind'] == 'CompoundStmt'][0]['inner']
    for st in body:
        if st.get('kind') == 'DeclStmt':
            try:
                newton.bind_prefix(wp, [st], kprog)
                if getattr(wp, 'state_name', None) and f'{wp.state_name}.m_iters' not in wp.env:
                    invariant.bind_state_extras(wp)
                continue
            except Unsupported:
                pass
        wp.ex(st)
        if wp.guard == 'false':
            break
    st = getattr(wp, 'state_name', None)
    if st is None or len(wp.rets) != 1:
        raise Unsupported(f'{wp.name}: no state local / {len(wp.rets)} return paths')
    info.append(fninfo('swo[reals]', 'nano::program::solver_t::solve_without_inequality', path, fn))
    line = line_of(fn)
    g = Vcg(wp, wp.name, bound=f'n = {n}, p = {p}', path=path)
    out = g.from_wp()
    enum = {nm: val for (ty, nm), val in wp.enums.items() if ty.endswith('solver_status')}
    approx = getattr(wp, 'approx', [])
    ok = {'converged', 'failed', 'unfeasible'} <= set(enum) and len(approx) == 1 and getattr(wp, 'nsolve', 0) == 1
    out.append(g.vc('swo_shape: one KKT solve, one isApprox test, the three statuses converged / failed / unfeasible', [], 'true' if ok else 'false',
                    about=f'solves: {getattr(wp, "nsolve", 0)}, isApprox: {len(approx)}, statuses: {sorted(enum)}', line=line))
    if not ok:
        return out + [g.canary()]
    x, v = list(wp.env[f'{st}.m_x'].c), list(wp.env[f'{st}.m_v'].c)
    sol = list(wp.env[kprog + '.m_lsol'].c)
    out.append(g.vc('swo_solution: the returned x / v are the first n / last p coefficients of the vector the test looks at (m_lsol)', [],
                    conj([eqs(x, sol[:n]), eqs(v, sol[n:])]) if (len(x), len(v)) == (n, p) else 'false', line=line))
    zero = [['0.0'] * n for _ in range(n)]
    K = newton.kkt_matrix(P['Q'] if hasQ else None, zero, P['A'], n, p)
    rhs = [f'(- {t})' for t in P['c']] + [f'(- (- {t}))' for t in P['b']]
    Ks = t_matvec(K, x + v)
    eps2 = 'epsilon2'
    if '(declare-const epsilon2 Real)' not in wp.decls:
        wp.decls.append('(declare-const epsilon2 Real)')
    got = approx[0]
    # Eigen's isApprox is symmetric in its two operands (squared distance, min of the squared norms): either order is the same test
    swapped = got[0] == rhs and got[1] == Ks
    first, second, sign = (rhs, Ks, '-') if swapped else (Ks, rhs, '')
    d = [f'(- {a} {b_})' for a, b_ in zip(first, second)]
    aprox = f'(<= {sq(d)} (* (* {eps2} {eps2}) {rmin(sq(first), sq(second))}))'
    status = wp.env[f'{st}.m_status'].t
    valid = [t for t in wp.decls if 'isfinite' in t]
    vname = valid[-1].split()[1] if valid else None
    if vname is None or len(valid) != 1:
        out.append(g.vc('swo_status: `valid` is one std::isfinite test of the residual', [], 'false', line=line))
        return out + [g.canary()]
    rule = conj([f'(= (= {status} {enum["converged"]}) (and {vname} {aprox}))', f'(= (= {status} {enum["failed"]}) (not {vname}))',
                 f'(= (= {status} {enum["unfeasible"]}) (and {vname} (not {aprox})))'])
    # the decision does not depend on what the compared squared norms are made of
    ab = list(dict.fromkeys([sq(d), sq(first), sq(second)]))
    same = conj([eqs(got[0], first), eqs(got[1], second), f'(= {got[2]} {eps2})'])
    out.append(g.vc('swo_operands: the vectors compared are m_lmat * m_lsol = K (x, v) and m_lvec = (-c, b) (in either order), with precision epsilon2', [], same, line=line))
    # generalise the squared norms only when the code's operands print like the restatement (otherwise the identity of the two is part of the claim)
    literal = got[0] == first and got[1] == second
    out.append(g.vc('swo_status: converged <=> valid && aprox, failed <=> !valid, unfeasible otherwise (aprox: ||K (x, v) - (-c, b)||^2 <= epsilon2^2 '
                    'min(||K (x, v)||^2, ||(c, b)||^2))', [], rule, line=line, abstract=(ab, 'sq') if literal else None, timeout=60))
    tb = residuals.textbook(dict(P, G=[], h=[]), x, [], v, n, p, 0, hasQ)
    res = list(tb['rdual']) + list(tb['rprim'])
    lem = eqs(d, [f'(- {t})' for t in res] if swapped else res)
    out.append(g.vc('swo_lemma: K (x, v) - (-c, b) == (Q x + c + A\'v, A x - b): the vector tested is the KKT residual of the held program at the returned point', [],
                    lem, line=line))
    cb = sq(P['c'] + P['b'])
    lem2 = f'(= {sq(rhs)} {cb})'
    out.append(g.vc('swo_lemma_rhs: ||(-c, b)||^2 == ||c||^2 + ||b||^2', [], lem2, line=line))
    out.append(g.vc('swo_kkt: converged ==> ||(Q x + c + A\'v, A x - b)||_2^2 <= epsilon2^2 (||c||^2 + ||b||^2): the returned (x, v) satisfies the KKT system of the '
                    'held program within epsilon2 relative to its right-hand side', [rule, f'(= {sq(d)} {sq(res)})', lem2],
                    f'(=> (= {status} {enum["converged"]}) (<= {sq(res)} (* (* {eps2} {eps2}) {cb})))', line=line,
                    abstract=(list(dict.fromkeys([sq(d), sq(Ks), sq(rhs), sq(res), cb])), 'sq')))
    out.append(g.vc('swo_lemma_sq: the squared norms of equal (or opposite) vectors are equal', [lem], f'(= {sq(d)} {sq(res)})', line=line,
                    abstract=(list(dict.fromkeys(d + res)), 'e')))
    out.append(g.canary())
    return out


def jobs(tier, shapes, info):
    out = []
    quick = [(2, 1, True)]
    for (n, p) in sorted({(n, p) for n, p, _ in shapes}):
        for hasQ in (True, False):
            if tier != 'thorough' and (n, p, hasQ) not in quick:
                continue
            out.append((lambda a=(n, p, hasQ): swo_vcs(*a, info), f'solve_without_inequality {(n, p, hasQ)}'))
    return out
