"""C04, part 3: the NORMALISATION of the program (src/program/solver.cpp: ::normalize, program_t::program_t) over the reals, at small concrete
shapes (BOUNDED stand-ins), and what it means for the values reported back to the caller.

::normalize(A, b, min_norm)   walked on a symbolic r x c matrix and r-vector:
    factor      the returned d is max(min_norm, ||A||_F, ||b||_2) (for (Q, c): the property's M = max(1e-3, ||Q||_F, ||c||_2)) and d >= min_norm > 0
    scaled      d * A'_ij == A_ij and d * b'_i == b_i: BOTH members of the pair are divided by the returned factor
    same set    for every x and every row i:  (A'x)_i = b'_i <=> (Ax)_i = b_i,  (A'x)_i <= b'_i <=> (Ax)_i <= b_i,  (A'x)_i < b'_i <=> (Ax)_i < b_i
                (the feasible set, and the STRICTLY feasible set the interior-point iterates live in, are those of the caller's rows)
    objective   square A (= Q): d * (1/2 x'A'x + b'.x) == 1/2 x'Ax + b.x, and the order of any two points is the same: same minimisers
program_t(Q, c, A, b, G, h)   walked initialiser by initialiser (in clang's initialisation order) and statement by statement, with ::normalize
    replaced by exactly the clauses above and reduce(A, b) by its ASSUMED contract (some (A_r, b_r) with p_r <= p rows; untouched when p = 0):
    held program   m_mufx == M(1e-3; Q, c) >= 1e-3 (floor = the default argument read from the source), m_Q = Q / m_mufx, m_c = c / m_mufx,
                   (m_A, m_b) = (A_r, b_r) / dA, (m_G, m_h) = (G, h) / dG with dA, dG >= 1e-3: one POSITIVE factor per constraint block, the
                   right-hand side scaled with its rows; same (strictly) feasible set as (A_r, b_r), (G, h), row by row
    KKT matrix     the off-diagonal blocks of m_lmat are m_A' and m_A, the lower-right block is 0 (what program_t::solve relies on)
program_t::update on the program the constructor built (the two walks share one environment), at arbitrary (x, u, v):
    reported fx    state.m_fx == 1/2 x'Qx + c'x in the CALLER's (Q, c): the factor multiplied back is the factor divided by
    residuals in the caller's units: with u~ = (m_mufx / dG) u, v~ = (m_mufx / dA) v
                   m_mufx * rdual == Qx + c + G'u~ + A_r'v~      (gradient of the caller's Lagrangian)
                   dA * rprim == A_r x - b_r,   m_mufx * eta == -u~'(Gx - h)
    i.e. the multipliers the state stores are those of the NORMALISED program; the caller's are u~, v~ (the library does not un-scale them;
    the property's bound carries the factor M for exactly this reason)."""
import astload
from nvwp import V, Unsupported, real_lit
from cxx2c import unwrap, strip_cv, qual
from progwp import ProgWP
from linalg import Vcg, AV, MV, t_dot, t_matvec, t_transpose, conj, eqs, rsum, real_of
from eig import rmax, lit_int
import residuals
from residuals import fninfo, line_of, vsub, vadd

TU = 'src/program/solver.cpp'
NORM_FLT = 'normalize'
FLT = residuals.FLT


FLOOR = real_lit(1e-3)          # the property's floor 1e-3, as the double the source literal denotes


def normalize_decl():
    return astload.find_definition(TU, NORM_FLT, 'normalize', lambda d: len(astload.param_types(d)) == 3)


def fro(M, b):
    return (f'(nv_sqrt {rsum([f"(* {t} {t})" for r in M for t in r])})', f'(nv_sqrt {rsum([f"(* {t} {t})" for t in b])})')


def M_term(min_norm, M, b):
    fa, fb = fro(M, b)
    return rmax(rmax(min_norm, fa), fb)


def rows_same(A1, b1, A0, b0, x, rel):
    return conj([f'(= ({rel} {t_dot(r1, x)} {y1}) ({rel} {t_dot(r0, x)} {y0}))' for r1, y1, r0, y0 in zip(A1, b1, A0, b0)])


# ------------------------------------------------------------------------------------------------- ::normalize
def walk_normalize(rows, cols):
    fn = normalize_decl()
    wp = ProgWP(f'normalize[{rows}x{cols}]')
    keys = [k for k, _ in wp.bind_params(fn)]
    if len(keys) != 3:
        raise Unsupported(f'{wp.name}: {len(keys)} parameters')
    kA, kb, km = keys
    A0 = [list(r) for r in wp.mat(kA, 'A', rows, cols).m]
    b0 = list(wp.vec(kb, 'b', rows).c)
    wp.scalar(km, 'min_norm')
    rets = []
    wp.post = lambda w, rv: (rets.append((w.guard, rv)), [])[1]
    wp.run(fn, astload.REPO + '/' + TU)
    if len(rets) != 1 or rets[0][0] != 'true' or rets[0][1] is None:
        raise Unsupported(f'{wp.name}: not a single return')
    return wp, fn, A0, b0, [list(r) for r in wp.env[kA].m], list(wp.env[kb].c), rets[0][1].t


def normalize_vcs(rows, cols, info):
    path = astload.REPO + '/' + TU
    wp, fn, A0, b0, A1, b1, d = walk_normalize(rows, cols)
    line = line_of(fn)
    info.append(fninfo('normalize[reals]', '::normalize', path, fn))
    g = Vcg(wp, wp.name, hyps=['(> min_norm 0.0)'], bound=f'{rows} x {cols} matrix', path=path)
    out = g.from_wp()
    out.append(g.vc('factor: the returned factor is max(min_norm, ||A||_F, ||b||_2) and >= min_norm', [],
                    f'(and (= {d} {M_term("min_norm", A0, b0)}) (>= {d} min_norm))', line=line))
    sc = conj([f'(= (* {d} {y}) {x})' for ra, rb in zip(A1, A0) for y, x in zip(ra, rb)] + [f'(= (* {d} {y}) {x})' for y, x in zip(b1, b0)])
    out.append(g.vc('scaled: A and b are BOTH divided by the returned factor', [], sc, line=line))
    if rows:
        xs = [wp.leaf('x', k) for k in range(cols)]
        # the claims below hold for ANY positive factor: the factor is generalised to an arbitrary real >= min_norm
        ab = ([d], 'factor')
        for rel, what in (('=', 'equalities'), ('<=', 'inequalities'), ('<', 'strict inequalities')):
            out.append(g.vc(f'same set ({what}): every scaled row holds at x exactly when the caller\'s row does', [f'(>= {d} min_norm)'],
                            rows_same(A1, b1, A0, b0, xs, rel), line=line, abstract=ab))
    if rows == cols and rows:
        xs, ys = [wp.leaf('x', k) for k in range(cols)], [wp.leaf('y', k) for k in range(cols)]
        f = lambda Q, c, z: f'(+ (* 0.5 {t_dot(z, t_matvec(Q, z))}) {t_dot(z, c)})'
        ab = ([d], 'factor')
        out.append(g.vc('objective: factor * (1/2 x\'A\'x + b\'.x) == 1/2 x\'Ax + b.x', [f'(>= {d} min_norm)'],
                        f'(= (* {d} {f(A1, b1, xs)}) {f(A0, b0, xs)})', line=line, abstract=ab))
        out.append(g.vc('objective: the scaled objective orders any two points like the caller\'s (same minimisers)', [f'(>= {d} min_norm)'],
                        f'(= (<= {f(A1, b1, xs)} {f(A1, b1, ys)}) (<= {f(A0, b0, xs)} {f(A0, b0, ys)}))', line=line, abstract=ab))
    out.append(g.canary())
    return out


# ------------------------------------------------------------------------------------------------- callee contracts at call sites
def h_normalize(wp, node, args, callee):
    """::normalize(A, b[, min_norm]) by EXACTLY the clauses proved in normalize_vcs: a fresh factor d with d == max(min_norm, ||A||_F, ||b||_2)
    (wp.norm_defs) and d >= min_norm (wp.norm_props); A and b divided by d.  Obliges min_norm > 0."""
    if len(args) != 3:
        raise Unsupported(f'{wp.name}: normalize with {len(args)} arguments')
    kA, kb = wp.key_of(args[0]), wp.key_of(args[1])
    A, b = wp.env.get(kA), wp.env.get(kb)
    if not isinstance(A, MV) or not isinstance(b, AV):
        raise Unsupported(f'{wp.name}: normalize on something that is not a stored (matrix, vector)')
    u = args[2]
    while u.get('kind') in ('ExprWithCleanups', 'MaterializeTemporaryExpr', 'ImplicitCastExpr') and u.get('inner'):
        u = u['inner'][0]
    if u.get('kind') == 'CXXDefaultArgExpr':
        prm = [c for c in normalize_decl()['inner'] if c.get('kind') == 'ParmVarDecl'][2]
        init = [c for c in prm.get('inner', []) if c.get('kind') != 'FullComment']
        if not init:
            raise Unsupported(f'{wp.name}: normalize: the default of min_norm is not in the dump')
        mn = real_of(wp, wp.ev(init[0]))
    else:
        mn = real_of(wp, wp.ev(args[2]))
    wp.oblige('precondition of ::normalize: min_norm > 0', f'(> {mn} 0.0)', node)
    wp.ncalls = getattr(wp, 'ncalls', 0) + 1
    d = wp.const(f'|factor#{wp.ncalls}|', 'Real', 'double').t
    wp.norm_defs = getattr(wp, 'norm_defs', []) + [f'(= {d} {M_term(mn, A.m, b.c)})']
    wp.norm_props = getattr(wp, 'norm_props', []) + [f'(>= {d} {mn})']
    wp.norm_calls = getattr(wp, 'norm_calls', []) + [dict(d=d, min_norm=mn, keyA=kA, keyb=kb, A0=[list(r) for r in A.m], b0=list(b.c))]
    newA = MV([[f'(/ {t} {d})' for t in r] for r in A.m])
    newA.cols = A.cols
    wp.env[kA], wp.env[kb] = newA, AV([f'(/ {t} {d})' for t in b.c], b.n)
    for k in (kA, kb):
        wp.ver[k] = wp.ver.get(k, 0) + 1
    wp.written = getattr(wp, 'written', set()) | {kA, kb}
    return V(d, 'Real', 'double')


def h_reduce(wp, node, args, callee):
    """nano::program::reduce(A, b) (src/program/util.cpp) by the clauses of reduce_vcs / reduce.reduce1_vcs: (A, b) are untouched without rows or when
    the scenario rank wp.reduced_rows equals p, else they become some (A_r, b_r) with wp.reduced_rows < p rows and the same columns (that these span
    the same solution set is the ASSUMED contract of Eigen::FullPivLU in its default configuration; no obligation here uses it)"""
    kA, kb = wp.key_of(args[0]), wp.key_of(args[1])
    A, b = wp.env.get(kA), wp.env.get(kb)
    if not isinstance(A, MV) or not isinstance(b, AV) or A.rows != len(b.c):
        raise Unsupported(f'{wp.name}: reduce on something that is not a stored (matrix, vector) with matching rows')
    if A.rows == 0:
        return V('false', 'Bool', 'bool')
    pr = wp.reduced_rows
    if not (1 <= pr <= A.rows):
        raise Unsupported(f'{wp.name}: reduce to {pr} rows')
    if pr == A.rows:
        # [A | b] of full row rank: (A, b) are handed back unchanged (obligations `full rank` of reduce.reduce1_vcs and of reduce_vcs below)
        wp.reduced = (kA, kb)
        return V('true', 'Bool', 'bool')
    n = A.cols
    wp.env[kA] = MV([[wp.leaf(f'Ar_{r}_{c}', 'e') for c in range(n)] for r in range(pr)])
    wp.env[kb] = AV([wp.leaf('br', r) for r in range(pr)], str(pr))
    for k in (kA, kb):
        wp.ver[k] = wp.ver.get(k, 0) + 1
    wp.written = getattr(wp, 'written', set()) | {kA, kb}
    wp.reduced = (kA, kb)
    return V('true', 'Bool', 'bool')


CALLS = [(r'^normalize\|', h_normalize), (r'^reduce\|bool \(nano::matrix_t &, nano::vector_t &\)', h_reduce), (r'^move\|', lambda w, n, a, c: w.ev(a[0]))]


# ------------------------------------------------------------------------------------------------- program_t::program_t
def tensor_rank(t):
    import re
    if t in ('nano::matrix_t', 'nano::vector_t'):
        return 2 if t == 'nano::matrix_t' else 1
    m_ = re.fullmatch(r'(?:nano::)?tensor_t<(?:nano::)?tensor_vector_storage_t, double, ([12])>', t)
    return int(m_.group(1)) if m_ else None


def run_ctor(wp, ctor, path):
    """member initialisers in clang's (= execution) order, then the body"""
    wp.default_file, wp.guard, wp.returns, wp.ret_sort = path, 'true', 0, None
    for ini in ctor['inner']:
        if ini.get('kind') != 'CXXCtorInitializer':
            continue
        if 'anyInit' not in ini:
            raise Unsupported(f'{wp.name}: base / delegating initialiser')
        key = 'self.' + ini['anyInit']['name']
        e = ini['inner'][0]
        t = strip_cv(qual(e.get('type')))
        args = e.get('inner', []) if e.get('kind') == 'CXXConstructExpr' else None
        if args is None:
            s, c = wp.sort_of(e['type'])
            wp.env[key] = wp.conv(wp.ev(e), s, c)
        elif t.endswith('reducer_t') and len(args) == 2:
            rc = astload.find_definition(TU, 'reducer_t', 'reducer_t', lambda d: len(astload.param_types(d)) == 2, kinds=('CXXConstructorDecl',))
            names = [p_['name'] for p_ in rc['inner'] if p_.get('kind') == 'ParmVarDecl']
            saved = dict(wp.alias)
            for nm, a in zip(names, args):
                wp.alias[nm] = wp.key_of(a)              # reference parameters: other names of the members handed in
            if any(x.get('kind') == 'CXXCtorInitializer' for x in rc['inner']):
                raise Unsupported(f'{wp.name}: reducer_t constructor with member initialisers')
            wp.ex([c for c in rc['inner'] if c['kind'] == 'CompoundStmt'][0])
            wp.alias = saved
        elif t.endswith('reducer_t') and not args:
            pass                                          # reducer_t() = default: no reduction
        elif tensor_rank(t) and len(args) == 1 and not wp.is_int(args[0]):
            v = wp.ev(e)
            if isinstance(v, MV):
                wp.env[key] = MV(v.m)
                wp.env[key].cols = v.cols
            elif isinstance(v, AV):
                wp.env[key] = AV(v.c, v.n)
            else:
                raise Unsupported(f'{wp.name}: {key} initialised with a non-tensor')
            wp.ver[key] = 0
        elif tensor_rank(t) == 2 and len(args) == 2:
            r, c = lit_int(wp.ev(args[0]).t), lit_int(wp.ev(args[1]).t)
            if r is None or c is None:
                raise Unsupported(f'{wp.name}: {key}(rows, cols) with symbolic dimensions')
            wp.mat(key, key[5:] + '0', r, c)              # allocated, not initialised: arbitrary coefficients
        elif tensor_rank(t) == 1 and len(args) == 1:
            k = lit_int(wp.ev(args[0]).t)
            if k is None:
                raise Unsupported(f'{wp.name}: {key}(size) with a symbolic size')
            wp.vec(key, key[5:] + '0', k)
        elif not args:
            pass                                          # default-constructed buffer (m_ldlt)
        else:
            raise Unsupported(f'{wp.name}: initialiser of {key}: {t} with {len(args)} arguments')
    wp.ex([c for c in ctor['inner'] if c['kind'] == 'CompoundStmt'][0])
    if wp.guard == 'false':
        raise Unsupported(f'{wp.name}: the constructor body returns early')


def walk_ctor(n, p, m, hasQ, pr):
    ctor = astload.find_definition(TU, FLT, 'program_t', lambda d: len(astload.param_types(d)) == 6, kinds=('CXXConstructorDecl',))
    wp = ProgWP(f'program_ctor[n={n},p={p}->{pr},m={m},{"QP" if hasQ else "LP"}]')
    wp.calls = CALLS + list(wp.calls)
    wp.members = residuals.PROGRAM_GETTERS + list(wp.members)
    wp.reduced_rows = pr
    keys = [k for k, _ in wp.bind_params(ctor)]
    if len(keys) != 6:
        raise Unsupported(f'{wp.name}: {len(keys)} parameters')
    P = residuals.bind_program(wp, n, p, m, hasQ, prefix='')
    ren = dict(zip(('m_Q', 'm_c', 'm_A', 'm_b', 'm_G', 'm_h'), keys))
    for std, k in ren.items():                               # parameters are bound under their own names, whatever they are called
        if k != std:
            wp.env[k] = wp.env.pop(std)
            wp.ver[k] = wp.ver.pop(std)
    run_ctor(wp, ctor, astload.REPO + '/' + TU)
    return wp, ctor, P


def held(wp):
    E = wp.env
    return dict(Q=[list(r) for r in E['self.m_Q'].m], c=list(E['self.m_c'].c), A=[list(r) for r in E['self.m_A'].m], b=list(E['self.m_b'].c),
                G=[list(r) for r in E['self.m_G'].m], h=list(E['self.m_h'].c))


def run_update(wp, head, n, q, m, path):
    """program_t::update<head..> walked in the environment `wp` already holds (the program the constructor built), at arbitrary (x, u, v) and an
    arbitrary previous state; returns (function, env prefix of the state, (x, u, v))"""
    fn = astload.find_definition(TU, FLT, 'update', lambda d: (astload.template_args(d) or [''])[0].startswith(head))
    kx, ku, kv, kmiu, kst = [k for k, _ in wp.bind_params(fn)]
    x, u, v = list(wp.vec(kx, 'x', n).c), list(wp.vec(ku, 'u', m).c), list(wp.vec(kv, 'v', q).c)
    wp.scalar(kmiu, 'miu')
    wp.scalar(kst + '.m_fx', 'fx0'), wp.scalar(kst + '.m_eta', 'eta0')
    wp.vec(kst + '.m_rdual', 'rdual0', n), wp.vec(kst + '.m_rprim', 'rprim0', q), wp.vec(kst + '.m_rcent', 'rcent0', m)
    nob = len(wp.obligations)
    wp.post = lambda w, rv: []
    wp.run(fn, path)
    del wp.obligations[nob:]                                 # the walk's own obligations are those of residuals.update_vcs
    return fn, kst, (x, u, v)


def reduced_rows(wp, P, n, p, pr):
    """(A_r, b_r): the caller's own rows when there are no equalities or [A | b] has full row rank (pr == p), else SOME pr rows"""
    if not p or pr == p:
        return P['A'], P['b']
    return [[wp.leaf(f'Ar_{r}_{c}', 'e') for c in range(n)] for r in range(pr)], [wp.leaf('br', r) for r in range(pr)]


def ctor_vcs(n, p, m, hasQ, pr, info):
    path = astload.REPO + '/' + TU
    wp, ctor, P = walk_ctor(n, p, m, hasQ, pr)
    line = line_of(ctor)
    info.append(fninfo('program_ctor[reals]', 'nano::program::solver_t::program_t::program_t(Q, c, A, b, G, h)', path, ctor))
    calls = getattr(wp, 'norm_calls', [])
    defs, props = getattr(wp, 'norm_defs', []), getattr(wp, 'norm_props', [])
    g = Vcg(wp, wp.name, bound=f'n = {n}, p = {p} (reduced to {pr}), m = {m}', path=path)
    out = g.from_wp(hyps=props)
    H = held(wp)
    red_ok = not p or getattr(wp, 'reduced', None) == ('self.m_A', 'self.m_b')
    out.append(g.vc('reduce() is applied to the equality pair (m_A, m_b), before it is scaled', [], 'true' if red_ok else 'false', line=line))
    if not red_ok:
        return out + [g.canary(props)]
    Ar, br = reduced_rows(wp, P, n, p, pr)
    by = {(c['keyA'], c['keyb']): c for c in calls}
    want = [('objective', 'self.m_Q', 'self.m_c'), ('equalities', 'self.m_A', 'self.m_b'), ('inequalities', 'self.m_G', 'self.m_h')]
    ok = len(calls) == 3 and all((a, b) in by for _, a, b in want)
    out.append(g.vc('each of (m_Q, m_c), (m_A, m_b), (m_G, m_h) is normalised exactly once, as a PAIR', [], 'true' if ok else 'false',
                    about=f'normalize calls: {[(c["keyA"], c["keyb"]) for c in calls]}', line=line))
    if not ok:
        return out + [g.canary(props)]
    dQ, dA, dG = (by[(a, b)]['d'] for _, a, b in want)
    mufx = wp.env['self.m_mufx'].t
    out.append(g.vc('m_mufx == M = max(1e-3, ||Q||_F, ||c||_2) of the CALLER\'s objective, and M >= 1e-3', defs,
                    f'(and (= {mufx} {M_term(FLOOR, P["Q"], P["c"])}) (>= {mufx} {FLOOR}))', line=line))
    pos = f'(and (> {mufx} 0.0) (> {dA} 0.0) (> {dG} 0.0))'
    out.append(g.vc('the three scaling factors are positive', props, pos, line=line))
    sc = lambda d, new, old: [f'(= (* {d} {y}) {x})' for y, x in zip(new, old)]
    flat = lambda M_: [t for r in M_ for t in r]
    out.append(g.vc('held objective: m_Q = Q / m_mufx, m_c = c / m_mufx', props, conj(sc(mufx, flat(H['Q']), flat(P['Q'])) + sc(mufx, H['c'], P['c'])), line=line))
    out.append(g.vc('held equalities: (m_A, m_b) = (A_r, b_r) / dA: the rows reduce() left, right-hand side scaled with its rows', props,
                    conj(sc(dA, flat(H['A']), flat(Ar)) + sc(dA, H['b'], br)) if len(H['b']) == len(br) else 'false', line=line))
    out.append(g.vc('held inequalities: (m_G, m_h) = (G, h) / dG, right-hand side scaled with its rows', props,
                    conj(sc(dG, flat(H['G']), flat(P['G'])) + sc(dG, H['h'], P['h'])), line=line))
    xs = [wp.leaf('x', k) for k in range(n)]
    if p and len(H['b']) == len(br):
        out.append(g.vc('same feasible set: every held equality row holds at x exactly when the row of (A_r, b_r) does', props,
                        rows_same(H['A'], H['b'], Ar, br, xs, '='), line=line))
    if m:
        for rel, what in (('<=', 'feasible'), ('<', 'strictly feasible')):
            out.append(g.vc(f'same {what} set: every held inequality row holds at x exactly when the caller\'s row of (G, h) does', props,
                            rows_same(H['G'], H['h'], P['G'], P['h'], xs, rel), line=line))
    # the KKT matrix buffer
    L = wp.env.get('self.m_lmat')
    q = len(H['b'])
    if not isinstance(L, MV) or (L.rows, L.cols if L.rows else n + q) != (n + q, n + q):
        out.append(g.vc('m_lmat is an (n + p) x (n + p) matrix', [], 'false', line=line))
    else:
        cl = [f'(= {L.m[i][n + j]} {H["A"][j][i]})' for i in range(n) for j in range(q)] + [f'(= {L.m[n + j][i]} {H["A"][j][i]})' for i in range(n) for j in range(q)]
        cl += [f'(= {L.m[n + i][n + j]} 0.0)' for i in range(q) for j in range(q)]
        out.append(g.vc('KKT matrix buffer: the off-diagonal blocks of m_lmat are m_A\' and m_A, the lower-right block is 0', [], conj(cl), line=line))
    # ---- program_t::update on the program just built: what the caller is told
    for which, head in residuals.UPDATE_HEADS[:1]:
        fn, kst, (x, u, v) = run_update(wp, head, n, q, m, path)
        S = lambda f: wp.env[f'{kst}.{f}']
        callers = dict(Q=P['Q'], c=P['c'], A=Ar, b=br, G=P['G'], h=P['h'])
        ut = [f'(* (/ {mufx} {dG}) {t})' for t in u]
        vt = [f'(* (/ {mufx} {dA}) {t})' for t in v]
        tb = residuals.textbook(callers, x, ut, vt, n, q, m, hasQ)
        hy = props + ['(> miu 1.0)']
        out.append(g.vc('reported objective: state.m_fx == 1/2 x\'Qx + c\'x of the program AS THE CALLER STATED IT (un-scaled with the matching factor)', hy,
                        f'(= {S("m_fx").t} {tb["obj"]})', line=line_of(fn)))
        out.append(g.vc('dual residual in the caller\'s units: m_mufx * rdual == Qx + c + G\'u~ + A_r\'v~ with u~ = (m_mufx / dG) u, v~ = (m_mufx / dA) v', hy,
                        eqs([f'(* {mufx} {t})' for t in S('m_rdual').c], tb['rdual']), line=line_of(fn)))
        if q:
            out.append(g.vc('primal residual in the caller\'s units: dA * rprim == A_r x - b_r', hy, eqs([f'(* {dA} {t})' for t in S('m_rprim').c], tb['rprim']),
                            line=line_of(fn)))
        if m:
            out.append(g.vc('duality gap in the caller\'s units: m_mufx * eta == -u~\'(Gx - h)', hy, f'(= (* {mufx} {S("m_eta").t}) {tb["eta"]})', line=line_of(fn)))
    out.append(g.canary(props))
    return out


# ------------------------------------------------------------------------------------------------- nano::program::reduce (frame, split)
UTIL_TU = 'src/program/util.cpp'
UTIL_FLT = 'nano::program::reduce'


def h_stack(wp, node, args, callee):
    """nano::stack<scalar_t>(rows, cols, M.matrix(), v.vector()) (include/nano/tensor/stack.h; variadic, not walked): ASSUMED contract for
    this call shape: the rows x cols matrix [M | v]; the shape conditions (M is rows x (cols - 1), v has rows coefficients) are obligations"""
    if len(args) != 4:
        raise Unsupported(f'{wp.name}: stack with {len(args)} arguments')
    r, c = lit_int(wp.ev(args[0]).t), lit_int(wp.ev(args[1]).t)
    M, v = wp.ev(args[2]), wp.ev(args[3])
    if not isinstance(M, MV) or not isinstance(v, AV) or r is None or c is None:
        raise Unsupported(f'{wp.name}: stack(rows, cols, matrix, vector) expected')
    ok = (M.rows, M.cols + 1, len(v.c)) == (r, c, r)
    wp.oblige('stack(rows, cols, A, b): A is rows x (cols - 1) and b has rows coefficients', 'true' if ok else 'false', node)
    if not ok:
        raise Unsupported(f'{wp.name}: stack({r}, {c}, {M.rows} x {M.cols}, {len(v.c)})')
    out = MV([list(row) + [y] for row, y in zip(M.m, v.c)])
    out.cols = c
    return out


def h_reduce1(wp, node, args, callee):
    """::reduce(Ab) by the clauses of reduce.reduce1_vcs: untouched when the scenario rank equals the number of rows, else SOME matrix with
    wp.reduced_rows < rows rows and the same columns"""
    key = wp.key_of(args[0])
    M = wp.env.get(key)
    if not isinstance(M, MV) or not (1 <= wp.reduced_rows <= M.rows):
        raise Unsupported(f'{wp.name}: ::reduce on {key}')
    if wp.reduced_rows == M.rows:
        # full row rank: Ab is left untouched (obligation `full rank` of reduce.reduce1_vcs)
        wp.reduce1_on = getattr(wp, 'reduce1_on', []) + [(key, [list(r) for r in M.m])]
        return V('0', 'Int', 'int')
    wp.env[key] = MV([[wp.leaf(f'Abr_{r}_{c}', 'e') for c in range(M.cols)] for r in range(wp.reduced_rows)])
    wp.ver[key] = wp.ver.get(key, 0) + 1
    wp.reduce1_on = getattr(wp, 'reduce1_on', []) + [(key, [list(r) for r in M.m])]
    return V('0', 'Int', 'int')


def reduce_vcs(n, p, pr, info):
    path = astload.REPO + '/' + UTIL_TU
    fn = astload.find_definition(UTIL_TU, UTIL_FLT, 'reduce', lambda d: len(astload.param_types(d)) == 2 and 'matrix_t' in astload.param_types(d)[0])
    wp = ProgWP(f'program_reduce[n={n},p={p}->{pr}]')
    wp.calls = [(r'^stack\|', h_stack), (r'^reduce\|void \(', h_reduce1)] + list(wp.calls)
    wp.reduced_rows = pr
    kA, kb = [k for k, _ in wp.bind_params(fn)]
    A0 = [list(r) for r in wp.mat(kA, 'A', p, n).m]
    b0 = list(wp.vec(kb, 'b', p).c)
    rets = []
    wp.post = lambda w, rv: (rets.append((w.guard, rv)), [])[1]
    wp.run(fn, path)
    if len(rets) != 1 or rets[0][1] is None:
        raise Unsupported(f'{wp.name}: {len(rets)} return paths')
    info.append(fninfo('program_reduce[reals]', 'nano::program::reduce', path, fn))
    g = Vcg(wp, wp.name, bound=f'n = {n}, p = {p} rows reduced to {pr}', path=path)
    out = g.from_wp()
    A1, b1, r = wp.env[kA], wp.env[kb], rets[0][1].t
    line = line_of(fn)
    if p == 0:
        same = A1.rows == 0 and not b1.c and not getattr(wp, 'reduce1_on', [])
        out.append(g.vc('no equalities: returns false, nothing is decomposed, (A, b) untouched', [], f'(and (not {r}) {"true" if same else "false"})', line=line))
    else:
        on = getattr(wp, 'reduce1_on', [])
        stacked = len(on) == 1 and on[0][1] == [list(row) + [y] for row, y in zip(A0, b0)]
        out.append(g.vc('[A | b] is decomposed as ONE matrix (the right-hand side takes part in the rank decision), exactly once', [],
                        'true' if stacked else 'false', line=line))
        Abr = [[wp.leaf(f'Abr_{i}_{j}', 'e') for j in range(n + 1)] for i in range(pr)] if pr < p else [list(row) + [y] for row, y in zip(A0, b0)]
        shape = (A1.rows, A1.cols if A1.rows else n, len(b1.c)) == (pr, n, pr)
        split = conj([f'(= {A1.m[i][j]} {Abr[i][j]})' for i in range(pr) for j in range(n)] + [f'(= {b1.c[i]} {Abr[i][n]})' for i in range(pr)]) if shape else 'false'
        out.append(g.vc('consistent split: A\' is the first n columns and b\' the LAST column of the SAME reduced matrix, row for row; returns true', [],
                        f'(and {r} {split})', line=line))
        if pr == p:
            out.append(g.vc('full rank: [A | b] of full row rank: (A, b) are handed back unchanged (the caller\'s own rows)', [],
                            conj([eqs([t for r_ in A1.m for t in r_], [t for r_ in A0 for t in r_]), eqs(b1.c, b0)]) if shape else 'false', line=line))
    out.append(g.canary())
    return out


def jobs(tier, shapes, info):
    out = []
    mats = sorted({(n, n) for n, _, _ in shapes} | {(p, n) for n, p, _ in shapes if p} | {(m, n) for n, _, m in shapes if m} | {(0, 0)})
    for r, c in mats:
        out.append((lambda r=r, c=c: normalize_vcs(r, c, info), f'::normalize {r}x{c}'))
    for (n, p) in sorted({(n, p) for n, p, _ in shapes}):
        for pr in sorted({p, max(1, p - 1)} if p else {0}):
            out.append((lambda a=(n, p, pr): reduce_vcs(*a, info), f'nano::program::reduce {(n, p, pr)}'))
    for (n, p, m) in shapes:
        for hasQ in (True, False):
            for pr in sorted({p, max(1, p - 1)} if p else {0}):
                if tier != 'thorough' and pr != p and (n, p, m) != (3, 2, 2):
                    continue
                out.append((lambda a=(n, p, m, hasQ, pr): ctor_vcs(*a, info), f'program_t::program_t {(n, p, m, hasQ, pr)}'))
    return out
