"""C04, part 2: the residual DEFINITIONS of the primal-dual interior-point method, over the reals, at small concrete shapes (BOUNDED stand-ins:
n <= 3 variables, p <= 2 equalities, m <= 2 inequalities; the coefficients are unbounded reals).

The instantiated bodies of
    solver_t::program_t::update<tvector>   (src/program/solver.cpp; both instantiations: tvector = vector_t and the Eigen expression x + s * dx)
    solver_state_t::residual               (src/program/state.cpp)
    solver_state_t::update                 (src/program/state.cpp; the KKT optimality test m_kkt)
are walked by progwp.ProgWP on symbolic (Q, c, A, b, G, h, mufx), (x, u, v), miu and compared with the textbook primal-dual residuals
(Boyd & Vandenberghe, Convex Optimization, 11.7, (11.53) with t = miu * m / eta_hat) of the program the solver holds (the NORMALISED one):
    fx     == mufx * (1/2 x'Qx + c'x)                       (c'x without a Q)
    eta    == -u'(Gx - h)                                   (surrogate duality gap; untouched without inequalities)
    rdual  == Qx + c + G'u + A'v                            (terms of absent constraint kinds dropped)
    rprim  == Ax - b                                        (untouched without equalities)
    rcent  == -diag(u)(Gx - h) - (1/t) 1,  1/t = eta / (miu * m),  eta the value just stored          (untouched without inequalities)
    residual() == ||(rdual, rcent, rprim)||_2               (result >= 0 and result^2 == rdual.rdual + rcent.rcent + rprim.rprim)
    m_kkt  == max(0, max_i (Gx-h)_i^+, max_j |(Ax-b)_j|, max_i (-u_i)^+, max_i |u_i (Gx-h)_i|, max_k |(Qx + c + A'v + G'u)_k|)
all of them functions of exactly the (x, u, v) handed in (program_t::update) / stored in the state (solver_state_t::update), plus the frame:
program_t::update writes nothing but (m_fx, m_eta, m_rdual, m_rprim, m_rcent).  That the (x, u, v) handed in are the ones the returned state
stores is the data-flow obligation of the CBMC target solve_with_inequality_res."""
import astload
from nvwp import V, Unsupported
from cxx2c import unwrap
from progwp import ProgWP                                    # first: puts specs/C01 and specs/C06 on the path
from linalg import Vcg, AV, MV, t_dot, t_matvec, t_transpose, conj, eqs, rsum
from eig import rabs, rmax

TU = 'src/program/solver.cpp'
FLT = 'solver_t::'
STATE_TU = 'src/program/state.cpp'
STATE_FLT = 'solver_state_t'      # the filter of the CBMC target pstate_ctor: one clang run serves both
UPDATE_HEADS = (('vec', 'nano::tensor_t'), ('expr', 'Eigen::CwiseBinaryOp'))


def fninfo(cname, cxx, path, fn):
    return {'c_name': cname, 'cxx': cxx, 'file': path, 'line': fn.get('loc', {}).get('line') or fn.get('_line'), 'sha': astload.file_hash(path)}


def line_of(fn):
    return fn.get('loc', {}).get('line') or fn.get('_line')


# ------------------------------------------------------------------------------------------------- tiny const getters, walked in place
def h_getter(tu, flt, name):
    """`this->m()`, `p()`, `n()`, `Q()`: the callee's own body (its single return expression; an assert compiled out under NDEBUG is a
    null statement) is evaluated in the caller's environment: same `this`"""
    def h(wp, node, args, obj):
        o = unwrap(obj)
        if o.get('kind') == 'CXXThisExpr':
            prefix = wp.this_prefix
        elif o.get('kind') == 'DeclRefExpr':
            prefix = wp.key_of(o) + '.'
        else:
            raise Unsupported(f'{wp.name}: {name}() on something that is neither *this nor a named object')
        fn = astload.find_definition(tu, flt, name, lambda d: len(astload.param_types(d)) == 0)
        body = [c for c in fn['inner'] if c['kind'] == 'CompoundStmt'][0]
        stmts = [s for s in body.get('inner', []) if s.get('kind') != 'NullStmt' and not void_literal(s)]
        if len(stmts) != 1 or stmts[0].get('kind') != 'ReturnStmt':
            raise Unsupported(f'{wp.name}: {name}() is not a single return statement')
        saved, wp.this_prefix = wp.this_prefix, prefix
        try:
            return wp.ev(stmts[0]['inner'][0])
        finally:
            wp.this_prefix = saved
    return h


def void_literal(s):
    """`assert(..)` under NDEBUG: `((void)0)` / `static_cast<void>(0)`"""
    while s.get('kind') == 'ParenExpr':
        s = s['inner'][0]
    return s.get('kind') in ('CStyleCastExpr', 'CXXStaticCastExpr', 'CXXFunctionalCastExpr') and s.get('castKind') == 'ToVoid' \
        and unwrap(s['inner'][0]).get('kind') == 'IntegerLiteral'


PROGRAM_GETTERS = [(rf'^{g}\|(const )?nano::program::solver_t::program_t', h_getter(TU, FLT, g)) for g in ('n', 'p', 'm', 'Q')]


def vadd(*vs):
    return [rsum(list(ts)) for ts in zip(*vs)]


def vsub(a, b):
    return [f'(- {x} {y})' for x, y in zip(a, b)]


def bind_program(wp, n, p, m, hasQ, prefix='self.'):
    """the program the solver holds: Q (n x n or absent), c, A (p x n), b, G (m x n), h"""
    Q = wp.mat(prefix + 'm_Q', 'Q', n if hasQ else 0, n if hasQ else 0)
    A = wp.mat(prefix + 'm_A', 'A', p, n)
    G = wp.mat(prefix + 'm_G', 'G', m, n)
    c = wp.vec(prefix + 'm_c', 'c', n)
    b = wp.vec(prefix + 'm_b', 'b', p)
    h = wp.vec(prefix + 'm_h', 'h', m)
    return dict(Q=[list(r) for r in Q.m], A=[list(r) for r in A.m], G=[list(r) for r in G.m], c=list(c.c), b=list(b.c), h=list(h.c))


def textbook(P, x, u, v, n, p, m, hasQ):
    """the residuals of Boyd & Vandenberghe (11.53) for minimise 1/2 x'Qx + c'x subject to Gx <= h, Ax = b, as terms"""
    Qx = t_matvec(P['Q'], x) if hasQ else ['0.0'] * n
    obj = f'(+ (* 0.5 {t_dot(x, Qx)}) {t_dot(x, P["c"])})' if hasQ else t_dot(x, P['c'])
    Gxh = vsub(t_matvec(P['G'], x), P['h']) if m else []
    Axb = vsub(t_matvec(P['A'], x), P['b']) if p else []
    parts = ([Qx] if hasQ else []) + [P['c']]
    if m:
        parts.append(t_matvec(t_transpose(P['G']), u))
    if p:
        parts.append(t_matvec(t_transpose(P['A']), v))
    return dict(obj=obj, Gxh=Gxh, rprim=Axb, rdual=vadd(*parts), eta=f'(- {t_dot(u, Gxh)})' if m else None)


# ------------------------------------------------------------------------------------------------- program_t::update
def walk_update(which, head, n, p, m, hasQ):
    fn = astload.find_definition(TU, FLT, 'update', lambda d: (astload.template_args(d) or [''])[0].startswith(head))
    wp = ProgWP(f'program_update_{which}[n={n},p={p},m={m},{"QP" if hasQ else "LP"}]')
    wp.members = PROGRAM_GETTERS + list(wp.members)
    keys = [k for k, _ in wp.bind_params(fn)]
    if len(keys) != 5:
        raise Unsupported(f'{wp.name}: program_t::update has {len(keys)} parameters')
    kx, ku, kv, kmiu, kst = keys
    P = bind_program(wp, n, p, m, hasQ)
    wp.scalar('self.m_mufx', 'mufx')
    x, u, v = list(wp.vec(kx, 'x', n).c), list(wp.vec(ku, 'u', m).c), list(wp.vec(kv, 'v', p).c)
    wp.scalar(kmiu, 'miu')
    st0 = {'m_fx': wp.scalar(kst + '.m_fx', 'fx0').t, 'm_eta': wp.scalar(kst + '.m_eta', 'eta0').t,
           'm_rdual': list(wp.vec(kst + '.m_rdual', 'rdual0', n).c), 'm_rprim': list(wp.vec(kst + '.m_rprim', 'rprim0', p).c),
           'm_rcent': list(wp.vec(kst + '.m_rcent', 'rcent0', m).c)}
    # everything else the state holds: the frame (the walk raises `unknown member` if the body reads a field that is not bound)
    frame = {'m_x': list(wp.vec(kst + '.m_x', 'sx', n).c), 'm_u': list(wp.vec(kst + '.m_u', 'su', m).c), 'm_v': list(wp.vec(kst + '.m_v', 'sv', p).c),
             'm_kkt': wp.scalar(kst + '.m_kkt', 'kkt0').t}
    before = {k: (v_.t if isinstance(v_, V) else list(v_.c) if isinstance(v_, AV) else [list(r) for r in v_.m]) for k, v_ in wp.env.items()}
    rets = []
    wp.post = lambda w, rv: (rets.append(w.guard), [])[1]
    wp.run(fn, astload.REPO + '/' + TU)
    if rets != ['true']:
        raise Unsupported(f'{wp.name}: return paths {rets}')
    after = {k: (v_.t if isinstance(v_, V) else list(v_.c) if isinstance(v_, AV) else [list(r) for r in v_.m]) for k, v_ in wp.env.items() if k in before}
    changed = sorted(k for k in before if after.get(k) != before[k])
    return wp, fn, P, (x, u, v), kst, st0, frame, changed


def update_vcs(which, head, n, p, m, hasQ, info):
    path = astload.REPO + '/' + TU
    wp, fn, P, (x, u, v), kst, st0, frame, changed = walk_update(which, head, n, p, m, hasQ)
    line = line_of(fn)
    info.append(fninfo(f'program_update_{which}[reals]', f'nano::program::solver_t::program_t::update<{head}..>', path, fn))
    pre = ['(> miu 1.0)']                                   # registered domain of solver::miu (solver.cpp: 1 < miu <= 1e6)
    g = Vcg(wp, wp.name, hyps=pre, bound=f'n = {n} variables, p = {p} equalities, m = {m} inequalities', path=path)
    out = g.from_wp()
    tb = textbook(P, x, u, v, n, p, m, hasQ)
    S = lambda f: wp.env[f'{kst}.{f}']
    out.append(g.vc('fx == mufx * (1/2 x\'Qx + c\'x): the objective of the held program at the x handed in, multiplied back by m_mufx', [],
                    f'(= {S("m_fx").t} (* {tb["obj"]} mufx))', line=line))
    out.append(g.vc('rdual == Qx + c + G\'u + A\'v: gradient of the Lagrangian at the (x, u, v) handed in', [], eqs(S('m_rdual').c, tb['rdual']), line=line))
    if p:
        out.append(g.vc('rprim == Ax - b at the x handed in', [], eqs(S('m_rprim').c, tb['rprim']), line=line))
    else:
        out.append(g.vc('no equalities: rprim is left alone', [], eqs(S('m_rprim').c, st0['m_rprim']) if st0['m_rprim'] else 'true', line=line))
    if m:
        out.append(g.vc('eta == -u\'(Gx - h): surrogate duality gap at the (x, u) handed in', [], f'(= {S("m_eta").t} {tb["eta"]})', line=line))
        # B&V (11.53): r_cent = -diag(u) f(x) - (1/t) 1 with f(x) = Gx - h and t = miu * m / eta_hat
        inv_t = f'(/ {tb["eta"]} (* miu {m}.0))'
        rc = [f'(- (- (* {ui} {fi})) {inv_t})' for ui, fi in zip(u, tb['Gxh'])]
        out.append(g.vc('rcent == -diag(u)(Gx - h) - (eta / (miu m)) 1: centrality residual with t = miu m / eta, at the (x, u) handed in', [],
                        eqs(S('m_rcent').c, rc), line=line))
    else:
        out.append(g.vc('no inequalities: eta and rcent are left alone', [], f'(= {S("m_eta").t} {st0["m_eta"]})', line=line))
    allowed = {f'{kst}.m_fx', f'{kst}.m_eta', f'{kst}.m_rdual', f'{kst}.m_rprim', f'{kst}.m_rcent'}
    extra = [k for k in changed if k not in allowed]
    out.append(g.vc('frame: nothing but state.(m_fx, m_eta, m_rdual, m_rprim, m_rcent) is written (not x, u, v, the program, m_kkt)', [],
                    'true' if not extra else 'false', about=f'written: {changed}', line=line))
    out.append(g.canary())
    return out


# ------------------------------------------------------------------------------------------------- solver_state_t::residual / update
def bind_state(wp, n, p, m, prefix='self.'):
    return dict(x=list(wp.vec(prefix + 'm_x', 'x', n).c), u=list(wp.vec(prefix + 'm_u', 'u', m).c), v=list(wp.vec(prefix + 'm_v', 'v', p).c),
                rdual=list(wp.vec(prefix + 'm_rdual', 'rdual', n).c), rcent=list(wp.vec(prefix + 'm_rcent', 'rcent', m).c),
                rprim=list(wp.vec(prefix + 'm_rprim', 'rprim', p).c))


def residual_vcs(n, p, m, info):
    path = astload.REPO + '/' + STATE_TU
    fn = astload.find_definition(STATE_TU, STATE_FLT, 'residual')
    wp = ProgWP(f'pstate_residual[n={n},p={p},m={m}]')
    S = bind_state(wp, n, p, m)
    rets = []
    wp.post = lambda w, rv: (rets.append((w.guard, rv)), [])[1]
    wp.run(fn, path)
    if len(rets) != 1 or rets[0][0] != 'true' or rets[0][1] is None:
        raise Unsupported(f'{wp.name}: not a single return')
    r = rets[0][1].t
    info.append(fninfo('pstate_residual[reals]', 'nano::program::solver_state_t::residual', path, fn))
    g = Vcg(wp, wp.name, bound=f'n = {n}, p = {p}, m = {m}', path=path)
    sq = rsum([f'(* {t} {t})' for t in S['rdual'] + S['rcent'] + S['rprim']])
    out = g.from_wp()
    out.append(g.vc('residual() == ||(rdual, rcent, rprim)||_2: non-negative and its square is rdual.rdual + rcent.rcent + rprim.rprim', [],
                    f'(and (>= {r} 0.0) (= (* {r} {r}) {sq}))', line=line_of(fn)))
    out.append(g.canary())
    return out


def kkt_vcs(n, p, m, hasQ, info):
    path = astload.REPO + '/' + STATE_TU
    fn = astload.find_definition(STATE_TU, STATE_FLT, 'update')
    wp = ProgWP(f'pstate_update_kkt[n={n},p={p},m={m},{"QP" if hasQ else "LP"}]')
    keys = [k for k, _ in wp.bind_params(fn)]
    if len(keys) != 6:
        raise Unsupported(f'{wp.name}: solver_state_t::update has {len(keys)} parameters')
    kQ, kc, kA, kb, kG, kh = keys
    Q = wp.mat(kQ, 'Q', n if hasQ else 0, n if hasQ else 0)
    A, G = wp.mat(kA, 'A', p, n), wp.mat(kG, 'G', m, n)
    P = dict(Q=[list(r) for r in Q.m], A=[list(r) for r in A.m], G=[list(r) for r in G.m], c=list(wp.vec(kc, 'c', n).c), b=list(wp.vec(kb, 'b', p).c),
             h=list(wp.vec(kh, 'h', m).c))
    S = bind_state(wp, n, p, m)
    wp.scalar('self.m_kkt', 'kkt0')
    rets = []
    wp.post = lambda w, rv: (rets.append(w.guard), [])[1]
    wp.run(fn, path)
    if rets != ['true']:
        raise Unsupported(f'{wp.name}: return paths {rets}')
    info.append(fninfo('pstate_update_kkt[reals]', 'nano::program::solver_state_t::update', path, fn))
    tb = textbook(P, S['x'], S['u'], S['v'], n, p, m, hasQ)
    tests = [rmax('0.0', t) for t in tb['Gxh']] + [rabs(t) for t in tb['rprim']] + [rmax('0.0', f'(- {t})') for t in (S['u'] if m else [])]
    tests += [rabs(f'(* {a} {b})') for a, b in zip(S['u'], tb['Gxh'])] + [rabs(t) for t in tb['rdual']]
    k = wp.env['self.m_kkt'].t
    g = Vcg(wp, wp.name, bound=f'n = {n}, p = {p}, m = {m}', path=path)
    out = g.from_wp()
    ge = conj([f'(>= {k} {t})' for t in tests] + [f'(>= {k} 0.0)'])
    hit = '(or ' + ' '.join([f'(= {k} {t})' for t in tests] + [f'(= {k} 0.0)']) + ')'
    # "is the largest of" does not depend on what the compared quantities are made of: every product of two coefficients (and the
    # complementarity products u_i (Gx - h)_i) is generalised to an arbitrary real, which leaves linear arithmetic with case splits
    prods = [f'(* {a} {b})' for a, b in zip(S['u'], tb['Gxh'])]
    prods += [f'(* {M[r][c_]} {w[c_]})' for M, w in ((P['G'], S['x']), (P['A'], S['x']), (P['Q'], S['x']), (t_transpose(P['G']) if m else [], S['u']),
                                                  (t_transpose(P['A']) if p else [], S['v'])) for r in range(len(M)) for c_ in range(len(w))]
    out.append(g.vc('m_kkt is the LARGEST of the five KKT tests (inequality violation, equality violation, negative multiplier, complementarity, '
                    'Lagrangian gradient; infinity norms) at the stored (x, u, v)', [], f'(and {ge} {hit})', line=line_of(fn),
                    abstract=(list(dict.fromkeys(prods)), 'product')))
    changed = [kk for kk in ('self.m_x', 'self.m_u', 'self.m_v', 'self.m_rdual', 'self.m_rcent', 'self.m_rprim') if kk in getattr(wp, 'written', ())]
    out.append(g.vc('frame: only m_kkt is written', [], 'true' if not changed else 'false', about=f'written: {changed}', line=line_of(fn)))
    out.append(g.canary())
    return out
