"""C04, parts 2-3: the obligations over the reals (residual definitions: residuals.py; normalisation and the program the solver holds:
scaling.py) collected for spec.build.  Everything here is a BOUNDED stand-in (concrete small shapes n <= 3, p <= 2, m <= 2; unbounded real
coefficients): returned through `bounded=[...]`, a failure is a violation, a success is never counted as `discharged`."""
import astload
import core
from cxx2c import Unsupported

import residuals
import scaling
import newton
import compose
import reduce as reduce_rows
import invariant
import swo

# (n variables, p equalities, m inequalities): quick tier = no equalities, no inequalities, a mixed one and the largest one
QUICK_SHAPES = [(1, 0, 1), (2, 1, 2), (3, 2, 2), (2, 1, 0)]
# the m_kkt term nests one max per coefficient (the script grows quickly): two shapes in the quick tier, all of them in the thorough tier
KKT_QUICK = [(1, 0, 1), (2, 1, 2)]
ALL_SHAPES = [(n, p, m) for n in (1, 2, 3) for p in (0, 1, 2) for m in (0, 1, 2)]


def guarded(job, what):
    def run():
        try:
            return job()
        except Unsupported as e:
            raise astload.ExtractionError(f'{what}: {e}')
        except (KeyError, IndexError, TypeError, AttributeError, ValueError) as e:
            raise astload.ExtractionError(f'{what}: the walk of the real code left the shape the contract is written for ({type(e).__name__}: {e})')
    return run


def build(tier):
    info = []
    shapes = ALL_SHAPES if tier == 'thorough' else QUICK_SHAPES
    # one clang run per translation unit / filter, before the walks fan out
    core.parallel([(lambda tu=tu, flt=flt: astload.dump(tu, flt)) for tu, flt in (
        (residuals.TU, residuals.FLT), (residuals.STATE_TU, residuals.STATE_FLT), (scaling.TU, scaling.NORM_FLT), (scaling.TU, 'reducer_t'), (scaling.UTIL_TU, scaling.UTIL_FLT), (reduce_rows.UTIL_TU, reduce_rows.UTIL_FLT))])
    jobs = []
    for (n, p, m) in shapes:
        for hasQ in (True, False):
            for which, head in residuals.UPDATE_HEADS:
                jobs.append(guarded(lambda a=(which, head, n, p, m, hasQ): residuals.update_vcs(*a, info), f'program_t::update<{which}> {(n, p, m, hasQ)}'))
            if tier == 'thorough' or (n, p, m) in KKT_QUICK:
                jobs.append(guarded(lambda a=(n, p, m, hasQ): residuals.kkt_vcs(*a, info), f'solver_state_t::update {(n, p, m, hasQ)}'))
        jobs.append(guarded(lambda a=(n, p, m): residuals.residual_vcs(*a, info), f'solver_state_t::residual {(n, p, m)}'))
    jobs += [guarded(j, what) for j, what in scaling.jobs(tier, shapes, info)]
    jobs += [guarded(j, what) for j, what in newton.jobs(tier, shapes, info)]
    jobs += [guarded(j, what) for j, what in compose.jobs(tier, shapes, info)]
    jobs += [guarded(j, what) for j, what in reduce_rows.jobs(tier, shapes, info)]
    jobs += [guarded(j, what) for j, what in invariant.jobs(tier, shapes, info)]
    jobs += [guarded(j, what) for j, what in swo.jobs(tier, shapes, info)]
    vcs = []
    for r in [j() for j in jobs]:
        vcs += r
    seen = {}
    for f in info:
        seen[f['c_name']] = f
    return vcs, list(seen.values())
