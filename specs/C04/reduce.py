"""C04, part 7: `::reduce(matrix_t&)` of src/program/util.cpp (the removal of dependent equality rows) walked on a symbolic rows x cols matrix, with a
STUB MODEL of the Eigen::FullPivLU decomposition object (BOUNDED shapes; the rank is a scenario parameter).

The decomposition object `dd` is a python-level value (DecV: the matrix it decomposes, its rank in this scenario) plus ONE ghost flag in the
environment, `<dd>.configured`: false when the object is created (`M.fullPivLu()`, `FullPivLU<..>(M)`), true after `dd.setThreshold(x)`, false again
after `dd.setThreshold(Eigen::Default)`.  The ASSUMED contract of the dependency covers the DEFAULT configuration only: with Eigen's default threshold
(machine epsilon times the size of the diagonal, RELATIVE to the largest pivot) `rank()` is the numerical rank of the matrix, so that the decision
"these rows are dependent" is invariant under a positive rescaling of an equality row.  Hence the named obligation
    default_threshold   every rank decision of reduce() (rank(), dimensionOfKernel(), isInjective(), isSurjective(), isInvertible()) is taken
                        with `configured == false`
whose rationale is the property's clause on restatements ("the same holds when the program is restated equivalently: rescaled equality rows"): a
re-configured decomposition drops genuine rows of a badly scaled [A | b] and the relaxed program is then reported converged.
Member calls on the decomposition object outside the closed list below are NOT dropped: they end the walk (exit 2) naming the call.
    closed list   rank dimensionOfKernel isInjective isSurjective isInvertible (rank decisions), setThreshold(x) / setThreshold(Eigen::Default),
                  threshold(), permutationP(), permutationQ(), matrixLU() (SOME matrices of the decomposition's shapes)
Further obligations:
    decomposed    the matrix decomposed is A.transpose() of the matrix handed in, and it is decomposed exactly once
    full rank     rank == rows: A is left untouched (the caller's own rows stay the caller's own rows)
    reduced       rank < rows: A becomes a matrix with exactly rank rows and the same number of columns (shapes DERIVED through
                  leftCols / topRows / triangularView / toDenseMatrix / transpose / block / the two products; contents arbitrary)"""
import re

import astload
from nvwp import V, Unsupported
from cxx2c import unwrap, strip_cv, qual
from progwp import ProgWP
from linalg import Vcg, AV, MV, t_transpose, conj
from eig import lit_int, type_str
from residuals import fninfo, line_of

UTIL_TU = 'src/program/util.cpp'
UTIL_FLT = 'reduce'
RANK_DECISIONS = ('rank', 'dimensionOfKernel', 'isInjective', 'isSurjective', 'isInvertible')
OB = ('default_threshold (the rank decision uses the decomposition\'s DEFAULT, scale-relative threshold: the decomposition object has not been '
      're-configured; rationale: invariance of `converged` under rescaled equality rows)')


class DecV:
    """an Eigen::FullPivLU object: `of` the decomposed matrix (rows x cols terms), `rank` its rank in this scenario; the mutable part of the
    object (the threshold configuration) lives in the environment under `<key>.configured`"""
    s, c = 'Decomp', None

    def __init__(self, of, rank, ident):
        self.of, self.rank, self.ident = of, rank, ident
        self.t = f'FullPivLU#{ident}'


class DecompWP(ProgWP):
    def __init__(self, name, rank, **kw):
        super().__init__(name, **kw)
        self.scenario_rank = rank
        self.decomps = []                  # every decomposition created: (DecV)
        self.nfresh = 0

    def fresh_matrix(self, hint, rows, cols):
        self.nfresh += 1
        m = MV([[self.leaf(f'{hint}{self.nfresh}_{r}_{c}', 'e') for c in range(cols)] for r in range(rows)])
        m.cols = cols
        return m

    def new_decomp(self, M, node):
        if not isinstance(M, MV):
            raise Unsupported(f'{self.name}: FullPivLU of something that is not a matrix')
        r = self.scenario_rank
        if not (0 <= r <= min(M.rows, M.cols)):
            raise Unsupported(f'{self.name}: scenario rank {r} of a {M.rows} x {M.cols} matrix')
        d = DecV(MV(M.m), r, len(self.decomps) + 1)
        d.of.cols = M.cols
        self.decomps.append(d)
        return d

    # ------------------------------------------------------------------------------------------- declarations
    def decl_hook(self, wp, v, init):
        t = type_str(v)
        if re.match(r'^Eigen::FullPivLU<.*>::\w+', t):
            return super().decl_hook(wp, v, init)             # a member typedef of the decomposition (PermutationPType, MatrixType)
        if t.startswith('Eigen::FullPivLU<'):
            if qual(v.get('type')).rstrip().endswith('&'):
                raise Unsupported(f'{self.name}: reference to a decomposition object ({v["name"]})')
            if not init:
                raise Unsupported(f'{self.name}: decomposition object {v["name"]} without an initialiser (compute() is not modelled)')
            val = self.ev(init[0])
            if not isinstance(val, DecV):
                raise Unsupported(f'{self.name}: {v["name"]} is not initialised with a decomposition')
            self.env[v['name']] = val
            self.env[v['name'] + '.configured'] = V('false', 'Bool', 'bool')
            return True
        return super().decl_hook(wp, v, init)

    def merge(self, c, envA, envB):
        decs = {k: a for k, a in envA.items() if isinstance(a, DecV) and envB.get(k) is a}
        A = {k: v for k, v in envA.items() if not isinstance(v, DecV)}
        B = {k: v for k, v in envB.items() if not isinstance(v, DecV)}
        out = super().merge(c, A, B)
        out.update(decs)
        return out

    # ------------------------------------------------------------------------------------------- expressions
    def ev(self, n):
        k = n.get('kind')
        if k in ('CXXConstructExpr', 'CXXTemporaryObjectExpr') and type_str(n).startswith('Eigen::FullPivLU<'):
            args = [a for a in n.get('inner', [])]
            if len(args) == 1:
                a = self.ev(args[0])
                if isinstance(a, DecV):
                    return a                                    # copy / move of the temporary `M.fullPivLu()` returns
                return self.new_decomp(a, n)
            raise Unsupported(f'{self.name}: FullPivLU constructed with {len(args)} arguments (compute() is not modelled)')
        if k in ('CXXBindTemporaryExpr', 'ExprWithCleanups', 'MaterializeTemporaryExpr') and n.get('inner') and type_str(n).startswith('Eigen::FullPivLU<'):
            return self.ev(n['inner'][0])
        if k == 'DeclRefExpr':
            rd = n['referencedDecl']
            v = self.env.get(self.idmap.get(rd.get('id'), rd.get('name')))
            if isinstance(v, DecV):
                return v
        return super().ev(n)

    def dec_object(self, obj):
        """(env key, DecV) when `obj` names a decomposition object, else None"""
        u = unwrap(obj)
        while u.get('kind') in ('ImplicitCastExpr', 'ParenExpr') and u.get('inner'):
            u = unwrap(u['inner'][0])
        if u.get('kind') == 'DeclRefExpr':
            rd = u['referencedDecl']
            key = self.idmap.get(rd.get('id'), rd.get('name'))
            if isinstance(self.env.get(key), DecV):
                return key, self.env[key]
        return None

    def eigen_member(self, n):
        me = n['inner'][0]
        if me.get('kind') != 'MemberExpr':
            return None
        name, obj, args = me.get('name'), me['inner'][0], n['inner'][1:]
        objt = type_str(obj)
        if 'FullPivLU<' in objt.split('Matrix<')[0] or self.dec_object(obj) is not None:
            return self.decomp_member(n, name, obj, args)
        if name in ('fullPivLu',) and not args:
            M = self.ev(obj)
            if not type_str(n).startswith('Eigen::FullPivLU<'):
                raise Unsupported(f'{self.name}: fullPivLu() whose result type is not Eigen::FullPivLU')
            return self.new_decomp(M, n)
        if name in ('leftCols', 'rightCols', 'topRows', 'bottomRows') and len(args) == 1:
            M = self.ev(obj)
            if isinstance(M, MV):
                k = lit_int(self.ev(args[0]).t)
                lim = M.cols if name.endswith('Cols') else M.rows
                ok = k is not None and 0 <= k <= lim
                self.oblige(f'{name}(k) lies inside the matrix', 'true' if ok else 'false', n)
                if not ok:
                    raise Unsupported(f'{self.name}: {name}({k}) of a {M.rows} x {M.cols} matrix')
                if name == 'leftCols':
                    r = MV([row[:k] for row in M.m], M.deps)
                    r.cols = k
                elif name == 'rightCols':
                    r = MV([row[M.cols - k:] for row in M.m], M.deps)
                    r.cols = k
                elif name == 'topRows':
                    r = MV(M.m[:k], M.deps)
                    r.cols = M.cols
                else:
                    r = MV(M.m[M.rows - k:], M.deps)
                    r.cols = M.cols
                return r
        if name == 'triangularView' and not args:
            M = self.ev(obj)
            if isinstance(M, MV):
                mode = (self.member_template_args(me) or [''])[0].replace('Eigen::', '')
                keep = {'Upper': lambda i, j: M.m[i][j] if j >= i else '0.0', 'Lower': lambda i, j: M.m[i][j] if j <= i else '0.0',
                        'UnitLower': lambda i, j: M.m[i][j] if j < i else ('1.0' if i == j else '0.0'),
                        'UnitUpper': lambda i, j: M.m[i][j] if j > i else ('1.0' if i == j else '0.0'),
                        'StrictlyUpper': lambda i, j: M.m[i][j] if j > i else '0.0', 'StrictlyLower': lambda i, j: M.m[i][j] if j < i else '0.0'}.get(mode)
                if keep is None:
                    raise Unsupported(f'{self.name}: triangularView<{mode}>')
                r = MV([[keep(i, j) for j in range(M.cols)] for i in range(M.rows)], M.deps)
                r.cols = M.cols
                return r
        if name == 'toDenseMatrix' and not args:
            M = self.ev(obj)
            if isinstance(M, MV):
                return M
        if name == 'transpose' and not args:
            M = self.ev(obj)
            if isinstance(M, MV):                              # keeps the extents of a matrix without rows / columns
                r = MV(t_transpose(M.m) if M.rows and M.cols else [[] for _ in range(M.cols)], M.deps)
                r.cols = M.rows
                return r
        if name == 'block' and len(args) == 4 and self.lkey(obj) is None:
            M = self.ev(obj)                                   # a block of a VALUE (U.transpose().block(..)), read only
            if isinstance(M, MV):
                dims = [lit_int(self.ev(a).t) for a in args]
                ok = all(d is not None and d >= 0 for d in dims) and dims[0] + dims[2] <= M.rows and dims[1] + dims[3] <= M.cols
                self.oblige('block lies inside the matrix', 'true' if ok else 'false', n)
                if not ok:
                    raise Unsupported(f'{self.name}: block{tuple(dims)} outside a {M.rows} x {M.cols} matrix')
                r0, c0, nr, nc = dims
                r = MV([row[c0:c0 + nc] for row in M.m[r0:r0 + nr]], M.deps)
                r.cols = nc
                return r
        return super().eigen_member(n)

    def decomp_member(self, n, name, obj, args):
        found = self.dec_object(obj)
        if found is None:
            raise Unsupported(f'{self.name}: member call {name}() on a decomposition that is not a named local object')
        key, d = found
        cfg = self.env[key + '.configured'].t
        if name in RANK_DECISIONS and not args:
            self.oblige(OB, f'(not {cfg})', n)
            self.rank_decisions = getattr(self, 'rank_decisions', 0) + 1
            rows, cols, r = d.of.rows, d.of.cols, d.rank
            if name == 'rank':
                return V(str(r), 'Int', 'long')
            if name == 'dimensionOfKernel':
                return V(str(cols - r), 'Int', 'long')
            val = {'isInjective': r == cols, 'isSurjective': r == rows, 'isInvertible': r == cols and rows == cols}[name]
            return V('true' if val else 'false', 'Bool', 'bool')
        if name == 'setThreshold' and len(args) == 1:
            default = 'Default_t' in type_str(args[0])
            new = 'false' if default else 'true'
            g = self.guard
            self.env[key + '.configured'] = V(new if g == 'true' else f'(ite {g} {new} {cfg})', 'Bool', 'bool')
            self.note('FullPivLU::setThreshold' + ('(Default)' if default else '(value)'))
            return V('0', 'Int', 'int')
        if name == 'threshold' and not args:
            return self.fresh('Real', 'threshold', 'double')
        if name in ('permutationP', 'permutationQ') and not args:
            k = d.of.rows if name == 'permutationP' else d.of.cols
            return self.fresh_matrix(name[-1], k, k)
        if name == 'matrixLU' and not args:
            return self.fresh_matrix('LU', d.of.rows, d.of.cols)
        raise Unsupported(f'{self.name}: member call `{name}` on the Eigen::FullPivLU object `{key}` is outside the modelled closed list '
                          f'(rank decisions, setThreshold, threshold, permutationP/Q, matrixLU): not dropped')

    def product(self, a, b, node):
        if isinstance(a, MV) and isinstance(b, MV) and a.rows == 0 and a.cols == b.rows:
            r = MV([])                                          # a product without rows keeps its number of columns
            r.cols = b.cols
            return r
        return super().product(a, b, node)


def reduce1_decl():
    return astload.find_definition(UTIL_TU, UTIL_FLT, 'reduce', lambda d: len(astload.param_types(d)) == 1)


def reduce1_vcs(rows, cols, rank, info):
    path = astload.REPO + '/' + UTIL_TU
    fn = reduce1_decl()
    wp = DecompWP(f'reduce_rows[{rows}x{cols},rank={rank}]', rank)
    (kA,) = [k for k, _ in wp.bind_params(fn)]
    A0 = [list(r) for r in wp.mat(kA, 'A', rows, cols).m]
    rets = []
    wp.post = lambda w, rv: (rets.append(w.guard), [])[1]
    wp.run(fn, path)
    if len(rets) != 1:
        raise Unsupported(f'{wp.name}: {len(rets)} return paths')
    info.append(fninfo('reduce_rows[reals]', '::reduce(matrix_t&)', path, fn))
    line = line_of(fn)
    g = Vcg(wp, wp.name, bound=f'{rows} x {cols} matrix of rank {rank}', path=path)
    out = g.from_wp()
    A1 = wp.env[kA]
    one = len(wp.decomps) == 1 and wp.decomps[0].of.m == (t_transpose(A0) if rows and cols else wp.decomps[0].of.m) \
        and (wp.decomps[0].of.rows, wp.decomps[0].of.cols) == (cols, rows)
    out.append(g.vc('decomposed: the matrix decomposed is A.transpose() of the matrix handed in, and it is decomposed exactly once', [],
                    'true' if one else 'false', about=f'{len(wp.decomps)} decomposition(s)', line=line))
    out.append(g.vc('rank_decision: the number of rows kept comes from a rank decision of the decomposition', [],
                    'true' if getattr(wp, 'rank_decisions', 0) >= 1 else 'false', line=line))
    if rank == rows:
        same = [list(r) for r in A1.m] == A0 and A1.rows == rows
        out.append(g.vc('full rank: rank == rows: A is left untouched (the caller\'s rows stay the caller\'s rows)', [], 'true' if same else 'false', line=line))
    else:
        shape = (A1.rows, A1.cols if A1.rows else cols) == (rank, cols)
        out.append(g.vc('reduced: rank < rows: A becomes a matrix with exactly rank rows and the same number of columns', [],
                        'true' if shape else 'false', about=f'{A1.rows} x {A1.cols}', line=line))
    out.append(g.canary())
    return out


def jobs(tier, shapes, info):
    out = []
    quick = [(2, 3, 2), (2, 3, 1)]
    full = sorted({(r, c, k) for r in (1, 2, 3) for c in (1, 2, 3, 4) for k in range(0, min(r, c) + 1)})
    for a in (full if tier == 'thorough' else quick):
        out.append((lambda a=a: reduce1_vcs(*a, info), f'::reduce(matrix_t&) {a}'))
    return out
