/* C07: line-search protocols.  Success is reported only right after the advertised predicates were evaluated to true on
 * the *current* trial point, the state is the evaluation at x0 + t*d for the returned t, a non-descent direction is
 * refused with the state untouched. */
#include "nv_state.h"
struct nv_lsearchk { int32_t m_type; };

/* registered parameter domains (src/lsearchk.cpp, backtrack.cpp, lemarechal.cpp, fletcher.cpp):
 * 0 < c1 < c2 < 1, 1 <= max_iterations <= 10000, tau1 > 2, 0 < safeguard < 0.5, 0 < tau2 < tau3 <= 0.5.
 * The values are ghost globals (nondeterministic, fixed during a call). */
double nv_c1, nv_c2, nv_tau1, nv_safeguard, nv_tau2, nv_tau3; int32_t nv_max_iterations; int32_t nv_interp;
#define NV_PARAMS_OK (0.0 < nv_c1 && nv_c1 < nv_c2 && nv_c2 < 1.0 && 1 <= nv_max_iterations && nv_max_iterations <= 10000 \
  && 2.0 < nv_tau1 && nv_tau1 < 1e6 && 0.0 < nv_safeguard && nv_safeguard < 0.5 && 0.0 < nv_tau2 && nv_tau2 < nv_tau3 && nv_tau3 <= 0.5)
static struct nv_tuple_f64_f64 nv_param_tolerance(void) { struct nv_tuple_f64_f64 r; r._0 = nv_c1; r._1 = nv_c2; return r; }
static struct nv_tuple_f64_f64 nv_param_tau23(void) { struct nv_tuple_f64_f64 r; r._0 = nv_tau2; r._1 = nv_tau3; return r; }
static int32_t nv_param_max_iterations(void) { return nv_max_iterations; }
static int32_t nv_param_interpolation(void) { return nv_interp; }
static double nv_param_tau1(void) { return nv_tau1; }
static double nv_param_safeguard(void) { return nv_safeguard; }
static double nv_interpolate(const struct nv_lstep* u, const struct nv_lstep* v, int32_t kind) { return nv_nondet_double(); }
static double nv_epsilon0(void) { return 1e-15; }
static double nv_epsilon1(void) { return 1e-10; }
static double nv_stpmin(void) { return 2.220446049250313e-15; }

/* More-Thuente / CG_DESCENT: further registered parameters and the interpolation kernels (arbitrary doubles) */
double nv_delta, nv_theta, nv_ro, nv_gamma, nv_cgd_epsilon;
static double nv_param_delta(void) { return nv_delta; }
static double nv_stpmax(void) { return 450359962737049.6; }
static double nv_cubic(const struct nv_lstep* u, const struct nv_lstep* v) { return nv_nondet_double(); }
static double nv_quadratic(const struct nv_lstep* u, const struct nv_lstep* v) { return nv_nondet_double(); }
static double nv_secant(const struct nv_lstep* u, const struct nv_lstep* v) { return nv_nondet_double(); }
static struct nv_lstep nv_lstep_make3(double t, double f, double g) { struct nv_lstep r; r.t = t; r.f = f; r.g = g; return r; }

/* ghost records of where the acceptance predicates were evaluated */
struct nv_pred { uint64_t ver, origin; double t, c; _Bool res; };
struct nv_pred nv_armijo, nv_wolfe, nv_swolfe;
static _Bool nv_has_armijo(const struct nv_state* s, const struct nv_state* o, const struct nv_vector* d, double t, double c1)
{ _Bool r = nv_nondet__Bool(); nv_armijo.ver = s->ver; nv_armijo.origin = o->ver; nv_armijo.t = t; nv_armijo.c = c1; nv_armijo.res = r; return r; }
static _Bool nv_has_wolfe(const struct nv_state* s, const struct nv_state* o, const struct nv_vector* d, double c2)
{ _Bool r = nv_nondet__Bool(); nv_wolfe.ver = s->ver; nv_wolfe.origin = o->ver; nv_wolfe.t = 0; nv_wolfe.c = c2; nv_wolfe.res = r; return r; }
static _Bool nv_has_strong_wolfe(const struct nv_state* s, const struct nv_state* o, const struct nv_vector* d, double c2)
{ _Bool r = nv_nondet__Bool(); nv_swolfe.ver = s->ver; nv_swolfe.origin = o->ver; nv_swolfe.t = 0; nv_swolfe.c = c2; nv_swolfe.res = r; return r; }

/* solver_state_t::has_descent (real inline body): true exactly for a negative slope; a NaN slope is NOT a descent direction */
#define NV_CONTRACT_state_has_descent \
__CPROVER_requires(NV_STATE_FRESH(self) && __CPROVER_is_fresh(descent, sizeof(*descent))) \
__CPROVER_assigns() \
__CPROVER_ensures(__CPROVER_return_value == (self->dg < 0.0)) \
__CPROVER_ensures(self->dg != self->dg ==> !__CPROVER_return_value)

/* assumed contract of solver_state_t::update(x0 + t*d): the state becomes the single evaluation at the new point */
static _Bool nv_state_update_along(struct nv_state* s, const struct nv_state* s0, double t, const struct nv_vector* d)
{
  nv_ver_counter = nv_ver_counter + 1;
  s->ver = nv_ver_counter; s->eval_ver = s->ver; s->origin = s0->ver; s->t = t;
  /* valid() demands an all-finite point (src/solver/state.cpp) and every coordinate of x0 + t*d is non-finite for a non-finite
   * t in IEEE arithmetic (scalar lemma: target ieee_point_lemma): a valid trial state has a finite step */
  s->valid = nv_nondet__Bool() && NV_FINITE(t); s->m_fx = nv_nondet_double(); s->dg = nv_nondet_double(); s->gtest = nv_nondet_double(); s->feas = nv_nondet_double(); s->cons_ver = s->ver;
  s->m_fcalls = nv_nondet_int64_t(); s->m_gcalls = nv_nondet_int64_t();
  return s->valid;
}

#define NV_VERS(k) (state0->ver <= nv_ver_counter && state->ver <= nv_ver_counter && nv_ver_counter < UINT64_MAX - (k) + i \
  && state->eval_ver == state->ver && nv_ver_counter >= __CPROVER_loop_entry(nv_ver_counter) \
  && nv_ver_counter - __CPROVER_loop_entry(nv_ver_counter) <= (uint64_t)i && state->m_status == __CPROVER_loop_entry(state->m_status))
#define NV_STATE_FRESH(p) __CPROVER_is_fresh(p, sizeof(struct nv_state))
/* "state is the evaluation at x0 + t*d of state0" */
#define NV_AT(s, s0, step) ((s)->origin == (s0)->ver && NV_SAME((s)->t, (step)) && (s)->eval_ver == (s)->ver && (s)->ver != (s0)->ver)
#define NV_PRED_AT(p, s, s0) ((p).res && (p).ver == (s)->ver && (p).origin == (s0)->ver)

/* lsearchk_t::update(state, state0, descent, step_size): state := evaluation at x0 + step_size*d; returns validity */
#define NV_CONTRACT_lsearchk_update \
__CPROVER_requires(NV_STATE_FRESH(state) && NV_STATE_FRESH(state0) && __CPROVER_is_fresh(descent, sizeof(*descent)) && __CPROVER_is_fresh(self, sizeof(*self))) \
__CPROVER_requires(state0->ver <= nv_ver_counter && nv_ver_counter < UINT64_MAX - 1) \
__CPROVER_assigns(*state, nv_ver_counter) \
__CPROVER_ensures(NV_AT(state, state0, step_size) && __CPROVER_return_value == state->valid) \
__CPROVER_ensures(__CPROVER_return_value ==> NV_FINITE(step_size)) \
__CPROVER_ensures(nv_ver_counter == __CPROVER_old(nv_ver_counter) + 1 && state->ver == nv_ver_counter && state->m_status == __CPROVER_old(state->m_status))

/* common precondition of every do_get (established by lsearchk_t::get): the state is the valid evaluation at step_size */
#define NV_DOGET_REQUIRES \
__CPROVER_requires(NV_STATE_FRESH(state) && NV_STATE_FRESH(state0) && __CPROVER_is_fresh(descent, sizeof(*descent)) && __CPROVER_is_fresh(self, sizeof(*self))) \
__CPROVER_requires(NV_PARAMS_OK && state0->ver <= nv_ver_counter && state->ver <= nv_ver_counter && nv_ver_counter < UINT64_MAX - 2000000) \
__CPROVER_requires(NV_AT(state, state0, step_size) && state->valid) \
/* ... and that step is a finite number (lsearchk_t::get: IEEE semantics, every double t0 including NaN and +-inf) */ \
__CPROVER_requires(NV_FINITE(step_size))
#define NV_DOGET_ASSIGNS __CPROVER_assigns(*state, nv_ver_counter, nv_armijo, nv_wolfe, nv_swolfe)
#define NV_OK __CPROVER_return_value._0
#define NV_T __CPROVER_return_value._1
/* every line search: success => the state is the valid evaluation at x0 + t*d for the returned t */
#define NV_DOGET_ENSURES_STATE_K(k) __CPROVER_ensures(NV_OK ==> (NV_AT(state, state0, NV_T) && state->valid)) \
__CPROVER_ensures(nv_ver_counter >= __CPROVER_old(nv_ver_counter) && state->ver <= nv_ver_counter && state->eval_ver == state->ver && state->m_status == __CPROVER_old(state->m_status)) \
/* evaluation budget of one line search */ \
__CPROVER_ensures(nv_ver_counter - __CPROVER_old(nv_ver_counter) <= (k) * (uint64_t)nv_max_iterations) \
/* success => the returned step is finite, whatever the interpolation kernels return (NaN passes through std::clamp) */ \
__CPROVER_ensures(NV_OK ==> NV_FINITE(NV_T))
/* backtrack / LeMarechal / Fletcher(+zoom) / More-Thuente: at most max_iterations trial evaluations per loop, at most two loops */
#define NV_DOGET_ENSURES_STATE NV_DOGET_ENSURES_STATE_K(2)

/* backtracking: success => Armijo was evaluated to true on the current trial point with the returned step and c1 */
#define NV_CONTRACT_backtrack_do_get NV_DOGET_REQUIRES NV_DOGET_ASSIGNS NV_DOGET_ENSURES_STATE \
__CPROVER_ensures(NV_OK ==> (NV_PRED_AT(nv_armijo, state, state0) && NV_SAME(nv_armijo.t, NV_T) && nv_armijo.c == nv_c1))
#define NV_LOOP_backtrack_do_get_1 \
__CPROVER_assigns(i, step_size, *state, nv_ver_counter, nv_armijo) \
__CPROVER_loop_invariant(0 <= i && i <= max_iterations && NV_AT(state, state0, step_size) && NV_VERS(20000)) \
__CPROVER_loop_invariant(state->valid ==> NV_FINITE(step_size)) \
__CPROVER_decreases(max_iterations - i)

/* LeMarechal: success => Armijo and Wolfe both evaluated to true on the current trial point */
#define NV_CONTRACT_lemarechal_do_get NV_DOGET_REQUIRES NV_DOGET_ASSIGNS NV_DOGET_ENSURES_STATE \
__CPROVER_ensures(NV_OK ==> (NV_PRED_AT(nv_armijo, state, state0) && NV_SAME(nv_armijo.t, NV_T) && nv_armijo.c == nv_c1)) \
__CPROVER_ensures(NV_OK ==> (NV_PRED_AT(nv_wolfe, state, state0) && nv_wolfe.c == nv_c2))
#define NV_LOOP_lemarechal_do_get_1 \
__CPROVER_assigns(i, step_size, L, R, *state, nv_ver_counter, nv_armijo, nv_wolfe) \
__CPROVER_loop_invariant(1 <= i && i <= (max_iterations > 1 ? max_iterations : 1) && NV_AT(state, state0, step_size) && state->valid && NV_FINITE(step_size) && NV_VERS(20000)) \
__CPROVER_decreases(max_iterations - i)

/* Fletcher: success => Armijo and strong Wolfe both evaluated to true on the current trial point */
#define NV_FLETCHER_ENSURES NV_DOGET_ENSURES_STATE \
__CPROVER_ensures(NV_OK ==> (NV_PRED_AT(nv_armijo, state, state0) && NV_SAME(nv_armijo.t, NV_T) && nv_armijo.c == nv_c1)) \
__CPROVER_ensures(NV_OK ==> (NV_PRED_AT(nv_swolfe, state, state0) && nv_swolfe.c == nv_c2))
#define NV_CONTRACT_fletcher_zoom \
__CPROVER_requires(NV_STATE_FRESH(state) && NV_STATE_FRESH(state0) && __CPROVER_is_fresh(descent, sizeof(*descent)) && __CPROVER_is_fresh(self, sizeof(*self))) \
__CPROVER_requires(NV_PARAMS_OK && state0->ver <= nv_ver_counter && state->ver <= nv_ver_counter && nv_ver_counter < UINT64_MAX - 10000 && state->eval_ver == state->ver) \
NV_DOGET_ASSIGNS NV_FLETCHER_ENSURES \
__CPROVER_ensures(nv_ver_counter - __CPROVER_old(nv_ver_counter) <= (uint64_t)nv_max_iterations)
#define NV_LOOP_fletcher_zoom_1 \
__CPROVER_assigns(i, lo, hi, *state, nv_ver_counter, nv_armijo, nv_swolfe) \
__CPROVER_loop_invariant(0 <= i && i <= max_iterations && NV_VERS(10000)) \
__CPROVER_decreases(max_iterations - i)
#define NV_CONTRACT_fletcher_do_get NV_DOGET_REQUIRES NV_DOGET_ASSIGNS NV_FLETCHER_ENSURES
#define NV_LOOP_fletcher_do_get_1 \
__CPROVER_assigns(i, step_size, prev, curr, *state, nv_ver_counter, nv_armijo, nv_swolfe) \
__CPROVER_loop_invariant(1 <= i && i <= (max_iterations > 1 ? max_iterations : 1) && NV_AT(state, state0, step_size) && state->valid && NV_FINITE(step_size) && NV_VERS(20000)) \
__CPROVER_decreases(max_iterations - i)

/* More-Thuente (do_get + its step kernel dcstep, both real code): success => the state is the valid evaluation at the
 * returned step; the value f and the slope g the convergence test reads are the ones of the current trial state; at most
 * max_iterations evaluations; the loop terminates.  NOT claimed here: that success implies Armijo + strong Wolfe -- the
 * function tests them inline (`f <= ftest && |g| <= gtol*(-ginit)`) and has four further `return {true, stp}` exits, see
 * the real-arithmetic contract advertised/morethuente_do_get (adv_smt.py). */
#define NV_CONTRACT_morethuente_do_get NV_DOGET_REQUIRES NV_DOGET_ASSIGNS NV_DOGET_ENSURES_STATE \
__CPROVER_ensures(nv_ver_counter - __CPROVER_old(nv_ver_counter) <= (uint64_t)nv_max_iterations)
#define NV_LOOP_morethuente_do_get_1 \
__CPROVER_assigns(i, stage, brackt, stp, f, g, stmin, stmax, width, width1, stx, fx, gx, sty, fy, gy, *state, nv_ver_counter) \
__CPROVER_loop_invariant(0 <= i && i <= max_iterations && NV_AT(state, state0, stp) && state->valid && NV_FINITE(stp) && NV_VERS(20000)) \
__CPROVER_loop_invariant(NV_SAME(f, state->m_fx) && NV_SAME(g, state->dg)) \
__CPROVER_decreases(max_iterations - i)

/* ghost, fixed during a run: the dynamic type of the line search is one whose EVERY success exit is an Armijo exit at the returned step with
 * c1 -- backtrack / LeMarechal / Fletcher (contracts above), More-Thuente (advertised/morethuente_do_get, over the reals); it is false for
 * CG_DESCENT, whose approximate-Wolfe exit tests the approximate Armijo rule instead (advertised/cgdescent_do_get) */
#ifndef NV_LS_ARMIJO_EXIT_DECL
#define NV_LS_ARMIJO_EXIT_DECL
_Bool nv_ls_armijo_exit;
#endif
#define NV_ARMIJO_EXIT_CLAUSE(ORIGIN_VER) \
__CPROVER_ensures((nv_ls_armijo_exit && NV_OK) ==> (nv_armijo.res && nv_armijo.ver == state->ver && nv_armijo.origin == (ORIGIN_VER) && NV_SAME(nv_armijo.t, NV_T) && nv_armijo.c == nv_c1))
/* the virtual do_get as seen from lsearchk_t::get: the common part of every implementation's contract (plus, under the ghost kind flag, the
 * Armijo exit shared by the four implementations named above) */
/* budget: the largest one of the five implementations is CG_DESCENT's 7 * max_iterations + 1 (advertised/cgdescent_do_get) */
#define NV_CONTRACT_lsearchk_do_get NV_DOGET_REQUIRES NV_DOGET_ASSIGNS NV_DOGET_ENSURES_STATE_K(8) \
__CPROVER_ensures(state->ver <= nv_ver_counter) \
NV_ARMIJO_EXIT_CLAUSE(state0->ver)
struct nv_tuple_b_f64 lsearchk_do_get(struct nv_lsearchk* self, struct nv_state* state0, struct nv_vector* descent, double step_size, struct nv_state* state, struct nv_logger* logger)
NV_CONTRACT_lsearchk_do_get;

#define NV_STATE_UNCHANGED(s) ((s)->ver == __CPROVER_old((s)->ver) && (s)->eval_ver == __CPROVER_old((s)->eval_ver) && (s)->origin == __CPROVER_old((s)->origin) \
  && NV_SAME((s)->t, __CPROVER_old((s)->t)) && (s)->valid == __CPROVER_old((s)->valid) && NV_SAME((s)->m_fx, __CPROVER_old((s)->m_fx)) && NV_SAME((s)->dg, __CPROVER_old((s)->dg)))
/* lsearchk_t::get: a non-descent direction is refused with the state untouched; success => the state is the valid
 * evaluation at x + t*d (x = the point on entry) for the returned t */
#define NV_CONTRACT_lsearchk_get \
__CPROVER_requires(NV_STATE_FRESH(state) && __CPROVER_is_fresh(descent, sizeof(*descent)) && __CPROVER_is_fresh(self, sizeof(*self))) \
__CPROVER_requires(NV_PARAMS_OK && state->ver <= nv_ver_counter && nv_ver_counter < UINT64_MAX - 3000000 && state->eval_ver == state->ver) \
__CPROVER_assigns(*state, nv_ver_counter, nv_armijo, nv_wolfe, nv_swolfe) \
__CPROVER_ensures(!(__CPROVER_old(state->dg) < 0.0) ==> (!NV_OK && NV_STATE_UNCHANGED(state) && NV_SAME(NV_T, step_size))) \
__CPROVER_ensures(NV_OK ==> (state->origin == __CPROVER_old(state->ver) && NV_SAME(state->t, NV_T) && state->eval_ver == state->ver && state->ver != __CPROVER_old(state->ver) && state->valid)) \
/* bookkeeping used by the solvers: the state always stays one consistent evaluation; the ghost counter counts evaluations */ \
__CPROVER_ensures(state->eval_ver == state->ver && state->ver <= nv_ver_counter && nv_ver_counter >= __CPROVER_old(nv_ver_counter) && nv_ver_counter - __CPROVER_old(nv_ver_counter) <= 10 * (uint64_t)nv_max_iterations) \
__CPROVER_ensures(NV_OK ==> nv_ver_counter > __CPROVER_old(nv_ver_counter)) \
__CPROVER_ensures(state->m_status == __CPROVER_old(state->m_status)) \
/* every line search that reports success returns a finite step, for EVERY double t0 (NaN and +-inf included) */ \
__CPROVER_ensures(NV_OK ==> NV_FINITE(NV_T)) \
/* an Armijo-exit line search: success => Armijo was evaluated true on the returned state against the state on entry, with the returned step and c1 */ \
NV_ARMIJO_EXIT_CLAUSE(__CPROVER_old(state->ver))
/* lsearchk_t::stpmin() = 10 * machine epsilon (proved: steps/stpmin) */
#define NV_STPMIN 2.220446049250313e-15
#define NV_LOOP_lsearchk_get_1 \
__CPROVER_assigns(NV_LOOPVAR_lsearchk_get_1, step_size, *state, nv_ver_counter) \
__CPROVER_loop_invariant(0 <= NV_LOOPVAR_lsearchk_get_1 && NV_LOOPVAR_lsearchk_get_1 <= max_iterations && state0.ver <= nv_ver_counter && state->ver <= nv_ver_counter && nv_ver_counter < UINT64_MAX - 3000000 + NV_LOOPVAR_lsearchk_get_1) \
__CPROVER_loop_invariant(state->eval_ver == state->ver && nv_ver_counter >= __CPROVER_loop_entry(nv_ver_counter) && nv_ver_counter - __CPROVER_loop_entry(nv_ver_counter) <= (uint64_t)NV_LOOPVAR_lsearchk_get_1 && state->m_status == __CPROVER_loop_entry(state->m_status)) \
__CPROVER_loop_invariant(NV_LOOPVAR_lsearchk_get_1 > 0 ==> (state->origin == state0.ver && state->eval_ver == state->ver && state->ver != state0.ver && !state->valid)) \
/* the FIRST trial step is sanitised: finite and stpmin <= t <= 1 whatever t0 is (a non-finite t0 is replaced, a finite one clamped); \
 * std::clamp(v, lo, hi) = (v < lo) ? lo : (hi < v) ? hi : v returns NaN for NaN */ \
__CPROVER_loop_invariant(NV_LOOPVAR_lsearchk_get_1 == 0 ==> (NV_FINITE(step_size) && NV_STPMIN <= step_size && step_size <= 1.0)) \
__CPROVER_decreases(max_iterations - NV_LOOPVAR_lsearchk_get_1)
#define NV_LOOP_lsearchk_get_2 \
__CPROVER_assigns(NV_LOOPVAR_lsearchk_get_2, step_size, *state, nv_ver_counter) \
__CPROVER_loop_invariant(0 <= NV_LOOPVAR_lsearchk_get_2 && NV_LOOPVAR_lsearchk_get_2 <= max_iterations && state0.ver <= nv_ver_counter && state->ver <= nv_ver_counter && nv_ver_counter < UINT64_MAX - 2500000 + NV_LOOPVAR_lsearchk_get_2) \
__CPROVER_loop_invariant(state->eval_ver == state->ver && nv_ver_counter >= __CPROVER_loop_entry(nv_ver_counter) && nv_ver_counter - __CPROVER_loop_entry(nv_ver_counter) <= (uint64_t)NV_LOOPVAR_lsearchk_get_2 && state->m_status == __CPROVER_loop_entry(state->m_status)) \
__CPROVER_loop_invariant(NV_AT(state, &state0, step_size) && state->valid && NV_FINITE(step_size)) \
__CPROVER_decreases(max_iterations - NV_LOOPVAR_lsearchk_get_2)
