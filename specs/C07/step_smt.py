"""C07 (back end B, double as Real): step sanity of backtracking / LeMarechal / Fletcher(+zoom).

Every update of `step_size` keeps the trial step strictly positive given a positive initial step (handed over by
lsearchk_t::get, proved below as well) and parameters in their registered domains (tau1 > 2, 0 < safeguard < 1/2,
0 < tau2 < tau3 <= 1/2, 0 < c1 < c2 < 1):
  * every std::clamp(v, lo, hi) is called with lo <= hi (its precondition), and the lower bound is > 0 whenever the
    bracket is (0, t] -- so the new trial step is > 0;
  * success => the returned step is > 0 (the property: "returns a finite positive step t");
  * the state handed back on success is the evaluation at exactly the returned step (ghost state.t).
The function values, slopes and the interpolation result are arbitrary reals (havoc): the claim holds for every function.
Over the reals every value is finite: finiteness proper (overflow, NaN out of `interpolate`) is NOT decided here.
"""
import astload
import nvwp
from core import VC
from nvwp import V, AND, OR, NOT, IMP, ITE, Unsupported
from wplib import IdEnvWP, reach_vc
from cxx2c import unwrap, qual, strip_cv

# registered parameter domains, read off the register_parameter calls (src/lsearchk.cpp, backtrack/lemarechal/fletcher.cpp);
# the same domains are the NV_PARAMS_OK precondition of the protocol contracts in lsearch.h
PARAMS = {
    'lsearchk::tolerance': (('c1', 'c2'), '(and (< 0.0 c1) (< c1 c2) (< c2 1.0))'),
    'lsearchk::max_iterations': (('max_iterations',), '(and (<= 1 max_iterations) (<= max_iterations 10000))'),
    'lsearchk::backtrack::safeguard': (('safeguard',), '(and (< 0.0 safeguard) (< safeguard 0.5))'),
    'lsearchk::lemarechal::safeguard': (('safeguard',), '(and (< 0.0 safeguard) (< safeguard 0.5))'),
    'lsearchk::lemarechal::tau1': (('tau1',), '(and (< 2.0 tau1) (< tau1 1000000.0))'),
    'lsearchk::fletcher::tau1': (('tau1',), '(and (< 2.0 tau1) (< tau1 1000000.0))'),
    'lsearchk::morethuente::delta': (('delta',), '(and (< 0.0 delta) (< delta 1.0))'),
    'lsearchk::fletcher::tau23': (('tau2', 'tau3'), '(and (< 0.0 tau2) (< tau2 tau3) (<= tau3 0.5))'),
}
ENUM_PARAMS = ('lsearchk::backtrack::interpolation', 'lsearchk::lemarechal::interpolation', 'lsearchk::fletcher::interpolation')


def find_string(n):
    for x in astload.walk(n):
        if x.get('kind') == 'StringLiteral':
            return x['value'].strip('"')
    return None


def param_consts(wp, pname):
    names, dom = PARAMS[pname]
    if pname not in wp.params_seen:
        wp.params_seen[pname] = [wp.const(nm, 'Int' if nm == 'max_iterations' else 'Real', 'int' if nm == 'max_iterations' else 'double') for nm in names]
        wp.assume(dom)
    return wp.params_seen[pname]


def is_step_type(t):
    return strip_cv(qual(t)).rstrip('&').strip().endswith('lsearch_step_t')


def state_key(wp, n):
    n = unwrap(n)
    if n.get('kind') == 'DeclRefExpr' and n['referencedDecl'].get('name') in ('state', 'state0'):
        return n['referencedDecl']['name']
    raise Unsupported(f'{wp.name}: not one of the two solver states of the line search')


def step_of(wp, n):
    """value (t, f, g) of an lsearch_step_t expression"""
    n = unwrap(n)
    k = n.get('kind')
    if k == 'DeclRefExpr':
        nm = n['referencedDecl']['name']
        if nm + '.t' not in wp.env:
            raise Unsupported(f'{wp.name}: unknown line-search step {nm}')
        return tuple(wp.env[f'{nm}.{f}'] for f in 'tfg')
    if k in ('CXXConstructExpr', 'CXXTemporaryObjectExpr', 'InitListExpr', 'CXXFunctionalCastExpr'):
        inner = n.get('inner', [])
        if len(inner) == 1:
            return step_of(wp, inner[0])
        if len(inner) == 3:
            a0 = unwrap(inner[0])
            if 'solver_state_t' in qual(a0.get('type', {})):
                # lsearch_step_t(state, descent, t) = {t, state.fx(), state.dg(descent)}   (src/solver/lstep.cpp, 3 lines)
                s = state_key(wp, a0)
                t = wp.conv(wp.ev(inner[2]), 'Real', 'double')
                return (t, wp.env[s + '.fx'], wp.env[s + '.dg'])
            return tuple(wp.conv(wp.ev(x), 'Real', 'double') for x in inner)
    raise Unsupported(f'{wp.name}: line-search step expression of kind {k}')


def set_step(wp, nm, val):
    for f, v in zip('tfg', val):
        wp.env[f'{nm}.{f}'] = V(v.t, 'Real', 'double')


def decl_hook(wp, v, init):
    if v['kind'] == 'DecompositionDecl':
        pname = find_string(init[0]) if init else None
        if pname not in PARAMS:
            raise Unsupported(f'{wp.name}: structured binding of an unknown parameter {pname!r}')
        names = [b['name'] for b in v.get('inner', []) if b.get('kind') == 'BindingDecl']
        vals = param_consts(wp, pname)
        if len(names) != len(vals):
            raise Unsupported(f'{wp.name}: {pname} bound to {len(names)} names')
        for nm, val in zip(names, vals):
            wp.env[nm] = val
        return True
    q = strip_cv(qual(v['type']))
    if 'interpolation_type' in q:
        if find_string(init[0]) not in ENUM_PARAMS:
            raise Unsupported(f'{wp.name}: interpolation mode that is not a registered parameter')
        wp.env[v['name']] = V(v['name'], 'Opaque', None)
        return True
    if is_step_type(v['type']):
        set_step(wp, v['name'], step_of(wp, init[0]))
        return True
    if q.endswith('solver_state_t') and v['name'] == 'state0':
        # `const auto state0 = state;` (lsearchk_t::get): the origin of the search is a copy of the state on entry
        src = unwrap(init[0])
        if src.get('kind') == 'CXXConstructExpr' and len(src.get('inner', [])) == 1:
            src = src['inner'][0]
        if state_key(wp, src) != 'state':
            raise Unsupported(f'{wp.name}: state0 is not a copy of state')
        for f in ('fx', 'dg', 'valid', 't'):
            wp.env['state0.' + f] = wp.env['state.' + f]
        wp.env['state0'] = V('state0', 'Opaque', None)
        return True
    return False


def h_value(wp, n, args, obj):
    pname = find_string(obj)
    if pname not in PARAMS or len(PARAMS[pname][0]) != 1:
        raise Unsupported(f'{wp.name}: value of an unknown parameter {pname!r}')
    return param_consts(wp, pname)[0]


def h_minmax(which):
    def h(wp, n, args, callee):
        a = wp.conv(wp.ev(args[0]), 'Real', 'double')
        b = wp.conv(wp.ev(args[1]), 'Real', 'double')
        return V(f'({which} {a.t} {b.t})', 'Real', 'double')
    return h


def h_clamp(wp, n, args, callee):
    v, lo, hi = (wp.conv(wp.ev(a), 'Real', 'double') for a in args)
    wp.oblige('std::clamp precondition: lower bound <= upper bound', f'(<= {lo.t} {hi.t})', n)
    # every bracket of the three line searches is (a, b] with a >= 0: the clamped trial step must stay strictly positive
    wp.oblige('std::clamp lower bound > 0 (the next trial step stays positive)', f'(> {lo.t} 0.0)', n)
    return V(f'(ite (< {v.t} {lo.t}) {lo.t} (ite (< {hi.t} {v.t}) {hi.t} {v.t}))', 'Real', 'double')


def h_fabs(wp, n, args, callee):
    v = wp.conv(wp.ev(args[0]), 'Real', 'double')
    return V(f'(rabs {v.t})', 'Real', 'double')


def h_isfinite(wp, n, args, callee):
    wp.ev(args[0])
    return V('true', 'Bool', 'bool')     # the real model: every value is finite (stated in the assumptions)


def h_interpolate(wp, n, args, callee):
    step_of(wp, args[0]); step_of(wp, args[1])
    return wp.fresh('Real', 'interpolate', 'double')        # assumed contract: an arbitrary real


def h_eps(name):
    def h(wp, n, args, callee):
        if name not in wp.env:
            wp.env[name] = wp.const(name, 'Real', 'double')
            wp.assume(f'(> {name} 0.0)')                    # epsilon0 / epsilon1 / stpmin: some positive constant
        return wp.env[name]
    return h


def h_assign_step(wp, n, args, callee):
    lhs = unwrap(args[0])
    if lhs.get('kind') != 'DeclRefExpr' or lhs['referencedDecl']['name'] + '.t' not in wp.env:
        raise Unsupported(f'{wp.name}: assignment to an unknown line-search step')
    set_step(wp, lhs['referencedDecl']['name'], step_of(wp, args[1]))
    return V('0', 'Int', 'int')


def h_update(wp, n, args, obj):
    """lsearchk_t::update(state, state0, descent, t, logger): contract proved by back end A (state := evaluation at
    x0 + t*d, returns validity); value, slope and validity of the new point are arbitrary"""
    if state_key(wp, args[0]) != 'state' or state_key(wp, args[1]) != 'state0':
        raise Unsupported(f'{wp.name}: update(...) on unexpected states')
    t = wp.conv(wp.ev(args[3]), 'Real', 'double')
    wp.env['state.t'] = t
    wp.env['state.fx'] = wp.fresh('Real', 'fx', 'double')
    wp.env['state.dg'] = wp.fresh('Real', 'dg', 'double')
    wp.env['state.valid'] = wp.fresh('Bool', 'valid', 'bool')
    wp.env['evals'] = V(f'(+ {wp.env["evals"].t} 1)', 'Int', 'long')
    return wp.env['state.valid']


def h_state(field):
    def h(wp, n, args, obj):
        return wp.env[state_key(wp, obj) + '.' + field]
    return h


def h_pred(wp, n, args, obj):
    state_key(wp, obj)
    for a in args:
        if wp.base(a.get('type', {})) in ('double', 'float'):
            wp.ev(a)
    return wp.fresh('Bool', 'predicate', 'bool')            # any outcome of the acceptance predicate


def h_has_descent(wp, n, args, obj):
    return V(f'(< {wp.env[state_key(wp, obj) + ".dg"].t} 0.0)', 'Bool', 'bool')     # proved: pred/has_descent


def pair_hook(wp, n):
    """`return {ok, t};` -- lsearchk_t::result_t = std::tuple<bool, scalar_t>"""
    if n.get('kind') in ('CXXConstructExpr', 'InitListExpr', 'CXXTemporaryObjectExpr') and len(n.get('inner', [])) == 2 \
            and ('result_t' in qual(n['type']) or 'tuple<bool, double>' in qual(n['type'])):
        ok = wp.conv(wp.ev(n['inner'][0]), 'Bool', 'bool')
        t = wp.conv(wp.ev(n['inner'][1]), 'Real', 'double')
        return V('pair', 'Pair', (ok.t, t.t, wp.env['state.t'].t, wp.env['state.valid'].t, wp.env['state.fx'].t, wp.env['state.dg'].t))
    return None


def zoom_requires(lo_t, hi_t):
    return [('bracket ends are non-negative steps', f'(and (>= {lo_t} 0.0) (>= {hi_t} 0.0))')]


def result_post(wp, rv):
    ok, t, st, valid = rv.c[:4]
    return [('success => the returned step is positive', f'(=> {ok} (> {t} 0.0))'),
            ('success => the state is the valid evaluation at exactly the returned step', f'(=> {ok} (and (= {t} {st}) {valid}))')]


def h_zoom(wp, n, args, obj):
    """call of the extracted fletcher zoom: precondition obliged here, exactly the proved postcondition assumed"""
    lo, hi = step_of(wp, args[2]), step_of(wp, args[3])
    for label, claim in zoom_requires(lo[0].t, hi[0].t):
        wp.oblige('zoom precondition: ' + label, claim, n)
    ok, t, st, valid = (wp.fresh('Bool', 'zoom_ok'), wp.fresh('Real', 'zoom_t'), wp.fresh('Real', 'zoom_state_t'), wp.fresh('Bool', 'zoom_valid'))
    rv = V('pair', 'Pair', (ok.t, t.t, st.t, valid.t, wp.fresh('Real', 'zoom_fx').t, wp.fresh('Real', 'zoom_dg').t))
    for _, claim in result_post(wp, rv):
        wp.assume(claim)
    return rv


def h_stpmin(wp, n, args, callee):
    """lsearchk_t::stpmin(): contract proved below on its body (steps/stpmin): 0 < stpmin <= 1"""
    if 'stpmin' not in wp.env:
        wp.env['stpmin'] = wp.const('stpmin', 'Real', 'double')
        for _, claim in stpmin_post('stpmin'):
            wp.assume(claim)
    return wp.env['stpmin']


def stpmin_post(r):
    return [('0 < stpmin <= 1 (std::clamp(t0, stpmin, 1) is well formed and positive)', f'(and (< 0.0 {r}) (<= {r} 1.0))')]


def h_do_get(wp, n, args, obj):
    """the virtual do_get as seen from lsearchk_t::get: its precondition (positive step, the state is the valid evaluation at
    that step -- the latter is proved by back end A with the state after the loop conditions) is obliged here"""
    t = wp.conv(wp.ev(args[2]), 'Real', 'double')
    wp.oblige('do_get precondition: the step handed to the line search is > 0', f'(> {t.t} 0.0)', n)
    ok, rt, st, valid = (wp.fresh('Bool', 'do_get_ok'), wp.fresh('Real', 'do_get_t'), wp.fresh('Real', 'do_get_state_t'), wp.fresh('Bool', 'do_get_valid'))
    return V('pair', 'Pair', (ok.t, rt.t, st.t, valid.t, wp.fresh('Real', 'do_get_fx').t, wp.fresh('Real', 'do_get_dg').t))


CALLS = [(r'^stpmin\|', h_stpmin), (r'^epsilon\|double \(\)', lambda wp, n, a, c: V('(/ 1.0 4503599627370496.0)', 'Real', 'double')),
         (r'^min\|const double &', h_minmax('rmin')), (r'^max\|const double &', h_minmax('rmax')), (r'^clamp\|const double &', h_clamp),
         (r'^fabs\|', h_fabs), (r'^isfinite\|', h_isfinite), (r'^interpolate\|', h_interpolate),
         (r'^epsilon0\|', h_eps('eps0')), (r'^epsilon1\|', h_eps('eps1')),
         (r'^operator=\|.*lsearch_step_t', h_assign_step)]
MEMBERS = [(r'^value\|', h_value), (r'^update\|.*lsearchk', h_update), (r'^valid\|(const )?nano::solver_state_t', h_state('valid')),
           (r'^fx\|(const )?nano::solver_state_t', h_state('fx')), (r'^dg\|(const )?nano::solver_state_t', h_state('dg')),
           (r'^has_descent\|(const )?nano::solver_state_t', h_has_descent),
           (r'^has_(armijo|wolfe|strong_wolfe)\|(const )?nano::solver_state_t', h_pred),
           (r'^(info|warn|error)\|(const )?nano::logger_t', lambda wp, n, a, o: V('0', 'Int', 'int')),
           (r'^zoom\|', h_zoom), (r'^stpmin\|', h_stpmin), (r'^do_get\|', h_do_get), (r'^type_id\|', lambda wp, n, a, o: V('0', 'Int', 'int'))]

STATE_KEYS = ('state.t', 'state.fx', 'state.dg', 'state.valid', 'evals')


def mk(name, tu, flt, cxx, setup, invariants, about, post=result_post, calls=(), members=()):
    fn = astload.find_definition(tu, flt, cxx)
    src = astload.resolve_tu(tu)
    wp = IdEnvWP(name, real=True, calls=list(calls) + CALLS, members=list(members) + MEMBERS, hooks=[pair_hook], invariants=invariants)
    wp.decl_hooks = (decl_hook,)
    wp.params_seen = {}
    wp.clamps = []
    wp.real_div_check = True
    for key, p in wp.bind_params(fn):
        if key in ('state', 'state0', 'descent', 'logger'):
            wp.env[key] = V(key, 'Opaque', None)
        elif key == 'step_size':
            wp.env[key] = wp.const('t0', 'Real', 'double')
        elif is_step_type(p['type']):
            set_step(wp, key, tuple(wp.const(f'{key}_{f}', 'Real', 'double') for f in 'tfg'))
        else:
            raise astload.ExtractionError(f'{name}: unexpected parameter {key}')
    wp.env['state0.fx'] = wp.const('f_0', 'Real', 'double')
    wp.env['state0.dg'] = wp.const('g0d', 'Real', 'double')
    wp.env['state.fx'] = wp.const('f_in', 'Real', 'double')
    wp.env['state.dg'] = wp.const('gd_in', 'Real', 'double')
    wp.env['state.valid'] = wp.const('valid_in', 'Bool', 'bool')
    wp.env['state.t'] = wp.const('state_t_in', 'Real', 'double')
    wp.env['evals'] = V('0', 'Int', 'long')
    setup(wp)
    wp.post = post
    wp.run(fn, src)
    if wp.returns == 0:
        raise astload.ExtractionError(f'{name}: no return path')
    vcs = wp.vcs(name, src, about)
    vcs.append(reach_vc(wp, name, src))
    return vcs, {'c_name': name, 'cxx': flt, 'file': src, 'line': fn.get('loc', {}).get('line'), 'sha': astload.file_hash(src)}


def doget_setup(wp):
    # precondition of every do_get, established by lsearchk_t::get (steps/lsearchk_get below + back end A): positive
    # initial step, the state is the valid evaluation at that step
    wp.assume('(> t0 0.0)')
    wp.assume('(and (= state_t_in t0) valid_in)')


def counter(wp, first):
    i, m = wp.env[wp.loop_counter or 'i'].t, wp.env['max_iterations'].t
    return f'(and (<= {first} {i}) (<= {i} (imax {m} {first})))'


def with_havoc(inv, extra=(), decreases=True):
    inv.havoc = tuple(STATE_KEYS) + tuple(extra)
    if decreases:
        inv.decreases = lambda wp, env: f'(- {wp.env["max_iterations"].t} {env[wp.loop_counter or "i"].t})'
    return inv


def build():
    vcs, fns = [], []

    def add(r):
        vcs.extend(r[0])
        fns.append(r[1])

    # ---- backtracking: bracket (0, t]: the clamp bounds are safeguard*t and (1-safeguard)*t
    def inv_bt(wp):
        return [('loop counter in range', counter(wp, 0)), ('trial step > 0', f'(> {wp.env["step_size"].t} 0.0)'),
                ('the state is the evaluation at the current trial step', f'(= {wp.env["state.t"].t} {wp.env["step_size"].t})')]
    add(mk('steps/backtrack_do_get', 'src/lsearchk/backtrack.cpp', 'lsearchk_backtrack_t::do_get', 'do_get', doget_setup,
           {1: with_havoc(inv_bt)}, 'backtracking keeps the trial step positive (over the reals)'))

    # ---- LeMarechal: 0 <= L.t < t, and t < R.t once a right end exists (R.t >= epsilon0)
    def inv_lm(wp):
        e = wp.env
        eps = h_eps('eps0')(wp, None, None, None).t
        return [('loop counter in range', counter(wp, 1)),
                ('0 <= L.t < trial step', f'(and (<= 0.0 {e["L.t"].t}) (< {e["L.t"].t} {e["step_size"].t}))'),
                ('trial step < R.t once the bracket has a right end', f'(=> (>= {e["R.t"].t} {eps}) (< {e["step_size"].t} {e["R.t"].t}))'),
                ('the state is the valid evaluation at the current trial step', f'(and (= {e["state.t"].t} {e["step_size"].t}) {e["state.valid"].t})')]
    add(mk('steps/lemarechal_do_get', 'src/lsearchk/lemarechal.cpp', 'lsearchk_lemarechal_t::do_get', 'do_get', doget_setup,
           {1: with_havoc(inv_lm, ('L.t', 'L.f', 'L.g', 'R.t', 'R.f', 'R.g'))}, 'LeMarechal keeps 0 <= L < t < R and the trial step positive (over the reals)'))

    # ---- Fletcher zoom: both bracket ends stay non-negative; the clamp interval lies strictly inside the bracket
    def zoom_setup(wp):
        for _, claim in zoom_requires('lo_t', 'hi_t'):
            wp.assume(claim)

    def inv_zoom(wp):
        e = wp.env
        return [('loop counter in range', counter(wp, 0)), ('bracket ends are non-negative', f'(and (>= {e["lo.t"].t} 0.0) (>= {e["hi.t"].t} 0.0))')]
    add(mk('steps/fletcher_zoom', 'src/lsearchk/fletcher.cpp', 'lsearchk_fletcher_t::zoom', 'zoom', zoom_setup,
           {1: with_havoc(inv_zoom, ('lo.t', 'lo.f', 'lo.g', 'hi.t', 'hi.f', 'hi.g'))}, 'Fletcher zoom keeps the trial step strictly inside a non-negative bracket (over the reals)'))

    # ---- Fletcher bracketing phase: 0 <= prev.t < curr.t = t
    def inv_fl(wp):
        e = wp.env
        return [('loop counter in range', counter(wp, 1)),
                ('0 <= prev.t < curr.t = trial step', f'(and (<= 0.0 {e["prev.t"].t}) (< {e["prev.t"].t} {e["curr.t"].t}) (= {e["curr.t"].t} {e["step_size"].t}))'),
                ('the state is the valid evaluation at the current trial step', f'(and (= {e["state.t"].t} {e["step_size"].t}) {e["state.valid"].t})')]
    add(mk('steps/fletcher_do_get', 'src/lsearchk/fletcher.cpp', 'lsearchk_fletcher_t::do_get', 'do_get', doget_setup,
           {1: with_havoc(inv_fl, ('prev.t', 'prev.f', 'prev.g', 'curr.t', 'curr.f', 'curr.g'))}, 'Fletcher extrapolation keeps prev < curr and the trial step positive (over the reals)'))

    # ---- lsearchk_t::get: the initial step handed to do_get is positive (finite t0 clamped to [stpmin, 1], non-finite t0
    # replaced by 1, then scaled by 0.3 / 3.0); invariants mention only the step (the loop conditions call update)
    def get_setup(wp):
        pass

    def inv_get(wp):
        return [('loop counter in range', counter(wp, 0)), ('trial step > 0', f'(> {wp.env["step_size"].t} 0.0)')]
    get_post = lambda wp, rv: [('a direction that is not a descent direction is refused', f'(=> (not (< gd_in 0.0)) (not {rv.c[0]}))')]
    add(mk('steps/lsearchk_get', 'src/lsearchk.cpp', 'lsearchk_t::get', 'get', get_setup, {1: with_havoc(inv_get), 2: with_havoc(inv_get)},
           'the initial step handed to do_get is positive (over the reals)', post=get_post))

    def stpmin_setup(wp):
        pass
    add(mk('steps/stpmin', 'src/lsearchk.cpp', 'lsearchk_t::stpmin', 'stpmin', stpmin_setup, {}, 'stpmin = 10 * machine epsilon lies in (0, 1]',
           post=lambda wp, rv: stpmin_post(rv.t)))
    return vcs, fns
