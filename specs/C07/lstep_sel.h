/* C07: lsearch_step_t::interpolate (src/solver/lstep.cpp) SELECTS between its three kernels as documented ("first try a cubic
 * interpolation, then a quadratic interpolation and finally do bisection until the interpolated point is valid"), in IEEE
 * semantics (std::isfinite is the real predicate here: NaN and +-inf are not finite):
 *     cubic mode      -> the cubic step if it is finite, else the quadratic step if it is finite, else the bisection point
 *     quadratic mode  -> the quadratic step if it is finite, else the bisection point
 *     bisection mode (and any other value of the enum) -> the bisection point
 * The kernels are ghost-recording stubs (their results are arbitrary doubles, recorded together with the arguments they were
 * called with); what each kernel computes is the subject of the real-arithmetic contracts interp/... (interp_smt.py). */
#include "lsearch.h"
enum { NVE_interpolation_type_bisection = 0, NVE_interpolation_type_quadratic = 1, NVE_interpolation_type_cubic = 2 };
double nv_g_tc, nv_g_tq, nv_g_tb;
const struct nv_lstep *nv_g_cu, *nv_g_cv, *nv_g_qu, *nv_g_qv, *nv_g_bu, *nv_g_bv;
static double nv_cubic_g(const struct nv_lstep* u, const struct nv_lstep* v) { nv_g_tc = nv_nondet_double(); nv_g_cu = u; nv_g_cv = v; return nv_g_tc; }
static double nv_quadratic_g(const struct nv_lstep* u, const struct nv_lstep* v) { nv_g_tq = nv_nondet_double(); nv_g_qu = u; nv_g_qv = v; return nv_g_tq; }
static double nv_bisection_g(const struct nv_lstep* u, const struct nv_lstep* v) { nv_g_tb = nv_nondet_double(); nv_g_bu = u; nv_g_bv = v; return nv_g_tb; }
#define NV_SEL_CUBIC (method == NVE_interpolation_type_cubic)
#define NV_SEL_QUADRATIC (method == NVE_interpolation_type_quadratic)
#define NV_USE_C (NV_SEL_CUBIC && NV_FINITE(nv_g_tc))
#define NV_USE_Q (!NV_USE_C && (NV_SEL_CUBIC || NV_SEL_QUADRATIC) && NV_FINITE(nv_g_tq))
#define NV_CONTRACT_lstep_interpolate_sel \
__CPROVER_requires(__CPROVER_is_fresh(u, sizeof(*u)) && __CPROVER_is_fresh(v, sizeof(*v))) \
__CPROVER_assigns(nv_g_tc, nv_g_tq, nv_g_tb, nv_g_cu, nv_g_cv, nv_g_qu, nv_g_qv, nv_g_bu, nv_g_bv) \
__CPROVER_ensures(NV_USE_C ==> (NV_SAME(__CPROVER_return_value, nv_g_tc) && nv_g_cu == u && nv_g_cv == v)) \
__CPROVER_ensures(NV_USE_Q ==> (NV_SAME(__CPROVER_return_value, nv_g_tq) && nv_g_qu == u && nv_g_qv == v)) \
__CPROVER_ensures((!NV_USE_C && !NV_USE_Q) ==> (NV_SAME(__CPROVER_return_value, nv_g_tb) && nv_g_bu == u && nv_g_bv == v))
