"""CG_DESCENT (src/lsearchk/cgdescent.cpp): extraction set-up of do_get and its helpers for back end A"""
import re
import astload
from core import Fn, Target
import hooks
from cxx2c import unwrap, qual, strip_cv

SRC = 'src/lsearchk/cgdescent.cpp'
FLT = 'lsearchk_cgdescent_t::'     # one clang run for every member of the class and of its nested interval_t


def reference_fields():
    """names of the reference members of interval_t, read from the class definition in the current source"""
    out = set()
    for d in astload.dump(SRC, FLT):
        for n in astload.walk(d):
            if n.get('kind') == 'CXXRecordDecl' and n.get('name') == 'interval_t':
                for f in n.get('inner', []):
                    if f.get('kind') == 'FieldDecl' and f['type']['qualType'].rstrip().endswith('&'):
                        out.add(f['name'])
    if not out:
        raise astload.ExtractionError('interval_t: no reference members found (class layout changed)')
    return out


def ref_member_hook():
    refs = reference_fields()

    def h(P, n):
        """interval.c / interval.state0 / interval.descent are reference members: pointer fields in the C model"""
        if n.get('kind') != 'MemberExpr' or n.get('name') not in refs or not n.get('inner'):
            return None
        base = n['inner'][0]
        if 'interval_t' not in qual(base.get('type', {})):
            return None
        b = P.expr(base)
        if n.get('isArrow'):
            return f'(*{b}->{n["name"]})'
        m = re.fullmatch(r'\(\*([A-Za-z_]\w*)\)', b)
        return f'(*{m.group(1)}->{n["name"]})' if m else f'(*{b}.{n["name"]})'
    return h


def fns(common):
    C = dict(common)
    C['types'] = C['types'] + [(r'^nano::configurable_t$', 'struct nv_lsearchk'), (r'interval_t$', 'struct nv_cgd_interval'), (r'params_t$', 'struct nv_cgd_params')]
    done_decl = lambda: astload.find_definition(SRC, FLT, 'done')
    C['hooks'] = C['hooks'] + [ref_member_hook(), hooks.member_default_args_hook('done', r'interval_t', 'cgd_done', done_decl)]
    C['members'] = [(r'^has_armijo\|nano::solver_state_t', 'nv_cgd_has_armijo'), (r'^has_wolfe\|nano::solver_state_t', 'nv_cgd_has_wolfe'), (r'^has_approx_armijo\|nano::solver_state_t', 'nv_has_approx_armijo'), (r'^has_approx_wolfe\|nano::solver_state_t', 'nv_has_approx_wolfe'),
                    (r'^updateA\|.*interval_t', 'cgd_updateA'), (r'^converged\|.*interval_t', 'cgd_converged'), (r'^updateB\|.*interval_t', 'cgd_updateB'), 
                    (r'^move\|.*lsearchk_cgdescent_t', 'cgd_move'), (r'^updateU\|.*lsearchk_cgdescent_t', 'cgd_updateU'),
                    (r'^update\|.*lsearchk_cgdescent_t \*\|#3', 'cgd_update'), (r'^bracket\|.*lsearchk_cgdescent_t', 'cgd_bracket')] + C['members']
    C['calls'] = [(r'^make_params\|', 'cgd_make_params'), (r'^operator\(\)\|bool \(const double\) const\|\(lambda', 'cgd_muc(self, {1}, &interval, logger, &params)'), (r'^get\|__tuple_element_t<0UL, tuple<double, double>>', '{0}._0'), (r'^get\|__tuple_element_t<1UL, tuple<double, double>>', '{0}._1'), (r'^ctor\|nano::lsearchk_cgdescent_t::interval_t\|', 'nv_cgd_interval_make({&0}, {&1}, {2}, {&3})'), (r'^secant\|', 'nv_secant({&0}, {&1})')] + C['calls']
    mk = lambda cname, name, flt, **kw: Fn(cname, SRC, name, flt=flt, **dict(C, **kw))
    I = 'struct nv_cgd_interval'
    return {f.cname: f for f in [mk('cgd_interval_ctor', 'interval_t', FLT, self_struct=I, ref_member_pointers=True),
            mk('cgd_done', 'done', FLT, self_struct=I),
            mk('cgd_converged', 'converged', FLT, self_struct=I),
            mk('cgd_updateA', 'updateA', FLT, self_struct=I),
            mk('cgd_updateB', 'updateB', FLT, self_struct=I),
            mk('cgd_make_params', 'make_params', 'make_params', self_struct=None, aggregates=['struct nv_cgd_params'], ret='struct nv_cgd_params'),
            mk('cgd_move', 'move', FLT),
            mk('cgd_updateU', 'updateU', FLT),
            mk('cgd_update', 'update', FLT),
            mk('cgd_bracket', 'bracket', FLT),
            mk('cgd_muc', 'do_get', FLT, lambda_index=0, captures=True),
            mk('cgd_do_get', 'do_get', FLT)]}


H = 'specs/C07/cgdescent.h'


def targets(common, upd, hd):
    """one target per function under contract; callees are replaced by their contracts, the one-line helpers (move, updateA,
    updateB, make_params, the constructor) are inlined"""
    F = lambda *names: [fns(common)[n] for n in names]
    CAD = ['--sat-solver', 'cadical']     # minisat needs > 200 s on the criterion-or-give-up clause of cgd_muc, cadical 4 s
    return [
        Target('cgd_interval_ctor', F('cgd_interval_ctor'), H),
        Target('cgd_converged', F('cgd_converged'), H),
        Target('cgd_done', F('cgd_done', 'cgd_converged'), H, replace=['cgd_converged']),
        Target('cgd_updateU', F('cgd_updateU', 'cgd_move', 'cgd_updateA', 'cgd_updateB') + [upd(), hd()], H, replace=['lsearchk_update'], cbmc_flags=CAD),
        Target('cgd_update', F('cgd_update', 'cgd_updateU', 'cgd_updateA', 'cgd_updateB') + [hd()], H, replace=['cgd_updateU'], cbmc_flags=CAD),
        Target('cgd_bracket', F('cgd_bracket', 'cgd_updateU', 'cgd_move', 'cgd_updateB') + [upd(), hd()], H, replace=['cgd_updateU', 'lsearchk_update'], cbmc_flags=CAD),
        Target('cgd_muc', F('cgd_muc', 'cgd_move', 'cgd_done', 'cgd_update') + [upd()], H, replace=['cgd_done', 'cgd_update', 'lsearchk_update'], cbmc_flags=CAD),
        Target('cgd_make_params', F('cgd_make_params'), H),
        # do_get itself: composed from these contracts by back end B (adv_smt.py): as a DFCC target its four replaced
        # move_update_and_check_done calls per iteration give a 5M-clause formula on which the budget arithmetic times out
    ]
