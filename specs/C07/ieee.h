/* C07: lsearchk_t::get in IEEE semantics (compiled with -DNV_IEEE: + - * / are the machine operations, nothing uninterpreted).
 * The protocol is proved by the target lsearchk_get (uninterpreted arithmetic); here the numbers: for EVERY double t0 -- NaN and
 * +-inf included -- the first trial step is finite and in [stpmin, 1]; the shrinking loop (t *= 0.3) keeps 0 <= t <= 1; the
 * growing loop (t *= 3) keeps t >= 0 (never NaN); the step handed to do_get is finite (an infinite step cannot give a valid
 * state) and -- demanded by the property "returns a finite positive step" -- strictly positive. */
#include "lsearch.h"
/* the virtual do_get as seen from the IEEE rendering of get: the contract of lsearch.h plus a strictly positive step */
#define NV_CONTRACT_lsearchk_do_get_ieee NV_DOGET_REQUIRES \
/* precondition 5: the step is strictly positive (do_get(t = 0) lets backtracking accept the origin itself: Armijo holds trivially) */ \
__CPROVER_requires(step_size > 0.0) \
NV_DOGET_ASSIGNS NV_DOGET_ENSURES_STATE_K(8) \
__CPROVER_ensures(NV_OK ==> NV_T > 0.0)
struct nv_tuple_b_f64 lsearchk_do_get_ieee(struct nv_lsearchk* self, struct nv_state* state0, struct nv_vector* descent, double step_size, struct nv_state* state, struct nv_logger* logger)
NV_CONTRACT_lsearchk_do_get_ieee;

#define NV_CONTRACT_lsearchk_get_ieee \
__CPROVER_requires(NV_STATE_FRESH(state) && __CPROVER_is_fresh(descent, sizeof(*descent)) && __CPROVER_is_fresh(self, sizeof(*self))) \
__CPROVER_requires(NV_PARAMS_OK && state->ver <= nv_ver_counter && nv_ver_counter < UINT64_MAX - 3000000 && state->eval_ver == state->ver) \
__CPROVER_assigns(*state, nv_ver_counter, nv_armijo, nv_wolfe, nv_swolfe) \
/* every line search that reports success returns a finite positive step, for every double t0 */ \
__CPROVER_ensures(NV_OK ==> (NV_FINITE(NV_T) && NV_T > 0.0))
#define NV_LOOP_lsearchk_get_ieee_1 \
__CPROVER_assigns(NV_LOOPVAR_lsearchk_get_ieee_1, step_size, *state, nv_ver_counter) \
__CPROVER_loop_invariant(0 <= NV_LOOPVAR_lsearchk_get_ieee_1 && NV_LOOPVAR_lsearchk_get_ieee_1 <= max_iterations && state0.ver <= nv_ver_counter && state->ver <= nv_ver_counter && nv_ver_counter < UINT64_MAX - 3000000 + NV_LOOPVAR_lsearchk_get_ieee_1) \
__CPROVER_loop_invariant(NV_LOOPVAR_lsearchk_get_ieee_1 > 0 ==> (state->origin == state0.ver && state->eval_ver == state->ver && state->ver != state0.ver && !state->valid)) \
__CPROVER_loop_invariant(NV_FINITE(step_size) && 0.0 <= step_size && step_size <= 1.0 && (NV_LOOPVAR_lsearchk_get_ieee_1 == 0 ==> NV_STPMIN <= step_size)) \
__CPROVER_decreases(max_iterations - NV_LOOPVAR_lsearchk_get_ieee_1)
#define NV_LOOP_lsearchk_get_ieee_2 \
__CPROVER_assigns(NV_LOOPVAR_lsearchk_get_ieee_2, step_size, *state, nv_ver_counter) \
__CPROVER_loop_invariant(0 <= NV_LOOPVAR_lsearchk_get_ieee_2 && NV_LOOPVAR_lsearchk_get_ieee_2 <= max_iterations && state0.ver <= nv_ver_counter && state->ver <= nv_ver_counter && nv_ver_counter < UINT64_MAX - 2500000 + NV_LOOPVAR_lsearchk_get_ieee_2) \
__CPROVER_loop_invariant(NV_AT(state, &state0, step_size) && state->valid && state->eval_ver == state->ver && NV_FINITE(step_size) && step_size >= 0.0) \
/* t *= 3 cannot leave (0, inf]: a positive step stays positive (the only way to reach do_get with t = 0 is to enter this loop with it) */ \
__CPROVER_loop_invariant(__CPROVER_loop_entry(step_size) > 0.0 ==> step_size > 0.0) \
__CPROVER_decreases(max_iterations - NV_LOOPVAR_lsearchk_get_ieee_2)

/* scalar lemma behind "a valid trial state has a finite step" (no libnano code): a non-finite step makes every coordinate of
 * x0 + t*d non-finite, whatever x0 and d are (inf*0 and NaN*d are NaN) */
double nv_ieee_point(double x0, double t, double d)
__CPROVER_requires(!NV_FINITE(t)) __CPROVER_assigns() __CPROVER_ensures(!NV_FINITE(__CPROVER_return_value))
{ return NV_FADD(x0, NV_FMUL(t, d)); }
