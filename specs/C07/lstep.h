/* C07: lsearch_step_t::interpolate / bisection (src/solver/lstep.cpp).  For every interpolation mode the result is a finite
 * value or else the bisection point 0.5*(u.t + v.t): the only way a non-finite trial step can come out of `interpolate` is a
 * non-finite bracket end (or an overflowing u.t + v.t).  The cubic and quadratic fits are arbitrary doubles (havoc). */
#include "lsearch.h"
enum { NVE_interpolation_type_bisection = 0, NVE_interpolation_type_quadratic = 1, NVE_interpolation_type_cubic = 2 };
#define NV_CONTRACT_lstep_bisection \
__CPROVER_requires(__CPROVER_is_fresh(u, sizeof(*u)) && __CPROVER_is_fresh(v, sizeof(*v))) \
__CPROVER_assigns() \
__CPROVER_ensures(NV_SAME(__CPROVER_return_value, NV_FMUL(0.5, NV_FADD(u->t, v->t))))
#define NV_CONTRACT_lstep_interpolate \
__CPROVER_requires(__CPROVER_is_fresh(u, sizeof(*u)) && __CPROVER_is_fresh(v, sizeof(*v))) \
__CPROVER_assigns() \
__CPROVER_ensures(NV_FINITE(__CPROVER_return_value) || NV_SAME(__CPROVER_return_value, NV_FMUL(0.5, NV_FADD(u->t, v->t)))) \
/* bisection mode (and every unknown mode value) is exactly the bisection point */ \
__CPROVER_ensures((method != NVE_interpolation_type_cubic && method != NVE_interpolation_type_quadratic) ==> NV_SAME(__CPROVER_return_value, NV_FMUL(0.5, NV_FADD(u->t, v->t))))
#define NV_CONTRACT_lstep_ctor3 \
__CPROVER_requires(__CPROVER_is_fresh(self, sizeof(*self))) \
__CPROVER_assigns(*self) \
__CPROVER_ensures(NV_SAME(self->t, tt) && NV_SAME(self->f, ff) && NV_SAME(self->g, dg))
