"""C07 (back end B, double as Real): the acceptance predicates of nano::solver_state_t equal the textbook formulas of
the property statement.  The dot products are opaque reals:
    gtd = m_gx . descent (this state, the trial point)     g0d = origin.m_gx . descent      f_t = m_fx     f_0 = origin.fx()
Spec formulas (written from the property, not from the code):
    Armijo          f_t <= f_0 + t*c1*g0d
    Wolfe           gtd >= c2*g0d
    strong Wolfe    |gtd| <= c2*|g0d|
    descent         gtd < 0
    approx. Armijo  f_t <= f_0 + epsilon                      (Hager & Zhang, CG_DESCENT, T2)
    approx. Wolfe   (2*c1 - 1)*g0d >= gtd >= c2*g0d           (Hager & Zhang, CG_DESCENT, T2)
"""
import astload
import nvwp
from core import VC
from nvwp import V, Unsupported
from wplib import IdEnvWP, reach_vc
from cxx2c import unwrap

SRC = 'src/solver/state.cpp'


def _is_this(n):
    n = unwrap(n)
    return n.get('kind') == 'CXXThisExpr'


def _is_param(n, name):
    n = unwrap(n)
    return n.get('kind') == 'DeclRefExpr' and n['referencedDecl'].get('name') == name


def _need_descent(wp, args):
    if len(args) != 1 or not _is_param(args[0], 'descent'):
        raise Unsupported(f'{wp.name}: slope along something that is not the parameter `descent`')


def h_dg(wp, n, args, obj):
    """x.dg(descent): contract of solver_state_t::dg proved below (result == x.m_gx . descent)"""
    _need_descent(wp, args)
    if _is_this(obj):
        return wp.env['gtd*']
    if _is_param(obj, 'origin'):
        return wp.env['g0d*']
    raise Unsupported(f'{wp.name}: dg() of an unknown state')


def h_fx(wp, n, args, obj):
    if _is_this(obj):
        return wp.env['self.m_fx']
    if _is_param(obj, 'origin'):
        return wp.env['f0*']
    raise Unsupported(f'{wp.name}: fx() of an unknown state')


def _vec(wp, n):
    n = unwrap(n)
    if n.get('kind') == 'MemberExpr' and n.get('name') == 'm_gx' and _is_this(n['inner'][0]):
        return 'gx'
    if _is_param(n, 'descent'):
        return 'd'
    raise Unsupported(f'{wp.name}: dot product of an unknown vector')


def h_dot(wp, n, args, obj):
    """Eigen dot product (opaque, symmetric): `m_gx . descent` of this state is the slope gtd, any other pairing is a
    different (unconstrained) real"""
    if len(args) != 1:
        raise Unsupported(f'{wp.name}: dot with {len(args)} arguments')
    pair = tuple(sorted((_vec(wp, obj), _vec(wp, args[0]))))
    if pair == ('d', 'gx'):
        return wp.env['gtd*']
    key = 'dot*' + '.'.join(pair)
    if key not in wp.env:
        wp.env[key] = wp.const('dot_' + '_'.join(pair), 'Real', 'double')
    return wp.env[key]


def h_fabs(wp, n, args, callee):
    v = wp.conv(wp.ev(args[0]), 'Real', 'double')
    return V(f'(rabs {v.t})', 'Real', 'double')


FORMULAS = {
    'has_armijo': ('Armijo: f_t <= f_0 + t*c1*(g_0.d)', '(<= f_t (+ f_0 (* step_size (* c1 g0d))))'),
    'has_approx_armijo': ('approximate Armijo: f_t <= f_0 + epsilon', '(<= f_t (+ f_0 epsilon))'),
    'has_wolfe': ('Wolfe: g_t.d >= c2*(g_0.d)', '(>= gtd (* c2 g0d))'),
    'has_strong_wolfe': ('strong Wolfe: |g_t.d| <= c2*|g_0.d|', '(<= (rabs gtd) (* c2 (rabs g0d)))'),
    'has_approx_wolfe': ('approximate Wolfe: (2*c1-1)*(g_0.d) >= g_t.d >= c2*(g_0.d)', '(and (>= (* (- (* 2.0 c1) 1.0) g0d) gtd) (>= gtd (* c2 g0d)))'),
    'has_descent': ('descent: g.d < 0', '(< gtd 0.0)'),
}


def predicate(cxx):
    fn = astload.find_definition(SRC, 'solver_state_t::has_' if cxx != 'dg' else 'solver_state_t::dg', cxx)   # one clang run for the six predicates
    name = 'pred/' + cxx
    wp = IdEnvWP(name, real=True, calls=[(r'^fabs\|', h_fabs)],
                 members=[(r'^dg\|(const )?nano::solver_state_t', h_dg), (r'^fx\|(const )?nano::solver_state_t', h_fx), (r'^dot\|', h_dot)])
    wp.env['self.m_fx'] = wp.const('f_t', 'Real', 'double')
    wp.env['f0*'] = wp.const('f_0', 'Real', 'double')
    wp.env['gtd*'] = wp.const('gtd', 'Real', 'double')
    wp.env['g0d*'] = wp.const('g0d', 'Real', 'double')
    for key, p in wp.bind_params(fn):
        if key in ('origin', 'descent'):
            wp.env[key] = V(key, 'Opaque', None)
        elif key in ('step_size', 'c1', 'c2', 'epsilon'):
            wp.env[key] = wp.const(key, 'Real', 'double')
        else:
            raise astload.ExtractionError(f'{name}: unexpected parameter {key}')
    src = astload.resolve_tu(SRC) if cxx not in ('has_descent', 'dg') else astload.REPO + '/include/nano/solver/state.h'
    if cxx == 'dg':
        wp.post = lambda w, rv: [('dg(descent) is the dot product of this state\'s gradient with the direction', f'(= {rv.t} gtd)')]
    else:
        label, formula = FORMULAS[cxx]
        wp.post = lambda w, rv: [(label, f'(= {rv.t} {formula})')]
    wp.run(fn, src)
    if wp.returns == 0:
        raise astload.ExtractionError(f'{name}: no return path')
    vcs = wp.vcs(name, src, 'acceptance predicate equals the textbook formula (over the reals)')
    vcs.append(reach_vc(wp, name, src))
    return vcs, {'c_name': name, 'cxx': 'nano::solver_state_t::' + cxx, 'file': src, 'line': fn.get('loc', {}).get('line'), 'sha': astload.file_hash(src)}


def lemmas():
    """textbook relations between the spec formulas (no code involved): used to read `strong Wolfe` / `approximate Wolfe`
    as strengthenings of the Wolfe curvature condition along a descent direction"""
    hdr = nvwp.PRELUDE + '(declare-const gtd Real)(declare-const g0d Real)(declare-const c1 Real)(declare-const c2 Real)\n' \
        '(assert (and (< 0.0 c1) (< c1 c2) (< c2 1.0) (< g0d 0.0)))\n'
    return [VC('lemma/strong Wolfe implies Wolfe along a descent direction', hdr +
               '(assert (<= (rabs gtd) (* c2 (rabs g0d))))\n(assert (not (>= gtd (* c2 g0d))))', about='relation between the advertised conditions', group='pred'),
            VC('lemma/approximate Wolfe implies Wolfe', hdr +
               '(assert (and (>= (* (- (* 2.0 c1) 1.0) g0d) gtd) (>= gtd (* c2 g0d))))\n(assert (not (>= gtd (* c2 g0d))))', about='relation between the advertised conditions', group='pred')]


def build():
    vcs, fns = [], []
    for cxx in ('has_armijo', 'has_approx_armijo', 'has_wolfe', 'has_strong_wolfe', 'has_approx_wolfe', 'has_descent', 'dg'):
        r = predicate(cxx)
        vcs += r[0]
        fns.append(r[1])
    return vcs + lemmas(), fns
