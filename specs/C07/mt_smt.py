"""C07 (back end B, double treated as real): the More-Thuente step kernel `dcstep` and the stage logic of
lsearchk_morethuente_t::do_get (src/lsearchk/morethuente.cpp) against the REFERENCE algorithm:
    J. J. More, D. J. Thuente, "Line search algorithms with guaranteed sufficient decrease", ACM TOMS 20 (1994), and its
    implementation MINPACK-2 `dcsrch` / `dcstep` (1993 version).
The reference below is written from the Fortran text of MINPACK-2, in its own notation (theta, gamma, p, q, r), not from the
library.  The library side is the real body of dcstep executed symbolically; its calls of lsearch_step_t::cubic / quadratic /
secant are INLINED mechanically (interp_smt.apply: the extracted kernel terms instantiated on the argument triples).

dcstep -- what is claimed (all under dx != 0: sgnd = dp*(dx/|dx|) is NaN in IEEE for dx = 0 and has no real-model meaning):
  case selection and the new step, case by case, wherever the reference's own quantities are defined (stp != stx, the
  discriminant theta^2 - dx*dp >= 0, q != 0, ...): the divisions / sqrt executed by the code are then defined as well, and
      case 1 (fp > fx)                     stpf = stpc if |stpc-stx| < |stpq-stx| else stpc + (stpq-stpc)/2     (cubic, quadratic)
      case 2 (fp <= fx, sgnd < 0)          stpf = stpc if |stpc-stp| > |stpq-stp| else stpq                     (cubic, secant)
      case 3 (.., |dp| < |dx|)             stpc = cubic step if it lies beyond stp (r < 0) else stpmax / stpmin; bracketed: the one
                                           closer to stp, safeguarded by stp + delta*(sty-stp); else the farther one, clamped
                                           to [stpmin, stpmax]
      case 4 (otherwise)                   bracketed: cubic through (stp, sty); else stpmax / stpmin
  bracket update: fp > fx: (sty, fy, dy) := (stp, fp, dp); else: [sgnd < 0: (sty, fy, dy) := (stx, fx, dx)]; (stx, fx, dx) := (stp, fp, dp)
  brackt' = brackt or case 1 or case 2;   fp, dp, stpmin, stpmax, delta are not written.
Deliberate / observed deviations of the code from MINPACK-2 (stated, not forced):
  * `delta` (registered parameter in (0, 1), default 0.66) replaces the constant 0.66 of the case-3 safeguard;
  * no scaling by s = max(|theta|, |dx|, |dp|) inside the square root (an overflow guard; the identity over the reals);
  * case 3: MINPACK takes gamma = s*sqrt(max(0, ..)) and uses the cubic step iff `r < 0 and gamma != 0`; the code computes
    sqrt of the unclamped discriminant and tests `isfinite(stpc) and (stp-stx)*(stpc-stp) > 0`.  Both agree for a positive
    and for a negative discriminant (proved: case 3 / discriminant > 0, < 0); for a discriminant of exactly 0 MINPACK falls back
    to stpmax / stpmin while the code may keep the cubic step (a witness is part of the check);
  * MINPACK-2 dcstep has no final clamp of stp (that is MINPACK-1 `cstep`): only case 3 unbracketed clamps; the caller clamps.
isfinite in the real model: `std::isfinite(x)` of a value x returned by an interpolation kernel is "the kernel's divisions and
sqrt are defined" (IEEE: the complement yields NaN / inf); of any other value it is true.

do_get -- stage logic against dcsrch (one arbitrary iteration of the real loop body, dcstep havocked, observation points at the
dcstep call and at the evaluation `update(.., stp, ..)`):
  * stage' = 2 iff stage = 2 or (psi(stp) <= 0 and phi'(stp) >= 0), psi(t) = phi(t) - phi(0) - ftol*t*phi'(0), ftol = c1;
  * dcstep is called exactly once per iteration that goes on; it is called on the MODIFIED function psi
    (values f - finit... see `modified`) exactly when stage' = 1 and psi(stp) > 0 and f <= fx; the bracket values are mapped back
    (fx = fxm + stx*gtest, ...) afterwards, and on phi itself otherwise;
  * the next trial step is the reference's: bisection when the bracket did not shrink by 0.66 twice, [stmin, stmax] update,
    clamp to [stpmin, stpmax], fallback to stx when no progress is possible.
Deviations from dcsrch, stated: the give-up exits (rounding errors, xtol, stp = stpmax / stpmin) return FAILURE instead of a
warning with a usable step ("giving up is not reported as success", see known_findings.txt); `stp >= stpmax` / `stp <= stpmin`
instead of `==` (the same after the clamp); convergence is tested before the give-up exits (MINPACK overwrites the warning by
CONVERGENCE: the same outcome).

Convex quadratics (property clause "on convex quadratic objectives all five line-searches succeed"), as far as decided:
  convexq/dcstep_phi|psi   dcstep on samples of phi / of the modified function: cases 1, 2 (and 3 unless cut) return the exact minimiser, which passes
                           the convergence test of do_get (phi: c1 <= 1/2; modified function: every 0 < c1 < c2 < 1)
  mt/do_get/convexq_second_trial   real loop body, first iteration, overshooting t0: the second evaluated step is that minimiser
  convexq/<search>         backtracking / LeMarechal / Fletcher zoom / Fletcher do_get, real loop bodies with "every kept step is a sample of phi" as
                           an inductive invariant: at every clamp(interpolate(..)) site the next evaluated step is the exact minimiser unless the
                           safeguard interval excludes it, and Armijo (c1 <= 1/2) + strong Wolfe hold there
"""
import astload
from nvwp import V, Unsupported, AND, OR, NOT, IMP, ITE
import interp_smt
from interp_smt import parse, show, simplify, mkvc
import step_smt
from cxx2c import unwrap

MT = 'src/lsearchk/morethuente.cpp'
IO = ('stx', 'fx', 'dx', 'sty', 'fy', 'dy', 'stp')
ALL = IO + ('fp', 'dp', 'brackt', 'stpmin', 'stpmax', 'delta')


# --------------------------------------------------------------------------------------------- the real dcstep, symbolically
def h_kernel(cxx):
    def h(wp, n, args, callee):
        u, v = step_smt.step_of(wp, args[0]), step_smt.step_of(wp, args[1])
        ret, d = interp_smt.apply(cxx, [x.t for x in u], [x.t for x in v])
        wp.defined.append(IMP(wp.guard, d))
        wp.kernel_defined[ret] = d
        wp.kernel_calls.append({'cxx': cxx, 'guard': wp.guard, 'defined': d, 'ret': ret})
        return V(ret, 'Real', 'double')
    return h


def h_isfinite(wp, n, args, callee):
    v = wp.conv(wp.ev(args[0]), 'Real', 'double')
    return V(wp.kernel_defined.get(v.t, 'true'), 'Bool', 'bool')


def h_fabs(wp, n, args, callee):
    v = wp.conv(wp.ev(args[0]), 'Real', 'double')
    return V(f'(rabs {v.t})', 'Real', 'double')


_DC = {}


def dcstep():
    """final values of the by-reference parameters of the real dcstep as SMT terms over the entry values (named like the
    parameters; `brackt` is Bool), `defined` = every division / sqrt the code executes is defined (under its path condition)"""
    if _DC:
        return _DC
    fn = astload.find_definition(MT, 'dcstep', 'dcstep')
    src = astload.resolve_tu(MT)
    wp = interp_smt.KernelWP('mt/dcstep')
    wp.calls = [(r'^cubic\|', h_kernel('cubic')), (r'^quadratic\|', h_kernel('quadratic')), (r'^secant\|', h_kernel('secant')),
                (r'^isfinite\|', h_isfinite), (r'^fabs\|', h_fabs),
                (r'^min\|const double &', step_smt.h_minmax('rmin')), (r'^max\|const double &', step_smt.h_minmax('rmax'))] + wp.calls
    wp.pointers = set()
    wp.params_seen = {}
    wp.decl_hooks = (step_smt.decl_hook,) + tuple(wp.decl_hooks)       # `const lsearch_step_t x{t, f, g};` locals
    wp.kernel_defined, wp.kernel_calls = {}, []
    keys = []
    for key, p in wp.bind_params(fn):
        s, c = wp.sort_of(p['type'])
        wp.env[key] = V(key, s, c)
        keys.append((key, s))
    if tuple(k for k, _ in keys) != ALL:
        raise astload.ExtractionError(f'mt/dcstep: parameters {keys}, expected {ALL}')
    final = {}

    def post(w, rv):
        final.update({k: w.env[k].t for k in ALL})
        final['guard'] = w.guard
        return []
    wp.post = post
    wp.run(fn, src)
    if wp.returns != 1 or wp.obligations:
        raise Unsupported(f'mt/dcstep: {wp.returns} return paths / {len(wp.obligations)} unexpected obligations (the contract is written for straight-line control flow)')
    _DC.update({'out': {k: show(simplify(parse(final[k]))) for k in ALL}, 'defined': show(simplify(parse(AND(*wp.defined)))), 'calls': wp.kernel_calls, 'src': src, 'raw': dict(final),
                'fn': {'c_name': 'mt/dcstep', 'cxx': 'dcstep', 'file': src, 'line': fn.get('loc', {}).get('line'), 'sha': astload.file_hash(src)}})
    return _DC


# --------------------------------------------------------------------------------------------- MINPACK-2 dcstep (reference)
def ref_cubic(a, fa, da, b, fb, db, flip_if):
    """theta, gamma, p, q, r of MINPACK-2 for the cubic through (a, fa, da) and the trial point (b, fb, db); the step is
    b + r*(a - b); `flip_if` is the condition under which gamma changes sign.  Returns (step, defined, discriminant, r, gamma)"""
    theta = f'(+ (/ (* 3.0 (- {fa} {fb})) (- {b} {a})) {da} {db})'
    disc = f'(- (* {theta} {theta}) (* {da} {db}))'
    gamma = f'(ite {flip_if} (- (nv_sqrt {disc})) (nv_sqrt {disc}))'
    p = f'(+ (- {gamma} {db}) {theta})'
    q = f'(+ (- {gamma} {db}) {gamma} {da})'
    r = f'(/ {p} {q})'
    return f'(+ {b} (* {r} (- {a} {b})))', f'(and (not (= {b} {a})) (>= {disc} 0.0) (not (= {q} 0.0)))', disc, r, gamma


def reference():
    sgnd = '(* dp (/ dx (rabs dx)))'
    case1 = '(> fp fx)'
    case2 = f'(and (not {case1}) (< {sgnd} 0.0))'
    case3 = f'(and (not {case1}) (not (< {sgnd} 0.0)) (< (rabs dp) (rabs dx)))'
    case4 = f'(and (not {case1}) (not (< {sgnd} 0.0)) (not (< (rabs dp) (rabs dx))))'
    R = {'sgnd': sgnd, 'case': {1: case1, 2: case2, 3: case3, 4: case4}}
    # case 1: stpc = stx + r*(stp - stx) with p = (gamma - dx) + theta, q = ((gamma - dx) + gamma) + dp, gamma < 0 iff stp < stx
    theta = '(+ (/ (* 3.0 (- fx fp)) (- stp stx)) dx dp)'
    disc = f'(- (* {theta} {theta}) (* dx dp))'
    g1 = f'(ite (< stp stx) (- (nv_sqrt {disc})) (nv_sqrt {disc}))'
    q1 = f'(+ (- {g1} dx) {g1} dp)'
    c1 = f'(+ stx (* (/ (+ (- {g1} dx) {theta}) {q1}) (- stp stx)))'
    qd = '(+ (/ (- fx fp) (- stp stx)) dx)'
    s1 = f'(+ stx (* (/ (/ dx {qd}) 2.0) (- stp stx)))'
    comb1 = lambda c, s_: f'(ite (< (rabs (- {c} stx)) (rabs (- {s_} stx))) {c} (+ {c} (/ (- {s_} {c}) 2.0)))'
    R[1] = {'stpf': comb1(c1, s1), 'pieces': {'cubic': c1, 'quadratic': s1}, 'combine': lambda P: comb1(P['cubic'], P['quadratic']),
            'defined': f'(and (not (= stp stx)) (>= {disc} 0.0) (not (= {q1} 0.0)) (not (= {qd} 0.0)))'}
    # case 2 / 3: stpc = stp + r*(stx - stp) with p = (gamma - dp) + theta, gamma < 0 iff stp > stx; secant stpq = stp + dp/(dp - dx)*(stx - stp)
    g2 = f'(ite (> stp stx) (- (nv_sqrt {disc})) (nv_sqrt {disc}))'
    q2 = f'(+ (- {g2} dp) {g2} dx)'
    r2 = f'(/ (+ (- {g2} dp) {theta}) {q2})'
    c2 = f'(+ stp (* {r2} (- stx stp)))'
    s2 = '(+ stp (* (/ dp (- dp dx)) (- stx stp)))'
    comb2 = lambda c, s_: f'(ite (> (rabs (- {c} stp)) (rabs (- {s_} stp))) {c} {s_})'
    R[2] = {'stpf': comb2(c2, s2), 'pieces': {'cubic': c2, 'secant': s2}, 'combine': lambda P: comb2(P['cubic'], P['secant']),
            'defined': f'(and (not (= stp stx)) (>= {disc} 0.0) (not (= {q2} 0.0)) (not (= dp dx)))'}
    # case 3: q = (gamma + (dx - dp)) + gamma; cubic step only if r < 0 and gamma != 0
    bound = '(ite (> stp stx) stpmax stpmin)'

    def case3(use_cubic, c2=c2, s2=s2):
        c3 = f'(ite {use_cubic} {c2} {bound})'
        near = f'(ite (< (rabs (- {c3} stp)) (rabs (- {s2} stp))) {c3} {s2})'
        far = f'(ite (> (rabs (- {c3} stp)) (rabs (- {s2} stp))) {c3} {s2})'
        guard = '(+ stp (* delta (- sty stp)))'          # MINPACK: stp + 0.66*(sty - stp); the code's delta is a parameter
        br = f'(ite (> stp stx) (rmin {guard} {near}) (rmax {guard} {near}))'
        nb = f'(rmax stpmin (rmin stpmax {far}))'
        return f'(ite brackt {br} {nb})'
    R[3] = {'stpf_pos': case3(f'(< {r2} 0.0)'), 'stpf_neg': case3('false'), 'disc': disc, 'pieces': {'cubic': c2, 'secant': s2}, 'r': r2,
            'combine': lambda P, use: case3(use, P['cubic'], P['secant']),
            'defined_pos': f'(and (not (= stp stx)) (> {disc} 0.0) (not (= {q2} 0.0)) (not (= dp dx)))',
            'defined_neg': f'(and (not (= stp stx)) (< {disc} 0.0) (not (= dp dx)))',
            'guard': '(+ stp (* delta (- sty stp)))'}
    # case 4: cubic through (stp, fp, dp) and (sty, fy, dy): stpc = stp + r*(sty - stp), gamma < 0 iff stp > sty
    th4 = '(+ (/ (* 3.0 (- fp fy)) (- sty stp)) dy dp)'
    d4 = f'(- (* {th4} {th4}) (* dy dp))'
    g4 = f'(ite (> stp sty) (- (nv_sqrt {d4})) (nv_sqrt {d4}))'
    q4 = f'(+ (- {g4} dp) {g4} dy)'
    c4 = f'(+ stp (* (/ (+ (- {g4} dp) {th4}) {q4}) (- sty stp)))'
    R[4] = {'stpf': f'(ite brackt {c4} {bound})', 'pieces': {'cubic': c4}, 'combine': lambda P: f'(ite brackt {P["cubic"]} {bound})', 'defined': f'(=> brackt (and (not (= sty stp)) (>= {d4} 0.0) (not (= {q4} 0.0))))'}
    return R


DECLS = [(k, 'Bool' if k == 'brackt' else 'Real') for k in ALL]


def dcstep_vcs(tier='quick'):
    dc = dcstep()
    out_, src = dc['out'], dc['src']
    R = reference()
    about = 'dcstep against MINPACK-2 dcstep (double treated as real)'
    base = ['(not (= dx 0.0))']
    vcs = []

    # ---- the new step, case by case, as a CUT (the monolithic equalities `code == reference` take 2-50 s in nlsat and time out on a
    # loaded machine; they are kept for the thorough tier):
    #  (i)  kernel lemmas: at every call site, under the case hypotheses and the call's path condition, the inlined kernel term equals the
    #       reference's piece (stpc / stpq of that case) and its divisions / sqrt are defined;
    #  (ii) combination: with every kernel result replaced TEXTUALLY by an opaque constant K_i (and its definedness by a boolean D_i), the new
    #       step is the reference's choice rule applied to arbitrary pieces P, for all K, D, P with `path condition_i => K_i = P and D_i`.
    # (i) discharges the antecedent of (ii) instantiated at K_i := the kernel term, P := the reference's piece: code == reference.
    calls = dc['calls']
    repl = {}
    byret = {}
    for i, c in enumerate(calls):       # calls with the same printed term (same kernel, same arguments) are the same value: one constant
        j = byret.setdefault(c['ret'], i)
        c['K'], c['D'] = f'K{j}_{c["cxx"]}', f'D{j}_{c["cxx"]}'
        repl[parse(c['ret'])] = c['K']
    for c in calls:
        repl.setdefault(parse(c['defined']), c['D'])

    def opaque(t):
        def go(x):
            if x in repl:
                return repl[x]
            return x if isinstance(x, str) else tuple(go(y) for y in x)
        return show(simplify(go(parse(t))))
    stp_K = opaque(dc['raw']['stp'])
    kdecl = DECLS + sorted({(c['K'], 'Real') for c in calls}) + sorted({(c['D'], 'Bool') for c in calls}) + [('P_cubic', 'Real'), ('P_quadratic', 'Real'), ('P_secant', 'Real'), ('U', 'Bool')]
    PC = {'cubic': 'P_cubic', 'quadratic': 'P_quadratic', 'secant': 'P_secant'}
    labels = {1: 'higher function value: cubic / quadratic', 2: 'lower value, derivatives of opposite sign: cubic / secant',
              3: 'lower value, same sign, |dp| < |dx|: cubic step if beyond stp else stpmax / stpmin; closer one + safeguard if bracketed, farther one clamped otherwise',
              4: 'lower value, same sign, |dp| >= |dx|: cubic through (stp, sty) when bracketed, else stpmax / stpmin'}
    for k in (1, 2, 3, 4):
        full = base + [R['case'][k], R[k]['defined_pos' if k == 3 else 'defined']]
        for c in calls:
            if c['cxx'] in R[k]['pieces']:
                vcs.append(mkvc(f'mt/dcstep/case{k}_kernel_{c["cxx"]}: the {c["cxx"]} step computed at the call site {c["K"]} is the reference\'s '
                                f'{"stpc" if c["cxx"] == "cubic" else "stpq"} of case {k} and its divisions / sqrt are defined wherever the reference\'s are',
                                DECLS, full + [c['guard']], f'(and {c["defined"]} (= {c["ret"]} {R[k]["pieces"][c["cxx"]]}))', about, src))
        link = [IMP(opaque(c['guard']), f'(and (= {c["K"]} {PC[c["cxx"]]}) {c["D"]})') for c in calls if c['cxx'] in R[k]['pieces']]
        if k == 3:
            # MINPACK: cubic step iff r < 0 (and gamma != 0); r < 0 <=> the cubic step lies beyond stp as seen from stx
            vcs.append(mkvc('mt/dcstep/case3_beyond: r < 0 (reference) <=> (stp - stx)*(stpc - stp) > 0 (code) for the reference\'s stpc = stp + r*(stx - stp)', DECLS, full,
                            f'(= (< {R[3]["r"]} 0.0) (> (* (- stp stx) (- {R[3]["pieces"]["cubic"]} stp)) 0.0))', about, src))
            link.append('(= U (> (* (- stp stx) (- P_cubic stp)) 0.0))')
            ref = R[3]['combine'](PC, 'U')
        else:
            ref = R[k]['combine'](PC)
        vcs.append(mkvc(f'mt/dcstep/case{k}_step: case {k} ({labels[k]}): the new step is the reference\'s choice rule applied to the kernel results',
                        kdecl, base + [R['case'][k]] + link, f'(= {stp_K} {ref})', about, src))
        vcs.append(mkvc(f'mt/dcstep/case{k}_defined: every division / sqrt the code executes is defined wherever the reference\'s are', DECLS, full, dc['defined'], about, src))
    # case 3 with a negative discriminant: the code's cubic step is undefined (NaN: not finite), MINPACK's gamma is 0: both take the bound
    neg = base + [R['case'][3], R[3]['defined_neg']]
    for c in calls:
        if c['cxx'] == 'cubic':
            vcs.append(mkvc(f'mt/dcstep/case3_negative_discriminant_kernel: the cubic step at the call site {c["K"]} is undefined (sqrt of a negative number: NaN, not finite)', DECLS,
                            neg + [c['guard']], NOT(c['defined']), about, src))
    link = [IMP(opaque(c['guard']), f'(and (= {c["K"]} P_secant) {c["D"]})' if c['cxx'] == 'secant' else NOT(c['D'])) for c in calls if c['cxx'] in ('cubic', 'secant')]
    vcs.append(mkvc('mt/dcstep/case3_negative_discriminant: (MINPACK: gamma = 0; code: non-finite cubic step): both take stpmax / stpmin for the cubic step', kdecl,
                    base + [R['case'][3]] + link, f'(= {stp_K} {R[3]["combine"](PC, "false")})', about, src))
    for c in calls:
        if c['cxx'] == 'secant':
            vcs.append(mkvc(f'mt/dcstep/case3_negative_discriminant_secant: the secant step at the call site {c["K"]} is the reference\'s stpq', DECLS, neg + [c['guard']],
                            f'(and {c["defined"]} (= {c["ret"]} {R[3]["pieces"]["secant"]}))', about, src))
    if tier == 'thorough':
        for k in (1, 2, 4):
            vcs.append(mkvc(f'mt/dcstep/case{k}_step_monolithic: the new step (kernels inlined) equals the reference\'s, in one query', DECLS, base + [R['case'][k], R[k]['defined']],
                            f'(= {out_["stp"]} {R[k]["stpf"]})', about, src, timeout=240))
        vcs.append(mkvc('mt/dcstep/case3_step_monolithic: discriminant > 0: the new step (kernels inlined) equals the reference\'s, in one query', DECLS, base + [R['case'][3], R[3]['defined_pos']],
                        f'(= {out_["stp"]} {R[3]["stpf_pos"]})', about, src, timeout=240))
        vcs.append(mkvc('mt/dcstep/case3_negative_discriminant_monolithic: the new step (kernels inlined) equals the reference\'s, in one query', DECLS, neg, f'(= {out_["stp"]} {R[3]["stpf_neg"]})', about, src, timeout=240))
    hy = base + [R['case'][3], f'(= {R[3]["disc"]} 0.0)', '(not (= stp stx))', '(not (= dp dx))']
    vcs.append(mkvc('mt/dcstep/case3_zero_discriminant_deviation: (witness expected): the code keeps the cubic step where MINPACK falls back to stpmax / stpmin',
                    DECLS, hy + [f'(not (= {out_["stp"]} {R[3]["stpf_neg"]}))'], None, 'documented deviation from MINPACK-2', src, expect='sat'))
    # properties of the result that do not need the interpolation numerics
    c3 = R['case'][3]
    vcs.append(mkvc('mt/dcstep/case3_safeguard: bracketed: the new step is safeguarded by stp + delta*(sty - stp) (MINPACK: 0.66)', DECLS, base + [c3, 'brackt'],
                    f'(ite (> stp stx) (<= {out_["stp"]} {R[3]["guard"]}) (>= {out_["stp"]} {R[3]["guard"]}))', about, src))
    vcs.append(mkvc('mt/dcstep/case34_clamp: not bracketed: the new step is clamped to [stpmin, stpmax]', DECLS,
                    base + [OR(c3, R['case'][4]), '(not brackt)', '(<= stpmin stpmax)'], f'(and (<= stpmin {out_["stp"]}) (<= {out_["stp"]} stpmax))', about, src))
    sg = f'(< {R["sgnd"]} 0.0)'
    upd = {'sty': f'(ite (> fp fx) stp (ite {sg} stx sty))', 'fy': f'(ite (> fp fx) fp (ite {sg} fx fy))', 'dy': f'(ite (> fp fx) dp (ite {sg} dx dy))',
           'stx': '(ite (> fp fx) stx stp)', 'fx': '(ite (> fp fx) fx fp)', 'dx': '(ite (> fp fx) dx dp)'}
    vcs.append(mkvc('mt/dcstep/bracket_update: (sty, fy, dy) := trial point if fp > fx, else [(sty, fy, dy) := (stx, fx, dx) if sgnd < 0] and (stx, fx, dx) := trial point',
                    DECLS, base, AND(*[f'(= {out_[k]} {v})' for k, v in upd.items()]), about, src))
    vcs.append(mkvc('mt/dcstep/brackt_flag: brackt\' = brackt or case 1 or case 2', DECLS, base, f'(= {out_["brackt"]} (or brackt {R["case"][1]} {R["case"][2]}))', about, src))
    vcs.append(mkvc('mt/dcstep/frame: fp, dp, stpmin, stpmax, delta are not written', DECLS, [], AND(*[f'(= {out_[k]} {k})' for k in ('fp', 'dp', 'stpmin', 'stpmax', 'delta')]), about, src))
    vcs.append(mkvc('mt/dcstep/cases_partition: the four cases are exhaustive and exclusive (reference conditions)', DECLS, base,
                    f'(and (or {" ".join(R["case"][k] for k in (1, 2, 3, 4))}) ' + ' '.join(f'(not (and {R["case"][a]} {R["case"][b]}))' for a in (1, 2, 3, 4) for b in (1, 2, 3, 4) if a < b) + ')',
                    about, src))
    for k in (1, 2, 4):
        vcs.append(mkvc(f'mt/dcstep/reachability canary: case {k} with the reference defined is satisfiable', DECLS, base + [R['case'][k], R[k]['defined']] + (['brackt'] if k == 4 else []),
                        None, 'vacuity guard (must be sat)', src, expect='sat'))
    vcs.append(mkvc('mt/dcstep/reachability canary: case 3 with a positive discriminant is satisfiable', DECLS, base + [c3, R[3]['defined_pos']], None, 'vacuity guard (must be sat)', src, expect='sat'))
    vcs.append(mkvc('mt/dcstep/reachability canary: case 3 with a negative discriminant is satisfiable', DECLS, base + [c3, R[3]['defined_neg']], None, 'vacuity guard (must be sat)', src, expect='sat'))
    return vcs


# --------------------------------------------------------------------------------------------- dcstep: clauses for callers
def contract_clauses(i, o, B):
    """clauses of dcstep in a form a caller can ASSUME on havocked results o after a call with arguments i (dicts name -> term):
    proved below (mt/dcstep/contract_*) with o := the symbolic results of the real body.  Division-free: for dx != 0,
    sgnd < 0 <=> dp*dx < 0.  B is the linear coefficient of the sampled quadratic qa t^2 + B t + qc in the last clause."""
    nz = f'(not (= {i["dx"]} 0.0))'
    hi = f'(> {i["fp"]} {i["fx"]})'
    opp = f'(< (* {i["dp"]} {i["dx"]}) 0.0)'
    upd = {'sty': f'(ite {hi} {i["stp"]} (ite {opp} {i["stx"]} {i["sty"]}))', 'fy': f'(ite {hi} {i["fp"]} (ite {opp} {i["fx"]} {i["fy"]}))',
           'dy': f'(ite {hi} {i["dp"]} (ite {opp} {i["dx"]} {i["dy"]}))', 'stx': f'(ite {hi} {i["stx"]} {i["stp"]})', 'fx': f'(ite {hi} {i["fx"]} {i["fp"]})',
           'dx': f'(ite {hi} {i["dx"]} {i["dp"]})'}
    q = lambda t: f'(+ (* qa {t} {t}) (* {B} {t}) qc)'
    dq = lambda t: f'(+ (* 2.0 qa {t}) {B})'
    samples = AND(*[f'(= {i[f_]} {q(i[t_])})' for f_, t_ in (('fx', 'stx'), ('fp', 'stp'))], *[f'(= {i[d_]} {dq(i[t_])})' for d_, t_ in (('dx', 'stx'), ('dp', 'stp'))])
    return {
        'bracket': IMP(nz, AND(*[f'(= {o[k]} {v})' for k, v in upd.items()])),
        'brackt': IMP(nz, f'(= {o["brackt"]} (or {i["brackt"]} {hi} (and (not {hi}) {opp})))'),
        'quadratic': IMP(AND(nz, '(> qa 0.0)', f'(not (= {i["stx"]} {i["stp"]}))', samples, OR(hi, opp)), f'(= (* 2.0 qa {o["stp"]}) (- {B}))'),
    }


def contract_vcs():
    dc = dcstep()
    names = {k: k for k in ALL}
    cl = contract_clauses(names, dc['out'], 'qB')
    decl = DECLS + [('qa', 'Real'), ('qB', 'Real'), ('qc', 'Real')]
    about = 'clauses of dcstep that mt/do_get assumes on the results of its dcstep call in the convex-quadratic scenario (double treated as real)'
    text = {'bracket': 'bracket update in division-free form (dx != 0: sgnd < 0 <=> dp*dx < 0)', 'brackt': 'brackt\' = brackt or case 1 or case 2, division-free form',
            'quadratic': 'on two distinct samples of ANY quadratic qa t^2 + B t + qc with qa > 0, cases 1 and 2 return its minimiser: 2 qa stp\' = -B'}
    return [mkvc(f'mt/dcstep/contract_{k}: {text[k]}', decl, [], v, about, dc['src']) for k, v in cl.items()]


# --------------------------------------------------------------------------------------------- (c) dcstep on a convex quadratic
def convexq_vcs():
    """phi(t) = a t^2 + b t + c, a > 0, b < 0.  dcstep is handed samples (t, q(t), q'(t)) of q = phi (stage 2, or stage 1 with
    psi(stp) <= 0 or f > fx) or of the modified function q = psi + const = a t^2 + (1 - c1) b t + c (stage 1): both are convex
    quadratics a t^2 + B t + c with B < 0, minimiser -B/(2a).  Claims: cases 1 and 2 return that minimiser exactly (cubic,
    quadratic and secant steps coincide), case 3 returns it unless a bound / the safeguard cuts it, case 4 cannot occur; the
    minimiser of phi satisfies Armijo for c1 <= 1/2 and strong Wolfe; the minimiser of the MODIFIED function satisfies both
    for every 0 < c1 < c2 < 1 (phi' there is c1*b)."""
    dc = dcstep()
    out_, src = dc['out'], dc['src']
    R = reference()
    decl = [(k, 'Bool' if k == 'brackt' else 'Real') for k in ('stx', 'sty', 'stp', 'brackt', 'stpmin', 'stpmax', 'delta', 'qa', 'qb', 'qc', 'c1', 'c2')]
    vcs = []
    for mid, mode, B, extra in (('phi', 'phi', 'qb', ['(<= c1 0.5)']), ('psi', 'the modified function psi', '(* (- 1.0 c1) qb)', [])):
        q = lambda t: f'(+ (* qa {t} {t}) (* {B} {t}) qc)'
        dq = lambda t: f'(+ (* 2.0 qa {t}) {B})'
        m = {'fx': q('stx'), 'dx': dq('stx'), 'fp': q('stp'), 'dp': dq('stp'), 'fy': q('sty'), 'dy': dq('sty')}
        I = lambda t: interp_smt.inst(t, m)
        tstar = f'(/ (- {B}) (* 2.0 qa))'
        hy = ['(> qa 0.0)', '(< qb 0.0)', '(< 0.0 c1)', '(< c1 c2)', '(< c2 1.0)', '(not (= stx stp))', I('(not (= dx 0.0))')]
        c12 = I(OR(R['case'][1], R['case'][2]))
        about = f'dcstep on samples of {mode} for a 1-D convex quadratic phi (double treated as real)'
        new = I(out_['stp'])
        vcs.append(mkvc(f'convexq/dcstep_{mid}/case12_exact: cases 1 and 2 on samples of {mode}: every division / sqrt of the code is defined and the new step is the exact minimiser of the sampled quadratic',
                        decl, hy + [c12], f'(and {I(dc["defined"])} (= {new} {tstar}))', about, src))
        # (a trial point that IS the minimiser, dp = 0, falls into case 3 as well: the cubic step equals stp, is not "beyond" it, and the bound is taken)
        vcs.append(mkvc(f'convexq/dcstep_{mid}/case3_exact: case 3 on samples of {mode}, not bracketed, the trial point is not the minimiser itself and the minimiser lies inside [stpmin, stpmax]: the new step is the exact minimiser',
                        decl, hy + [I(R['case'][3]), '(not brackt)', I('(not (= dp 0.0))'), f'(<= stpmin {tstar})', f'(<= {tstar} stpmax)'], f'(and {I(dc["defined"])} (= {new} {tstar}))', about, src))
        vcs.append(mkvc(f'convexq/dcstep_{mid}/case3_safeguarded: case 3 on samples of {mode}, bracketed: the new step is the exact minimiser cut by the safeguard stp + delta*(sty - stp)',
                        decl, hy + [I(R['case'][3]), 'brackt'], f'(= {new} (ite (> stp stx) (rmin {tstar} {R[3]["guard"]}) (rmax {tstar} {R[3]["guard"]})))', about, src))
        vcs.append(mkvc(f'convexq/dcstep_{mid}/case4_unreachable: on samples of {mode} case 4 (lower value, same sign, |dp| >= |dx|) cannot occur on two distinct samples', decl, hy, NOT(I(R['case'][4])), about, src))
        # the advertised conditions of More-Thuente, for phi, at the step dcstep returns in cases 1 / 2
        ph = lambda t: f'(+ (* qa {t} {t}) (* qb {t}) qc)'
        dph = lambda t: f'(+ (* 2.0 qa {t}) qb)'
        adv = f'(and (> {new} 0.0) (<= {ph(new)} (+ {ph("0.0")} (* c1 {new} {dph("0.0")}))) (<= (rabs {dph(new)}) (* c2 (rabs {dph("0.0")}))))'
        dom = ' and c1 <= 1/2' if extra else ' for every 0 < c1 < c2 < 1'
        vcs.append(mkvc(f'convexq/dcstep_{mid}/armijo_strong_wolfe: cases 1 and 2 on samples of {mode}: the new step is > 0 and satisfies Armijo and strong Wolfe for phi{dom} (the convergence test of do_get at the next evaluation)',
                        decl, hy + extra + [c12], adv, about, src))
        vcs.append(mkvc(f'convexq/dcstep_{mid}/reachability canary: cases 1 / 2 on samples of a convex quadratic are satisfiable', decl, hy + extra + [c12], None,
                        'vacuity guard (must be sat)', src, expect='sat'))
    return vcs


# --------------------------------------------------------------------------------------------- do_get: stage logic against dcsrch
DC_ARGS = ('stx', 'fx', 'dx', 'sty', 'fy', 'dy', 'stp', 'fp', 'dp', 'brackt', 'stpmin', 'stpmax', 'delta')
HAVOC = ('stx', 'fx', 'gx', 'sty', 'fy', 'gy', 'brackt', 'stp')


def h_dcstep_obs(wp, n, args, callee):
    """observation point: the values handed to dcstep are compared with the reference here (under the path condition of the
    call); afterwards the eight by-reference results are arbitrary (the kernel has its own contract: mt/dcstep)"""
    if len(args) != 13:
        raise Unsupported(f'{wp.name}: dcstep with {len(args)} arguments')
    ins = {}
    for k, nm in enumerate(DC_ARGS):
        v = wp.ev(args[k])
        ins[nm] = wp.conv(v, 'Bool', 'bool').t if nm == 'brackt' else wp.conv(v, 'Real', 'double').t
    H = wp.head
    ref = do_get_reference(H)
    wp.oblige('stage_at_interpolation: the stage at the interpolation is the reference\'s: 2 iff it was 2 or psi(stp) <= 0 and phi\'(stp) >= 0 (More & Thuente: the modified function is used until then)',
              f'(= {wp.env["stage"].t} {ref["stage"]})', n)
    for nm in DC_ARGS:
        wp.oblige(f'dcstep_arg_{nm}: the dcstep argument {nm} is the reference\'s (the modified function psi exactly when stage = 1, psi(stp) > 0 and f <= fx; phi otherwise)',
                  f'(= {ins[nm]} {ref["args"][nm]})', n)
    outs = {}
    keys = {}
    for k, nm in enumerate(DC_ARGS):
        if k in (0, 1, 2, 3, 4, 5, 6, 9):
            key = wp.loc(args[k])
            old = wp.env[key]
            wp.env[key] = wp.fresh(old.s, key, old.c)
            outs[nm] = wp.env[key].t
            keys[nm] = key
    wp.obs.append({'guard': wp.guard, 'ins': ins, 'outs': outs, 'keys': keys})
    return V('0', 'Int', 'int')


def h_update_obs(wp, n, args, obj):
    t = wp.conv(wp.ev(args[3]), 'Real', 'double')
    wp.upd.append((wp.guard, t.t))
    return step_smt.h_update(wp, n, args, obj)


def do_get_reference(H):
    """dcsrch, one iteration, over the loop-head values H (env of the real loop): written from the Fortran text"""
    f, g, stp, stage = H['f'].t, H['g'].t, H['stp'].t, H['stage'].t
    gtest = '(* c1 g0d)'                                  # ftol * ginit
    psi = f'(- {f} f_0 (* {stp} {gtest}))'                # psi(stp) = phi(stp) - phi(0) - ftol*stp*phi'(0)
    stage2 = f'(ite (and (= {stage} 1) (<= {psi} 0.0) (>= {g} 0.0)) 2 {stage})'
    mod = f'(and (= {stage2} 1) (<= {f} {H["fx"].t}) (> {psi} 0.0))'
    a = {'stx': H['stx'].t, 'sty': H['sty'].t, 'stp': stp, 'brackt': H['brackt'].t, 'stpmin': H['stmin'].t, 'stpmax': H['stmax'].t, 'delta': 'delta',
         'fx': f'(ite {mod} (- {H["fx"].t} (* {H["stx"].t} {gtest})) {H["fx"].t})', 'dx': f'(ite {mod} (- {H["gx"].t} {gtest}) {H["gx"].t})',
         'fy': f'(ite {mod} (- {H["fy"].t} (* {H["sty"].t} {gtest})) {H["fy"].t})', 'dy': f'(ite {mod} (- {H["gy"].t} {gtest}) {H["gy"].t})',
         'fp': f'(ite {mod} (- {f} (* {stp} {gtest})) {f})', 'dp': f'(ite {mod} (- {g} {gtest}) {g})'}
    return {'stage': stage2, 'mod': mod, 'gtest': gtest, 'args': a}


# the Fortran constants p66 = 0.66d0, xtrapl = 1.1d0 are the IEEE doubles nearest to 0.66 / 1.1: the same exact rationals here
from nvwp import real_lit
P66, XTRAPL = real_lit('0.66'), real_lit('1.1')


def do_get_next(H, o, mod, gtest, stpmin, stpmax, xtol):
    """what dcsrch does after dcstep returned o = (stx, fx, dx, sty, fy, dy, stp, brackt)"""
    stx, sty, br = o['stx'], o['sty'], o['brackt']
    back = {'fx': f'(ite {mod} (+ {o["fx"]} (* {stx} {gtest})) {o["fx"]})', 'gx': f'(ite {mod} (+ {o["dx"]} {gtest}) {o["dx"]})',
            'fy': f'(ite {mod} (+ {o["fy"]} (* {sty} {gtest})) {o["fy"]})', 'gy': f'(ite {mod} (+ {o["dy"]} {gtest}) {o["dy"]})',
            'stx': stx, 'sty': sty, 'brackt': br}
    w, w1 = H['width'].t, H['width1'].t
    gap = f'(rabs (- {sty} {stx}))'
    stp1 = f'(ite (and {br} (>= {gap} (* {P66} {w1}))) (+ {stx} (* (/ 1.0 2.0) (- {sty} {stx}))) {o["stp"]})'
    back['width1'] = f'(ite {br} {w} {w1})'
    back['width'] = f'(ite {br} {gap} {w})'
    stmin = f'(ite {br} (rmin {stx} {sty}) (+ {stp1} (* {XTRAPL} (- {stp1} {stx}))))'
    stmax = f'(ite {br} (rmax {stx} {sty}) (+ {stp1} (* 4.0 (- {stp1} {stx}))))'
    back['stmin'], back['stmax'] = stmin, stmax
    stp2 = f'(rmin (rmax {stp1} {stpmin}) {stpmax})'
    stp3 = f'(ite (or (and {br} (or (<= {stp2} {stmin}) (>= {stp2} {stmax}))) (and {br} (<= (- {stmax} {stmin}) (* {xtol} {stmax})))) {stx} {stp2})'
    return back, stp3


def build_do_get():
    import adv_smt

    def setup(wp):
        step_smt.doget_setup(wp)
        wp.assume('(< g0d 0.0)')
        wp.obs, wp.upd, wp.inv_calls, wp.head = [], [], 0, None
        for nm in ('qa', 'qb', 'qc'):
            wp.const(nm, 'Real', 'double')           # the convex quadratic of the scenario (constrained only inside that obligation)

    def inv(wp):
        e = wp.env
        wp.inv_calls += 1
        if wp.inv_calls == 1:
            # dcsrch START: stage 1, no bracket, both bracket ends at the origin with (finit, ginit), stmin = 0, stmax = stp + 4 stp,
            # width = stpmax - stpmin, width1 = 2 width
            smax = adv_smt.h_stpmax(wp, None, None, None).t
            init = {'stage': '1', 'stx': '0.0', 'sty': '0.0', 'fx': 'f_0', 'fy': 'f_0', 'gx': 'g0d', 'gy': 'g0d', 'stmin': '0.0', 'stmax': '(+ t0 (* 4.0 t0))',
                    'width': f'(- {smax} stpmin)', 'width1': f'(* 2.0 (- {smax} stpmin))', 'stp': 't0', 'f': 'f_in', 'g': 'gd_in'}
            wp.oblige('init: the initialisation is the START block of dcsrch (stage 1, not bracketed, bracket ends at the origin, stmin = 0, stmax = 5 stp, width, width1)',
                      AND(NOT(e['brackt'].t), *[f'(= {e[k].t} {v})' for k, v in init.items()]))
        if wp.inv_calls == 2:
            wp.head = dict(e)
        return [('loop counter in range', step_smt.counter(wp, 0)), ('stage is 1 or 2', f'(or (= {e["stage"].t} 1) (= {e["stage"].t} 2))'),
                ('the state is the valid evaluation at the current trial step', f'(and (= {e["state.t"].t} {e["stp"].t}) {e["state.valid"].t})'),
                ('f and g are the value and the slope of the current trial state', f'(and (= {e["f"].t} {e["state.fx"].t}) (= {e["g"].t} {e["state.dg"].t}))')]

    def body_post(wp, H, e):
        gs = [o['guard'] for o in wp.obs]
        one = AND(OR(*gs), *[NOT(AND(gs[a], gs[b])) for a in range(len(gs)) for b in range(len(gs)) if a < b])
        wp.oblige('one_dcstep: an iteration that goes on has called dcstep exactly once', one)
        if len(wp.upd) != 1:
            raise Unsupported(f'{wp.name}: {len(wp.upd)} evaluations in the loop body (the contract expects one)')
        ref = do_get_reference(H)
        wp.oblige('stage_after: the stage after the iteration is the reference\'s', f'(= {e["stage"].t} {ref["stage"]})')
        xtol = step_smt.h_eps('eps0')(wp, None, None, None).t
        smax = adv_smt.h_stpmax(wp, None, None, None).t
        for o in wp.obs:
            back, nxt = do_get_next(H, o['outs'], ref['mod'], ref['gtest'], 'stpmin', smax, xtol)
            for k, v in back.items():
                wp.oblige(f'after_dcstep_{k}: {k} is the reference\'s (bracket values mapped back from psi to phi when the modified function was used; width / stmin / stmax update)',
                          f'(=> {o["guard"]} (= {e[k].t} {v}))')
            wp.oblige('next_step: the next trial step is the reference\'s (bisection if the bracket did not shrink by 0.66, clamp to [stpmin, stpmax], fallback to stx when no progress is possible)',
                      f'(=> {o["guard"]} (and (= {wp.upd[0][1]} {nxt}) (= {e["stp"].t} {nxt})))')
        # ---- scenario (towards "More-Thuente succeeds on convex quadratics"): phi(t) = qa t^2 + qb t + qc, FIRST iteration (the loop-head state is
        # the START state), the first trial step t0 does not pass the convergence test and overshoots (dcstep case 1 or 2): the step evaluated next is
        # EXACTLY the minimiser of the function dcstep was handed (phi, or the modified function: linear coefficient (1-c1) qb), provided it lies in
        # [stpmin, stpmax].  By convexq/dcstep_phi|psi/armijo_strong_wolfe that point passes the convergence test at the top of the next iteration
        # (phi: for c1 <= 1/2; modified function: for every 0 < c1 < c2 < 1).  dcstep is used through its proved clauses mt/dcstep/contract_*.
        t0 = 't0'
        start = {'stage': '1', 'stx': '0.0', 'sty': '0.0', 'fx': 'f_0', 'fy': 'f_0', 'gx': 'g0d', 'gy': 'g0d', 'stmin': '0.0', 'stmax': f'(+ {t0} (* 4.0 {t0}))',
                 'width': f'(- {smax} stpmin)', 'width1': f'(* 2.0 (- {smax} stpmin))', 'stp': t0}
        S = [NOT(H['brackt'].t)] + [f'(= {H[k].t} {v})' for k, v in start.items()]
        S += ['(> qa 0.0)', '(= f_0 qc)', '(= g0d qb)', f'(= {H["f"].t} (+ (* qa {t0} {t0}) (* qb {t0}) qc))', f'(= {H["g"].t} (+ (* 2.0 qa {t0}) qb))']
        B = f'(ite {ref["mod"]} (* (- 1.0 c1) qb) qb)'
        for o in wp.obs:
            cl = contract_clauses(o['ins'], o['outs'], B)
            i = o['ins']
            overshoot = f'(or (> {i["fp"]} {i["fx"]}) (< (* {i["dp"]} {i["dx"]}) 0.0))'
            inside = f'(and (<= (* 2.0 qa stpmin) (- {B})) (<= (- {B}) (* 2.0 qa {smax})))'
            # no bisection in the first iteration (t0 < 0.66 * width1 = 1.32 (stpmax - stpmin), about 6e14) and xtol = epsilon0 < 1
            small = f'(and (< {t0} (* {P66} {H["width1"].t})) (< {xtol} 1.0))'
            wp.oblige('convexq_second_trial: on a convex quadratic, first iteration, t0 fails the convergence test and overshoots (dcstep case 1 / 2), minimiser of the '
                      'interpolated function inside [stpmin, stpmax], t0 < 1.32 (stpmax - stpmin), epsilon0 < 1: the step evaluated next is exactly that minimiser (2 a stp = -B)',
                      IMP(AND(o['guard'], *S, *cl.values(), overshoot, inside, small), f'(= (* 2.0 qa {wp.upd[0][1]}) (- {B}))'))
            wp.oblige('convexq_scenario_canary (the negated claim is the scenario itself: must be satisfiable)', NOT(AND(o['guard'], *S, *cl.values(), overshoot, inside, small)))
        return []
    inv = step_smt.with_havoc(inv, HAVOC)
    inv.body_post = body_post
    r = step_smt.mk('mt/do_get', MT, 'lsearchk_morethuente_t::do_get', 'do_get', setup, {1: inv},
                       'More-Thuente do_get: stage logic and step bookkeeping against MINPACK-2 dcsrch (double treated as real)', post=lambda wp, rv: [],
                       calls=[(r'^dcstep\|', h_dcstep_obs), (r'^stpmax\|', adv_smt.h_stpmax)], members=[(r'^stpmax\|', adv_smt.h_stpmax), (r'^update\|.*lsearchk', h_update_obs)])
    for v in r[0]:
        if 'convexq_scenario_canary' in v.name:
            v.expect = 'sat'        # the negated claim is the scenario itself: it must be satisfiable
    return r


# --------------------------------------------------------------------------------------------- the interpolating searches on a convex quadratic
def build_search_convexq(name, tu, flt, cxx, first, steps, inv_extra, setup_extra=None):
    """real body of a line search with EVERY evaluation returning phi(t) = qa t^2 + g0d t + qc (qa > 0) and every lsearch_step_t it keeps being a sample
    of phi (invariant, re-established by the body): at every `clamp(interpolate(u, v, mode), lo, hi)` site, in cubic or quadratic mode, if the exact minimiser lies
    inside [lo, hi] the step evaluated next IS the exact minimiser, and there Armijo (c1 <= 1/2) and strong Wolfe hold for the new trial state.
    interpolate is used through its proved clause convexq/interpolate/exact; the predicates through their formulas proved in pred/."""
    phi = lambda t: f'(+ (* qa {t} {t}) (* g0d {t}) qc)'
    dphi = lambda t: f'(+ (* 2.0 qa {t}) g0d)'

    def h_interp(wp, n, args, callee):
        u, v = step_smt.step_of(wp, args[0]), step_smt.step_of(wp, args[1])
        r = wp.fresh('Real', 'interpolate', 'double')
        wp.assume(interp_smt.interpolate_clause([x.t for x in u], [x.t for x in v], r.t, 'mode_cubic_or_quadratic', b='g0d'))
        wp.oblige('distinct_steps: interpolate is called on two different steps', f'(not (= {u[0].t} {v[0].t}))', n)
        return r

    def h_clamp(wp, n, args, callee):
        lo, hi = (wp.conv(wp.ev(a), 'Real', 'double') for a in args[1:3])
        wp.clamps.append((wp.guard, lo.t, hi.t))
        return step_smt.h_clamp(wp, n, args, callee)

    def h_update(wp, n, args, obj):
        r = step_smt.h_update(wp, n, args, obj)
        t = wp.env['state.t'].t
        wp.env['state.fx'], wp.env['state.dg'] = V(phi(t), 'Real', 'double'), V(dphi(t), 'Real', 'double')      # every evaluation returns the quadratic
        wp.upd.append(t)
        return r

    def state_of(wp, obj):
        return step_smt.state_key(wp, obj)

    def h_armijo(wp, n, args, obj):          # proved: pred/has_armijo
        t, c1 = (wp.conv(wp.ev(a), 'Real', 'double') for a in args[2:4])
        return V(f'(<= {wp.env[state_of(wp, obj) + ".fx"].t} (+ f_0 (* {t.t} (* {c1.t} g0d))))', 'Bool', 'bool')

    def h_wolfe(wp, n, args, obj):           # proved: pred/has_wolfe
        c2 = wp.conv(wp.ev(args[2]), 'Real', 'double')
        return V(f'(>= {wp.env[state_of(wp, obj) + ".dg"].t} (* {c2.t} g0d))', 'Bool', 'bool')

    def h_swolfe(wp, n, args, obj):          # proved: pred/has_strong_wolfe
        c2 = wp.conv(wp.ev(args[2]), 'Real', 'double')
        return V(f'(<= (rabs {wp.env[state_of(wp, obj) + ".dg"].t}) (* {c2.t} (rabs g0d)))', 'Bool', 'bool')

    def sample(wp, s):
        e = wp.env
        return f'(and (= {e[s + ".f"].t} {phi(e[s + ".t"].t)}) (= {e[s + ".g"].t} {dphi(e[s + ".t"].t)}))'

    def setup(wp):
        wp.upd, wp.clamps = [], []
        for nm in ('qa', 'qc'):
            wp.const(nm, 'Real', 'double')
        wp.const('mode_cubic_or_quadratic', 'Bool', 'bool')
        wp.assume('(< g0d 0.0)')
        wp.assume('(and (> qa 0.0) (= f_0 qc))')
        if setup_extra:
            setup_extra(wp, phi, dphi, sample)

    def inv(wp):
        e = wp.env
        out = [('loop counter in range', step_smt.counter(wp, first))] + inv_extra(wp)
        out += [(f'{s_} is a sample (t, phi(t), phi\'(t)) of the quadratic', sample(wp, s_)) for s_ in steps]
        return out

    def body_post(wp, H, e):
        if len(wp.upd) != 1 or not wp.clamps:
            raise Unsupported(f'{wp.name}: {len(wp.upd)} evaluations / {len(wp.clamps)} clamps in the loop body (the scenario expects one evaluation, >= 1 clamp)')
        t = wp.upd[0]
        for g, lo, hi in wp.clamps:
            within = f'(and {g} mode_cubic_or_quadratic (<= (* 2.0 qa {lo}) (- g0d)) (<= (- g0d) (* 2.0 qa {hi})))'
            wp.oblige('exact_step: cubic / quadratic mode and the minimiser inside the safeguarded interval: the next evaluated step is the exact minimiser (2 a t = -b)',
                      IMP(within, f'(= (* 2.0 qa {t}) (- g0d))'))
            wp.oblige('then_conditions: ... and at that trial state Armijo (for c1 <= 1/2) and strong Wolfe hold',
                      IMP(within, f'(and (=> (<= c1 0.5) (<= {phi(t)} (+ f_0 (* {t} (* c1 g0d))))) (<= (rabs {dphi(t)}) (* c2 (rabs g0d))))'))
            wp.oblige('scenario_canary (the negated claim is the scenario itself: must be satisfiable)', NOT(within))
        return []
    inv = step_smt.with_havoc(inv, tuple(f'{s_}.{f}' for s_ in steps for f in 'tfg'))
    inv.body_post = body_post
    r = step_smt.mk(name, tu, flt, cxx, setup, {1: inv}, 'an interpolating line search on a convex quadratic: the interpolated step is the exact minimiser unless the safeguard '
                    'cuts it (double treated as real)', post=lambda wp, rv: [], calls=[(r'^interpolate\|', h_interp), (r'^clamp\|const double &', h_clamp)],
                    members=[(r'^update\|.*lsearchk', h_update), (r'^has_armijo\|', h_armijo), (r'^has_wolfe\|', h_wolfe), (r'^has_strong_wolfe\|', h_swolfe)])
    for v in r[0]:
        if 'scenario_canary' in v.name:
            v.expect = 'sat'
    return r


def build_searches_convexq():
    def state_sample(wp, phi, dphi, sample):
        step_smt.doget_setup(wp)
        wp.assume(f'(and (= f_in {phi("t0")}) (= gd_in {dphi("t0")}))')

    def state_inv(wp):
        e = wp.env
        t = e['step_size'].t
        return [('the state is the valid evaluation of the quadratic at the current trial step',
                 f'(and (= {e["state.t"].t} {t}) {e["state.valid"].t} (= {e["state.fx"].t} (+ (* qa {t} {t}) (* g0d {t}) qc)) (= {e["state.dg"].t} (+ (* 2.0 qa {t}) g0d)))')]
    out = []
    # backtracking: bracket (0, t]
    out.append(build_search_convexq('convexq/backtrack_do_get', 'src/lsearchk/backtrack.cpp', 'lsearchk_backtrack_t::do_get', 'do_get', 0, (),
                                    lambda wp: [('trial step > 0', f'(> {wp.env["step_size"].t} 0.0)')] + state_inv(wp), state_sample))
    # LeMarechal: 0 <= L < t < R
    def inv_lm(wp):
        e = wp.env
        eps = step_smt.h_eps('eps0')(wp, None, None, None).t
        return [('0 <= L.t < trial step', f'(and (<= 0.0 {e["L.t"].t}) (< {e["L.t"].t} {e["step_size"].t}))'),
                ('trial step < R.t once the bracket has a right end', f'(=> (>= {e["R.t"].t} {eps}) (< {e["step_size"].t} {e["R.t"].t}))')] + state_inv(wp)
    out.append(build_search_convexq('convexq/lemarechal_do_get', 'src/lsearchk/lemarechal.cpp', 'lsearchk_lemarechal_t::do_get', 'do_get', 1, ('L', 'R'), inv_lm, state_sample))
    # Fletcher zoom: both ends of the bracket are samples
    def zoom_setup(wp, phi, dphi, sample):
        for _, claim in step_smt.zoom_requires('lo_t', 'hi_t'):
            wp.assume(claim)
        wp.assume(sample(wp, 'lo'))
        wp.assume(sample(wp, 'hi'))
    out.append(build_search_convexq('convexq/fletcher_zoom', 'src/lsearchk/fletcher.cpp', 'lsearchk_fletcher_t::zoom', 'zoom', 0, ('lo', 'hi'),
                                    lambda wp: [('bracket ends are non-negative', f'(and (>= {wp.env["lo.t"].t} 0.0) (>= {wp.env["hi.t"].t} 0.0))')], zoom_setup))
    # Fletcher bracketing phase: 0 <= prev < curr = t
    def inv_fl(wp):
        e = wp.env
        return [('0 <= prev.t < curr.t = trial step', f'(and (<= 0.0 {e["prev.t"].t}) (< {e["prev.t"].t} {e["curr.t"].t}) (= {e["curr.t"].t} {e["step_size"].t}))')] + state_inv(wp)
    out.append(build_search_convexq('convexq/fletcher_do_get', 'src/lsearchk/fletcher.cpp', 'lsearchk_fletcher_t::do_get', 'do_get', 1, ('prev', 'curr'), inv_fl, state_sample))
    return out


def build(tier='quick'):
    vcs = dcstep_vcs(tier) + contract_vcs() + convexq_vcs()
    fns = [dcstep()['fn']]
    r = build_do_get()
    vcs += r[0]
    fns.append(r[1])
    for r in build_searches_convexq():
        vcs += r[0]
        fns.append(r[1])
    return vcs, fns


if __name__ == '__main__':
    import sys
    dc = dcstep()
    if '-v' in sys.argv:
        for k, v in dc['out'].items():
            print(k, '=', v[:3000], '\n')
        print('defined =', dc['defined'][:3000])
    only = [a for a in sys.argv[1:] if a not in ('-v', '--thorough')]
    for v in build('thorough' if '--thorough' in sys.argv else 'quick')[0]:
        if not only or only[0] in v.name:
            v.timeout = v.timeout if '--thorough' in sys.argv else 20
            ob = v.verify()
            print(ob['status'], ob['backend'], {k: round(s, 2) for k, s in ob['seconds'].items()}, v.name)
