"""C07 (back end B, double as Real): More-Thuente and CG_DESCENT report success through their OWN inline tests (not through
solver_state_t::has_armijo / has_strong_wolfe / has_wolfe), so the contract demands the advertised conditions themselves,
as formulas over the value and slope of the state that is handed back:
    More-Thuente   success => Armijo  f_t <= f_0 + t*c1*(g_0.d)   and   strong Wolfe |g_t.d| <= c2*|g_0.d|
for every function (value / slope of every trial point are arbitrary reals), every parameter value in the registered domains
and every outcome of the interpolation kernel dcstep (its by-reference results are havocked).
"""
import astload
from nvwp import V, Unsupported
import step_smt
from nvwp import Unsupported
from step_smt import mk, counter, with_havoc, doget_setup, h_stpmin
from cxx2c import unwrap

MT = 'src/lsearchk/morethuente.cpp'


def h_stpmax(wp, n, args, callee):
    """lsearchk_t::stpmax() = 1 / stpmin()  (src/lsearchk.cpp, proved as steps/stpmax)"""
    m = h_stpmin(wp, n, args, callee)
    return V(f'(/ 1.0 {m.t})', 'Real', 'double')


def h_dcstep(wp, n, args, callee):
    """dcstep(stx, fx, dx, sty, fy, dy, stp, fp, dp, brackt, stpmin, stpmax, delta): the seven non-const reference
    arguments and the flag are overwritten with arbitrary values (assumed contract: havoc; the kernel itself is under the
    protocol target morethuente_do_get of back end A)"""
    if len(args) != 13:
        raise Unsupported(f'{wp.name}: dcstep with {len(args)} arguments')
    for k in (0, 1, 2, 3, 4, 5, 6, 9):
        key = wp.loc(args[k])
        old = wp.env[key]
        wp.env[key] = wp.fresh(old.s, key, old.c)
    for k in (7, 8, 10, 11, 12):
        wp.ev(args[k])
    return V('0', 'Int', 'int')


def advertised_mt(wp, rv):
    ok, t, st, valid, fx, dg = rv.c
    armijo = f'(<= {fx} (+ f_0 (* {t} (* c1 g0d))))'
    swolfe = f'(<= (rabs {dg}) (* c2 (rabs g0d)))'
    return [('success => the state is the valid evaluation at exactly the returned step', f'(=> {ok} (and (= {t} {st}) {valid}))'),
            ('success => Armijo and strong Wolfe hold at the returned point (the advertised conditions)', f'(=> {ok} (and {armijo} {swolfe}))')]


# ------------------------------------------------------------------ CG_DESCENT: do_get composed from the contracts of its helpers
CGD = 'src/lsearchk/cgdescent.cpp'
CGD_FLT = 'lsearchk_cgdescent_t::'
CGD_PARAMS = {'theta': '(and (< 0.0 theta) (< theta 1.0))', 'ro': '(and (< 1.0 ro) (< ro 1000000.0))', 'gamma': '(and (< 0.0 gamma) (< gamma 1.0))',
              'cgd_epsilon': '(and (< 0.0 cgd_epsilon) (< cgd_epsilon 1000000.0))'}
IV_KEYS = ('interval.step_size', 'interval.a.t', 'interval.a.f', 'interval.a.g', 'interval.b.t', 'interval.b.f', 'interval.b.g')
CGD_GHOST = ('adv', 'adv.t', 'adv.c1', 'adv.c2', 'adv.eps')


def chain_key(wp, n):
    """dotted env key of `x.m`, `x.m.f` (x a local / an alias of a sub-object), else None"""
    n = unwrap(n)
    if n.get('kind') == 'DeclRefExpr':
        nm = n['referencedDecl'].get('name')
        return wp.alias.get(nm, nm)
    if n.get('kind') == 'MemberExpr' and n.get('inner'):
        b = chain_key(wp, n['inner'][0])
        return None if b is None else f'{b}.{n["name"]}'
    return None


def chain_hook(wp, n):
    if n.get('kind') == 'MemberExpr':
        k = chain_key(wp, n)
        if k is not None and k in wp.env and wp.env[k].s in ('Real', 'Int', 'Bool'):
            return wp.env[k]
    return None


def cgd_step_of(wp, n):
    """lsearch_step_t values reached through the aliases `a`, `b` / sub-objects interval.a, interval.b"""
    k = chain_key(wp, n)
    if k is not None and k + '.t' in wp.env:
        return tuple(wp.env[f'{k}.{f}'] for f in 'tfg')
    u = unwrap(n)
    if u.get('kind') in ('CXXConstructExpr',) and len(u.get('inner', [])) == 1:
        return cgd_step_of(wp, u['inner'][0])
    return step_smt.step_of(wp, n)


def cgd_decl_hook(wp, v, init):
    if v.get('kind') != 'VarDecl':
        return False
    q = v['type'].get('qualType', '')
    if q.endswith('params_t'):
        # contract of make_params (back end A: cgd_make_params): the registered parameters, epsilon_k = epsilon * |f(x0)|
        u = unwrap(init[0])
        if u.get('kind') != 'CallExpr' or unwrap(u['inner'][0]).get('referencedDecl', {}).get('name') != 'make_params' \
                or step_smt.state_key(wp, u['inner'][2]) != 'state0':
            raise Unsupported(f'{wp.name}: params is not make_params(*this, state0)')
        c1, c2 = step_smt.param_consts(wp, 'lsearchk::tolerance')
        m = step_smt.param_consts(wp, 'lsearchk::max_iterations')[0]
        for nm, dom in CGD_PARAMS.items():
            wp.env['cgd.' + nm] = wp.const(nm, 'Real', 'double')
            wp.assume(dom)
        nmv = v['name']
        wp.env[nmv + '.m_c1'], wp.env[nmv + '.m_c2'], wp.env[nmv + '.m_max_iterations'] = c1, c2, m
        wp.env[nmv + '.m_theta'], wp.env[nmv + '.m_ro'], wp.env[nmv + '.m_gamma'] = wp.env['cgd.theta'], wp.env['cgd.ro'], wp.env['cgd.gamma']
        wp.env[nmv + '.m_epsilonk'] = V(f'(* cgd_epsilon (rabs {wp.env["state0.fx"].t}))', 'Real', 'double')
        wp.env[nmv] = V(nmv, 'Opaque', None)
        return True
    if q.endswith('interval_t'):
        # contract of interval_t::interval_t (back end A: cgd_interval_ctor): c = state, a = (0, f0, g0.d), b = (t, f_t, g_t.d)
        u = unwrap(init[0])
        a = u.get('inner', [])
        if v['name'] != 'interval' or len(a) != 4 or step_smt.state_key(wp, a[0]) != 'state0' or step_smt.state_key(wp, a[3]) != 'state':
            raise Unsupported(f'{wp.name}: interval is not interval_t{{state0, descent, t, state}}')
        t = wp.conv(wp.ev(a[2]), 'Real', 'double')
        wp.env['interval.step_size'] = t
        wp.env['interval.a.t'], wp.env['interval.a.f'], wp.env['interval.a.g'] = V('0.0', 'Real', 'double'), wp.env['state0.fx'], wp.env['state0.dg']
        wp.env['interval.b.t'], wp.env['interval.b.f'], wp.env['interval.b.g'] = t, wp.env['state.fx'], wp.env['state.dg']
        wp.env['interval'] = V('interval', 'Opaque', None)
        return True
    if step_smt.is_step_type(v['type']) and q.rstrip().endswith('&'):
        k = chain_key(wp, init[0])        # `const auto& a = interval.a;`
        if k is None or k + '.t' not in wp.env:
            raise Unsupported(f'{wp.name}: reference to an unknown line-search step')
        wp.alias[v['name']] = k
        return True
    if step_smt.is_step_type(v['type']):
        step_smt.set_step(wp, v['name'], cgd_step_of(wp, init[0]))
        return True
    if q.startswith('(lambda') or 'lambda at' in q:
        wp.env[v['name']] = V(v['name'], 'Opaque', None)       # the closure: its call operator is cgd_muc (contract below)
        return True
    return False


def giveup(wp, eps, bracketed):
    e = wp.env
    return f'(or (and {bracketed} (or (> {e["interval.a.f"].t} (+ {e["state0.fx"].t} {eps})) (< {e["interval.b.g"].t} 0.0))) (not {e["state.valid"].t}))'


def record_adv(wp, c1, c2, eps):
    """ghost: a criterion pair of done() evaluated to true on the current tentative state with the current step"""
    adv = wp.fresh('Bool', 'criterion', 'bool')
    wp.env['adv'], wp.env['adv.t'], wp.env['adv.c1'], wp.env['adv.c2'], wp.env['adv.eps'] = adv, wp.env['interval.step_size'], c1, c2, eps
    return adv


def h_done(wp, n, args, obj):
    """interval.done(c1, c2, epsilon_k, bracketed = true): contract proved by back end A (cgd_done):
    ret => give-up or criterion evaluated true on (c, step_size); a diverged state => ret"""
    if chain_key(wp, obj) != 'interval':
        raise Unsupported(f'{wp.name}: done() of an unknown interval')
    c1, c2, eps = (wp.conv(wp.ev(a), 'Real', 'double') for a in args[:3])
    if unwrap(args[3]).get('kind') == 'CXXDefaultArgExpr':
        decl = astload.find_definition(CGD, CGD_FLT, 'done')
        p = [c for c in decl['inner'] if c.get('kind') == 'ParmVarDecl'][3]
        br = wp.conv(wp.ev([c for c in p['inner'] if c.get('kind') != 'FullComment'][0]), 'Bool', 'bool')
    else:
        br = wp.conv(wp.ev(args[3]), 'Bool', 'bool')
    r = wp.fresh('Bool', 'done', 'bool')
    adv = record_adv(wp, c1, c2, eps)
    wp.assume(f'(=> {r.t} (or {giveup(wp, eps.t, br.t)} {adv.t}))')
    wp.assume(f'(=> (not {wp.env["state.valid"].t}) {r.t})')
    return r


def h_converged(wp, n, args, obj):
    """interval.converged(c1, c2, epsilon_k): contract proved by back end A (cgd_converged):
    ret <=> the tentative state is valid and a criterion pair evaluated to true on (c, step_size)"""
    if chain_key(wp, obj) != 'interval':
        raise Unsupported(f'{wp.name}: converged() of an unknown interval')
    c1, c2, eps = (wp.conv(wp.ev(a), 'Real', 'double') for a in args[:3])
    r = wp.fresh('Bool', 'converged', 'bool')
    adv = record_adv(wp, c1, c2, eps)
    wp.assume(f'(= {r.t} (and {wp.env["state.valid"].t} {adv.t}))')
    return r


def havoc_search(wp, extra):
    """common part of the contracts of bracket / move_update_and_check_done (back end A: cgd_bracket, cgd_muc): the interval
    tail and the tentative state change, the tentative state is the evaluation at interval.step_size, the budget only
    decreases and pays for every evaluation but `extra`"""
    e = wp.env
    m0, ev0 = e['params.m_max_iterations'], e['evals']
    for k in IV_KEYS:
        e[k] = wp.fresh('Real', k, 'double')
    e['state.fx'], e['state.dg'], e['state.valid'] = wp.fresh('Real', 'fx', 'double'), wp.fresh('Real', 'dg', 'double'), wp.fresh('Bool', 'valid', 'bool')
    e['state.t'] = e['interval.step_size']
    m1, ev1 = wp.fresh('Int', 'budget', 'int'), wp.fresh('Int', 'evals', 'long')
    wp.assume(f'(and (<= 0 {m1.t}) (<= {m1.t} {m0.t}) (<= {ev0.t} {ev1.t}) (<= (- {ev1.t} {ev0.t}) (+ (- {m0.t} {m1.t}) {extra})))')
    e['params.m_max_iterations'], e['evals'] = m1, ev1
    e['adv'] = V('false', 'Bool', 'bool')


def cgd_requires(wp, n, what):
    e = wp.env
    wp.oblige(f'{what} precondition: the tentative state is the evaluation at interval.step_size', f'(= {e["state.t"].t} {e["interval.step_size"].t})', n)
    wp.oblige(f'{what} precondition: 0 <= remaining budget <= 10000', f'(and (<= 0 {e["params.m_max_iterations"].t}) (<= {e["params.m_max_iterations"].t} 10000))', n)


def h_bracket(wp, n, args, obj):
    if chain_key(wp, args[0]) != 'interval' or chain_key(wp, args[1]) != 'params':
        raise Unsupported(f'{wp.name}: bracket(...) on unexpected objects')
    cgd_requires(wp, n, 'bracket')
    havoc_search(wp, 1)
    return V('0', 'Int', 'int')


def h_muc(wp, n, args, callee):
    """move_update_and_check_done(t): contract proved by back end A on the lambda body (cgd_muc)"""
    wp.conv(wp.ev(args[1]), 'Real', 'double')
    cgd_requires(wp, n, 'move_update_and_check_done')
    e = wp.env
    havoc_search(wp, 2)
    r = wp.fresh('Bool', 'muc', 'bool')
    adv = record_adv(wp, e['params.m_c1'], e['params.m_c2'], e['params.m_epsilonk'])
    wp.assume(f'(=> {r.t} (or {giveup(wp, e["params.m_epsilonk"].t, "true")} {adv.t}))')
    return r


def advertised_cgd(wp, rv):
    ok, t, st, valid, fx, dg = rv.c
    e = wp.env
    c1, c2 = step_smt.param_consts(wp, 'lsearchk::tolerance')
    M = step_smt.param_consts(wp, 'lsearchk::max_iterations')[0]
    crit = f'(and {e["adv"].t} (= {e["adv.t"].t} {t}) (= {e["adv.c1"].t} {c1.t}) (= {e["adv.c2"].t} {c2.t}) (= {e["adv.eps"].t} (* cgd_epsilon (rabs f_0))))'
    return [('success => the state is the valid evaluation at exactly the returned step', f'(=> {ok} (and (= {t} {st}) {valid}))'),
            ('evaluation budget of one search: at most 7*max_iterations + 1 evaluations', f'(<= {e["evals"].t} (+ (* 7 {M.t}) 1))'),
            ('success => (Armijo and Wolfe) or (approximate Armijo and approximate Wolfe) was evaluated true on the returned state with the returned step '
             '(the advertised conditions)', f'(=> {ok} {crit})')]


def build_cgd():
    def setup(wp):
        doget_setup(wp)
        wp.assume('(< g0d 0.0)')
        wp.alias = {}
        wp.decl_hooks = (cgd_decl_hook,) + tuple(wp.decl_hooks)
        wp.hooks = [chain_hook] + list(wp.hooks)
        for k in CGD_GHOST:
            wp.env[k] = V('false', 'Bool', 'bool') if k == 'adv' else V('0.0', 'Real', 'double')

    def inv(wp):
        e = wp.env
        M = step_smt.param_consts(wp, 'lsearchk::max_iterations')[0].t
        m, i = e['params.m_max_iterations'].t, e[wp.loop_counter or 'i'].t
        return [('loop counter in range', f'(and (<= 0 {i}) (<= {i} {M}))'),
                ('the remaining budget is in [0, max_iterations]', f'(and (<= 0 {m}) (<= {m} {M}))'),
                ('the tentative state is the evaluation at interval.step_size', f'(= {e["state.t"].t} {e["interval.step_size"].t})'),
                ('evaluations so far <= budget spent + 1 + 6 per iteration', f'(and (<= 0 {e["evals"].t}) (<= (+ {e["evals"].t} {m}) (+ {M} 1 (* 6 {i}))))')]
    inv.havoc = tuple(step_smt.STATE_KEYS) + IV_KEYS + ('params.m_max_iterations',) + CGD_GHOST
    inv.decreases = lambda wp, env: f'(- {step_smt.param_consts(wp, "lsearchk::max_iterations")[0].t} {env[wp.loop_counter or "i"].t})'
    return mk('advertised/cgdescent_do_get', CGD, CGD_FLT, 'do_get', setup, {1: inv},
              'CG_DESCENT do_get composed from the contracts of its helpers: state at the returned step, budget, advertised criterion', post=advertised_cgd,
              calls=[(r'^operator\(\)\|bool \(const double\) const\|\(lambda', h_muc), (r'^secant\|', lambda wp, n, a, c: wp.fresh('Real', 'secant', 'double'))],
              members=[(r'^done\|.*interval_t', h_done), (r'^converged\|.*interval_t', h_converged), (r'^bracket\|.*lsearchk_cgdescent_t', h_bracket)])


def build():
    vcs, fns = [], []
    r = build_cgd()
    vcs += r[0]
    fns.append(r[1])

    def setup(wp):
        doget_setup(wp)
        wp.assume('(< g0d 0.0)')        # lsearchk_t::get refuses every direction that is not a descent direction (back end A + steps/lsearchk_get)

    def inv(wp):
        e = wp.env
        return [('loop counter in range', counter(wp, 0)),
                ('the state is the valid evaluation at the current trial step', f'(and (= {e["state.t"].t} {e["stp"].t}) {e["state.valid"].t})'),
                ('f and g are the value and the slope of the current trial state', f'(and (= {e["f"].t} {e["state.fx"].t}) (= {e["g"].t} {e["state.dg"].t}))')]
    r = mk('advertised/morethuente_do_get', MT, 'lsearchk_morethuente_t::do_get', 'do_get', setup,
           {1: with_havoc(inv, ('stx', 'fx', 'gx', 'sty', 'fy', 'gy', 'brackt', 'stp'))},
           'More-Thuente: success => Armijo + strong Wolfe at the returned point (over the reals)', post=advertised_mt,
           calls=[(r'^dcstep\|', h_dcstep), (r'^stpmax\|', h_stpmax)], members=[(r'^stpmax\|', h_stpmax)])
    vcs += r[0]
    fns.append(r[1])
    r = mk('steps/stpmax', 'src/lsearchk.cpp', 'lsearchk_t::stpmax', 'stpmax', lambda wp: None, {}, 'stpmax = 1 / stpmin',
           post=lambda wp, rv: [('stpmax = 1/stpmin >= 1 >= stpmin (std::clamp(stp, stpmin, stpmax) is well formed)',
                                 f'(and (= {rv.t} (/ 1.0 stpmin)) (>= {rv.t} 1.0) (<= stpmin {rv.t}))')])
    vcs += r[0]
    fns.append(r[1])
    return vcs, fns
