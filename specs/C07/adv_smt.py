"""C07 (back end B, double as Real): More-Thuente and CG_DESCENT report success through their OWN inline tests (not through
solver_state_t::has_armijo / has_strong_wolfe / has_wolfe), so the contract demands the advertised conditions themselves,
as formulas over the value and slope of the state that is handed back:
    More-Thuente   success => Armijo  f_t <= f_0 + t*c1*(g_0.d)   and   strong Wolfe |g_t.d| <= c2*|g_0.d|
for every function (value / slope of every trial point are arbitrary reals), every parameter value in the registered domains
and every outcome of the interpolation kernel dcstep (its by-reference results are havocked).
"""
import astload
from nvwp import V, Unsupported
import step_smt
from step_smt import mk, counter, with_havoc, doget_setup, h_stpmin
from cxx2c import unwrap

MT = 'src/lsearchk/morethuente.cpp'


def h_stpmax(wp, n, args, callee):
    """lsearchk_t::stpmax() = 1 / stpmin()  (src/lsearchk.cpp, proved as steps/stpmax)"""
    m = h_stpmin(wp, n, args, callee)
    return V(f'(/ 1.0 {m.t})', 'Real', 'double')


def h_dcstep(wp, n, args, callee):
    """dcstep(stx, fx, dx, sty, fy, dy, stp, fp, dp, brackt, stpmin, stpmax, delta): the seven non-const reference
    arguments and the flag are overwritten with arbitrary values (assumed contract: havoc; the kernel itself is under the
    protocol target morethuente_do_get of back end A)"""
    if len(args) != 13:
        raise Unsupported(f'{wp.name}: dcstep with {len(args)} arguments')
    for k in (0, 1, 2, 3, 4, 5, 6, 9):
        key = wp.loc(args[k])
        old = wp.env[key]
        wp.env[key] = wp.fresh(old.s, key, old.c)
    for k in (7, 8, 10, 11, 12):
        wp.ev(args[k])
    return V('0', 'Int', 'int')


def advertised_mt(wp, rv):
    ok, t, st, valid, fx, dg = rv.c
    armijo = f'(<= {fx} (+ f_0 (* {t} (* c1 g0d))))'
    swolfe = f'(<= (rabs {dg}) (* c2 (rabs g0d)))'
    return [('success => the state is the valid evaluation at exactly the returned step', f'(=> {ok} (and (= {t} {st}) {valid}))'),
            ('success => Armijo and strong Wolfe hold at the returned point (the advertised conditions)', f'(=> {ok} (and {armijo} {swolfe}))')]


def build():
    vcs, fns = [], []

    def setup(wp):
        doget_setup(wp)
        wp.assume('(< g0d 0.0)')        # lsearchk_t::get refuses every direction that is not a descent direction (back end A + steps/lsearchk_get)

    def inv(wp):
        e = wp.env
        return [('loop counter in range', counter(wp, 0)),
                ('the state is the valid evaluation at the current trial step', f'(and (= {e["state.t"].t} {e["stp"].t}) {e["state.valid"].t})'),
                ('f and g are the value and the slope of the current trial state', f'(and (= {e["f"].t} {e["state.fx"].t}) (= {e["g"].t} {e["state.dg"].t}))')]
    r = mk('advertised/morethuente_do_get', MT, 'lsearchk_morethuente_t::do_get', 'do_get', setup,
           {1: with_havoc(inv, ('stx', 'fx', 'gx', 'sty', 'fy', 'gy', 'brackt', 'stp'))},
           'More-Thuente: success => Armijo + strong Wolfe at the returned point (over the reals)', post=advertised_mt,
           calls=[(r'^dcstep\|', h_dcstep), (r'^stpmax\|', h_stpmax)], members=[(r'^stpmax\|', h_stpmax)])
    vcs += r[0]
    fns.append(r[1])
    r = mk('steps/stpmax', 'src/lsearchk.cpp', 'lsearchk_t::stpmax', 'stpmax', lambda wp: None, {}, 'stpmax = 1 / stpmin',
           post=lambda wp, rv: [('stpmax = 1/stpmin >= 1 >= stpmin (std::clamp(stp, stpmin, stpmax) is well formed)',
                                 f'(and (= {rv.t} (/ 1.0 stpmin)) (>= {rv.t} 1.0) (<= stpmin {rv.t}))')])
    vcs += r[0]
    fns.append(r[1])
    return vcs, fns
