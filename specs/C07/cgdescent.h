/* C07: CG_DESCENT (src/lsearchk/cgdescent.cpp): do_get, the bracketing helpers bracket / update / updateU / move, the
 * interval_t methods (constructor, updateA, updateB, done), make_params and the move_update_and_check_done lambda -- all
 * real code.  Protocol: the tentative state interval.c is always the evaluation at x0 + interval.step_size * d; success is
 * `state.valid()` right after interval.done(...) returned true for the current tentative point; done() returns true either
 * because a criterion pair -- (Armijo, Wolfe) or (approximate Armijo, approximate Wolfe) -- was evaluated to true on the
 * tentative point with the current step, or because it GIVES UP (bracketing failed / diverged). */
#include "lsearch.h"
struct nv_cgd_params { double m_c1, m_c2; int32_t m_max_iterations; double m_theta, m_ro, m_gamma, m_epsilonk; };
/* the three reference members first: the mutable tail {step_size, a, b} is one contiguous assigns target (NV_IV_TAIL) */
struct nv_cgd_interval { struct nv_state* state0; struct nv_vector* descent; struct nv_state* c; double step_size; struct nv_lstep a, b; };
#define NV_IV_TAIL(iv) __CPROVER_object_from(&(iv)->step_size)
/* registered domains: 0 < theta < 1, 1 < ro < 1e6, 0 < gamma < 1, 0 < epsilon < 1e6 (ghost globals, fixed during a call) */
static double nv_param_theta(void) { return nv_theta; }
static double nv_param_ro(void) { return nv_ro; }
static double nv_param_gamma(void) { return nv_gamma; }
static double nv_param_epsilon(void) { return nv_cgd_epsilon; }

/* ghost records of where the four predicates of CG_DESCENT's criterion were evaluated (one object: one assigns target) */
struct nv_pred2 { uint64_t ver, origin; double c1, c2; _Bool res; };
struct nv_cgd_ghost { struct nv_pred armijo, wolfe, aarmijo; struct nv_pred2 awolfe; } nv_cgd;
static _Bool nv_cgd_has_armijo(const struct nv_state* s, const struct nv_state* o, const struct nv_vector* d, double t, double c1)
{ _Bool r = nv_nondet__Bool(); nv_cgd.armijo.ver = s->ver; nv_cgd.armijo.origin = o->ver; nv_cgd.armijo.t = t; nv_cgd.armijo.c = c1; nv_cgd.armijo.res = r; return r; }
static _Bool nv_cgd_has_wolfe(const struct nv_state* s, const struct nv_state* o, const struct nv_vector* d, double c2)
{ _Bool r = nv_nondet__Bool(); nv_cgd.wolfe.ver = s->ver; nv_cgd.wolfe.origin = o->ver; nv_cgd.wolfe.t = 0; nv_cgd.wolfe.c = c2; nv_cgd.wolfe.res = r; return r; }
static _Bool nv_has_approx_armijo(const struct nv_state* s, const struct nv_state* o, double epsilon)
{ _Bool r = nv_nondet__Bool(); nv_cgd.aarmijo.ver = s->ver; nv_cgd.aarmijo.origin = o->ver; nv_cgd.aarmijo.t = 0; nv_cgd.aarmijo.c = epsilon; nv_cgd.aarmijo.res = r; return r; }
static _Bool nv_has_approx_wolfe(const struct nv_state* s, const struct nv_state* o, const struct nv_vector* d, double c1, double c2)
{ _Bool r = nv_nondet__Bool(); nv_cgd.awolfe.ver = s->ver; nv_cgd.awolfe.origin = o->ver; nv_cgd.awolfe.c1 = c1; nv_cgd.awolfe.c2 = c2; nv_cgd.awolfe.res = r; return r; }

/* `interval_t{state0, descent, step_size, state}` as an expression: the real constructor, called on a temporary */
void cgd_interval_ctor(struct nv_cgd_interval* self, struct nv_state* state0_, struct nv_vector* descent_, double step_size_, struct nv_state* state);
static struct nv_cgd_interval nv_cgd_interval_make(struct nv_state* state0, struct nv_vector* descent, double step_size, struct nv_state* state)
{ struct nv_cgd_interval r; cgd_interval_ctor(&r, state0, descent, step_size, state); return r; }

#define NV_CGD_GHOSTS nv_cgd
#define NV_IV_FRESH(iv) (__CPROVER_is_fresh(iv, sizeof(struct nv_cgd_interval)) && NV_STATE_FRESH((iv)->c) && NV_STATE_FRESH((iv)->state0) \
  && __CPROVER_is_fresh((iv)->descent, sizeof(struct nv_vector)))
#define NV_IV_SAME(iv) ((iv)->c == __CPROVER_old((iv)->c) && (iv)->state0 == __CPROVER_old((iv)->state0) && (iv)->descent == __CPROVER_old((iv)->descent))
/* the tentative state is the evaluation at x0 + step_size*d */
#define NV_IV_AT(iv) NV_AT((iv)->c, (iv)->state0, (iv)->step_size)
#define NV_IV_VERS_IN(iv, lim) ((iv)->state0->ver <= nv_ver_counter && (iv)->c->ver <= nv_ver_counter && nv_ver_counter < UINT64_MAX - (lim) && (iv)->c->eval_ver == (iv)->c->ver)
#define NV_IV_VERS_OUT(iv) (nv_ver_counter >= __CPROVER_old(nv_ver_counter) && (iv)->c->ver <= nv_ver_counter && (iv)->c->eval_ver == (iv)->c->ver \
  && (iv)->c->m_status == __CPROVER_old((iv)->c->m_status))
#define NV_CGD_BUDGET_IN(p) (0 <= (p)->m_max_iterations && (p)->m_max_iterations <= 10000)
/* the evaluation budget: m_max_iterations only decreases, and every evaluation but at most `extra` ones is paid for by a decrement */
#define NV_CGD_BUDGET_OUT(p, extra) (0 <= (p)->m_max_iterations && (p)->m_max_iterations <= __CPROVER_old((p)->m_max_iterations) \
  && nv_ver_counter - __CPROVER_old(nv_ver_counter) <= (uint64_t)(__CPROVER_old((p)->m_max_iterations) - (p)->m_max_iterations) + (extra))
/* done() gives up: bracketing failed (a.f > f0 + epsilon_k or b.g < 0 although bracketed) or the tentative state diverged */
#define NV_CGD_GIVEUP(iv, eps, bracketed) (((bracketed) && ((iv)->a.f > NV_FADD((iv)->state0->m_fx, (eps)) || (iv)->b.g < 0.0)) || !(iv)->c->valid)
/* the advertised criterion: (Armijo and Wolfe) or (approximate Armijo and approximate Wolfe) evaluated to true on the state s
 * (origin s0) with the step t and the tolerances c1, c2, epsilon_k */
#define NV_CGD_ADV(s, s0, step, c1_, c2_, eps) \
  ((NV_PRED_AT(nv_cgd.armijo, s, s0) && NV_SAME(nv_cgd.armijo.t, (step)) && NV_SAME(nv_cgd.armijo.c, (c1_)) && NV_PRED_AT(nv_cgd.wolfe, s, s0) && NV_SAME(nv_cgd.wolfe.c, (c2_))) \
   || (NV_PRED_AT(nv_cgd.aarmijo, s, s0) && NV_SAME(nv_cgd.aarmijo.c, (eps)) && nv_cgd.awolfe.res && nv_cgd.awolfe.ver == (s)->ver && nv_cgd.awolfe.origin == (s0)->ver \
       && NV_SAME(nv_cgd.awolfe.c1, (c1_)) && NV_SAME(nv_cgd.awolfe.c2, (c2_))))

/* interval_t::interval_t: binds the three references, a = (0, f0, g0.d), b = (t, f_t, g_t.d) */
#define NV_CONTRACT_cgd_interval_ctor \
__CPROVER_requires(__CPROVER_is_fresh(self, sizeof(*self)) && NV_STATE_FRESH(state0_) && NV_STATE_FRESH(state) && __CPROVER_is_fresh(descent_, sizeof(*descent_))) \
__CPROVER_assigns(*self) \
__CPROVER_ensures(self->state0 == state0_ && self->descent == descent_ && self->c == state && NV_SAME(self->step_size, step_size_)) \
__CPROVER_ensures(self->a.t == 0.0 && NV_SAME(self->a.f, state0_->m_fx) && NV_SAME(self->a.g, state0_->dg)) \
__CPROVER_ensures(NV_SAME(self->b.t, step_size_) && NV_SAME(self->b.f, state->m_fx) && NV_SAME(self->b.g, state->dg))

/* interval_t::converged: true exactly when the tentative state is valid and a criterion pair was evaluated to true on it with
 * the current step (a diverged state short-circuits: no predicate is evaluated) */
#define NV_CONTRACT_cgd_converged \
__CPROVER_requires(NV_IV_FRESH(self)) \
__CPROVER_assigns(NV_CGD_GHOSTS) \
__CPROVER_ensures(__CPROVER_return_value == (self->c->valid && NV_CGD_ADV(self->c, self->state0, self->step_size, c1, c2, epsilonk)))

/* interval_t::done */
#define NV_CONTRACT_cgd_done \
__CPROVER_requires(NV_IV_FRESH(self)) \
__CPROVER_assigns(NV_CGD_GHOSTS) \
__CPROVER_ensures(__CPROVER_return_value ==> (NV_CGD_GIVEUP(self, epsilonk, bracketed) || NV_CGD_ADV(self->c, self->state0, self->step_size, c1, c2, epsilonk))) \
__CPROVER_ensures(!self->c->valid ==> __CPROVER_return_value)

#define NV_CGD_HELPER_REQUIRES(lim) \
__CPROVER_requires(__CPROVER_is_fresh(self, sizeof(*self)) && NV_IV_FRESH(interval) && __CPROVER_is_fresh(params, sizeof(*params))) \
__CPROVER_requires(NV_IV_AT(interval) && NV_IV_VERS_IN(interval, lim) && NV_CGD_BUDGET_IN(params))
#define NV_CGD_HELPER_ASSIGNS __CPROVER_assigns(NV_IV_TAIL(interval), *(interval->c), params->m_max_iterations, nv_ver_counter, NV_CGD_GHOSTS)
#define NV_CGD_HELPER_ENSURES(extra) \
__CPROVER_ensures(NV_IV_SAME(interval) && NV_IV_AT(interval) && NV_IV_VERS_OUT(interval) && NV_CGD_BUDGET_OUT(params, extra))

/* updateU / update / bracket: the tentative state stays the evaluation at interval.step_size; evaluations <= budget spent + 1 */
#define NV_CONTRACT_cgd_updateU NV_CGD_HELPER_REQUIRES(1000000) NV_CGD_HELPER_ASSIGNS NV_CGD_HELPER_ENSURES(1)
#define NV_CGD_HELPER_LOOP(lim, more) \
__CPROVER_assigns(params->m_max_iterations, NV_IV_TAIL(interval), *(interval->c), nv_ver_counter, NV_CGD_GHOSTS more) \
__CPROVER_loop_invariant(__CPROVER_loop_entry(nv_ver_counter) < UINT64_MAX - (lim) && __CPROVER_loop_entry(params->m_max_iterations) <= 10000) \
__CPROVER_loop_invariant(0 <= params->m_max_iterations && params->m_max_iterations <= __CPROVER_loop_entry(params->m_max_iterations)) \
__CPROVER_loop_invariant(NV_IV_AT(interval) && interval->state0->ver <= nv_ver_counter && interval->c->ver <= nv_ver_counter && interval->c->eval_ver == interval->c->ver) \
__CPROVER_loop_invariant(interval->c->m_status == __CPROVER_loop_entry(interval->c->m_status) && nv_ver_counter >= __CPROVER_loop_entry(nv_ver_counter)) \
__CPROVER_loop_invariant(nv_ver_counter - __CPROVER_loop_entry(nv_ver_counter) <= (uint64_t)(__CPROVER_loop_entry(params->m_max_iterations) - params->m_max_iterations)) \
__CPROVER_decreases(params->m_max_iterations)
#define NV_LOOP_cgd_updateU_1 NV_CGD_HELPER_LOOP(1000000, )
#define NV_CONTRACT_cgd_update NV_CGD_HELPER_REQUIRES(1000000) NV_CGD_HELPER_ASSIGNS NV_CGD_HELPER_ENSURES(1)
#define NV_CONTRACT_cgd_bracket NV_CGD_HELPER_REQUIRES(1500000) NV_CGD_HELPER_ASSIGNS NV_CGD_HELPER_ENSURES(1)
#define NV_COMMA ,
#define NV_LOOP_cgd_bracket_1 NV_CGD_HELPER_LOOP(1500000, NV_COMMA last_a)

/* the lambda move_update_and_check_done(t): true only right after done() returned true for the current tentative point */
#define NV_CONTRACT_cgd_muc NV_CGD_HELPER_REQUIRES(1100000) \
NV_CGD_HELPER_ASSIGNS NV_CGD_HELPER_ENSURES(2) \
__CPROVER_ensures(__CPROVER_return_value ==> (NV_CGD_GIVEUP(interval, params->m_epsilonk, 1) \
  || NV_CGD_ADV(interval->c, interval->state0, interval->step_size, params->m_c1, params->m_c2, params->m_epsilonk)))

/* make_params: the registered parameters; epsilon_k = epsilon * |f(x0)| */
#define NV_CONTRACT_cgd_make_params \
__CPROVER_requires(__CPROVER_is_fresh(configurable, sizeof(*configurable)) && NV_STATE_FRESH(state0)) \
__CPROVER_assigns() \
__CPROVER_ensures(NV_SAME(__CPROVER_return_value.m_c1, nv_c1) && NV_SAME(__CPROVER_return_value.m_c2, nv_c2) && __CPROVER_return_value.m_max_iterations == nv_max_iterations) \
__CPROVER_ensures(NV_SAME(__CPROVER_return_value.m_theta, nv_theta) && NV_SAME(__CPROVER_return_value.m_ro, nv_ro) && NV_SAME(__CPROVER_return_value.m_gamma, nv_gamma)) \
__CPROVER_ensures(NV_SAME(__CPROVER_return_value.m_epsilonk, NV_FMUL(nv_cgd_epsilon, nv_fabs(state0->m_fx))))
