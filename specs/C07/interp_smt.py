"""C07 (back end B, double treated as real): the interpolation kernels of src/solver/lstep.cpp
    lsearch_step_t::cubic / quadratic / secant / bisection
return the stationary point of the interpolant their header documents, and on a 1-D convex quadratic they return its exact
minimiser, which satisfies Armijo (c1 <= 1/2) and strong Wolfe (any c2 >= 0).

How the real code gets here: every kernel is executed symbolically on its clang AST (`KernelWP`), which yields
  * `ret`      the returned value as an SMT term over the six inputs u_t, u_f, u_g, v_t, v_f, v_g (sqrt is the uninterpreted
               function nv_sqrt, whose two defining facts are INSTANTIATED on the applications that occur in a script),
  * `defined`  the conjunction of "divisor != 0" for every division and "argument >= 0" for every sqrt the code executes,
               each under its path condition (in IEEE arithmetic the complement produces inf / NaN; over the reals it has no
               meaning, so every claim is conditional on `defined` -- or PROVES `defined` from the hypotheses, see (c)),
  * `conv`     the value stored through `bool* convexity` (quadratic).
The terms are also what the More-Thuente step kernel dcstep is composed from (mt_smt.py instantiates them on its argument
triples: the calls are inlined mechanically, no hand-written formula of the library stands in for them).

Statements (written from the documentation of the kernels / the textbook, not from the code):
 (b) cubic      for EVERY cubic q with q(u)=fu, q'(u)=gu, q(v)=fv, q'(v)=gv:  q'(ret) = 0 and q''(ret) >= 0 (Nocedal & Wright p.59:
                the minimiser, not the maximiser, of the Hermite cubic)
     quadratic  for EVERY quadratic q with q(u)=fu, q'(u)=gu, q(v)=fv:  q'(ret) = 0; *convexity <=> leading coefficient > 0
     secant     for EVERY affine L with L(u)=gu, L(v)=gv (the derivative of the quadratic with q'(u)=gu, q'(v)=gv):  L(ret) = 0
     bisection  ret = (u.t + v.t)/2, between the two steps
 (c) phi(t) = a t^2 + b t + c, a > 0, u and v two samples of (t, phi, phi') at different abscissae:
     cubic / quadratic / secant:  `defined` HOLDS (the code's divisions are non-zero, the discriminant is a square) and
     ret = -b/(2a); with b < 0, 0 < c1 <= 1/2, c2 >= 0: ret > 0, phi(ret) <= phi(0) + c1*ret*phi'(0), |phi'(ret)| <= c2*|phi'(0)|.
     bisection: NOT exact (a satisfiable witness is part of the check: the midpoint of two samples violates strong Wolfe).
"""
import re

import astload
from core import VC
from nvwp import V, Unsupported, AND, IMP, ITE, PRELUDE
from wplib import IdEnvWP
from cxx2c import unwrap

LSTEP = 'src/solver/lstep.cpp'
FLT = 'lsearch_step_t::'
INPUTS = ('u_t', 'u_f', 'u_g', 'v_t', 'v_f', 'v_g')

# --------------------------------------------------------------------------------------------- s-expressions
_TOK = re.compile(r'\s*(\(|\)|\|[^|]*\||[^\s()|]+)')


def parse(s):
    toks = _TOK.findall(s)
    pos = 0

    def rd():
        nonlocal pos
        t = toks[pos]
        pos += 1
        if t == '(':
            out = []
            while toks[pos] != ')':
                out.append(rd())
            pos += 1
            return tuple(out)
        return t
    r = rd()
    if pos != len(toks):
        raise ValueError(f'trailing tokens in {s[:80]!r}')
    return r


def show(t):
    return t if isinstance(t, str) else '(' + ' '.join(show(x) for x in t) + ')'


def subst(t, m):
    if isinstance(t, str):
        return m.get(t, t)
    return tuple(subst(x, m) for x in t)


def subterms(t, op, out):
    if isinstance(t, tuple):
        for x in t:
            subterms(x, op, out)
        if t and t[0] == op and t not in out:
            out.append(t)
    return out


def inst(term, m):
    """textual instantiation of a kernel term: every input name is replaced by the given argument term"""
    return show(subst(parse(term), {k: parse(v) for k, v in m.items()}))


_NUM = re.compile(r'^-?\d+(\.\d+)?$')


def _is_const_divisor(d):
    if isinstance(d, str):
        return bool(_NUM.match(d))
    return len(d) == 3 and d[0] == '/' and all(isinstance(x, str) and _NUM.match(x) for x in d[1:])


def simplify(t):
    """(or X (not X)) -> true, (=> true Y) -> Y, (and .. true ..): the trivial guards left by merging the two arms of an `if`"""
    if isinstance(t, str):
        return t
    t = tuple(simplify(x) for x in t)
    if t and t[0] == 'or' and any(('not', x) in t[1:] for x in t[1:]):
        return 'true'
    if t and t[0] == '=>' and len(t) == 3 and t[1] == 'true':
        return t[2]
    if t and t[0] == 'and':
        xs = [x for x in t[1:] if x != 'true']
        return 'true' if not xs else xs[0] if len(xs) == 1 else ('and',) + tuple(xs)
    return t


def script(decls, hyps, claim=None, expect='unsat'):
    """complete SMT script over polynomials: every quotient `(/ a d)` with a non-literal divisor is NAMED by one fresh constant
    q per distinct printed quotient with the fact `d = 0 or q * d = a` (exactly what a/d means wherever d != 0; the claims never
    rely on the value of a/0), every application `(nv_sqrt x)` by one fresh constant s per distinct printed application with the
    facts `x >= 0 => s >= 0 and s*s = x` and, pairwise, `x = x' => s = s'` (Ackermann: sqrt is a function).  z3 decides the
    resulting polynomial problems in well under a second; with `/` left in the script the cubic identities time out."""
    terms = [parse(h) for h in hyps] + ([parse(claim)] if claim is not None else [])
    names, facts, sqs = {}, [], []

    def elim(t):
        if isinstance(t, str):
            return t
        t = tuple(elim(x) for x in t)
        if t and t[0] == '/' and len(t) == 3 and not _is_const_divisor(t[2]):
            key = show(t)
            if key not in names:
                names[key] = f'|q!{len(names)}|'
                facts.append(f'(or (= {show(t[2])} 0.0) (= (* {names[key]} {show(t[2])}) {show(t[1])}))')
            return names[key]
        if t and t[0] == 'nv_sqrt':
            key = show(t)
            if key not in names:
                names[key] = f'|sqrt!{len(names)}|'
                facts.append(f'(=> (>= {show(t[1])} 0.0) (and (>= {names[key]} 0.0) (= (* {names[key]} {names[key]}) {show(t[1])})))')
                for x, s in sqs:
                    facts.append(f'(=> (= {x} {show(t[1])}) (= {s} {names[key]}))')
                sqs.append((show(t[1]), names[key]))
            return names[key]
        return t
    terms = [elim(t) for t in terms]
    lines = [PRELUDE] + [f'(declare-const {d} {s})' for d, s in decls] + [f'(declare-const {n} Real)' for n in names.values()]
    lines += [f'(assert {f})' for f in facts]
    n = len(terms) - (1 if claim is not None else 0)
    lines += [f'(assert {show(t)})' for t in terms[:n]]
    if claim is not None:
        lines.append(f'(assert (not {show(terms[-1])}))')
    lines.append('(check-sat)')
    return '\n'.join(lines) + '\n'


# --------------------------------------------------------------------------------------------- extraction of a kernel
class KernelWP(IdEnvWP):
    """symbolic execution of one interpolation kernel: records what must hold for the real-model value to exist"""
    real_div_check = False

    def __init__(self, name):
        super().__init__(name, real=True, calls=[(r'^sqrt\|', h_sqrt)], hooks=[null_hook])
        self.defined = []
        self.rets = []

    def arith(self, op, a, b, cty, node):
        if op == '/' and (a.s == 'Real' or b.s == 'Real'):
            d = self.conv(b, 'Real', 'double')
            if not _is_const_divisor(parse(d.t)):
                self.defined.append(IMP(self.guard, f'(not (= {d.t} 0.0))'))
        return super().arith(op, a, b, cty, node)

    def loc(self, n):
        u = unwrap(n)
        if u.get('kind') == 'UnaryOperator' and u.get('opcode') == '*':
            p = unwrap(u['inner'][0])
            if p.get('kind') == 'DeclRefExpr' and p['referencedDecl'].get('name') in self.pointers:
                return '*' + p['referencedDecl']['name']
        return super().loc(n)


def h_sqrt(wp, n, args, callee):
    a = wp.conv(wp.ev(args[0]), 'Real', 'double')
    wp.defined.append(IMP(wp.guard, f'(>= {a.t} 0.0)'))
    return V(f'(nv_sqrt {a.t})', 'Real', 'double')


def null_hook(wp, n):
    """`p != nullptr` / `p == nullptr` / `p` used as a condition, for a pointer parameter p: the ghost boolean `p_given`"""
    if n.get('kind') == 'ImplicitCastExpr' and n.get('castKind') == 'PointerToBoolean':
        a = unwrap(n['inner'][0])
        if a.get('kind') == 'DeclRefExpr' and a['referencedDecl'].get('name') in wp.pointers:
            return V(f'{a["referencedDecl"]["name"]}_given', 'Bool', 'bool')
    if n.get('kind') == 'BinaryOperator' and n.get('opcode') in ('!=', '=='):
        a, b = (unwrap(x) for x in n['inner'])
        if b.get('kind') == 'DeclRefExpr':
            a, b = b, a
        if a.get('kind') == 'DeclRefExpr' and a['referencedDecl'].get('name') in wp.pointers and b.get('kind') == 'CXXNullPtrLiteralExpr':
            g = f'{a["referencedDecl"]["name"]}_given'
            return V(g if n['opcode'] == '!=' else f'(not {g})', 'Bool', 'bool')
    return None


_KERNELS = {}
_LOCK = __import__('threading').RLock()


def kernel(cxx):
    """{'ret': term, 'defined': term, 'conv': term | None, 'fn': record} of lsearch_step_t::<cxx> in the current source"""
    with _LOCK:
        if cxx not in _KERNELS:
            _KERNELS[cxx] = _kernel(cxx)
        return _KERNELS[cxx]


def _kernel(cxx):
    fn = astload.find_definition(LSTEP, FLT, cxx)
    src = astload.resolve_tu(LSTEP)
    wp = KernelWP('interp/' + cxx)
    wp.pointers = set()
    for key, p in wp.bind_params(fn):
        q = p['type'].get('qualType', '')
        if q.rstrip().endswith('lsearch_step_t &') and key in ('u', 'v'):
            for f in 'tfg':
                wp.env[f'{key}.{f}'] = V(f'{key}_{f}', 'Real', 'double')
        elif q.replace(' ', '') == 'bool*':
            wp.pointers.add(key)
            wp.env[key] = V(key, 'Opaque', None)
            wp.env['*' + key] = V(f'{key}_pointee_in', 'Bool', 'bool')       # the pointee on entry (when the pointer is given)
        else:
            raise astload.ExtractionError(f'interp/{cxx}: unexpected parameter {key}: {q}')

    def post(w, rv):
        w.rets.append((w.guard, rv.t, {('*' + p): w.env.get('*' + p) for p in w.pointers}))
        return []
    wp.post = post
    wp.run(fn, src)
    if not wp.rets or wp.obligations:
        raise astload.ExtractionError(f'interp/{cxx}: {len(wp.rets)} return paths, {len(wp.obligations)} unexpected obligations')
    ret = wp.rets[-1][1]
    for g, t, _ in reversed(wp.rets[:-1]):
        ret = ITE(g, t, ret)
    conv = None
    if wp.pointers:
        p = sorted(wp.pointers)[0]
        vals = [(g, out['*' + p]) for g, _, out in wp.rets]
        if any(v is None for _, v in vals) and len(vals) > 1:
            raise Unsupported(f'interp/{cxx}: *{p} is written on some return paths only')
        conv = None if vals[-1][1] is None else vals[-1][1].t
        for g, v in reversed(vals[:-1]):
            conv = ITE(g, v.t, conv)
    rec = {'c_name': 'interp/' + cxx, 'cxx': FLT + cxx, 'file': src, 'line': fn.get('loc', {}).get('line'), 'sha': astload.file_hash(src)}
    ret, defined = show(simplify(parse(ret))), show(simplify(parse(AND(*wp.defined))))
    conv = None if conv is None else show(simplify(parse(conv)))
    return {'ret': ret, 'defined': defined, 'conv': conv, 'fn': rec, 'src': src, 'pointers': sorted(wp.pointers)}


def apply(cxx, u, v):
    """(ret, defined) of the kernel on the argument triples u = (t, f, g), v = (t, f, g) (SMT terms)"""
    k = kernel(cxx)
    m = dict(zip(INPUTS, tuple(u) + tuple(v)))
    return inst(k['ret'], m), inst(k['defined'], m)


# --------------------------------------------------------------------------------------------- obligations
REAL6 = [(x, 'Real') for x in INPUTS]


def mkvc(name, decls, hyps, claim, about, src, expect='unsat', timeout=30):
    return VC(name, script(decls, hyps, claim if expect == 'unsat' else None, expect), about=about, source={'file': src}, expect=expect, timeout=timeout)


def stationary_vcs():
    out = []
    # ---- cubic: every cubic through the two points with the two slopes, written in the basis (t - u)^k
    k = kernel('cubic')
    r, src = k['ret'], k['src']
    h = '(- v_t u_t)'
    cub = [f'(= v_f (+ u_f (* u_g {h}) (* c2 {h} {h}) (* c3 {h} {h} {h})))', f'(= v_g (+ u_g (* 2.0 c2 {h}) (* 3.0 c3 {h} {h})))']
    dec = REAL6 + [('c2', 'Real'), ('c3', 'Real')]
    x = f'(- {r} u_t)'
    about = 'lsearch_step_t::cubic returns the minimiser of the cubic interpolant (double treated as real)'
    out.append(mkvc('interp/cubic/stationary: the returned point is a stationary point of EVERY cubic q with q(u)=fu, q\'(u)=gu, q(v)=fv, q\'(v)=gv (where the code\'s divisions and sqrt are defined)',
                    dec, cub + [k['defined']], f'(= (+ u_g (* 2.0 c2 {x}) (* 3.0 c3 {x} {x})) 0.0)', about, src))
    out.append(mkvc('interp/cubic/minimiser: the second derivative of the interpolant at the returned point is >= 0 (the minimiser, not the maximiser)',
                    dec, cub + [k['defined']], f'(>= (+ (* 2.0 c2) (* 6.0 c3 {x})) 0.0)', about, src))
    out.append(mkvc('interp/cubic/reachability canary: the hypotheses are satisfiable', dec, cub + [k['defined']], None, 'vacuity guard (must be sat)', src, expect='sat'))
    # ---- quadratic
    k = kernel('quadratic')
    r, src = k['ret'], k['src']
    dec = REAL6 + [('a2', 'Real')] + [(p + '_given', 'Bool') for p in k['pointers']] + [(p + '_pointee_in', 'Bool') for p in k['pointers']]
    quad = [f'(= v_f (+ u_f (* u_g {h}) (* a2 {h} {h})))']
    about = 'lsearch_step_t::quadratic returns the stationary point of the quadratic interpolant (double treated as real)'
    out.append(mkvc('interp/quadratic/stationary: the returned point is the stationary point of EVERY quadratic q with q(u)=fu, q\'(u)=gu, q(v)=fv (where the code\'s divisions are defined)',
                    dec, quad + [k['defined']], f'(= (+ u_g (* 2.0 a2 (- {r} u_t))) 0.0)', about, src))
    if k['conv'] is None:
        raise Unsupported('interp/quadratic: the convexity flag is no longer written')
    out.append(mkvc('interp/quadratic/convexity_flag: *convexity is true exactly when the leading coefficient of the interpolant is > 0',
                    dec, quad + ['(not (= u_t v_t))'] + [p + '_given' for p in k['pointers']], f'(= {k["conv"]} (> a2 0.0))', about, src))
    out.append(mkvc('interp/quadratic/reachability canary: the hypotheses are satisfiable', dec, quad + [k['defined']] + [p + '_given' for p in k['pointers']], None,
                    'vacuity guard (must be sat)', src, expect='sat'))
    # ---- secant
    k = kernel('secant')
    r, src = k['ret'], k['src']
    dec = REAL6 + [('m1', 'Real'), ('m0', 'Real')]
    lin = ['(= u_g (+ (* m1 u_t) m0))', '(= v_g (+ (* m1 v_t) m0))']
    about = 'lsearch_step_t::secant returns the zero of the affine interpolant of the slopes (double treated as real)'
    out.append(mkvc('interp/secant/stationary: the returned point is the zero of EVERY affine L with L(u)=gu, L(v)=gv, i.e. the stationary point of the quadratic with q\'(u)=gu, q\'(v)=gv',
                    dec, lin + [k['defined']], f'(= (+ (* m1 {r}) m0) 0.0)', about, src))
    out.append(mkvc('interp/secant/reachability canary: the hypotheses are satisfiable', dec, lin + [k['defined']], None, 'vacuity guard (must be sat)', src, expect='sat'))
    # ---- bisection
    k = kernel('bisection')
    r, src = k['ret'], k['src']
    about = 'lsearch_step_t::bisection returns the midpoint (double treated as real)'
    out.append(mkvc('interp/bisection/midpoint: the returned point is (u.t + v.t)/2, it lies between the two steps and no division can fail',
                    REAL6, [], f'(and {k["defined"]} (= (* 2.0 {r}) (+ u_t v_t)) (<= (rmin u_t v_t) {r}) (<= {r} (rmax u_t v_t)))', about, src))
    return out


QDEC = [(x, 'Real') for x in ('qa', 'qb', 'qc', 'tu', 'tv', 'c1', 'c2')]
QHYP = ['(> qa 0.0)', '(not (= tu tv))']


def phi(t):
    return f'(+ (* qa {t} {t}) (* qb {t}) qc)'


def dphi(t):
    return f'(+ (* 2.0 qa {t}) qb)'


def sample(t):
    return (t, phi(t), dphi(t))


def quadratic_vcs():
    """(c): the kernels on two samples of a 1-D convex quadratic"""
    out = []
    tstar = '(/ (- qb) (* 2.0 qa))'
    for cxx in ('cubic', 'quadratic', 'secant'):
        src = kernel(cxx)['src']
        r, d = apply(cxx, sample('tu'), sample('tv'))
        about = f'lsearch_step_t::{cxx} on two samples of phi(t) = a t^2 + b t + c, a > 0 (double treated as real)'
        out.append(mkvc(f'convexq/{cxx}/defined: every division of the code has a non-zero divisor' + (' and the sqrt argument is >= 0' if cxx == 'cubic' else '') +
                        ' on two distinct samples of a convex quadratic', QDEC, QHYP, d, about, src))
        out.append(mkvc(f'convexq/{cxx}/exact: the interpolated step is the exact minimiser -b/(2a)', QDEC, QHYP, f'(= {r} {tstar})', about, src))
        wolfe = f'(and (> {r} 0.0) (<= {phi(r)} (+ {phi("0.0")} (* c1 {r} {dphi("0.0")}))) (<= (rabs {dphi(r)}) (* c2 (rabs {dphi("0.0")}))))'
        out.append(mkvc(f'convexq/{cxx}/armijo_strong_wolfe: descent (b < 0), 0 < c1 <= 1/2, c2 >= 0: the interpolated step is > 0 and satisfies Armijo and strong Wolfe',
                        QDEC, QHYP + ['(< qb 0.0)', '(< 0.0 c1)', '(<= c1 0.5)', '(>= c2 0.0)'], wolfe, about, src))
    # Armijo at the exact minimiser needs c1 <= 1/2: the registered domain 0 < c1 < c2 < 1 is wider (witness expected)
    r, d = apply('quadratic', sample('tu'), sample('tv'))
    src = kernel('quadratic')['src']
    out.append(mkvc('convexq/quadratic/(witness expected) for c1 > 1/2 the exact minimiser of a convex quadratic violates Armijo', QDEC,
                    QHYP + ['(< qb 0.0)', '(< 0.5 c1)', '(< c1 1.0)', f'(not (<= {phi(r)} (+ {phi("0.0")} (* c1 {r} {dphi("0.0")}))))'], None,
                    'limit of the consequence: Armijo at the minimiser iff c1 <= 1/2', src, expect='sat'))
    r, d = apply('bisection', sample('tu'), sample('tv'))
    src = kernel('bisection')['src']
    out.append(mkvc('convexq/bisection/(witness expected) the midpoint of two samples of a convex quadratic is not its minimiser and can violate strong Wolfe', QDEC,
                    QHYP + ['(< qb 0.0)', '(< 0.0 c1)', '(< c1 c2)', '(< c2 1.0)', '(< 0.0 tu)', '(< tu tv)',
                            f'(not (<= (rabs {dphi(r)}) (* c2 (rabs {dphi("0.0")}))))'], None,
                    'where the consequence does not hold: bisection', src, expect='sat'))
    return out


def interpolate_clause(u, v, r, mode_cq, b='qb'):
    """clause of lsearch_step_t::interpolate a caller may assume on its (arbitrary) result r: in cubic or quadratic mode, on two distinct samples
    u = (t, q(t), q'(t)), v likewise, of q(t) = qa t^2 + b t + qc with qa > 0, the result is the exact minimiser (division-free: 2 qa r = -b)"""
    q = lambda t: f'(+ (* qa {t} {t}) (* {b} {t}) qc)'
    dq = lambda t: f'(+ (* 2.0 qa {t}) {b})'
    smp = AND(*[f'(and (= {x[1]} {q(x[0])}) (= {x[2]} {dq(x[0])}))' for x in (u, v)])
    return IMP(AND(mode_cq, '(> qa 0.0)', f'(not (= {u[0]} {v[0]}))', smp), f'(= (* 2.0 qa {r}) (- {b}))')


def interpolate_vcs():
    """interpolate = the selection proved by back end A (lstep_interpolate_select), restated over the reals with std::isfinite(kernel result) := "the
    kernel's divisions / sqrt are defined" (stated assumption), applied to the extracted kernel terms"""
    u, v = INPUTS[:3], INPUTS[3:]
    (tc, dc), (tq, dq), (tb, _) = apply('cubic', u, v), apply('quadratic', u, v), apply('bisection', u, v)
    sel = f'(ite (and m_cubic {dc}) {tc} (ite (and (or m_cubic m_quadratic) {dq}) {tq} {tb}))'
    decl = REAL6 + [('qa', 'Real'), ('qb', 'Real'), ('qc', 'Real'), ('m_cubic', 'Bool'), ('m_quadratic', 'Bool')]
    src = kernel('cubic')['src']
    return [mkvc('convexq/interpolate/exact: interpolate in cubic or quadratic mode on two distinct samples of a convex quadratic returns its exact minimiser (selection of '
                 'lstep_interpolate_select over the extracted kernels; isfinite = defined)', decl, [], interpolate_clause(u, v, sel, '(or m_cubic m_quadratic)'),
                 'lsearch_step_t::interpolate on a convex quadratic (double treated as real)', src)]


def build():
    vcs = stationary_vcs() + quadratic_vcs() + interpolate_vcs()
    fns = [kernel(c)['fn'] for c in ('cubic', 'quadratic', 'secant', 'bisection')]
    return vcs, fns


if __name__ == '__main__':
    import sys
    for c in ('cubic', 'quadratic', 'secant', 'bisection'):
        k = kernel(c)
        print(c, '\n  ret     =', k['ret'], '\n  defined =', k['defined'], '\n  conv    =', k['conv'])
    only = sys.argv[1] if len(sys.argv) > 1 else ''
    for v in build()[0]:
        if only in v.name:
            ob = v.verify()
            print(ob['status'], ob['backend'], {k: round(s, 2) for k, s in ob['seconds'].items()}, v.name)
