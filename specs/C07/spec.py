import astload
from core import Fn, Target, VC
import hooks

TYPES = [(r'^nano::solver_state_t$', 'struct nv_state'), (r'^nano::vector_t$|tensor_t<nano::tensor_vector_storage_t, double, 1', 'struct nv_vector'),
         (r'^nano::logger_t$', 'struct nv_logger'), (r'^nano::lsearch_step_t$', 'struct nv_lstep'),
         (r'^std::tuple<bool, double>$|result_t$', 'struct nv_tuple_b_f64'), (r'^std::tuple<double, double>$', 'struct nv_tuple_f64_f64'),
         (r'^nano::interpolation_type$', 'int32_t'),
         (r'std::tuple_element<0, const std::tuple<double, double>>::type', 'double'), (r'std::tuple_element<1, const std::tuple<double, double>>::type', 'double')]
AGG = ['struct nv_tuple_b_f64']
CALLS = [(r'^interpolate\|', 'nv_interpolate({&0}, {&1}, {2})'), (r'^clamp\|const double &', 'nv_fclamp({0}, {1}, {2})'),
         (r'^min\|const double &', 'nv_fmin({0}, {1})'), (r'^max\|const double &', 'nv_fmax({0}, {1})'),
         (r'^fabs\|', 'nv_fabs({0})'), (r'^isfinite\|', 'nv_isfinite({0})'),
         (r'^epsilon0\|', 'nv_epsilon0()'), (r'^epsilon1\|', 'nv_epsilon1()'), (r'^stpmin\|', 'nv_stpmin()'),
         (r'^ctor\|nano::lsearch_step_t\|void \(const nano::solver_state_t &', 'nv_lstep_make({&0}, {&1}, {2})'),
         (r'^operator=\|.*lsearch_step_t', '({0} = {1})')]
MEMBERS = [(r'^valid\|nano::solver_state_t', 'nv_state_valid'), (r'^fx\|nano::solver_state_t', 'nv_state_fx'),
           (r'^dg\|nano::solver_state_t', 'nv_state_dg'), (r'^has_descent\|nano::solver_state_t', 'state_has_descent'),
           (r'^has_armijo\|nano::solver_state_t', 'nv_has_armijo'), (r'^has_wolfe\|nano::solver_state_t', 'nv_has_wolfe'),
           (r'^has_strong_wolfe\|nano::solver_state_t', 'nv_has_strong_wolfe'),
           (r'^(info|warn|error)\|nano::logger_t', '@drop'),
           (r'^update\|.*lsearchk', 'lsearchk_update'), (r'^zoom\|.*lsearchk_fletcher_t', 'fletcher_zoom'),
           (r'^do_get\|.*lsearchk_t', 'lsearchk_do_get'), (r'^stpmin\|', 'nv_stpmin()')]
HOOKS = [hooks.param_hook(), hooks.update_along_hook()]
COMMON = dict(self_struct='struct nv_lsearchk', types=TYPES, calls=CALLS, members=MEMBERS, hooks=HOOKS, aggregates=AGG)
H = 'specs/C07/lsearch.h'


def build(tier):
    upd = lambda: Fn('lsearchk_update', 'src/lsearchk.cpp', 'update', flt='lsearchk_t::update', **COMMON)
    bt = Fn('backtrack_do_get', 'src/lsearchk/backtrack.cpp', 'do_get', flt='lsearchk_backtrack_t::do_get', **COMMON)
    lm = Fn('lemarechal_do_get', 'src/lsearchk/lemarechal.cpp', 'do_get', flt='lsearchk_lemarechal_t::do_get', **COMMON)
    fz = lambda: Fn('fletcher_zoom', 'src/lsearchk/fletcher.cpp', 'zoom', flt='lsearchk_fletcher_t::zoom', **COMMON)
    fd = Fn('fletcher_do_get', 'src/lsearchk/fletcher.cpp', 'do_get', flt='lsearchk_fletcher_t::do_get', **COMMON)
    # solver_state_t::has_descent is the real inline body (include/nano/solver/state.h), called without a contract: a change of
    # the guard or of has_descent itself (e.g. one that lets a NaN slope through) flows into lsearchk_get / fletcher_do_get
    hd = lambda: Fn('state_has_descent', 'src/solver/state.cpp', 'has_descent', flt='solver_state_t::has_', self_struct='struct nv_state',
                    types=TYPES, members=[(r'^dg\|nano::solver_state_t', 'nv_state_dg')])
    get = Fn('lsearchk_get', 'src/lsearchk.cpp', 'get', flt='lsearchk_t::get', **COMMON)
    mt_calls = [(r'^dcstep\|', 'mt_dcstep'), (r'^stpmax\|', 'nv_stpmax()'),
                (r'^cubic\|', 'nv_cubic({&0}, {&1})'), (r'^quadratic\|', 'nv_quadratic({&0}, {&1})'), (r'^secant\|', 'nv_secant({&0}, {&1})'),
                (r'^ctor\|nano::lsearch_step_t\|void \((const )?(double|nano::scalar_t)', 'nv_lstep_make3({0}, {1}, {2})')]
    mt_common = dict(COMMON, calls=mt_calls + CALLS)
    dc = Fn('mt_dcstep', 'src/lsearchk/morethuente.cpp', 'dcstep', flt='dcstep', **dict(mt_common, self_struct=None))
    mt = Fn('morethuente_do_get', 'src/lsearchk/morethuente.cpp', 'do_get', flt='lsearchk_morethuente_t::do_get', **mt_common)
    get_ieee = Fn('lsearchk_get_ieee', 'src/lsearchk.cpp', 'get', flt='lsearchk_t::get',
                  **dict(COMMON, members=[(r'^do_get\|.*lsearchk_t', 'lsearchk_do_get_ieee')] + MEMBERS))
    IEEE_LEMMA = '''
int main(void)
{
  double x0, t, d;
  nv_thrown = 0;
  nv_ieee_point(x0, t, d);
  __CPROVER_assert(0, "nv_canary: end of harness reachable");
  return 0;
}
'''
    targets = [
        # IEEE semantics (-DNV_IEEE): the numbers of lsearchk_t::get for every double t0, NaN and +-inf included
        Target('lsearchk_get_ieee', [get_ieee, upd(), hd()], 'specs/C07/ieee.h', replace=['lsearchk_update', 'lsearchk_do_get_ieee'], defines=['NV_IEEE']),
        Target('ieee_point_lemma', [], 'specs/C07/ieee.h', enforce='nv_ieee_point', harness=IEEE_LEMMA, defines=['NV_IEEE'], loops=0),
        Target('morethuente_do_get', [mt, dc, upd()], H, replace=['lsearchk_update']),
        Target('lsearchk_get', [get, upd(), hd()], H, replace=['lsearchk_update', 'lsearchk_do_get'], cbmc_flags=['--sat-solver', 'cadical']),
        Target('lsearchk_update', [upd()], H),
        Target('state_has_descent', [hd()], H),
        Target('backtrack_do_get', [bt, upd()], H, replace=['lsearchk_update']),
        Target('lemarechal_do_get', [lm, upd()], H, replace=['lsearchk_update']),
        Target('fletcher_zoom', [fz(), upd()], H, replace=['lsearchk_update']),
        Target('fletcher_do_get', [fd, fz(), upd(), hd()], H, replace=['lsearchk_update', 'fletcher_zoom']),
    ]
    import cgd
    targets += cgd.targets(COMMON, upd, hd)
    ls_common = dict(COMMON, self_struct=None, calls=[(r'^cubic\|', 'nv_cubic({&0}, {&1})'), (r'^quadratic\|', 'nv_quadratic({&0}, {&1})'),
                                                       (r'^bisection\|', 'lstep_bisection')] + CALLS)
    bis = lambda: Fn('lstep_bisection', 'src/solver/lstep.cpp', 'bisection', flt='lsearch_step_t::', **ls_common)
    itp = Fn('lstep_interpolate', 'src/solver/lstep.cpp', 'interpolate', flt='lsearch_step_t::', **ls_common)
    targets += [Target('lstep_interpolate', [itp, bis()], 'specs/C07/lstep.h', replace=['lstep_bisection']),
                Target('lstep_bisection', [bis()], 'specs/C07/lstep.h'),
                # lsearch_step_t(t, f, g): the constructor the stub nv_lstep_make3 stands for (the (state, descent, t) overload delegates to it)
                Target('lstep_ctor3', [Fn('lstep_ctor3', 'src/solver/lstep.cpp', 'lsearch_step_t', flt='lsearch_step_t::lsearch_step_t', kinds=('CXXConstructorDecl',),
                                          select=lambda d: len(astload.param_types(d)) == 3 and all('solver_state_t' not in t for t in astload.param_types(d)),
                                          **dict(ls_common, self_struct='struct nv_lstep'))], 'specs/C07/lstep.h')]
    # interpolate selects between the kernels as documented (IEEE isfinite); kernels = ghost-recording stubs
    sel_common = dict(COMMON, self_struct=None, calls=[(r'^cubic\|', 'nv_cubic_g({&0}, {&1})'), (r'^quadratic\|', 'nv_quadratic_g({&0}, {&1})'),
                                                        (r'^bisection\|', 'nv_bisection_g({&0}, {&1})')] + CALLS)
    targets += [Target('lstep_interpolate_select', [Fn('lstep_interpolate_sel', 'src/solver/lstep.cpp', 'interpolate', flt='lsearch_step_t::', **sel_common)],
                       'specs/C07/lstep_sel.h')]
    import pred_smt
    import step_smt
    import adv_smt
    import interp_smt
    import mt_smt
    # the groups of SMT obligations are built concurrently (each runs clang on its own translation units)
    from concurrent.futures import ThreadPoolExecutor
    with ThreadPoolExecutor(max_workers=5) as ex:
        parts = [f.result() for f in [ex.submit(pred_smt.build), ex.submit(step_smt.build), ex.submit(adv_smt.build), ex.submit(interp_smt.build), ex.submit(mt_smt.build, tier)]]
    vcs = [v for pv, _ in parts for v in pv]
    fns = [f for _, pf in parts for f in pf]
    return {
        'targets': targets, 'vcs': vcs, 'functions': fns,
        'decided': ['lsearchk_t::get exports the Armijo exit of its do_get (added for C02, f <= f0): under the ghost kind flag nv_ls_armijo_exit (the dynamic type is backtrack / LeMarechal / Fletcher / More-Thuente, whose every success exit is an Armijo exit; false for CG_DESCENT) success => Armijo was evaluated true on the returned state against the state on ENTRY of get, with the returned step and c1',
                    'backtrack / LeMarechal / Fletcher(+zoom): success => advertised predicates were evaluated true on the current trial point with the returned step, and the state is the valid evaluation at x0+t*d; loops terminate (variant max_iterations - i)',
                    'IEEE semantics, every double t0 (NaN, +-inf included): the first trial step of lsearchk_t::get is finite and in [stpmin, 1] (std::clamp mapped exactly: NaN passes through it); t *= 0.3 keeps 0 <= t <= 1, t *= 3 keeps t >= 0 and a positive step positive; the step handed to do_get is finite and > 0; every do_get and get: success => the returned step is finite, whatever the interpolation kernels return (a NaN trial step gives an invalid state, which is never accepted)',
                    'the step handed to do_get is strictly positive in IEEE semantics (t *= 0.3 can underflow to 0: lsearchk_t::get refuses that since e2d1052; before, backtracking could return {true, 0}, see known_findings.txt)',
                    'acceptance predicates has_armijo / has_wolfe / has_strong_wolfe / has_approx_armijo / has_approx_wolfe / has_descent / dg equal the textbook formulas of the property over the reals (dot products opaque); has_descent (real body, IEEE comparisons) refuses a NaN slope and is the guard of lsearchk_t::get',
                    'step sanity over the reals: lsearchk_t::get hands do_get a step > 0 (stpmin = 10 eps in (0,1], clamp, *0.3, *3); backtracking / LeMarechal / Fletcher / zoom: every std::clamp has lower <= upper and a lower bound > 0, the bracket invariants (0 <= L < t < R; 0 <= prev < curr = t; non-negative zoom bracket) are inductive, success => returned step > 0 and state evaluated at exactly that step',
                    'lsearch_step_t::interpolate returns a finite value or else the bisection point 0.5*(u.t+v.t) for every mode; bisection and the (t, f, g) constructor equal their definitions',
                    'More-Thuente do_get (+ dcstep): success => the state is the valid evaluation at the returned step, the value / slope read by the convergence test are those of the current trial state, <= max_iterations evaluations, the loop terminates; its convergence exit implies Armijo + strong Wolfe (over the reals)',
                    'CG_DESCENT: interval_t constructor / updateA / updateB / done / converged, make_params, move, updateU, update, bracket and the move_update_and_check_done lambda under protocol contracts (tentative state = evaluation at interval.step_size; done() true => criterion pair evaluated true on the tentative point or give-up; every evaluation but one per updateU / lambda call is paid by the shared budget); do_get composed from these contracts: success => state is the valid evaluation at the returned step, <= 7*max_iterations+1 evaluations, the loops terminate',
                    'interpolation kernels, real bodies over the reals (interp/, double treated as real): lsearch_step_t::cubic returns a stationary point with second derivative >= 0 (the minimiser, N&W p.59) of EVERY cubic that matches both values and both slopes, wherever its two divisions and its sqrt are defined; quadratic returns the stationary point of every quadratic matching (f(u), f\'(u), f(v)) and *convexity <=> its leading coefficient is > 0; secant returns the zero of the affine interpolant of the two slopes; bisection returns the midpoint, between the two steps',
                    'lsearch_step_t::interpolate SELECTS as documented, in IEEE semantics (lstep_interpolate_select, back end A, ghost-recording kernel stubs called on (u, v)): cubic mode -> the cubic step if finite, else the quadratic step if finite, else the bisection point; quadratic mode -> quadratic if finite, else bisection; any other mode value -> bisection',
                    'towards "on convex quadratics all succeed" (convexq/, over the reals): on two distinct samples (t, phi, phi\') of phi(t) = a t^2 + b t + c, a > 0, the kernels cubic, quadratic and secant execute no undefined division / sqrt (PROVED from a > 0 and distinct abscissae, not assumed) and return the exact minimiser -b/(2a); with b < 0, 0 < c1 <= 1/2, c2 >= 0 that step is > 0 and satisfies Armijo and strong Wolfe (hence Wolfe); hence interpolate in cubic / quadratic mode does. It does NOT hold for bisection (witness checked) and not for c1 > 1/2 (witness checked: the exact minimiser violates Armijo)',
                    'More-Thuente step kernel dcstep (real body, its cubic / quadratic / secant calls inlined mechanically) equals MINPACK-2 dcstep over the reals (mt/dcstep, reference transcribed from the Fortran): the four cases and their choice rules between the cubic and the quadratic / secant step, the case-3 rule (cubic step only if it lies beyond stp, else stpmax / stpmin; closer one + safeguard stp + delta*(sty-stp) when bracketed; farther one clamped to [stpmin, stpmax] otherwise) for a positive and for a negative discriminant, case 4, the bracket update, brackt\' = brackt or case 1 or case 2, the frame; the divisions / sqrt the code executes are defined wherever the reference\'s are. Stated deviations: delta is a parameter (MINPACK: 0.66), no overflow scaling inside the sqrt, discriminant exactly 0 in case 3 (the code may keep the cubic step where MINPACK falls back to the bound: witness checked), no final clamp in dcstep (that is MINPACK-1 cstep; MINPACK-2 and the code clamp in the caller)',
                    'More-Thuente do_get against MINPACK-2 dcsrch, one arbitrary iteration of the real loop body over the reals (mt/do_get): the START block; stage\' = 2 iff stage = 2 or (psi(stp) <= 0 and phi\'(stp) >= 0) with psi(t) = phi(t) - phi(0) - c1 t phi\'(0) (the code\'s `f <= ftest && g >= 0` IS that condition: an independently seeded change that drops the slope conjunct, seed C07-1, is refuted by mt/do_get/stage_at_interpolation); dcstep is called exactly once per continuing iteration, on the modified function (f - stp*gtest, g - gtest, ...) exactly when stage\' = 1, psi(stp) > 0 and f <= fx, on phi otherwise, with [stmin, stmax] and delta; the bracket values are mapped back afterwards; bisection when the bracket did not shrink by 0.66, width / width1, stmin / stmax (1.1 / 4 extrapolation), clamp to [stpmin, stpmax], fallback to stx: the evaluated step is the reference\'s. Stated deviations: give-up exits return failure (not a warning with a usable step), `>=` / `<=` for `==` at the bounds, convergence tested first',
                    'More-Thuente on a convex quadratic, loop level (mt/do_get/convexq_second_trial, real loop body, dcstep through its proved clauses mt/dcstep/contract_*): in the FIRST iteration, if t0 does not pass the convergence test and overshoots (dcstep case 1 or 2), the minimiser of the interpolated function (phi, or the modified function) lies in [stpmin, stpmax], t0 < 1.32 (stpmax - stpmin) and epsilon0 < 1, then the step evaluated next is EXACTLY that minimiser (no bisection, no clamp, no fallback to stx interferes); by convexq/dcstep_phi|psi/armijo_strong_wolfe it passes the convergence test at the top of the second iteration (needs max_iterations >= 2 and a valid evaluation)',
                    'backtracking, LeMarechal, Fletcher zoom and Fletcher\'s bracketing phase on a convex quadratic, loop level (convexq/backtrack_do_get, convexq/lemarechal_do_get, convexq/fletcher_zoom, convexq/fletcher_do_get: the real loop bodies, every evaluation returns phi, "every lsearch_step_t the search keeps is a sample (t, phi(t), phi\'(t))" is an inductive invariant of the real code): at EVERY `clamp(interpolate(u, v, mode), lo, hi)` site, in cubic or quadratic mode, the two steps are distinct and, if the exact minimiser lies inside [lo, hi], the step evaluated next IS the exact minimiser; at that trial state Armijo (for c1 <= 1/2) and strong Wolfe (hence Wolfe) hold, which is what the acceptance test of the next iteration (backtracking, LeMarechal, Fletcher) or of the same iteration (zoom) evaluates; interpolate enters through its clause convexq/interpolate/exact (cubic / quadratic mode on two distinct samples of a convex quadratic returns the exact minimiser)',
                    'dcstep on a convex quadratic (convexq/dcstep_phi, convexq/dcstep_psi): handed samples of phi, or of the modified function (also a convex quadratic, linear coefficient (1-c1) b), cases 1 and 2 return the exact minimiser of the sampled quadratic, case 3 returns it unless a bound or the safeguard cuts it, case 4 cannot occur; that step is > 0 and passes the convergence test of More-Thuente (Armijo + strong Wolfe for phi): for samples of phi when c1 <= 1/2, for samples of the modified function for EVERY 0 < c1 < c2 < 1 (phi\' there is c1*b)',
                    'More-Thuente and CG_DESCENT: success => the advertised conditions hold on the returned point -- More-Thuente: Armijo + strong Wolfe as formulas over the value and slope of the returned state (every return site, over the reals); CG_DESCENT: success is interval_t::converged(), i.e. valid state and (Armijo, Wolfe) or (approximate Armijo, approximate Wolfe) evaluated true on the returned state with the returned step (both were refuted before the repairs 297525f / e2bae93, see known_findings.txt)'],
        'not_decided': ['success on convex quadratics as a statement about the whole searches: decided are the single interpolation steps (exact minimiser, which passes Armijo for c1 <= 1/2 / strong Wolfe; dcstep cases 1-3) and, for More-Thuente, the two-evaluation scenario after an overshooting first trial; an undershooting first trial (dcstep case 3: extrapolation by at most stmax = stp + 4 (stp - stx) per iteration) needs about log_5(t*/t0) further iterations, so success depends on max_iterations (with max_iterations = 1 no interpolated point is ever tested: the last evaluated point of every search is returned as a failure without being tested); NOT decided: that the safeguards around them (clamp to [safeguard*t, (1-safeguard)*t] in backtracking / LeMarechal / Fletcher: when the clamp cuts the exact step the search goes on with a cut step, not decided further; bisection mode is not exact at all), extrapolation by tau1 / 3, bisection + [stmin, stmax] + clamp + fallback in More-Thuente, the theta rule and the secant^2 step of CG_DESCENT) leave the exact step alone or converge within max_iterations anyway; for c1 > 1/2 the exact minimiser violates Armijo, so success there needs further iterations',
                        'dcstep: inputs with dx = 0 (sgnd = dp*(dx/|dx|) is NaN in IEEE: no real-model meaning), inputs where the reference\'s own quantities are undefined (stp = stx, zero denominators), and case 3 with a discriminant of exactly 0 (deviation, see decided)',
                        'More-Thuente: positivity of the returned step (the fallback `stp = stx` may hand back the origin; excluding it needs the numerics of dcstep)',
                        'CG_DESCENT: positivity of the returned step (secant / theta-combination numerics); its finiteness follows only by composition (success = converged() => valid tentative state at interval.step_size) because do_get is composed over the reals',
                        'finiteness proper: over the reals every value is finite; overflow of 0.5*(u.t+v.t) and NaN bracket ends are outside the real model'],
        'assumptions': ['the ghost kind flag nv_ls_armijo_exit stands for virtual dispatch: the Armijo-exit clause of the common do_get contract (NV_ARMIJO_EXIT_CLAUSE) is the clause proved for backtrack_do_get / lemarechal_do_get / fletcher_do_get (CBMC) and advertised/morethuente_do_get (reals)',
                        'solver_state_t::update(x) makes the state the single evaluation at x (assumed contract)',
                        'a valid trial state has a finite step: solver_state_t::valid() demands an all-finite point and every coordinate of x0 + t*d is non-finite for a non-finite t (the scalar IEEE fact is proved: ieee_point_lemma; its lifting to Eigen vectors is assumed)',
                        'parameters lie in their registered domains (0<c1<c2<1, 1<=max_iterations<=10000, tau1>2, 0<safeguard<0.5, 0<tau2<tau3<=0.5, 0<delta<1, 0<theta<1, ro>1, 0<gamma<1, epsilon>0)',
                        'in the protocol targets of back end A and in steps/, advertised/, mt/do_get the interpolation results (cubic / quadratic / secant / interpolate / dcstep outputs) are arbitrary values (havoc: those claims hold for every interpolation result); what the kernels compute is under interp/, mt/dcstep, lstep_interpolate_select',
                        'IEEE double treated as real in the pred/, steps/ and advertised/ obligations (back end B); std::isfinite is true there; machine epsilon = 2^-52; epsilon0 / epsilon1 are some positive constants',
                        'Eigen dot product is an opaque symmetric real function of its two operands',
                        'back end B uses the contracts of lsearchk_t::update, fletcher zoom, interval_t::done, interval_t::converged, bracket, move_update_and_check_done, make_params and the interval_t constructor in the form proved by back end A (restated as SMT in step_smt.py / adv_smt.py: the correspondence of the two statements is by inspection)',
                        'More-Thuente over the reals: dcstep overwrites its eight by-reference results with arbitrary values (its real body is under the back-end-A target morethuente_do_get)',
                        'interp/, convexq/, mt/: IEEE double treated as real; std::sqrt is an uninterpreted function with sqrt(x) >= 0 and sqrt(x)^2 = x for x >= 0 (instantiated on the applications that occur, Ackermann congruence between them) and no property for x < 0; a quotient x/d is named by a constant q with `d = 0 or q*d = x` (nothing is known about x/0); every claim about a kernel is conditional on "its divisions / sqrt are defined" unless it proves that',
                        'mt/dcstep: std::isfinite(x) of a value returned by an interpolation kernel is modelled as "the kernel\'s divisions and sqrt are defined" (IEEE: an undefined operation yields NaN / inf, which propagates to the result except in cancellation corner cases such as x/inf), of any other value as true',
                        'the reference algorithm (MINPACK-2 dcsrch / dcstep, More & Thuente 1994) is transcribed by hand from the Fortran text into mt_smt.py (reference(), do_get_reference(), do_get_next()) without the overflow scaling s = max(|theta|, |dx|, |dp|); the Fortran constants 0.66d0 and 1.1d0 are the same IEEE doubles as the C++ literals',
                        'mt/do_get/convexq_second_trial assumes on the arbitrary results of the dcstep call exactly the clauses proved for the real dcstep as mt/dcstep/contract_bracket / contract_brackt / contract_quadratic (one python function, contract_clauses, generates the proved and the assumed form); scenario hypotheses: epsilon0 < 1 and t0 < 1.32 (stpmax - stpmin)',
                        'mt/dcstep case*_step is a cut: kernel lemmas at the call sites + the choice rule over opaque kernel results (textual replacement of the inlined kernel terms by constants); the composition (substitute the kernel term for the constant) is by construction; the monolithic equalities are checked in the thorough tier (case*_step_monolithic)',
                        'convexq/interpolate/exact restates the selection proved by lstep_interpolate_select (back end A, IEEE) over the reals with isfinite(kernel result) := "the kernel is defined" and applies it to the extracted kernel terms (correspondence of the two statements of the selection: by inspection); the loop-level scenarios convexq/<search> assume that clause on the arbitrary result of interpolate (same python function interpolate_clause for the proved and the assumed form), use has_armijo / has_wolfe / has_strong_wolfe as the formulas proved in pred/, and model "the objective is the quadratic" by letting lsearchk_t::update return phi(t), phi\'(t)',
                        'mt/do_get looks at ONE arbitrary iteration from an arbitrary loop-head state with stage in {1, 2} (inductive invariant) and at the prefix; the give-up / convergence exits are not compared with dcsrch beyond what advertised/morethuente_do_get proves',
                        'the ghost records of the approximate predicates (nv_cgd) are not part of the frame of the virtual do_get contract used by lsearchk_t::get (they are specification-only objects)'],
        'trusted': [],
    }


def replay(rp):
    """protocol counterexamples of lsearchk_t::get (a trial state that is not the evaluation at the step handed to
    do_get) are driven on the real line searches by a scripted function; other targets have no native driver"""
    import replaylib
    out = {'reproduced': False, 'runs': []}
    if rp['target'] == 'advertised':
        # More-Thuente / CG_DESCENT report success at give-up exits: concrete runs of the real line searches on f(x) = x^2
        exe = replaylib.build_with_library('replay/C07_adv_replay.cpp', 'C07_adv_replay')
        rc, so, se = replaylib.run_driver(exe, [])
        out['runs'].append({'exit': rc, 'output': so.strip()[:6000]})
        out['reproduced'] = rc == 1
        return out
    if rp['target'] == 'lsearchk_get_ieee':
        # numbers of lsearchk_t::get in IEEE semantics: non-finite t0 and the step that underflows to 0
        exe = replaylib.build_with_library('replay/C07_replay.cpp', 'C07_replay')
        rc, so, se = replaylib.run_driver(exe, ['ieee'])
        out['runs'].append({'exit': rc, 'output': so.strip()[:6000]})
        out['reproduced'] = rc == 1
        return out
    if rp['target'] != 'lsearchk_get':
        out['note'] = 'no scripted function for this target: the replay file carries the verifier output only'
        return out
    exe = replaylib.build_with_library('replay/C07_replay.cpp', 'C07_replay')
    rc, so, se = replaylib.run_driver(exe, [])
    out['runs'].append({'exit': rc, 'output': so.strip()[:3000]})
    out['reproduced'] = rc == 1
    return out
