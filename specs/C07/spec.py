import astload
from core import Fn, Target, VC
import hooks

TYPES = [(r'^nano::solver_state_t$', 'struct nv_state'), (r'^nano::vector_t$|tensor_t<nano::tensor_vector_storage_t, double, 1', 'struct nv_vector'),
         (r'^nano::logger_t$', 'struct nv_logger'), (r'^nano::lsearch_step_t$', 'struct nv_lstep'),
         (r'^std::tuple<bool, double>$|result_t$', 'struct nv_tuple_b_f64'), (r'^std::tuple<double, double>$', 'struct nv_tuple_f64_f64'),
         (r'^nano::interpolation_type$', 'int32_t'),
         (r'std::tuple_element<0, const std::tuple<double, double>>::type', 'double'), (r'std::tuple_element<1, const std::tuple<double, double>>::type', 'double')]
AGG = ['struct nv_tuple_b_f64']
CALLS = [(r'^interpolate\|', 'nv_interpolate({&0}, {&1}, {2})'), (r'^clamp\|const double &', 'nv_fclamp({0}, {1}, {2})'),
         (r'^min\|const double &', 'nv_fmin({0}, {1})'), (r'^max\|const double &', 'nv_fmax({0}, {1})'),
         (r'^fabs\|', 'nv_fabs({0})'), (r'^isfinite\|', 'nv_isfinite({0})'),
         (r'^epsilon0\|', 'nv_epsilon0()'), (r'^epsilon1\|', 'nv_epsilon1()'), (r'^stpmin\|', 'nv_stpmin()'),
         (r'^ctor\|nano::lsearch_step_t\|void \(const nano::solver_state_t &', 'nv_lstep_make({&0}, {&1}, {2})'),
         (r'^operator=\|.*lsearch_step_t', '({0} = {1})')]
MEMBERS = [(r'^valid\|nano::solver_state_t', 'nv_state_valid'), (r'^fx\|nano::solver_state_t', 'nv_state_fx'),
           (r'^dg\|nano::solver_state_t', 'nv_state_dg'), (r'^has_descent\|nano::solver_state_t', 'state_has_descent'),
           (r'^has_armijo\|nano::solver_state_t', 'nv_has_armijo'), (r'^has_wolfe\|nano::solver_state_t', 'nv_has_wolfe'),
           (r'^has_strong_wolfe\|nano::solver_state_t', 'nv_has_strong_wolfe'),
           (r'^(info|warn|error)\|nano::logger_t', '@drop'),
           (r'^update\|.*lsearchk', 'lsearchk_update'), (r'^zoom\|.*lsearchk_fletcher_t', 'fletcher_zoom'),
           (r'^do_get\|.*lsearchk_t', 'lsearchk_do_get'), (r'^stpmin\|', 'nv_stpmin()')]
HOOKS = [hooks.param_hook(), hooks.update_along_hook()]
COMMON = dict(self_struct='struct nv_lsearchk', types=TYPES, calls=CALLS, members=MEMBERS, hooks=HOOKS, aggregates=AGG)
H = 'specs/C07/lsearch.h'


def build(tier):
    upd = lambda: Fn('lsearchk_update', 'src/lsearchk.cpp', 'update', flt='lsearchk_t::update', **COMMON)
    bt = Fn('backtrack_do_get', 'src/lsearchk/backtrack.cpp', 'do_get', flt='lsearchk_backtrack_t::do_get', **COMMON)
    lm = Fn('lemarechal_do_get', 'src/lsearchk/lemarechal.cpp', 'do_get', flt='lsearchk_lemarechal_t::do_get', **COMMON)
    fz = lambda: Fn('fletcher_zoom', 'src/lsearchk/fletcher.cpp', 'zoom', flt='lsearchk_fletcher_t::zoom', **COMMON)
    fd = Fn('fletcher_do_get', 'src/lsearchk/fletcher.cpp', 'do_get', flt='lsearchk_fletcher_t::do_get', **COMMON)
    # solver_state_t::has_descent is the real inline body (include/nano/solver/state.h), called without a contract: a change of
    # the guard or of has_descent itself (e.g. one that lets a NaN slope through) flows into lsearchk_get / fletcher_do_get
    hd = lambda: Fn('state_has_descent', 'src/solver/state.cpp', 'has_descent', flt='solver_state_t::has_', self_struct='struct nv_state',
                    types=TYPES, members=[(r'^dg\|nano::solver_state_t', 'nv_state_dg')])
    get = Fn('lsearchk_get', 'src/lsearchk.cpp', 'get', flt='lsearchk_t::get', **COMMON)
    mt_calls = [(r'^dcstep\|', 'mt_dcstep'), (r'^stpmax\|', 'nv_stpmax()'),
                (r'^cubic\|', 'nv_cubic({&0}, {&1})'), (r'^quadratic\|', 'nv_quadratic({&0}, {&1})'), (r'^secant\|', 'nv_secant({&0}, {&1})'),
                (r'^ctor\|nano::lsearch_step_t\|void \((const )?(double|nano::scalar_t)', 'nv_lstep_make3({0}, {1}, {2})')]
    mt_common = dict(COMMON, calls=mt_calls + CALLS)
    dc = Fn('mt_dcstep', 'src/lsearchk/morethuente.cpp', 'dcstep', flt='dcstep', **dict(mt_common, self_struct=None))
    mt = Fn('morethuente_do_get', 'src/lsearchk/morethuente.cpp', 'do_get', flt='lsearchk_morethuente_t::do_get', **mt_common)
    targets = [
        Target('morethuente_do_get', [mt, dc, upd()], H, replace=['lsearchk_update']),
        Target('lsearchk_get', [get, upd(), hd()], H, replace=['lsearchk_update', 'lsearchk_do_get'], cbmc_flags=['--sat-solver', 'cadical']),
        Target('lsearchk_update', [upd()], H),
        Target('state_has_descent', [hd()], H),
        Target('backtrack_do_get', [bt, upd()], H, replace=['lsearchk_update']),
        Target('lemarechal_do_get', [lm, upd()], H, replace=['lsearchk_update']),
        Target('fletcher_zoom', [fz(), upd()], H, replace=['lsearchk_update']),
        Target('fletcher_do_get', [fd, fz(), upd(), hd()], H, replace=['lsearchk_update', 'fletcher_zoom']),
    ]
    import cgd
    targets += cgd.targets(COMMON, upd, hd)
    import pred_smt
    import step_smt
    import adv_smt
    # the three groups of SMT obligations are built concurrently (each runs clang on its own translation units)
    from concurrent.futures import ThreadPoolExecutor
    with ThreadPoolExecutor(max_workers=3) as ex:
        parts = [f.result() for f in [ex.submit(pred_smt.build), ex.submit(step_smt.build), ex.submit(adv_smt.build)]]
    vcs = [v for pv, _ in parts for v in pv]
    fns = [f for _, pf in parts for f in pf]
    return {
        'targets': targets, 'vcs': vcs, 'functions': fns,
        'decided': ['backtrack / LeMarechal / Fletcher(+zoom): success => advertised predicates were evaluated true on the current trial point with the returned step, and the state is the valid evaluation at x0+t*d; loops terminate (variant max_iterations - i)'],
        'not_decided': ['success on convex quadratics (needs the numerics of interpolation)', 'CG_DESCENT / More-Thuente bodies'],
        'assumptions': ['solver_state_t::update(x) makes the state the single evaluation at x (assumed contract)',
                        'parameters lie in their registered domains (0<c1<c2<1, 1<=max_iterations<=10000, tau1>2, 0<safeguard<0.5)',
                        'lsearch_step_t::interpolate returns an arbitrary double (havoc)'],
        'trusted': [],
    }


def replay(rp):
    """protocol counterexamples of lsearchk_t::get (a trial state that is not the evaluation at the step handed to
    do_get) are driven on the real line searches by a scripted function; other targets have no native driver"""
    import replaylib
    out = {'reproduced': False, 'runs': []}
    if rp['target'] == 'advertised':
        # More-Thuente / CG_DESCENT report success at give-up exits: concrete runs of the real line searches on f(x) = x^2
        exe = replaylib.build_with_library('replay/C07_adv_replay.cpp', 'C07_adv_replay')
        rc, so, se = replaylib.run_driver(exe, [])
        out['runs'].append({'exit': rc, 'output': so.strip()[:6000]})
        out['reproduced'] = rc == 1
        return out
    if rp['target'] != 'lsearchk_get':
        out['note'] = 'no scripted function for this target: the replay file carries the verifier output only'
        return out
    exe = replaylib.build_with_library('replay/C07_replay.cpp', 'C07_replay')
    rc, so, se = replaylib.run_driver(exe, [])
    out['runs'].append({'exit': rc, 'output': so.strip()[:3000]})
    out['reproduced'] = rc == 1
    return out
