/* the storage-dispatch lemma for a data source with exactly ONE feature: resize()'s feature loop is unwound (no loop
 * contract), so the clauses (a), (c), (d) of storage.h are checked as named assertions directly against the real code:
 * a feature of any kind / class count / dimensions is read and written in the pool whose type resize() recorded for it,
 * inside the rows resize() gave that pool. */
#define NV_STORAGE_UNWIND
#include "storage.h"
