/* C08 (one-hot flatten of single-label features): elemwise_generator_t<sclass_identity_t>::flatten, the instantiation
 * for 8-bit label storage, together with the real datasource_iterator_t<uint8_t, 1>::operator*, the real base iterator
 * (sample / operator++ / operator bool / index / size), the real getbit and the real label operator of
 * sclass_identity_t::process (all extracted, all inlined).
 *
 * Property clauses: "the flattened dense view ... under the documented encodings (one-hot +-1 with C-1 columns ...),
 * missing values are marked NaN", "never read" outside the valid range.  Stated for ONE ghost cell (row nv_gr, absolute
 * column nv_gcol) of the flatten buffer, arbitrary and fixed before the call (no quantifier):
 *   - cell in a processed row and inside [column, column + colsize):
 *         value given   ->  +1 if the stored label equals the cell's class (nv_gcol - column), else -1
 *                           (labels >= colsize = C-1 light no column: the last class is all -1)
 *         value missing ->  NaN
 *   - any other cell is left unchanged (frame);
 *   - every row / segment / one-hot index is inside the buffer (checked in the storage stubs), every read of the sample
 *     list, the permutation, the label storage and the mask is in bounds (stubs + pointer checks).
 * The flatten buffer has no memory model: its contents are tracked at the ghost cell only (writes elsewhere go to a
 * scratch variable); the function never reads the buffer. */
#include "mask.h"
struct nv_ilist { int64_t n; int32_t kind; };    /* indices_cmap_t: length + which list (0: listed samples, 1: permutation) */
struct nv_iter { int64_t m_index; struct nv_ilist m_samples; struct nv_ilist m_shuffled_all_samples; };
struct nv_dsiter { struct nv_iter base; struct nv_mask m_data; struct nv_mask m_mask; };   /* datasource_iterator_t<uint8_t, 1> */
struct nv_tuple_i64_b_u8 { int64_t _0; _Bool _1; uint8_t _2; };                            /* std::tuple<long, bool, unsigned char> */
struct nv_t2d { int64_t rows, cols; };           /* tensor2d_map_t: dimensions only */
struct nv_seg { int64_t row, off, n; };          /* (segment of) a row of the buffer: row, first column, length */
struct nv_gen { double NaN; };                   /* generator_t::NaN (static constexpr quiet NaN) */
#ifndef NV_OP_DEFINED
#define NV_OP_DEFINED
struct nv_op { int32_t unused; };                /* the stateless label operator returned by process() */
#endif

int64_t nv_nsamples;                 /* ghost: N = samples() of the data source */
int64_t nv_gr, nv_gcol;              /* ghost cell of the flatten buffer: row (= position in the sample list), absolute column */
int64_t nv_list_g, nv_shuf_g;        /* ghost: the listed sample at position nv_gr, and its image under the permutation */
double nv_cell, nv_cell0, nv_scratch;/* ghost: value of the ghost cell, its value on entry, sink for all other cells */

/* assumed: the listed samples are valid indices (dataset_t::check(samples), see the range-guard targets) and the
 * permutation maps [0, N) into [0, N) (generator_t::shuffle).  Every read returns some valid sample; the reads that
 * determine the ghost cell return the ghost values.  The read position itself is checked. */
static int64_t nv_ilist_at(const struct nv_ilist* l, int64_t i)
{
  __CPROVER_assert(0 <= i && i < l->n, "sample list / permutation read inside the list");
  if (l->kind == 0 && i == nv_gr) return nv_list_g;
  if (l->kind != 0 && i == nv_list_g) return nv_shuf_g;
  int64_t v = nv_nondet_int64_t();
  __CPROVER_assume(0 <= v && v < nv_nsamples);
  return v;
}
/* assumed contracts of the storage accessors (tensor row view, Eigen segment / coefficient access / setConstant); the
 * preconditions Eigen asserts are checked here at every use */
static struct nv_seg nv_t2d_row(const struct nv_t2d* t, int64_t i)
{
  __CPROVER_assert(0 <= i && i < t->rows, "storage.vector(index): row inside the flatten buffer");
  struct nv_seg s; s.row = i; s.off = 0; s.n = t->cols; return s;
}
static struct nv_seg nv_seg_segment(const struct nv_seg* v, int64_t start, int64_t n)
{
  __CPROVER_assert(0 <= start && 0 <= n && start <= v->n - n, "segment(column, colsize) inside the row");
  struct nv_seg s; s.row = v->row; s.off = v->off + start; s.n = n; return s;
}
static void nv_seg_fill(struct nv_seg* s, const double* v)
{ if (s->row == nv_gr && s->off <= nv_gcol && nv_gcol < s->off + s->n) nv_cell = *v; }
static double* nv_seg_at(struct nv_seg* s, int64_t i)
{
  __CPROVER_assert(0 <= i && i < s->n, "segment(class_index): index inside the segment");
  return (s->row == nv_gr && s->off + i == nv_gcol) ? &nv_cell : &nv_scratch;
}

#define NV_DSITER_OK(it) (0 <= nv_nsamples && nv_nsamples <= NV_MAXN && nv_samples == nv_nsamples \
  && 0 <= (it).base.m_samples.n && (it).base.m_samples.n <= NV_MAXN && (it).base.m_samples.kind == 0 \
  && ((it).base.m_shuffled_all_samples.n == 0 || (it).base.m_shuffled_all_samples.n == nv_nsamples) && (it).base.m_shuffled_all_samples.kind == 1 \
  && (it).m_data.n == nv_nsamples && __CPROVER_is_fresh((it).m_data.p, nv_nsamples > 0 ? nv_nsamples : 1) \
  && (it).m_mask.n == NV_BYTES(nv_nsamples) && __CPROVER_is_fresh((it).m_mask.p, (it).m_mask.n > 0 ? (it).m_mask.n : 1) \
  && 0 <= nv_list_g && nv_list_g < nv_nsamples && 0 <= nv_shuf_g && nv_shuf_g < nv_nsamples)
/* the stored sample behind position nv_gr, whether its value is given, its label */
#define NV_SG(it) ((it).base.m_shuffled_all_samples.n == 0 ? nv_list_g : nv_shuf_g)
#define NV_GIVEN_G(it) NV_BIT(&(it).m_mask, NV_SG(it))
#define NV_LABEL_G(it) ((int64_t)(it).m_data.p[NV_SG(it)])
#define NV_IN_COLS (column <= nv_gcol && nv_gcol < column + colsize)
#define NV_ONEHOT(it) (NV_GIVEN_G(it) ? (NV_LABEL_G(it) == nv_gcol - column ? nv_cell == 1.0 : nv_cell == -1.0) : nv_cell != nv_cell)

#define NV_CONTRACT_flatten_sclass_u8 \
__CPROVER_requires(__CPROVER_is_fresh(self, sizeof(*self)) && __CPROVER_is_fresh(storage, sizeof(*storage)) && __CPROVER_is_fresh(op, sizeof(*op))) \
__CPROVER_requires(self->NaN != self->NaN)                                   /* generator_t::NaN is numeric_limits::quiet_NaN() */ \
__CPROVER_requires(NV_DSITER_OK(it) && 0 <= it.base.m_index && it.base.m_index <= it.base.m_samples.n) \
/* dataset_t::flatten maps the buffer to (samples.size(), columns()) and hands each generator its column range */ \
__CPROVER_requires(storage->rows == it.base.m_samples.n && 0 <= storage->cols && storage->cols <= NV_MAXN && 0 <= column && 0 <= colsize && column <= storage->cols - colsize) \
__CPROVER_requires(NV_SAME(nv_cell, nv_cell0)) \
__CPROVER_assigns(nv_cell, nv_scratch) \
__CPROVER_ensures((__CPROVER_old(it.base.m_index) <= nv_gr && nv_gr < it.base.m_samples.n && NV_IN_COLS) ? NV_ONEHOT(it) : NV_SAME(nv_cell, nv_cell0))
#define NV_LOOP_flatten_sclass_u8_1 \
__CPROVER_assigns(it.base.m_index, nv_cell, nv_scratch) \
__CPROVER_loop_invariant(__CPROVER_loop_entry(it.base.m_index) <= it.base.m_index && it.base.m_index <= it.base.m_samples.n) \
__CPROVER_loop_invariant((__CPROVER_loop_entry(it.base.m_index) <= nv_gr && nv_gr < it.base.m_index && NV_IN_COLS) ? NV_ONEHOT(it) : NV_SAME(nv_cell, nv_cell0)) \
__CPROVER_decreases(it.base.m_samples.n - it.base.m_index)
