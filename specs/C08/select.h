/* C08 (public per-feature views): dataset_t::select(samples, feature, buffer) for the four storage kinds.
 * "sample or feature indices outside the valid range are rejected with an exception, never read": the generator's
 * select -- the only reader -- is reached only
 *   (a) after the sample-range guard ran on exactly this sample list and did not throw (ghost record written by the
 *       reduction stubs that the real dataset_t::check(samples) calls, exceptions = early return), and
 *   (b) with a feature index in [0, features()), on the generator and generator-local feature index that the feature
 *       mapping names, with one output row per listed sample.
 * Whether the guard itself rejects every invalid index is the obligation of the dataset_check_samples target. */
#include "dataset.h"
struct nv_feature { int32_t kind; };                 /* feature_t: 0 sclass, 1 mclass, 2 scalar, 3 struct (what handle_* tests) */
struct nv_buf { uint64_t id; };                      /* *_mem_t output buffers: identity only */
struct nv_map { int64_t n; uint64_t id; };           /* *_map_t / *_cmap_t views of a buffer: leading dimension + buffer identity */

/* ghost record of the guard: the list the reductions of check(samples) were evaluated on */
const int64_t* nv_min_p; const int64_t* nv_max_p; int64_t nv_min_n, nv_max_n;
static int64_t nv_t1i_min_rec(const struct nv_t1i* t) { nv_min_p = t->p; nv_min_n = t->n; return nv_t1i_min(t); }
static int64_t nv_t1i_max_rec(const struct nv_t1i* t) { nv_max_p = t->p; nv_max_n = t->n; return nv_t1i_max(t); }
/* ghost record of the reader */
_Bool nv_selected; const struct nv_rgen* nv_sel_gen; int64_t nv_sel_ifeature, nv_sel_rows; uint64_t nv_sel_buffer;

/* dataset_t::feature(i) = byfeature(i)->feature(mapping(i, 1)): throws for an invalid index (dataset_byfeature target),
 * otherwise some feature descriptor (assumed: arbitrary kind) */
static struct nv_feature nv_dataset_feature(const struct nv_dataset* self, int64_t feature)
{
  struct nv_feature f; f.kind = nv_nondet_int32_t();
  if (!NV_FEATURE_OK(self, feature)) nv_thrown = 1;
  return f;
}
/* handle_sclass / handle_mclass / handle_scalar / handle_struct: critical(!feature.is_<kind>()) */
static void nv_handle_kind(struct nv_feature f, int32_t kind) { if (nv_thrown) return; if (f.kind != kind) nv_thrown = 1; }
/* resize_and_map(buffer, dims...): a view of the buffer with the requested leading dimension */
static struct nv_map nv_resize_and_map(struct nv_buf* b, int64_t n) { struct nv_map m; m.n = n; m.id = b->id; return m; }
/* generator_t::select(samples, ifeature, storage) -- the reader.  Not evaluated when an argument threw. */
static void nv_generator_select(const struct nv_rgen* g, struct nv_t1i samples, int64_t ifeature, struct nv_map storage)
{
  if (nv_thrown) return;
  __CPROVER_assert(nv_min_p == samples.p && nv_min_n == samples.n && nv_max_p == samples.p && nv_max_n == samples.n,
                   "reader reached only after the sample-range guard ran on this sample list (and did not throw)");
  nv_selected = 1; nv_sel_gen = g; nv_sel_ifeature = ifeature; nv_sel_rows = storage.n; nv_sel_buffer = storage.id;
  if (nv_nondet__Bool()) nv_thrown = 1;     /* the generator may reject the storage kind */
}

#define NV_SELECT_CONTRACT \
__CPROVER_requires(NV_DATASET_OK(self) && NV_DATASOURCE_OK(self->m_datasource) && NV_T1I_OK(samples) && __CPROVER_is_fresh(buffer, sizeof(*buffer))) \
/* instance of the mapping invariant (dataset_t::update) at the queried row */ \
__CPROVER_requires(NV_FEATURE_OK(self, feature) ==> (0 <= self->m_feature_mapping.p[feature * 5] && (uint64_t)self->m_feature_mapping.p[feature * 5] < self->m_generators.size)) \
__CPROVER_requires(!nv_selected && nv_min_p == NULL && nv_max_p == NULL) \
__CPROVER_assigns(nv_thrown, nv_w_index, nv_w_listsize, nv_min_p, nv_max_p, nv_min_n, nv_max_n, nv_selected, nv_sel_gen, nv_sel_ifeature, nv_sel_rows, nv_sel_buffer) \
/* an invalid feature index is rejected, nothing is read */ \
__CPROVER_ensures(!NV_FEATURE_OK(self, feature) ==> (nv_thrown && !nv_selected)) \
/* a view is returned only from the reader, run on the mapped generator / local feature, one row per listed sample, into the caller's buffer */ \
__CPROVER_ensures(!nv_thrown ==> (nv_selected && __CPROVER_return_value.n == samples.n && __CPROVER_return_value.id == buffer->id)) \
__CPROVER_ensures(nv_selected ==> (NV_FEATURE_OK(self, feature) && nv_sel_gen == &self->m_generators.p[self->m_feature_mapping.p[feature * 5]] \
  && nv_sel_ifeature == self->m_feature_mapping.p[feature * 5 + 1] && nv_sel_rows == samples.n && nv_sel_buffer == buffer->id))
#define NV_CONTRACT_dataset_select_sclass NV_SELECT_CONTRACT
#define NV_CONTRACT_dataset_select_mclass NV_SELECT_CONTRACT
#define NV_CONTRACT_dataset_select_scalar NV_SELECT_CONTRACT
#define NV_CONTRACT_dataset_select_struct NV_SELECT_CONTRACT
