/* C08 (public per-feature views): dataset_t::select(samples, feature, buffer) for the four storage kinds.
 * "sample or feature indices outside the valid range are rejected with an exception, never read": the generator's
 * select -- the only reader -- is reached only
 *   (a) with a sample list whose every entry (ghost position nv_g) is in [0, samples()): dataset_t::check(samples) is
 *       taken by its contract (proved on the real code by the dataset_check_samples target: returns normally => every
 *       listed index is valid), so a dropped, reordered or weakened guard call leaves the entry unconstrained, and
 *   (b) with a feature index in [0, features()), on the generator and generator-local feature index that the feature
 *       mapping names, with one output row per listed sample.
 * Whether the guard itself rejects every invalid index is the obligation of the dataset_check_samples target. */
#include "dataset.h"
struct nv_feature { int32_t kind; };                 /* feature_t: 0 sclass, 1 mclass, 2 scalar, 3 struct (what handle_* tests) */
struct nv_buf { uint64_t id; };                      /* *_mem_t output buffers: identity only */
struct nv_map { int64_t n; uint64_t id; };           /* *_map_t / *_cmap_t views of a buffer: leading dimension + buffer identity */

int64_t nv_sel_N;     /* ghost: samples() of the data source, fixed by the contract */
/* ghost record of the reader */
_Bool nv_selected; const struct nv_rgen* nv_sel_gen; int64_t nv_sel_ifeature, nv_sel_rows; uint64_t nv_sel_buffer;

/* dataset_t::feature(i) = byfeature(i)->feature(mapping(i, 1)): throws for an invalid index (dataset_byfeature target),
 * otherwise some feature descriptor (assumed: arbitrary kind) */
static struct nv_feature nv_dataset_feature(const struct nv_dataset* self, int64_t feature)
{
  struct nv_feature f; f.kind = nv_nondet_int32_t();
  if (!NV_FEATURE_OK(self, feature)) nv_thrown = 1;
  return f;
}
/* handle_sclass / handle_mclass / handle_scalar / handle_struct: critical(!feature.is_<kind>()) */
static void nv_handle_kind(struct nv_feature f, int32_t kind) { if (nv_thrown) return; if (f.kind != kind) nv_thrown = 1; }
/* resize_and_map(buffer, dims...): a view of the buffer with the requested leading dimension */
static struct nv_map nv_resize_and_map(struct nv_buf* b, int64_t n) { struct nv_map m; m.n = n; m.id = b->id; return m; }
/* generator_t::select(samples, ifeature, storage) -- the reader.  Not evaluated when an argument threw. */
static void nv_generator_select(const struct nv_rgen* g, struct nv_t1i samples, int64_t ifeature, struct nv_map storage)
{
  if (nv_thrown) return;
  __CPROVER_assert(!(0 <= nv_g && nv_g < samples.n) || (0 <= samples.p[nv_g] && samples.p[nv_g] < nv_sel_N),
                   "reader reached only with a sample list whose every entry is in [0, samples())");
  nv_selected = 1; nv_sel_gen = g; nv_sel_ifeature = ifeature; nv_sel_rows = storage.n; nv_sel_buffer = storage.id;
  if (nv_nondet__Bool()) nv_thrown = 1;     /* the generator may reject the storage kind */
}

#define NV_SELECT_CONTRACT \
__CPROVER_requires(NV_DATASET_OK(self) && NV_DATASOURCE_OK(self->m_datasource) && NV_T1I_OK(samples) && __CPROVER_is_fresh(buffer, sizeof(*buffer))) \
/* instance of the mapping invariant (dataset_t::update) at the queried row */ \
__CPROVER_requires(NV_FEATURE_OK(self, feature) ==> (0 <= self->m_feature_mapping.p[feature * 5] && (uint64_t)self->m_feature_mapping.p[feature * 5] < self->m_generators.size)) \
__CPROVER_requires(!nv_selected && nv_sel_N == NV_SAMPLES(self) && (samples.n == 0 || (0 <= nv_g && nv_g < samples.n))) \
__CPROVER_assigns(nv_thrown, nv_w_index, nv_w_listsize, nv_selected, nv_sel_gen, nv_sel_ifeature, nv_sel_rows, nv_sel_buffer) \
/* an invalid feature index is rejected, nothing is read */ \
__CPROVER_ensures(!NV_FEATURE_OK(self, feature) ==> (nv_thrown && !nv_selected)) \
/* a view is returned only from the reader, run on the mapped generator / local feature, one row per listed sample, into the caller's buffer */ \
__CPROVER_ensures(!nv_thrown ==> (nv_selected && __CPROVER_return_value.n == samples.n && __CPROVER_return_value.id == buffer->id)) \
__CPROVER_ensures(nv_selected ==> (NV_FEATURE_OK(self, feature) && nv_sel_gen == &self->m_generators.p[self->m_feature_mapping.p[feature * 5]] \
  && nv_sel_ifeature == self->m_feature_mapping.p[feature * 5 + 1] && nv_sel_rows == samples.n && nv_sel_buffer == buffer->id))
#define NV_CONTRACT_dataset_select_sclass NV_SELECT_CONTRACT
#define NV_CONTRACT_dataset_select_mclass NV_SELECT_CONTRACT
#define NV_CONTRACT_dataset_select_scalar NV_SELECT_CONTRACT
#define NV_CONTRACT_dataset_select_struct NV_SELECT_CONTRACT
