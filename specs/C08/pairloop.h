/* C08 (pairwise generators, the loops that apply the operator): pairwise_generator_t<pairwise_product_t>::select_scalar
 * and ::flatten for one storage-type pair (int32 x uint32), with the real datasource_pairwise_iterator_t::operator*, the
 * real base iterator, the real getbit on both masks and the real product operator, all extracted and inlined.
 *
 * "product features [equal] the product of their two sources", "missing values are marked NaN", per-feature view and
 * flattened view alike.  Stated for one ghost cell of the output (row nv_gr = position in the sample list; for flatten
 * also the absolute column nv_gcol):
 *   processed row, (for flatten: the generator's column):
 *        both sources given  ->  (scalar_t)source1 * (scalar_t)source2   of the stored sample behind that position
 *                                (the multiplication is uninterpreted here: its arithmetic is checked, with IEEE
 *                                semantics and for all storage types, by the product_op_* targets)
 *        otherwise           ->  NaN
 *   any other cell is untouched; every output index is inside the output, every read of the sample list, the permutation,
 *   the two value blocks and the two masks is in bounds.
 * The two value tensors have no memory model: a read of sample s returns the ghost value when s is the stored sample
 * behind the ghost row, an arbitrary value otherwise (the function never writes them). */
#include "flatten.h"
#include "pairwise.h"
struct nv_t4 { int64_t rows; int32_t which; };        /* tensor_cmap_t<T, 4>: number of samples + which source (1 / 2) */
struct nv_pairiter { struct nv_iter base; struct nv_t4 m_data1; struct nv_mask m_mask1; struct nv_t4 m_data2; struct nv_mask m_mask2; };
struct nv_tuple5 { int64_t _0; _Bool _1; struct nv_t3_i32 _2; _Bool _3; struct nv_t3_u32 _4; };
struct nv_tuple_op_i64 { struct nv_op _0; int64_t _1; };
struct nv_t1d_out { int64_t n; };                     /* scalar_map_t output view: length only (contents at the ghost cell) */
double nv_prod_g;                                     /* ghost: (scalar_t)nv_v1_g * (scalar_t)nv_v2_g, fixed by the contract (no function calls in loop invariants) */
int32_t nv_v1_g; uint32_t nv_v2_g;                    /* ghost: the two stored source values of the sample behind row nv_gr */
int32_t nv_any1; uint32_t nv_any2;                    /* arbitrary values of every other sample */
#define NV_SGP(it) ((it).base.m_shuffled_all_samples.n == 0 ? nv_list_g : nv_shuf_g)
int64_t nv_sg;                                        /* ghost: NV_SGP(it), fixed by the contract */
/* data.tensor(sample): the component block of one sample (at least one component) */
static struct nv_t3_i32 nv_t4_tensor_i32(const struct nv_t4* t, int64_t s)
{
  __CPROVER_assert(0 <= s && s < t->rows, "source 1: sample inside the stored values");
  struct nv_t3_i32 r; r.n = 1; if (s == nv_sg) r.p = &nv_v1_g; else { nv_any1 = nv_nondet_int32_t(); r.p = &nv_any1; } return r;
}
static struct nv_t3_u32 nv_t4_tensor_u32(const struct nv_t4* t, int64_t s)
{
  __CPROVER_assert(0 <= s && s < t->rows, "source 2: sample inside the stored values");
  struct nv_t3_u32 r; r.n = 1; if (s == nv_sg) r.p = &nv_v2_g; else { nv_any2 = nv_nondet_uint32_t(); r.p = &nv_any2; } return r;
}
/* process(ifeature): the operator checked in the product_op_* targets and the number of generated columns (1) */
static struct nv_tuple_op_i64 nv_process(int64_t ifeature) { struct nv_tuple_op_i64 r; r._0.unused = 0; r._1 = 1; return r; }
/* output accessors: the ghost cell or the sink; indices checked */
static double* nv_out1_at(const struct nv_t1d_out* o, int64_t i)
{ __CPROVER_assert(0 <= i && i < o->n, "storage(index): index inside the per-feature view"); return i == nv_gr ? &nv_cell : &nv_scratch; }
static double* nv_out2_at(const struct nv_t2d* o, int64_t i, int64_t j)
{ __CPROVER_assert(0 <= i && i < o->rows && 0 <= j && j < o->cols, "storage(index, column): cell inside the flatten buffer"); return (i == nv_gr && j == nv_gcol) ? &nv_cell : &nv_scratch; }

#define NV_PAIRITER_OK(it) (0 <= nv_nsamples && nv_nsamples <= NV_MAXN && nv_samples == nv_nsamples \
  && 0 <= (it).base.m_samples.n && (it).base.m_samples.n <= NV_MAXN && (it).base.m_samples.kind == 0 \
  && ((it).base.m_shuffled_all_samples.n == 0 || (it).base.m_shuffled_all_samples.n == nv_nsamples) && (it).base.m_shuffled_all_samples.kind == 1 \
  && (it).m_data1.rows == nv_nsamples && (it).m_data2.rows == nv_nsamples \
  && (it).m_mask1.n == NV_BYTES(nv_nsamples) && __CPROVER_is_fresh((it).m_mask1.p, (it).m_mask1.n > 0 ? (it).m_mask1.n : 1) \
  && (it).m_mask2.n == NV_BYTES(nv_nsamples) && __CPROVER_is_fresh((it).m_mask2.p, (it).m_mask2.n > 0 ? (it).m_mask2.n : 1) \
  && 0 <= nv_list_g && nv_list_g < nv_nsamples && 0 <= nv_shuf_g && nv_shuf_g < nv_nsamples && nv_sg == NV_SGP(it) && NV_SAME(nv_prod_g, NV_FMUL((double)nv_v1_g, (double)nv_v2_g)))
#define NV_BOTH_GIVEN(it) (NV_BIT(&(it).m_mask1, nv_sg) && NV_BIT(&(it).m_mask2, nv_sg))
#define NV_PRODUCT_CELL(it) (NV_BOTH_GIVEN(it) ? NV_SAME(nv_cell, nv_prod_g) : nv_cell != nv_cell)

#define NV_CONTRACT_pairwise_select_scalar \
__CPROVER_requires(__CPROVER_is_fresh(self, sizeof(*self)) && __CPROVER_is_fresh(storage, sizeof(*storage)) && self->NaN != self->NaN) \
__CPROVER_requires(NV_PAIRITER_OK(it) && 0 <= it.base.m_index && it.base.m_index <= it.base.m_samples.n) \
__CPROVER_requires(storage->n == it.base.m_samples.n && NV_SAME(nv_cell, nv_cell0))     /* dataset_t::select: one entry per listed sample */ \
__CPROVER_assigns(nv_cell, nv_scratch, nv_any1, nv_any2) \
__CPROVER_ensures((__CPROVER_old(it.base.m_index) <= nv_gr && nv_gr < it.base.m_samples.n) ? NV_PRODUCT_CELL(it) : NV_SAME(nv_cell, nv_cell0))
#define NV_LOOP_pairwise_select_scalar_1 \
__CPROVER_assigns(it.base.m_index, nv_cell, nv_scratch, nv_any1, nv_any2) \
__CPROVER_loop_invariant(__CPROVER_loop_entry(it.base.m_index) <= it.base.m_index && it.base.m_index <= it.base.m_samples.n) \
__CPROVER_loop_invariant((__CPROVER_loop_entry(it.base.m_index) <= nv_gr && nv_gr < it.base.m_index) ? NV_PRODUCT_CELL(it) : NV_SAME(nv_cell, nv_cell0)) \
__CPROVER_decreases(it.base.m_samples.n - it.base.m_index)

#define NV_CONTRACT_pairwise_flatten \
__CPROVER_requires(__CPROVER_is_fresh(self, sizeof(*self)) && __CPROVER_is_fresh(storage, sizeof(*storage)) && __CPROVER_is_fresh(op, sizeof(*op)) && self->NaN != self->NaN) \
__CPROVER_requires(NV_PAIRITER_OK(it) && 0 <= it.base.m_index && it.base.m_index <= it.base.m_samples.n) \
__CPROVER_requires(storage->rows == it.base.m_samples.n && 0 <= storage->cols && storage->cols <= NV_MAXN && 0 <= column && colsize == 1 && column <= storage->cols - colsize) \
__CPROVER_requires(NV_SAME(nv_cell, nv_cell0)) \
__CPROVER_assigns(nv_cell, nv_scratch, nv_any1, nv_any2) \
__CPROVER_ensures((__CPROVER_old(it.base.m_index) <= nv_gr && nv_gr < it.base.m_samples.n && nv_gcol == column) ? NV_PRODUCT_CELL(it) : NV_SAME(nv_cell, nv_cell0))
#define NV_LOOP_pairwise_flatten_1 \
__CPROVER_assigns(it.base.m_index, nv_cell, nv_scratch, nv_any1, nv_any2) \
__CPROVER_loop_invariant(__CPROVER_loop_entry(it.base.m_index) <= it.base.m_index && it.base.m_index <= it.base.m_samples.n) \
__CPROVER_loop_invariant((__CPROVER_loop_entry(it.base.m_index) <= nv_gr && nv_gr < it.base.m_index && nv_gcol == column) ? NV_PRODUCT_CELL(it) : NV_SAME(nv_cell, nv_cell0)) \
__CPROVER_decreases(it.base.m_samples.n - it.base.m_index)
