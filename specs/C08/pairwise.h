/* C08 (pairwise product): "identity features and targets equal the stored values (product features the product of
 * their two sources)" for sources "of any storage type".
 *   label operator of pairwise_product_t::process, all 10 x 10 storage-type instantiations, IEEE semantics:
 *       op(values1, values2) == (scalar_t)values1(0) * (scalar_t)values2(0)
 *   i.e. the product of the two stored values taken in scalar_t (double), whatever their storage types -- no wrap-around,
 *   no unsigned conversion of a negative source, no single-precision rounding.
 * The loops that apply the operator (missing iff either source is missing) are the pairwise_select / pairwise_flatten
 * targets (pairloop.h). */
#include "nv_tensor.h"
#define NV_T3(tag, T) struct nv_t3_##tag { T* p; int64_t n; };      /* tensor_cmap_t<T, 3>: the component block of one sample */
NV_T3(f32, float) NV_T3(f64, double) NV_T3(i8, int8_t) NV_T3(i16, int16_t) NV_T3(i32, int32_t) NV_T3(i64, int64_t)
NV_T3(u8, uint8_t) NV_T3(u16, uint16_t) NV_T3(u32, uint32_t) NV_T3(u64, uint64_t)
#ifndef NV_OP_DEFINED
#define NV_OP_DEFINED
struct nv_op { int32_t unused; };                                    /* the stateless operator object */
#endif
