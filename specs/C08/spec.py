import astload
from core import Fn, Target, VC

MASK_H = 'specs/C08/mask.h'
TYPES = [(r'^nano::base_datasource_iterator_t$', 'struct nv_iter'),
         (r'^nano::mask_c?map_t$|tensor_t<nano::tensor_c?m?array_storage_t, unsigned char, 1>', 'struct nv_mask'),
         (r'^nano::indices_cmap_t$|tensor_t<nano::tensor_carray_storage_t, long, 1>', 'struct nv_t1i')]
# element access of a rank-1 tensor map: t(i) -> t.p[i]  (CBMC's pointer checks then prove every real index in bounds)
ELEM = [(r'^operator\(\)\|typename tbase::t(const)?ref \(const nano::tensor_size_t\)', '{0}.p[{1}]')]
MASK_TU = 'src/datasource/mask.cpp'   # includes include/nano/datasource/mask.h

ROUNDTRIP = r'''
int main(void)
{
  struct nv_mask m; int64_t s; int64_t g;
  __CPROVER_assume(0 <= nv_samples && nv_samples <= NV_MAXS);
  m.n = NV_BYTES(nv_samples);
  m.p = malloc(m.n > 0 ? m.n : 1);            /* arbitrary contents */
  __CPROVER_assume(m.p != NULL);
  __CPROVER_assume(0 <= s && s < nv_samples && 0 <= g && g < nv_samples && g != s);
  nv_thrown = 0;
  _Bool before = mask_getbit(&m, g);
  mask_setbit(&m, s);
  __CPROVER_assert(mask_getbit(&m, s), "roundtrip: getbit(m,s) holds after setbit(m,s)");
  __CPROVER_assert(mask_getbit(&m, g) == before, "roundtrip: getbit(m,s') unchanged by setbit(m,s) for s' != s");
  __CPROVER_assert(0, "nv_canary: end of harness reachable");
  return 0;
}
'''


def mask_fns():
    common = dict(types=TYPES, calls=ELEM + [(r'^getbit\|', 'mask_getbit')], uf_float=False)
    setbit = Fn('mask_setbit', MASK_TU, 'setbit', flt='nano::setbit', **common)
    getbit = Fn('mask_getbit', MASK_TU, 'getbit', flt='nano::getbit', **common)
    optional = Fn('mask_optional', MASK_TU, 'optional', flt='nano::optional', **common)
    return setbit, getbit, optional

ITER_H = 'specs/C08/iter.h'
DS_H = 'specs/C08/dataset.h'
DRV = 'drivers/inst_c08.cpp'
SIZE1 = [(r'^size\|nano::tensor_base_t<long, 1, true>', '{*self}.n')]


def iter_fns():
    common = dict(self_struct='struct nv_iter', types=TYPES, calls=ELEM, uf_float=False,
                  members=SIZE1 + [(r'^index\|nano::base_datasource_iterator_t', 'iter_index'),
                                   (r'^size\|nano::base_datasource_iterator_t', 'iter_size')])
    flt = 'nano::base_datasource_iterator_t'
    sample = Fn('iter_sample', DRV, 'sample', flt=flt, **common)
    inc = Fn('iter_inc', DRV, 'operator++', flt=flt, select=lambda d: astload.param_types(d) == [], **common)
    boolean = Fn('iter_bool', DRV, 'operator bool', flt=flt, kinds=('CXXConversionDecl',), **common)
    index = Fn('iter_index', DRV, 'index', flt=flt, **common)
    size = Fn('iter_size', DRV, 'size', flt=flt, **common)
    return sample, inc, boolean, index, size


def size_rank2_hook(tu):
    """tensor.size<k>() on a rank-2 tensor: clang's JSON dump does not show the explicit template argument of the member
    call, so it is read from the source text of the callee expression (`x.size<0>` -> rows, `x.size<1>` -> cols);
    anything else is Unsupported."""
    import re
    from cxx2c import Unsupported, strip_cv, qual

    def h(P, n):
        if n.get('kind') != 'CXXMemberCallExpr':
            return None
        me = n['inner'][0]
        if me.get('kind') != 'MemberExpr' or me.get('name') != 'size':
            return None
        obj = me['inner'][0]
        if not re.search(r'tensor_base_t<long, 2, true>', strip_cv(qual(obj['type']))):
            return None
        rng = me.get('range', {})
        b, e = rng.get('begin', {}), rng.get('end', {})
        if 'offset' not in b or 'offset' not in e or 'file' in b or 'file' in e:
            raise Unsupported('size<k>() on a rank-2 tensor: no usable source range')
        txt = open(astload.resolve_tu(tu), 'rb').read()[b['offset']: e['offset'] + e.get('tokLen', 0) + 8].decode()
        m = re.search(r'(?:\.|->)\s*(?:template\s+)?size\s*<\s*([01])\s*>\s*\(\s*\)', txt)
        if not m:
            raise Unsupported(f'size() on a rank-2 tensor without an explicit dimension: {txt!r}')
        P.note(f'tensor.size<{m.group(1)}>()')
        return f'{P.addr(obj)}->' + ('rows' if m.group(1) == '0' else 'cols')
    return h


def dataset_fns():
    tu = 'src/dataset.cpp'
    types = TYPES + [(r'^nano::datasource_t$', 'struct nv_datasource'),
                     (r'^nano::rgenerator_t$|^std::unique_ptr<nano::generator_t', 'struct nv_rgen')]
    common = dict(self_struct='struct nv_dataset', types=types, uf_float=False, hooks=[size_rank2_hook(tu)],
                  calls=ELEM + [(r'^operator\[\]\|std::vector<std::unique_ptr<nano::generator_t>>::const_reference \(std::vector::size_type\) const', '{0}.p[{1}]'),
                                (r'^operator\(\)\|typename tbase::tconstref \(const nano::tensor_size_t, const int\) const\|.*tensor_vector_storage_t, long, 2>', '(*nv_t2i_at({&0}, {1}, {2}))')],
                  members=SIZE1 + [(r'^(min)\|nano::tensor_t<nano::tensor_carray_storage_t, long, 1>', 'nv_t1i_min'),
                                   (r'^(max)\|nano::tensor_t<nano::tensor_carray_storage_t, long, 1>', 'nv_t1i_max'),
                                   (r'^samples\|nano::datasource_t', 'datasource_samples'),
                                   (r'^features\|nano::dataset_t', 'dataset_features'),
                                   (r'^check\|nano::dataset_t', 'dataset_check_feature!')])
    chk_s = Fn('dataset_check_samples', tu, 'check', flt='nano::dataset_t::', select=lambda d: 'indices_cmap_t' in astload.param_types(d)[0], **common)
    chk_f = Fn('dataset_check_feature', tu, 'check', flt='nano::dataset_t::', select=lambda d: 'tensor_size_t' in astload.param_types(d)[0], **common)
    byf = Fn('dataset_byfeature', tu, 'byfeature', flt='nano::dataset_t::', **common)
    feats = Fn('dataset_features', tu, 'features', flt='nano::dataset_t::', **common)
    dss = Fn('datasource_samples', tu, 'samples', flt='nano::datasource_t::samples', self_struct='struct nv_datasource',
             types=types, members=SIZE1, uf_float=False)
    return chk_s, chk_f, byf, feats, dss


def build(tier):
    targets = []
    setbit, getbit, optional = mask_fns()
    targets.append(Target('mask_setbit', [setbit], MASK_H))
    targets.append(Target('mask_getbit', [getbit], MASK_H))
    s2, g2, _ = mask_fns()
    targets.append(Target('mask_roundtrip', [s2, g2], MASK_H, enforce_none=True, harness=ROUNDTRIP))
    _, g3, o3 = mask_fns()
    targets.append(Target('mask_optional', [o3, g3], MASK_H, replace=['mask_getbit']))
    sample, inc, boolean, index, size = iter_fns()
    targets.append(Target('iter_sample', [sample], ITER_H))
    targets.append(Target('iter_inc', [inc], ITER_H))
    targets.append(Target('iter_bool', [boolean, index, size], ITER_H))
    chk_s, chk_f, byf, feats, dss = dataset_fns()
    targets.append(Target('dataset_check_samples', [chk_s, dss], DS_H))
    chk_s, chk_f, byf, feats, dss = dataset_fns()
    targets.append(Target('dataset_check_feature', [chk_f, feats], DS_H))
    chk_s, chk_f, byf, feats, dss = dataset_fns()
    targets.append(Target('dataset_byfeature', [byf, chk_f, feats], DS_H, replace=['dataset_check_feature']))
    return {
        'targets': targets, 'vcs': [],
        'decided': [],
        'not_decided': [],
        'assumptions': [],
        'trusted': [],
    }
