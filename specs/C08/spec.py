import astload
from core import Fn, Target, VC

MASK_H = 'specs/C08/mask.h'
TYPES = [(r'^nano::base_datasource_iterator_t$', 'struct nv_iter'),
         (r'^nano::mask_c?map_t$|tensor_t<nano::tensor_c?m?array_storage_t, unsigned char, 1>', 'struct nv_mask'),
         (r'^nano::indices_cmap_t$|tensor_t<nano::tensor_carray_storage_t, long, 1>', 'struct nv_t1i')]
# element access of a rank-1 tensor map: t(i) -> t.p[i]  (CBMC's pointer checks then prove every real index in bounds)
ELEM = [(r'^operator\(\)\|typename tbase::t(const|mutable)?ref \(const nano::tensor_size_t\)', '{0}.p[{1}]')]
DRV = 'drivers/inst_c08.cpp'
MASK_TU = 'src/datasource/mask.cpp'   # includes include/nano/datasource/mask.h

ROUNDTRIP = r'''
int main(void)
{
  struct nv_mask m; int64_t s; int64_t g;
  __CPROVER_assume(0 <= nv_samples && nv_samples <= NV_MAXS);
  m.n = NV_BYTES(nv_samples);
  m.p = malloc(m.n > 0 ? m.n : 1);            /* arbitrary contents */
  __CPROVER_assume(m.p != NULL);
  __CPROVER_assume(0 <= s && s < nv_samples && 0 <= g && g < nv_samples && g != s);
  nv_thrown = 0;
  _Bool before = mask_getbit(&m, g);
  mask_setbit(&m, s);
  __CPROVER_assert(mask_getbit(&m, s), "roundtrip: getbit(m,s) holds after setbit(m,s)");
  __CPROVER_assert(mask_getbit(&m, g) == before, "roundtrip: getbit(m,s') unchanged by setbit(m,s) for s' != s");
  __CPROVER_assert(0, "nv_canary: end of harness reachable");
  return 0;
}
'''

# layout-free: a mask made by the real make_mask has the documented size and every bit clear (real getbit), and takes
# part in the set/get round trip
MAKE = r'''
int main(void)
{
  struct nv_dims1 dims; int64_t s; int64_t g;
  __CPROVER_assume(0 <= nv_samples && nv_samples <= NV_MAXS);
  dims.d[0] = nv_samples;
  __CPROVER_assume(0 <= s && s < nv_samples && 0 <= g && g < nv_samples);
  nv_thrown = 0;
  struct nv_mask m = mask_make(&dims);
  __CPROVER_assert(m.n == NV_BYTES(nv_samples), "make_mask: (samples+7)/8 bytes");
  __CPROVER_assert(!mask_getbit(&m, g), "make_mask: every bit is clear (no sample given)");
  mask_setbit(&m, s);
  __CPROVER_assert(mask_getbit(&m, g) == (g == s), "make_mask + setbit(s): exactly the bit of s is set");
  __CPROVER_assert(0, "nv_canary: end of harness reachable");
  return 0;
}
'''

# the for (; it; ++it) protocol of every generator loop: operator bool true => sample() is evaluated inside the list, the
# stored sample it returns is in [0, N); operator++ keeps 0 <= index <= size; the loop ends exactly at index == size
ITER_PROTOCOL = r'''
int main(void)
{
  struct nv_iter it;
  __CPROVER_assume(0 <= nv_nsamples && nv_nsamples <= NV_MAXN);
  __CPROVER_assume(0 <= it.m_samples.n && it.m_samples.n <= NV_MAXN);
  it.m_samples.p = malloc(it.m_samples.n * sizeof(int64_t));
  __CPROVER_assume(it.m_shuffled_all_samples.n == 0 || it.m_shuffled_all_samples.n == nv_nsamples);
  it.m_shuffled_all_samples.p = malloc(it.m_shuffled_all_samples.n * sizeof(int64_t));
  __CPROVER_assume(it.m_samples.p != NULL && it.m_shuffled_all_samples.p != NULL);
  __CPROVER_assume(0 <= it.m_index && it.m_index <= it.m_samples.n);          /* loop invariant */
  nv_thrown = 0;
  if (iter_bool(&it))
  {
    __CPROVER_assume(NV_ITER_VALUES_OK(&it));   /* listed index in [0, N) (check(samples)), permutation into [0, N) */
    int64_t s = iter_sample(&it);
    __CPROVER_assert(0 <= s && s < nv_nsamples, "iterator protocol: the stored sample is in [0, samples())");
    struct nv_iter* r = iter_inc(&it);
    __CPROVER_assert(r == &it && 0 <= it.m_index && it.m_index <= it.m_samples.n, "iterator protocol: 0 <= index <= size is preserved by ++");
  }
  else
  {
    __CPROVER_assert(it.m_index == it.m_samples.n, "iterator protocol: the loop ends exactly at index == size");
  }
  __CPROVER_assert(0, "nv_canary: end of harness reachable");
  return 0;
}
'''

# the chain the last clause of the property is about: dataset_t::check(samples) returned normally => the sample that the
# iterator hands to the storage readers (here: the real getbit on a mask of N samples, the permutation of N samples) is
# in [0, N) and every read is inside its buffer.  Real check(samples) + real iterator + real getbit.
GUARDED_READ = r'''
int main(void)
{
  struct nv_dataset ds; struct nv_iter it; struct nv_mask mask; int64_t N;
  __CPROVER_assume(0 <= N && N <= NV_MAXN);
  nv_nsamples = N; nv_samples = N;
  ds.m_datasource.m_testing.n = N; ds.m_datasource.m_testing.p = malloc(N * sizeof(int64_t));
  mask.n = NV_BYTES(N); mask.p = malloc(mask.n);
  __CPROVER_assume(0 <= it.m_samples.n && it.m_samples.n <= NV_MAXN);
  it.m_samples.p = malloc(it.m_samples.n * sizeof(int64_t));
  __CPROVER_assume(it.m_shuffled_all_samples.n == 0 || it.m_shuffled_all_samples.n == N);
  it.m_shuffled_all_samples.p = malloc(it.m_shuffled_all_samples.n * sizeof(int64_t));
  __CPROVER_assume(ds.m_datasource.m_testing.p != NULL && mask.p != NULL && it.m_samples.p != NULL && it.m_shuffled_all_samples.p != NULL);
  __CPROVER_assume(0 <= it.m_index && it.m_index <= it.m_samples.n);
  nv_g = it.m_index;                                 /* ghost position of the reductions = the position being read */
  /* the permutation maps [0, N) into [0, N) (instance at the entry being read) */
  if (it.m_index < it.m_samples.n && it.m_shuffled_all_samples.n != 0 && 0 <= NV_ITER_CUR(&it) && NV_ITER_CUR(&it) < N)
    __CPROVER_assume(0 <= it.m_shuffled_all_samples.p[NV_ITER_CUR(&it)] && it.m_shuffled_all_samples.p[NV_ITER_CUR(&it)] < N);
  nv_thrown = 0;
  dataset_check_samples(&ds, it.m_samples);
  if (!nv_thrown && iter_bool(&it))
  {
    int64_t s = iter_sample(&it);
    __CPROVER_assert(0 <= s, "guarded read: the sample handed to the storage readers is >= 0");
    __CPROVER_assert(s < N, "guarded read: the sample handed to the storage readers is < samples()");
    _Bool given = mask_getbit(&mask, s);
    (void)given;
  }
  __CPROVER_assert(0, "nv_canary: end of harness reachable");
  return 0;
}
'''


def make_mask_fn():
    types = TYPES + [(r'^(nano::)?tensor_dims_t<1(UL)?>$|^std::array<long, 1>$|::tdims$', 'struct nv_dims1'),
                     (r'^(nano::)?tensor_mem_t<uint8_t, 1(UL)?>$|^nano::tensor_t<nano::tensor_vector_storage_t, unsigned char, 1>$', 'struct nv_mask')]
    return Fn('mask_make', DRV, 'make_mask', flt='nano::make_mask', select=lambda d: astload.template_args(d) == ['1'], types=types, uf_float=False,
              calls=[(r'^get\|const long &\(const array<long, 1UL> &\)', '{0}.d[0]'),      # std::get<I> on a 1-element array: I == 0 is the only instance
                     (r'^operator\[\]\|std::array<long, 1>::reference \(std::array::size_type\)', '{0}.d[{1}]'),
                     (r'^ctor\|nano::tensor_t<nano::tensor_vector_storage_t, unsigned char, 1>\|void \((nano::tensor_t<nano::tensor_vector_storage_t, unsigned char, 1>::)?tdims\)', 'nv_mask_alloc({0})')],
              members=[(r'^zero\|(nano::)?tensor_(mem_)?t<', 'nv_mask_zero')])


def mask_fns(elem=None):
    common = dict(types=TYPES, calls=(elem or ELEM) + [(r'^getbit\|', 'mask_getbit')], uf_float=False)
    setbit = Fn('mask_setbit', MASK_TU, 'setbit', flt='nano::setbit', **common)
    getbit = Fn('mask_getbit', MASK_TU, 'getbit', flt='nano::getbit', **common)
    optional = Fn('mask_optional', MASK_TU, 'optional', flt='nano::optional', **common)
    return setbit, getbit, optional

ITER_H = 'specs/C08/iter.h'
DS_H = 'specs/C08/dataset.h'
SIZE1 = [(r'^size\|nano::tensor_base_t<long, 1, true>', '{*self}.n')]


def iter_fns():
    common = dict(self_struct='struct nv_iter', types=TYPES, calls=ELEM, uf_float=False,
                  members=SIZE1 + [(r'^index\|nano::base_datasource_iterator_t', 'iter_index'),
                                   (r'^size\|nano::base_datasource_iterator_t', 'iter_size')])
    flt = 'nano::base_datasource_iterator_t'
    sample = Fn('iter_sample', DRV, 'sample', flt=flt, **common)
    inc = Fn('iter_inc', DRV, 'operator++', flt=flt, select=lambda d: astload.param_types(d) == [], **common)
    boolean = Fn('iter_bool', DRV, 'operator bool', flt=flt, kinds=('CXXConversionDecl',), **common)
    index = Fn('iter_index', DRV, 'index', flt=flt, **common)
    size = Fn('iter_size', DRV, 'size', flt=flt, **common)
    return sample, inc, boolean, index, size


def size_rank2_hook(tu):
    """tensor.size<k>() on a rank-2 tensor: clang's JSON dump does not show the explicit template argument of the member
    call, so it is read from the source text of the callee expression (`x.size<0>` -> rows, `x.size<1>` -> cols);
    anything else is Unsupported."""
    import re
    from cxx2c import Unsupported, strip_cv, qual

    def h(P, n):
        if n.get('kind') != 'CXXMemberCallExpr':
            return None
        me = n['inner'][0]
        if me.get('kind') != 'MemberExpr' or me.get('name') != 'size':
            return None
        obj = me['inner'][0]
        if not re.search(r'tensor_base_t<long, 2, true>', strip_cv(qual(obj['type']))):
            return None
        rng = me.get('range', {})
        b, e = rng.get('begin', {}), rng.get('end', {})
        if 'offset' not in b or 'offset' not in e or 'file' in b or 'file' in e:
            raise Unsupported('size<k>() on a rank-2 tensor: no usable source range')
        txt = open(astload.resolve_tu(tu), 'rb').read()[b['offset']: e['offset'] + e.get('tokLen', 0) + 8].decode()
        m = re.search(r'(?:\.|->)\s*(?:template\s+)?size\s*<\s*([01])\s*>\s*\(\s*\)', txt)
        if not m:
            raise Unsupported(f'size() on a rank-2 tensor without an explicit dimension: {txt!r}')
        P.note(f'tensor.size<{m.group(1)}>()')
        return f'{P.addr(obj)}->' + ('rows' if m.group(1) == '0' else 'cols')
    return h


def dataset_fns():
    tu = 'src/dataset.cpp'
    types = TYPES + [(r'^nano::datasource_t$', 'struct nv_datasource'),
                     (r'^nano::rgenerator_t$|^std::unique_ptr<nano::generator_t', 'struct nv_rgen')]
    common = dict(self_struct='struct nv_dataset', types=types, uf_float=False, hooks=[size_rank2_hook(tu)],
                  calls=ELEM + [(r'^operator\[\]\|std::vector<std::unique_ptr<nano::generator_t>>::const_reference \(std::vector::size_type\) const', '{0}.p[{1}]'),
                                (r'^operator\(\)\|typename tbase::tconstref \(const nano::tensor_size_t, const int\) const\|.*tensor_vector_storage_t, long, 2>', '(*nv_t2i_at({&0}, {1}, {2}))')],
                  members=SIZE1 + [(r'^(min)\|nano::tensor_t<nano::tensor_carray_storage_t, long, 1>', 'nv_t1i_min'),
                                   (r'^(max)\|nano::tensor_t<nano::tensor_carray_storage_t, long, 1>', 'nv_t1i_max'),
                                   (r'^samples\|nano::datasource_t', 'datasource_samples'),
                                   (r'^features\|nano::dataset_t', 'dataset_features'),
                                   (r'^check\|nano::dataset_t', 'dataset_check_feature!')])
    chk_s = Fn('dataset_check_samples', tu, 'check', flt='nano::dataset_t::', select=lambda d: 'indices_cmap_t' in astload.param_types(d)[0], **common)
    chk_f = Fn('dataset_check_feature', tu, 'check', flt='nano::dataset_t::', select=lambda d: 'tensor_size_t' in astload.param_types(d)[0], **common)
    byf = Fn('dataset_byfeature', tu, 'byfeature', flt='nano::dataset_t::', **common)
    feats = Fn('dataset_features', tu, 'features', flt='nano::dataset_t::', **common)
    dss = Fn('datasource_samples', tu, 'samples', flt='nano::datasource_t::samples', self_struct='struct nv_datasource',
             types=types, members=SIZE1, uf_float=False)
    return chk_s, chk_f, byf, feats, dss

FLAT_H = 'specs/C08/flatten.h'
GEN_TU = 'src/generator/elemwise_identity.cpp'     # explicit instantiation of elemwise_generator_t<sclass_identity_t>


def flatten_fns():
    types = [(r'^nano::base_datasource_iterator_t$', 'struct nv_iter'),
             (r'^nano::datasource_iterator_t<unsigned char, 1>$', 'struct nv_dsiter'),
             (r'^nano::indices_cmap_t$|tensor_t<nano::tensor_carray_storage_t, long, 1>', 'struct nv_ilist'),
             (r'^nano::mask_cmap_t$|data_cmap_t$|tensor_t<nano::tensor_carray_storage_t, unsigned char, 1>', 'struct nv_mask'),
             (r'^nano::tensor2d_map_t$|tensor_t<nano::tensor_marray_storage_t, double, 2>', 'struct nv_t2d'),
             (r'^std::tuple<long, bool, unsigned char>$|^tuple<typename __decay_and_strip< ?long ?&?>::__type, typename __decay_and_strip< ?bool &>::__type, typename __decay_and_strip< ?unsigned char &>::__type>$', 'struct nv_tuple_i64_b_u8'),
             (r'^Eigen::VectorBlock<(Eigen::ArrayWrapper<)?Eigen::Map<Eigen::Matrix<double, -1, 1, 0>, 0>>?, -1>$', 'struct nv_seg'),
             (r'^((Eigen::)?ArrayWrapper<)?Eigen::Map<Eigen::Matrix<double, -1, 1, 0>, 0>>?$', 'struct nv_seg'),
             (r'^\(lambda at .*elemwise_identity\.h:\d+:\d+\)$', 'struct nv_op')]
    ilist = [(r'^operator\(\)\|typename tbase::tconstref \(const nano::tensor_size_t\) const\|.*tensor_carray_storage_t, long, 1>', 'nv_ilist_at({&0}, {1})')]
    size1 = [(r'^size\|nano::tensor_base_t<long, 1, true>', '{*self}.n')]
    flt = 'nano::base_datasource_iterator_t'
    base = dict(self_struct='struct nv_iter', types=types, calls=ilist, uf_float=False,
                members=size1 + [(r'^index\|nano::base_datasource_iterator_t', 'iter_index'), (r'^size\|nano::base_datasource_iterator_t', 'iter_size')])
    fns = [Fn('iter_sample', DRV, 'sample', flt=flt, **base),
           Fn('iter_inc', DRV, 'operator++', flt=flt, select=lambda d: astload.param_types(d) == [], **base),
           Fn('iter_bool', DRV, 'operator bool', flt=flt, kinds=('CXXConversionDecl',), **base),
           Fn('iter_index', DRV, 'index', flt=flt, **base), Fn('iter_size', DRV, 'size', flt=flt, **base),
           Fn('mask_getbit', MASK_TU, 'getbit', flt='nano::getbit', types=types, calls=ELEM, uf_float=False)]
    deref = Fn('dsiter_deref', GEN_TU, 'operator*', flt='nano::datasource_iterator_t',
               select=lambda d: '__decay_and_strip<const unsigned char &>' in d['type']['qualType'],
               self_struct='struct nv_dsiter', types=types, uf_float=False,
               calls=[(r'^getbit\|', 'mask_getbit'), (r'^make_tuple\|.*\((const )?long &&?, const bool &, const unsigned char &\)', '(struct nv_tuple_i64_b_u8){ {0}, {1}, {2} }')] + ELEM,
               members=[(r'^sample\|nano::base_datasource_iterator_t \*', 'iter_sample(&{self}->base)'),
                        (r'^index\|nano::base_datasource_iterator_t \*', 'iter_index(&{self}->base)')])
    op = Fn('sclass_op', GEN_TU, 'process', flt='nano::sclass_identity_t::process', lambda_index=0,
            lambda_select=lambda m: astload.template_args(m) == ['unsigned char'], self_struct='struct nv_op', types=types, uf_float=False)
    flat = Fn('flatten_sclass_u8', GEN_TU, 'flatten', flt='elemwise_generator_t',
              select=lambda d: (lambda ta: len(ta) == 2 and 'elemwise_identity.h' in ta[0] and ta[1] == 'nano::datasource_iterator_t<unsigned char, 1>')(astload.template_args(d)),
              self_struct='struct nv_gen', types=types, uf_float=False,
              calls=[(r'^operator\*\|tuple<.*\(\) const\|', 'dsiter_deref'),
                     (r'^operator\+\+\|nano::base_datasource_iterator_t &\(\)', 'iter_inc(&({0}).base)'),
                     (r'^operator\(\)\|int32_t \(const unsigned char &\) const\|', 'sclass_op'),
                     (r'^operator\(\)\|Eigen::DenseCoeffsBase<.*Scalar &\(Eigen::Index\)', '(*nv_seg_at({&0}, {1}))')],
              members=[(r'^operator bool\|nano::base_datasource_iterator_t', 'iter_bool(&({*self}).base)'),
                       (r'^(vector|array)\|nano::tensor_t<nano::tensor_marray_storage_t, double, 2>', 'nv_t2d_row'),
                       (r'^segment\|Eigen::DenseBase<(Eigen::ArrayWrapper<)?Eigen::Map<', 'nv_seg_segment'),
                       (r'^setConstant\|Eigen::DenseBase<Eigen::Block<', 'nv_seg_fill'),
                       (r'^size\|Eigen::EigenBase<Eigen::Block<', '{*self}.n')])
    return [flat, deref, op] + fns

SEL_H = 'specs/C08/select.h'


def check_overload_hook(P, n):
    """dataset_t::check is overloaded (feature index / sample list); member-call keys carry no argument types, so the
    overload is picked here from the type of the argument"""
    from cxx2c import strip_cv, qual
    if n.get('kind') != 'CXXMemberCallExpr':
        return None
    me = n['inner'][0]
    if me.get('kind') != 'MemberExpr' or me.get('name') != 'check' or 'dataset_t' not in qual(me['inner'][0]['type']):
        return None
    arg = n['inner'][1]
    which = 'dataset_check_samples' if 'tensor_carray_storage_t, long, 1>' in strip_cv(qual(arg['type'])) else 'dataset_check_feature'
    P.note(which + ' (overload of check)')
    P.may_throw = True
    P.pending_throw = True
    return f'{which}({P.expr(me["inner"][0])}, {P.expr(arg)})'


def select_fns(kind):
    tu = 'src/dataset.cpp'
    types = TYPES + [(r'^nano::datasource_t$', 'struct nv_datasource'),
                     (r'^nano::rgenerator_t$|^std::unique_ptr<nano::generator_t', 'struct nv_rgen'),
                     (r'^nano::(sclass|mclass|scalar|struct)_mem_t$|tensor_t<nano::tensor_vector_storage_t, (int|signed char|double), \d>', 'struct nv_buf'),
                     (r'^nano::(sclass|mclass|scalar|struct)_c?map_t$|tensor_t<nano::tensor_[cm]array_storage_t, (int|signed char|double), \d>', 'struct nv_map'),
                     (r'^nano::feature_t$', 'struct nv_feature')]
    code = {'sclass': 0, 'mclass': 1, 'scalar': 2, 'struct': 3}[kind]
    t2 = (r'^operator\(\)\|typename tbase::tconstref \(const nano::tensor_size_t, const int\) const\|.*tensor_vector_storage_t, long, 2>', '(*nv_t2i_at({&0}, {1}, {2}))')
    common = dict(self_struct='struct nv_dataset', types=types, uf_float=False, hooks=[check_overload_hook, size_rank2_hook(tu)])
    sel = Fn('dataset_select_' + kind, tu, 'select', flt='nano::dataset_t::',
             select=lambda d: (lambda pt: len(pt) == 3 and pt[2] == f'nano::{kind}_mem_t &')(astload.param_types(d)),
             calls=ELEM + [t2, (r'^handle_' + kind + r'\|void \(const nano::tensor_size_t, const nano::feature_t &\)', f'nv_handle_kind({{1}}, {code})!'),
                           (r'^resize_and_map\|', 'nv_resize_and_map({&0}, {1})'),      # further dimensions do not matter here
                           (r'^operator->\|std::unique_ptr<nano::generator_t>::pointer \(\) const', '{&0}'),
                           (r'^ctor\|nano::tensor_t<nano::tensor_carray_storage_t, (int|signed char|double), \d>\|', '{0}')],
             members=SIZE1 + [(r'^feature\|nano::dataset_t', 'nv_dataset_feature!'),
                              (r'^byfeature\|nano::dataset_t', '(*dataset_byfeature({self}, {0}))!'),
                              (r'^select\|nano::generator_t \*', 'nv_generator_select!')], **common)
    chk = Fn('dataset_check_samples', tu, 'check', flt='nano::dataset_t::', select=lambda d: 'indices_cmap_t' in astload.param_types(d)[0],
             calls=ELEM, members=SIZE1 + [(r'^min\|nano::tensor_t<nano::tensor_carray_storage_t, long, 1>', 'nv_t1i_min'),
                                          (r'^max\|nano::tensor_t<nano::tensor_carray_storage_t, long, 1>', 'nv_t1i_max'),
                                          (r'^samples\|nano::datasource_t', 'datasource_samples')], **common)
    _, chk_f, byf, feats, dss = dataset_fns()
    return [sel, chk, dss, byf, chk_f, feats]

GEN_H = 'specs/C08/gen.h'
GENERATOR_TU = 'src/generator.cpp'

GEN_SETUP = r'''
  struct nv_generator gen; struct nv_ds ds; int64_t f; int64_t g;
  __CPROVER_assume(0 <= ds.samples && ds.samples <= NV_MAXN);
  gen.m_datasource = &ds;
  __CPROVER_assume(0 <= gen.m_feature_infos.n && gen.m_feature_infos.n <= NV_MAXN);
  gen.m_feature_infos.p = malloc(gen.m_feature_infos.n);
  gen.m_feature_shuffles.n = gen.m_feature_infos.n;
  gen.m_feature_shuffles.has = malloc(gen.m_feature_shuffles.n);
  gen.m_feature_shuffles.kv = malloc(gen.m_feature_shuffles.n * sizeof(struct nv_kv));
  __CPROVER_assume(gen.m_feature_infos.p != NULL && gen.m_feature_shuffles.has != NULL && gen.m_feature_shuffles.kv != NULL);
  __CPROVER_assume(0 <= f && f < gen.m_feature_infos.n && 0 <= g && g < gen.m_feature_infos.n);
  __CPROVER_assume(NV_GEN_INV(&gen, f) && NV_GEN_INV(&gen, g));        /* any reachable state */
  nv_thrown = 0;
  _Bool dropped_g = gen_should_drop(&gen, g);
  struct nv_idx shuf_g = gen_shuffled(&gen, g);
'''
GEN_SAME_SHUF = '(now.n == shuf_g.n && (now.n == 0 || (now.id == shuf_g.id && (now.perm != 0) == (shuf_g.perm != 0))))'
GEN_HARNESS = {
    'drop': r'''
  gen_drop(&gen, f);
  __CPROVER_assert(gen_should_drop(&gen, f), "drop(f): f is dropped (its views become missing)");
  struct nv_idx now = gen_shuffled(&gen, g);
  __CPROVER_assert(g == f || gen_should_drop(&gen, g) == dropped_g, "drop(f): the dropped flag of every other feature is unchanged");
  __CPROVER_assert(g == f || SAME_SHUF, "drop(f): the permutation of every other feature is unchanged");
''',
    'shuffle': r'''
  gen_shuffle(&gen, f);
  struct nv_idx mine = gen_shuffled(&gen, f);
  __CPROVER_assert(!nv_thrown, "shuffle(f): does not throw on a fitted generator");
  __CPROVER_assert(mine.n == ds.samples && mine.perm, "shuffle(f): the reported bijection of f is a permutation of all samples");
  __CPROVER_assert(!gen_should_drop(&gen, f), "shuffle(f): f is visible (not dropped)");
  struct nv_idx now = gen_shuffled(&gen, g);
  __CPROVER_assert(g == f || gen_should_drop(&gen, g) == dropped_g, "shuffle(f): the dropped flag of every other feature is unchanged");
  __CPROVER_assert(g == f || SAME_SHUF, "shuffle(f): the permutation of every other feature is unchanged");
''',
    'undrop': r'''
  gen_undrop(&gen);
  struct nv_idx now = gen_shuffled(&gen, g);
  __CPROVER_assert(!gen_should_drop(&gen, g), "undrop(): no feature is dropped");
  __CPROVER_assert(now.n == 0 || SAME_SHUF, "undrop(): the permutation of every feature is unchanged or gone");
''',
    'unshuffle': r'''
  gen_unshuffle(&gen);
  struct nv_idx now = gen_shuffled(&gen, g);
  __CPROVER_assert(now.n == 0, "unshuffle(): no feature is shuffled");
  __CPROVER_assert(!gen_should_drop(&gen, g) || dropped_g, "unshuffle(): the dropped flag of every feature is unchanged or cleared");
'''}


def gen_harness(op):
    body = GEN_HARNESS[op].replace('SAME_SHUF', GEN_SAME_SHUF)
    return ('int main(void)\n{' + GEN_SETUP + body +
            '  __CPROVER_assert(NV_GEN_INV(&gen, f) && NV_GEN_INV(&gen, g), "' + op + ': the representation invariant (flag byte is 0 / 1 / 2, a flag 2 owns a permutation of all samples) is re-established");\n'
            '  __CPROVER_assert(0, "nv_canary: end of harness reachable");\n  return 0;\n}\n')


def gen_fns(names):
    umap = r'std::unordered_map<long, nano::tensor_t<nano::tensor_vector_storage_t, long, 1>>'
    types = [(r'^nano::generator_t$', 'struct nv_generator'), (r'^nano::datasource_t$', 'struct nv_ds'),
             (r'^nano::rng_t$|^std::linear_congruential_engine<', 'struct nv_rng'),
             (r'^nano::indices_c?map_t$|^nano::indices_t$|tensor_t<nano::tensor_(vector|carray)_storage_t, long, 1>$', 'struct nv_idx'),
             (r'const_iterator$|^std::__detail::_Node_const_iterator<', 'struct nv_shufit'),
             (r'^nano::(scalar|sclass|mclass|struct)_map_t$|tensor_t<nano::tensor_marray_storage_t, (double|int|signed char), \d>$', 'struct nv_store'),
             (r'tensor_t<nano::tensor_vector_storage_t, unsigned char, 1>$|feature_infos_t$', 'struct nv_mask')]
    common = dict(self_struct='struct nv_generator', types=types, uf_float=False,
                  calls=[(r'^operator\(\)\|typename tbase::t(const|mutable)ref \(const nano::tensor_size_t\)', '{0}.p[{1}]'),
                         (r'^operator=\|Eigen::ArrayWrapper<Eigen::Map<Eigen::Matrix<unsigned char, -1, 1, 0>, 0>> &\(const .*Scalar &\)', 'nv_mask_fill({0}, {&1})'),
                         (r'^make_rng\|', 'nv_make_rng()'), (r'^arange\|', 'nv_arange({0}, {1})'),
                         (r'^(begin|end)\|auto \(nano::tensor_t<nano::tensor_vector_storage_t, long, 1> &\)', '{&0}'),
                         (r'^shuffle\|void \(long \*, long \*, std::linear_congruential_engine', 'nv_std_shuffle({0}, {1})'),
                         (r'^operator\[\]\|' + umap.replace('<', '<').replace('(', '\\(') + r'::mapped_type &', '(*nv_shufmap_at({&0}, {1}))'),
                         (r'^operator=\|nano::tensor_t<nano::tensor_vector_storage_t, long, 1> &\(const nano::tensor_t<nano::tensor_vector_storage_t, long, 1> &\)', '({0} = {1})'),
                         (r'^operator->\|std::__detail::_Node_const_iterator<.*::pointer \(\) const', 'nv_shufit_deref({&0})'),
                         (r'^ctor\|nano::tensor_t<nano::tensor_carray_storage_t, long, 1>\|void \(const ', '{0}')],
                  members=[(r'^array\|nano::tensor_t<nano::tensor_vector_storage_t, unsigned char, 1>', '{self}'),
                           (r'^clear\|std::unordered_map<long,', 'nv_shufmap_clear'),
                           (r'^find\|std::unordered_map<long,', 'nv_shufmap_find({self}, {0})'),
                           (r'^datasource\|nano::generator_t', '(*nv_gen_datasource({self}))!'),
                           (r'^samples\|nano::datasource_t', '{*self}.samples'),
                           (r'^should_drop\|nano::generator_t', 'gen_should_drop'),
                           (r'^full\|nano::tensor_t<nano::tensor_marray_storage_t, double, \d>', 'nv_store_full_d'),
                           (r'^full\|nano::tensor_t<nano::tensor_marray_storage_t, (int|signed char), \d>', 'nv_store_full_i'),
                           (r'^do_select\|nano::generator_t', 'nv_do_select')])
    flt = 'nano::generator_t::'
    table = {
        'drop': ('drop', None), 'undrop': ('undrop', None), 'shuffle': ('shuffle', None), 'unshuffle': ('unshuffle', None),
        'should_drop': ('should_drop', None),
        'shuffled': ('shuffled', lambda d: len(astload.param_types(d)) == 1),
    }
    for kind in ('scalar', 'sclass', 'mclass', 'struct'):
        table['select_' + kind] = ('select', (lambda k: lambda d: astload.param_types(d)[-1] == f'nano::{k}_map_t')(kind))
    return [Fn('gen_' + n, GENERATOR_TU, table[n][0], flt=flt, select=table[n][1], **common) for n in names]

PAIR_H = 'specs/C08/pairwise.h'
PAIR_TU = 'src/generator/pairwise_product.cpp'      # explicit instantiation of pairwise_generator_t<pairwise_product_t>
STORAGE = [('f32', 'float', 'float'), ('f64', 'double', 'double'), ('i8', 'signed char', 'int8_t'), ('i16', 'short', 'int16_t'),
           ('i32', 'int', 'int32_t'), ('i64', 'long', 'int64_t'), ('u8', 'unsigned char', 'uint8_t'), ('u16', 'unsigned short', 'uint16_t'),
           ('u32', 'unsigned int', 'uint32_t'), ('u64', 'unsigned long', 'uint64_t')]


def product_op_fn(t1, t2, uf=False):
    """the instantiation of the generic lambda in pairwise_product_t::process for the storage types (t1, t2)"""
    cxx = lambda t: f'nano::tensor_t<nano::tensor_carray_storage_t, {t[1]}, 3>'
    types = [(r'^nano::tensor_t<nano::tensor_carray_storage_t, ' + t[1] + r', 3>$', 'struct nv_t3_' + t[0]) for t in STORAGE]
    types += [(r'^\(lambda at .*pairwise_product\.h:\d+:\d+\)$', 'struct nv_op')]
    return Fn(f'product_op_{t1[0]}_{t2[0]}', PAIR_TU, 'process', flt='nano::pairwise_product_t::process', lambda_index=0,
              lambda_select=lambda m: astload.template_args(m) == [cxx(t1), cxx(t2)], self_struct='struct nv_op', types=types,
              calls=[(r'^operator\(\)\|typename tbase::tconstref \(const nano::tensor_size_t\) const', '{0}.p[{1}]')], uf_float=uf)


def product_target(t1):
    body = ['int main(void)\n{\n  struct nv_op op; nv_thrown = 0;']
    fns = []
    for t2 in STORAGE:
        fns.append(product_op_fn(t1, t2))
        body.append(f'  {{ {t1[2]} v1; {t2[2]} v2; struct nv_t3_{t1[0]} a; struct nv_t3_{t2[0]} b; a.p = &v1; a.n = 1; b.p = &v2; b.n = 1;\n'
                    f'    double r = product_op_{t1[0]}_{t2[0]}(&op, &a, &b);\n'
                    f'    __CPROVER_assert(NV_SAME(r, (double)v1 * (double)v2), "product({t1[0]}, {t2[0]}): the value is the product of the two stored values taken in scalar_t"); }}')
    body.append('  __CPROVER_assert(0, "nv_canary: end of harness reachable");\n  return 0;\n}\n')
    return Target('product_op_' + t1[0], fns, PAIR_H, enforce_none=True, harness="\n".join(body), timeout=30)

PAIRLOOP_H = 'specs/C08/pairloop.h'
PAIR_IT = 'nano::datasource_pairwise_iterator_t<int, 4, unsigned int, 4>'


def process_hook(P, n):
    """`this->process(ifeature)` (a static member called through this: the callee is a MemberExpr, not a DeclRefExpr)"""
    if n.get('kind') != 'CallExpr' or not n.get('inner'):
        return None
    from cxx2c import unwrap
    c = unwrap(n['inner'][0])
    if c.get('kind') != 'MemberExpr' or c.get('name') != 'process' or len(n['inner']) != 2:
        return None
    P.note('this->process(ifeature) -> nv_process')
    return f'nv_process({P.expr(n["inner"][1])})'


def pairloop_fns(which):
    t3 = lambda t: r'tensor_t<nano::tensor_carray_storage_t, ' + t + r', 3>'
    types = [(r'^nano::base_datasource_iterator_t$', 'struct nv_iter'),
             (r'^' + PAIR_IT.replace('<', '<') + r'$', 'struct nv_pairiter'),
             (r'^nano::indices_cmap_t$|tensor_t<nano::tensor_carray_storage_t, long, 1>', 'struct nv_ilist'),
             (r'^nano::mask_cmap_t$|tensor_t<nano::tensor_carray_storage_t, unsigned char, 1>', 'struct nv_mask'),
             (r'data[12]_cmap_t$|tensor_t<nano::tensor_carray_storage_t, (int|unsigned int), 4>$', 'struct nv_t4'),
             (r'^(nano::)?' + t3('int') + '$', 'struct nv_t3_i32'), (r'^(nano::)?' + t3('unsigned int') + '$', 'struct nv_t3_u32'),
             (r'^nano::tensor2d_map_t$|tensor_t<nano::tensor_marray_storage_t, double, 2>', 'struct nv_t2d'),
             (r'^nano::scalar_map_t$|tensor_t<nano::tensor_marray_storage_t, double, 1>', 'struct nv_t1d_out'),
             (r'^std::tuple<long, bool, nano::' + t3('int') + ', bool, nano::' + t3('unsigned int') + r'>$|^tuple<typename __decay_and_strip<long>::__type, typename __decay_and_strip< ?bool &>::__type, typename __decay_and_strip<' + t3('int') + '>::__type, typename __decay_and_strip< ?bool &>::__type, typename __decay_and_strip<' + t3('unsigned int') + '>::__type>$', 'struct nv_tuple5'),
             (r'^std::tuple<\(lambda at .*pairwise_product\.h:\d+:\d+\), long>$', 'struct nv_tuple_op_i64'),
             (r'^\(lambda at .*pairwise_product\.h:\d+:\d+\)$', 'struct nv_op')]
    ilist = [(r'^operator\(\)\|typename tbase::tconstref \(const nano::tensor_size_t\) const\|.*tensor_carray_storage_t, long, 1>', 'nv_ilist_at({&0}, {1})')]
    size1 = [(r'^size\|nano::tensor_base_t<long, 1, true>', '{*self}.n')]
    flt = 'nano::base_datasource_iterator_t'
    base = dict(self_struct='struct nv_iter', types=types, calls=ilist, uf_float=False,
                members=size1 + [(r'^index\|nano::base_datasource_iterator_t', 'iter_index'), (r'^size\|nano::base_datasource_iterator_t', 'iter_size')])
    fns = [Fn('iter_sample', DRV, 'sample', flt=flt, **base),
           Fn('iter_inc', DRV, 'operator++', flt=flt, select=lambda d: astload.param_types(d) == [], **base),
           Fn('iter_bool', DRV, 'operator bool', flt=flt, kinds=('CXXConversionDecl',), **base),
           Fn('iter_index', DRV, 'index', flt=flt, **base), Fn('iter_size', DRV, 'size', flt=flt, **base),
           Fn('mask_getbit', MASK_TU, 'getbit', flt='nano::getbit', types=types, calls=ELEM, uf_float=False)]
    deref = Fn('pairiter_deref', PAIR_TU, 'operator*', flt='nano::datasource_pairwise_iterator_t',
               select=lambda d: re_search(r'__decay_and_strip<tensor_t<nano::tensor_carray_storage_t, int, 3>>::__type, typename __decay_and_strip<const bool &>::__type, typename __decay_and_strip<tensor_t<nano::tensor_carray_storage_t, unsigned int, 3>>', d['type']['qualType']),
               self_struct='struct nv_pairiter', types=types, uf_float=False,
               calls=[(r'^getbit\|', 'mask_getbit'), (r'^make_tuple\|', '(struct nv_tuple5){ {0}, {1}, {2}, {3}, {4} }')],
               members=[(r'^sample\|nano::base_datasource_iterator_t \*', 'iter_sample(&{self}->base)'),
                        (r'^index\|nano::base_datasource_iterator_t \*', 'iter_index(&{self}->base)'),
                        (r'^tensor\|nano::tensor_t<nano::tensor_carray_storage_t, int, 4>', 'nv_t4_tensor_i32'),
                        (r'^tensor\|nano::tensor_t<nano::tensor_carray_storage_t, unsigned int, 4>', 'nv_t4_tensor_u32')])
    i32, u32 = [t for t in STORAGE if t[0] == 'i32'][0], [t for t in STORAGE if t[0] == 'u32'][0]
    op = product_op_fn(i32, u32, uf=True)   # the arithmetic is the product_op_* targets' business: here the product is uninterpreted
    loop_common = dict(self_struct='struct nv_gen', types=types, uf_float=False, hooks=[process_hook],
                       members=[(r'^operator bool\|nano::base_datasource_iterator_t', 'iter_bool(&({*self}).base)')])
    loop_calls = [(r'^operator\*\|tuple<.*\(\) const\|', 'pairiter_deref'),
                  (r'^operator\+\+\|nano::base_datasource_iterator_t &\(\)', 'iter_inc(&({0}).base)'),
                  (r'^operator\(\)\|(double|nano::scalar_t) \(const nano::tensor_t<nano::tensor_carray_storage_t, int, 3> &, const nano::tensor_t<nano::tensor_carray_storage_t, unsigned int, 3> &\) const', 'product_op_i32_u32')]
    if which == 'select':
        loop = Fn('pairwise_select_scalar', PAIR_TU, 'select_scalar', flt='pairwise_generator_t',
                  select=lambda d: astload.template_args(d) == [PAIR_IT],
                  calls=loop_calls + [(r'^operator\(\)\|typename tbase::tconstref \(const nano::tensor_size_t\) const\|.*tensor_marray_storage_t, double, 1>', '(*nv_out1_at({&0}, {1}))')], **loop_common)
    else:
        loop = Fn('pairwise_flatten', PAIR_TU, 'flatten', flt='pairwise_generator_t',
                  select=lambda d: (lambda ta: len(ta) == 2 and 'pairwise_product.h' in ta[0] and ta[1] == PAIR_IT)(astload.template_args(d)),
                  calls=loop_calls + [(r'^operator\(\)\|typename tbase::tconstref \(const nano::tensor_size_t, const (nano::tensor_size_t|long)\) const\|.*tensor_marray_storage_t, double, 2>', '(*nv_out2_at({&0}, {1}, {2}))')], **loop_common)
    return [loop, deref, op] + fns


def re_search(rx, text):
    import re
    return re.search(rx, text) is not None

STORAGE_H = 'specs/C08/storage.h'
DSRC_TU = 'src/datasource.cpp'
POOLS = ['f32', 'f64', 'i08', 'i16', 'i32', 'i64', 'u08', 'u16', 'u32', 'u64']

STORAGE_SETUP = r'''
int main(void)
{
  struct nv_dsrc ds; struct nv_features features; int64_t samples; struct nv_visitor op; uint64_t target;
  /* an arbitrary feature list, two arbitrary distinct features of it */
  __CPROVER_assume(1 <= features.size && features.size <= NV_MAXF);
  __CPROVER_assume(0 <= samples && samples <= NV_MAXN);
  __CPROVER_assume(0 <= nv_g1 && (uint64_t)nv_g1 < features.size && NV_G2);
  /* 1. which pool does the real visit() use?  (probe: the data source already holds the feature list) */
  ds.m_features = features; ds.m_testing.n = samples;
  ds.m_storage_range.rows = (int64_t)features.size; ds.m_storage_range.cols = 2;
  nv_thrown = 0; nv_probe = 1; nv_accesses = 0;
'''
# one feature: visit() after resize() stays inside the pool it picks, on the range and the type resize() recorded
STORAGE_ACCESS = STORAGE_SETUP.replace('NV_G2', 'nv_g2 == (int64_t)features.size /* one observed feature: the second ghost index is outside the list */') + r'''
  nv_which = 1; dsrc_visit(&ds, nv_g1, &op);
  __CPROVER_assert(!nv_thrown && nv_accesses == 1, "visit(): every feature kind is dispatched to exactly one pool access");
  const struct nv_pool* probe1 = nv_P1;
  /* 2. the real resize() */
  nv_probe = 0;
  dsrc_resize(&ds, samples, &features, target);
  __CPROVER_assert(!nv_thrown, "resize(): does not throw");
  __CPROVER_assert(ds.m_storage_type.size == features.size && ds.m_storage_range.rows == (int64_t)features.size && ds.m_features.size == features.size && ds.m_testing.n == samples,
                   "resize(): one recorded type / range per feature, the feature list and the sample count are stored");
  __CPROVER_assert(ds.m_storage_mask.rows == (int64_t)features.size && ds.m_storage_mask.cols == (samples + 7) / 8, "(d) resize(): the mask has one row per feature and (samples+7)/8 bytes per row");
  __CPROVER_assert(nv_T1 == NV_POOL_TYPE(&ds, nv_P1), "(c) resize(): the recorded storage type of a feature is the type of the pool visit() uses for it");
  /* 3. the real visit() again, on the resized data source ((a) is asserted at the access) */
  nv_accesses = 0;
  nv_which = 1; dsrc_visit(&ds, nv_g1, &op);
  __CPROVER_assert(!nv_thrown && nv_accesses == 1 && nv_P1 == probe1, "visit(): the pool depends on the feature descriptor only");
  __CPROVER_assert(nv_R1.m_begin == nv_RNG1[0] && nv_R1.m_end == nv_RNG1[1], "visit(): slices exactly the range resize() stored for the feature");
  __CPROVER_assert(0, "nv_canary: end of harness reachable");
  return 0;
}
'''
# exactly one feature, resize()'s loop unwound: the named clauses fail directly when the two dispatches disagree
STORAGE_SINGLE = STORAGE_ACCESS.replace('1 <= features.size && features.size <= NV_MAXF', 'features.size == 1')
# two features: rows of the same pool are never shared
STORAGE_DISJOINT = STORAGE_SETUP.replace('NV_G2', '0 <= nv_g2 && (uint64_t)nv_g2 < features.size && nv_g1 != nv_g2') + r'''
  nv_which = 1; dsrc_visit(&ds, nv_g1, &op);
  nv_which = 2; dsrc_visit(&ds, nv_g2, &op);
  __CPROVER_assert(!nv_thrown && nv_accesses == 2, "visit(): every feature kind is dispatched to exactly one pool access");
  nv_probe = 0;
  dsrc_resize(&ds, samples, &features, target);
  __CPROVER_assert(nv_P1 != nv_P2 || nv_RNG1[1] <= nv_RNG2[0] || nv_RNG2[1] <= nv_RNG1[0],
                   "(b) two different features that visit() serves from the same pool never share rows of it");
  __CPROVER_assert(0, "nv_canary: end of harness reachable");
  return 0;
}
'''


def static_constexpr_hook(tu, cls, names):
    """a static constexpr data member (maxu08, ...) prints as its initialiser expression, read from the class on every run"""
    def h(P, n):
        if n.get('kind') != 'DeclRefExpr':
            return None
        rd = n.get('referencedDecl', {})
        if rd.get('kind') != 'VarDecl' or rd.get('name') not in names:
            return None
        found = []
        for d in astload.dump(tu, f'{cls}::{rd["name"]}'):
            for x in astload.walk(d):
                if x.get('kind') == 'VarDecl' and x.get('name') == rd['name']:
                    init = [y for y in x.get('inner', []) if y.get('kind') not in ('FullComment',)]
                    if init:
                        found.append(init[0])
        if not found:
            from cxx2c import Unsupported
            raise Unsupported(f'initialiser of {cls}::{rd["name"]} not found')
        P.note(f'{cls}::{rd["name"]} -> its initialiser')
        return '(' + P.expr(found[0]) + ')'
    return h


def pool_access_hook(P, n):
    """op(feature, m_storage_X.slice(range).reshape(...), mask)  ->  nv_visit_access(self, &self->m_storage_X, range):
    the operator (a lambda of the caller) is not translated; which pool is sliced with which range is what matters"""
    from cxx2c import unwrap, Unsupported
    if n.get('kind') != 'CXXOperatorCallExpr' or len(n.get('inner', [])) != 5:
        return None
    callee = unwrap(n['inner'][0]).get('referencedDecl', {})
    obj = unwrap(n['inner'][1])
    if callee.get('name') != 'operator()' or obj.get('referencedDecl', {}).get('name') != 'op':
        return None
    data = unwrap(n['inner'][3])
    while data.get('kind') in ('MaterializeTemporaryExpr', 'ImplicitCastExpr', 'CXXBindTemporaryExpr', 'ExprWithCleanups'):
        data = data['inner'][0]
    if data.get('kind') != 'CXXMemberCallExpr' or data['inner'][0].get('name') != 'reshape':
        raise Unsupported('visit(): the data handed to op is not pool.slice(range).reshape(...)')
    sl = data['inner'][0]['inner'][0]
    while sl.get('kind') in ('MaterializeTemporaryExpr', 'ImplicitCastExpr', 'CXXBindTemporaryExpr'):
        sl = sl['inner'][0]
    if sl.get('kind') != 'CXXMemberCallExpr' or sl['inner'][0].get('name') != 'slice' or len(sl['inner']) != 2:
        raise Unsupported('visit(): the data handed to op is not pool.slice(range).reshape(...)')
    pool = sl['inner'][0]['inner'][0]
    P.note('op(feature, pool.slice(range).reshape(..), mask) -> nv_visit_access')
    return f'nv_visit_access(self, {P.addr(pool)}, {P.expr(sl["inner"][1])})'


def range_tensor_hook(P, n):
    """m_storage_range and the int64 value pool have the same C++ type (tensor_mem_t<tensor_size_t, 2>) but different C
    models (the range table has memory, a pool only dimensions): resize() on the range table is told apart by member name"""
    if n.get('kind') != 'CXXMemberCallExpr':
        return None
    me = n['inner'][0]
    if me.get('kind') != 'MemberExpr' or me.get('name') != 'resize':
        return None
    obj = me['inner'][0]
    while obj.get('kind') == 'ImplicitCastExpr':
        obj = obj['inner'][0]
    if obj.get('kind') != 'MemberExpr' or obj.get('name') != 'm_storage_range':
        return None
    P.note('m_storage_range.resize(rows, cols)')
    return f'nv_t2i_resize({P.addr(obj)}, {P.expr(n["inner"][1])}, {P.expr(n["inner"][2])})'


def storage_fns(const_visit=True):
    types = [(r'^nano::datasource_t$', 'struct nv_dsrc'), (r'^nano::feature_t$|value_type$', 'struct nv_feat'),
             (r'^nano::features_t$|^std::vector<nano::feature_t>$', 'struct nv_features'),
             (r'^nano::feature_type$', 'int32_t'), (r'^std::unordered_map<nano::feature_type, long>$', 'struct nv_counts'),
             (r'^std::pair<long, long>$|^pair<typename __decay_and_strip< ?(const )?long ?&?>::__type, typename __decay_and_strip< ?(const )?long ?&?>::__type>$', 'struct nv_pair_i64'), (r'^nano::tensor_range_t$', 'struct nv_range'),
             (r'^nano::tensor3d_dims_t$|^std::array<long, 3>$', 'struct nv_dims3'),
             (r'^nano::mask_c?map_t$|tensor_t<nano::tensor_c?m?array_storage_t, unsigned char, 1>', 'struct nv_mask1'),
             (r'^\(lambda at .*datasource\.cpp:\d+:\d+\)$', 'struct nv_visitor')]
    feat_members = [(r'^type\|nano::feature_t', 'nv_feat_type'), (r'^classes\|nano::feature_t', 'nv_feat_classes'),
                    (r'^dims\|nano::feature_t', '{*self}.m_dims')]
    hooks = [static_constexpr_hook(DSRC_TU, 'nano::datasource_t', ('maxu08', 'maxu16', 'maxu32')), pool_access_hook, range_tensor_hook]
    t2 = (r'^operator\(\)\|typename tbase::t(const|mutable)ref \(const nano::tensor_size_t, const int\)( const)?\|.*tensor_vector_storage_t, long, 2>', '(*nv_t2i_at({&0}, {1}, {2}))')
    vec_at = (r'^operator\[\]\|std::vector<nano::feature_t>::(const_)?reference \(std::vector::size_type\)', '(*nv_feature_at({&0}, {1}))')
    # visit() has a const overload (readers; instantiated in src/datasource.cpp by load()) and a non-const one (the writer
    # datasource_t::set; instantiated in src/datasource/tabular.cpp): both dispatch on their own
    vtu = DSRC_TU if const_visit else 'src/datasource/tabular.cpp'
    vsel = (lambda d: len(astload.template_args(d)) == 1 and 'datasource.cpp' in astload.template_args(d)[0] and d['type']['qualType'].rstrip().endswith('const')) if const_visit \
        else (lambda d: len(astload.template_args(d)) == 1 and 'datasource.h' in astload.template_args(d)[0] and not d['type']['qualType'].rstrip().endswith('const'))
    visit = Fn('dsrc_visit', vtu, 'visit', flt='nano::datasource_t::visit', select=vsel,
               self_struct='struct nv_dsrc', types=types + [(r'^\(lambda at .*datasource\.h:\d+:\d+\)$', 'struct nv_visitor')], uf_float=False,
               hooks=[static_constexpr_hook(vtu, 'nano::datasource_t', ('maxu08', 'maxu16', 'maxu32')), pool_access_hook, range_tensor_hook], aggregates=['struct nv_range'],
               calls=[t2, vec_at, (r'^make_range\|', '(struct nv_range){ {0}, {1} }'), (r'^critical0\|', 'nv_throw()')],
               members=feat_members + [(r'^samples\|nano::datasource_t', '{self}->m_testing.n'), (r'^mask\|nano::datasource_t', 'nv_dsrc_mask')])
    upd = lambda nm, t: Fn(nm, DSRC_TU, 'resize', flt='nano::datasource_t::resize', select=lambda d: len(astload.param_types(d)) == 3,
                           lambda_index=0, lambda_select=lambda m: astload.param_types(m)[1] == t, captures=True, types=types, uf_float=False,
                           aggregates=['struct nv_pair_i64'],
                           calls=[(r'^operator\[\]\|std::unordered_map<nano::feature_type, long>::mapped_type &', '(*nv_counts_at({&0}, {1}))'),
                                  (r'^make_pair\|', '(struct nv_pair_i64){ {0}, {1} }')])
    pool_rx = r'nano::tensor_(t<nano::tensor_vector_storage_t, |vector_storage_t<)(float|double|signed char|short|int|long|unsigned char|unsigned short|unsigned int|unsigned long), 2>'
    resize = Fn('dsrc_resize', DSRC_TU, 'resize', flt='nano::datasource_t::resize', select=lambda d: len(astload.param_types(d)) == 3,
                self_struct='struct nv_dsrc', types=types + [(r'^std::vector<nano::feature_type>$|storage_type_t$', 'struct nv_types')], uf_float=False, hooks=hooks,
                aggregates=['struct nv_pair_i64'],
                calls=[t2, vec_at,
                       (r'^operator\(\)\|.*\(nano::feature_type, long\) const\|', 'resize_upd_i64({1}, {2}, &size_storage)'),
                       (r'^operator\(\)\|.*\(nano::feature_type, int\) const\|', 'resize_upd_i32({1}, {2}, &size_storage)'),
                       (r'^operator\[\]\|std::unordered_map<nano::feature_type, long>::mapped_type &', '(*nv_counts_at({&0}, {1}))'),
                       (r'^operator\[\]\|std::vector<nano::feature_type>::reference \(std::vector::size_type\)', '(*nv_type_at({&0}, {1}))'),
                       (r'^operator=\|std::pair<long, long> &', '({0} = {1})'),
                       (r'^operator=\|std::vector<nano::feature_t> &', '({0} = {1})'),
                       (r'^size\|nano::tensor_size_t \(const tensor_dims_t<3', 'nv_dims3_size({0})')],
                members=feat_members + [(r'^size\|std::vector<nano::feature_t>', '{*self}.size'),
                                        (r'^resize\|std::vector<nano::feature_type>', 'nv_types_resize'),
                                        (r'^resize\|nano::tensor_t<nano::tensor_vector_storage_t, long, 2>', 'nv_t2i_resize'),
                                        (r'^resize\|nano::tensor_(t<nano::tensor_vector_storage_t, |vector_storage_t<|base_t<)long, 1', 'nv_t1i_resize'),
                                        (r'^zero\|nano::tensor_(t<nano::tensor_vector_storage_t, |vector_storage_t<|base_t<)long, 1', 'nv_t1i_zero'),
                                        (r'^size\|nano::tensor_base_t<long, 2, true>', 'nv_t2i_size'),
                                        (r'^resize\|' + pool_rx, 'nv_pool_resize'), (r'^zero\|' + pool_rx, 'nv_pool_zero')])
    return [resize, upd('resize_upd_i64', 'long'), upd('resize_upd_i32', 'int'), visit]


DROP_H = 'specs/C08/drop.h'


def byfeature_order_hook(P, n):
    """the wrappers hoist byfeature(feature) (it throws for an invalid index) in front of the statement that uses it: this is
    the C++17 order only where the call is the object / callee part of a postfix expression or stands alone (initialiser).
    As one of SEVERAL arguments of a call its order against the other arguments is unspecified: refused."""
    from cxx2c import Unsupported
    if n.get('kind') not in ('CallExpr', 'CXXMemberCallExpr', 'CXXOperatorCallExpr', 'CXXConstructExpr'):
        return None
    args = n.get('inner', [])[1:] if n.get('kind') != 'CXXConstructExpr' else n.get('inner', [])
    if len(args) < 2:
        return None
    for a in args:
        for x in astload.walk(a):
            if x.get('kind') == 'MemberExpr' and x.get('name') == 'byfeature':
                raise Unsupported('byfeature(..) inside one of several call arguments: evaluation order unspecified')
    return None


def wrapper_fns(name):
    """dataset_t::drop / shuffle / shuffled / undrop / unshuffle: thin wrappers around byfeature + one generator call (or a
    loop over the generators); every read of m_feature_mapping by the wrapper goes through the bounds-checked, counting
    accessor nv_fm_read"""
    tu = 'src/dataset.cpp'
    gv = r'std::vector<std::unique_ptr<nano::generator_t'
    types = TYPES + [(r'^nano::datasource_t$', 'struct nv_datasource'),
                     (r'__normal_iterator<\s*(const )?std::unique_ptr<nano::generator_t|^' + gv + r'.*>::(const_)?iterator$', 'int64_t'),
                     (r'^nano::rgenerator_t$|^std::unique_ptr<nano::generator_t', 'struct nv_rgen'),
                     (r'^nano::rgenerators_t$|^' + gv, 'struct nv_gens'),
                     (r'^nano::indices_t$|tensor_t<nano::tensor_vector_storage_t, long, 1>$', 'struct nv_idxv')]
    calls = ELEM + [(r'^operator\(\)\|typename tbase::tconstref \(const nano::tensor_size_t, const int\) const\|.*tensor_vector_storage_t, long, 2>', '(*nv_fm_read({&0}, {1}, {2}))'),
                    (r'^operator->\|std::unique_ptr<nano::generator_t>::pointer \(\) const', '{&0}'),
                    (r'^operator!=\|.*__normal_iterator', '({0} != {1})'), (r'^operator\+\+\|.*__normal_iterator', '(++{0})'),
                    (r'^operator\*\|.*__normal_iterator', '(*nv_gens_at(&self->m_generators, {0}))'),
                    (r'^operator\[\]\|std::vector<std::unique_ptr<nano::generator_t>>::const_reference \(std::vector::size_type\) const', '(*nv_gens_at({&0}, (int64_t)({1})))'),   # an index loop
                    (r'^ctor\|nano::tensor_t<nano::tensor_carray_storage_t, long, 1>\|', '{0}')]
    members = SIZE1 + [(r'^size\|' + gv, '{*self}.size'), (r'^byfeature\|nano::dataset_t', '(*dataset_byfeature({self}, {0}))!^'),
                       (r'^begin\|' + gv, 'nv_gens_begin'), (r'^end\|' + gv, 'nv_gens_end'),
                       (r'^drop\|nano::generator_t \*', 'nv_generator_drop'), (r'^shuffle\|nano::generator_t \*', 'nv_generator_shuffle'),
                       (r'^shuffled\|nano::generator_t \*', 'nv_generator_shuffled'),
                       (r'^undrop\|nano::generator_t \*', 'nv_generator_undrop({self}, &self->m_generators)'), (r'^unshuffle\|nano::generator_t \*', 'nv_generator_unshuffle({self}, &self->m_generators)')]
    sel = (lambda d: len(astload.param_types(d)) == 2) if name == 'shuffled' else None
    w = Fn('dataset_' + name, tu, name, flt='nano::dataset_t::' + name, select=sel, self_struct='struct nv_dataset', types=types, uf_float=False,
           hooks=[byfeature_order_hook, size_rank2_hook(tu)], calls=calls, members=members)
    if name in ('undrop', 'unshuffle'):
        return [w]
    _, chk_f, byf, feats, _ = dataset_fns()
    return [w, byf, chk_f, feats]


PROC_H = 'specs/C08/process.h'
EBASE_TU = 'src/generator/elemwise_base.cpp'
PROC_KINDS = ('sclass', 'mclass', 'scalar', 'struct')


def process_fns(kind):
    """<kind>_identity_t::process / feature (elemwise_identity.{h,cpp}) + base_elemwise_generator_t::mapped_* (all extracted)"""
    types = [(r'^nano::datasource_t$', 'struct nv_dsrc'), (r'^nano::feature_t$', 'struct nv_feature'),
             (r'^nano::tensor3d_dims_t$|^std::array<long, 3>$|tensor_dims_t<3', 'struct nv_dims3'),
             (r'^std::tuple<\(lambda at .*elemwise_identity\.h:\d+:\d+\), long>$|^tuple<typename __decay_and_strip< ?(const )?\(lambda at .*elemwise_identity\.h:\d+:\d+\) ?&?>::__type, typename __decay_and_strip< ?(const )?long ?&?>::__type>$', 'struct nv_procret'),
             (r'^\(lambda at .*elemwise_identity\.h:\d+:\d+\)$', 'struct nv_op')]
    t2 = (r'^operator\(\)\|typename tbase::tconstref \(const nano::tensor_size_t, const int\) const\|.*tensor_vector_storage_t, long, 2>', '(*nv_t2i_at({&0}, {1}, {2}))')
    common = dict(self_struct='struct nv_egen', types=types, uf_float=False,
                  calls=[t2, (r'^make_dims\|', 'nv_make_dims3({0}, {1}, {2})'),
                         (r'^size\|nano::tensor_size_t \(const tensor_dims_t<3', 'nv_dims3_size({0})'),
                         (r'^max\|const long &\(const long &, const long &\)', 'nv_max_i64({0}, {1})'), (r'^min\|const long &\(const long &, const long &\)', 'nv_min_i64({0}, {1})'),
                         (r'^make_tuple\|', '(struct nv_procret){ {1} }')],       # the operator (argument 0) is not translated
                  members=[(r'^mapped_original\|', 'egen_mapped_original'), (r'^mapped_classes\|', 'egen_mapped_classes'),
                           (r'^mapped_dims\|', 'egen_mapped_dims'),
                           (r'^datasource\|nano::generator_t', '(*nv_gen_datasource({self}))'),
                           (r'^feature\|nano::datasource_t', 'nv_dsrc_feature({self}, {0})')])
    cls = f'nano::{kind}_identity_t::'
    fns = [Fn(f'{kind}_process', GEN_TU, 'process', flt=cls + 'process', **common),
           Fn(f'{kind}_feature', GEN_TU, 'feature', flt=cls + 'feature', **common)]
    for nm in ('mapped_original', 'mapped_classes', 'mapped_dims'):
        fns.append(Fn('egen_' + nm, EBASE_TU, nm, flt='nano::base_elemwise_generator_t::' + nm, **common))
    return fns


def process_harness(kind):
    args = '&gen, i'      # (scalar_identity_t::process is a static member: the printer gives it the self parameter all the same)
    return ('int main(void)\n{\n  NV_PROCESS_SETUP(NV_KIND_' + kind.upper() + ')\n'
            f'  struct nv_feature f = {kind}_feature(&gen, i);\n'
            f'  struct nv_procret r = {kind}_process({args});\n'
            f'  __CPROVER_assert(!nv_thrown, "{kind} identity: feature(i) / process(i) do not throw for a valid generator-local index");\n'
            f'  __CPROVER_assert(f.m_type == nv_F.m_type && f.m_classes == nv_F.m_classes && f.m_dims.nv_size == nv_F.m_dims.nv_size, "{kind} identity: feature(i) is the descriptor of the original feature the mapping names");\n'
            f'  __CPROVER_assert(r.colsize == NV_COLUMNS(f), "{kind} identity: process(i) reports exactly the number of flatten columns that dataset_t::update() books for feature(i) (NV_COLUMNS of columns.h)");\n'
            '  __CPROVER_assert(0, "nv_canary: end of harness reachable");\n  return 0;\n}\n')


PBASE_TU = 'src/generator/pairwise_base.cpp'
FEATURE_TU = 'src/feature.cpp'


def feature_scalar_decl():
    """the in-class declaration of feature_t::scalar (the one that carries the default arguments)"""
    for d in astload.dump(FEATURE_TU, 'nano::feature_t'):
        for x in astload.walk(d):
            if x.get('kind') == 'CXXMethodDecl' and x.get('name') == 'scalar' and \
               any(c.get('kind') == 'ParmVarDecl' and any(k.get('kind') != 'FullComment' for k in c.get('inner', [])) for c in x.get('inner', [])):
                return x
    from cxx2c import Unsupported
    raise Unsupported('declaration of feature_t::scalar with default arguments not found')


def feature_scalar_hook():
    import hooks
    inner = hooks.member_default_args_hook('scalar', r'nano::feature_t', 'feature_scalar', feature_scalar_decl)

    def h(P, n):
        t = inner(P, n)
        return None if t is None else f'(*{t})'      # feature_t::scalar returns *this by reference
    return h


def product_process_fns():
    """pairwise_product_t::process / feature + base_pairwise_generator_t::make_scalar_feature / mapped_original1/2 + feature_t::scalar"""
    types = [(r'^nano::datasource_t$', 'struct nv_dsrc'), (r'^nano::feature_t$', 'struct nv_feature'), (r'^nano::feature_type$', 'int32_t'),
             (r'^nano::tensor3d_dims_t$|^std::array<long, 3>$|tensor_dims_t<3', 'struct nv_dims3'),
             (r'^std::tuple<\(lambda at .*pairwise_product\.h:\d+:\d+\), long>$|^tuple<typename __decay_and_strip< ?(const )?\(lambda at .*pairwise_product\.h:\d+:\d+\) ?&?>::__type, typename __decay_and_strip< ?(const )?long ?&?>::__type>$', 'struct nv_procret'),
             (r'^\(lambda at .*pairwise_product\.h:\d+:\d+\)$', 'struct nv_op')]
    t2 = (r'^operator\(\)\|typename tbase::tconstref \(const nano::tensor_size_t, const int\) const\|.*tensor_vector_storage_t, long, 2>', '(*nv_t2i_at({&0}, {1}, {2}))')
    common = dict(types=types, uf_float=False, hooks=[feature_scalar_hook()],
                  calls=[t2, (r'^make_dims\|', 'nv_make_dims3({0}, {1}, {2})'),
                         (r'^make_tuple\|', '(struct nv_procret){ {1} }'),
                         (r'^ctor\|nano::feature_t\|void \((const )?(nano::)?feature_t &&?\)', '{0}'),      # copy / move of a descriptor
                         (r'^ctor\|nano::feature_t\|void \(((nano::)?string_t|std::(__cxx11::)?basic_string<char>|std::string)\)', 'nv_feature_named()'),          # feature_t{name}: the name is not modelled
                         (r'^operator=\|std::array<long, 3> &', '({0} = {1})')],
                  members=[(r'^mapped_original1\|', 'pgen_mapped_original1'), (r'^mapped_original2\|', 'pgen_mapped_original2'),
                           (r'^make_scalar_feature\|', 'pgen_make_scalar_feature'),
                           (r'^datasource\|nano::generator_t', '(*nv_gen_datasource({self}))'),
                           (r'^feature\|nano::datasource_t', 'nv_dsrc_feature_ref'),
                           (r'^clear\|std::vector<std::(__cxx11::)?basic_string', 'nv_feature_clear_labels(self)')])
    gen = dict(self_struct='struct nv_egen', **common)
    return [Fn('product_process', PAIR_TU, 'process', flt='nano::pairwise_product_t::process', **gen),
            Fn('product_feature', PAIR_TU, 'feature', flt='nano::pairwise_product_t::feature', **gen),
            Fn('pgen_make_scalar_feature', PBASE_TU, 'make_scalar_feature', flt='nano::base_pairwise_generator_t::make_scalar_feature', **gen),
            Fn('pgen_mapped_original1', PBASE_TU, 'mapped_original1', flt='nano::base_pairwise_generator_t::mapped_original1', **gen),
            Fn('pgen_mapped_original2', PBASE_TU, 'mapped_original2', flt='nano::base_pairwise_generator_t::mapped_original2', **gen),
            Fn('feature_scalar', FEATURE_TU, 'scalar', flt='nano::feature_t::scalar', self_struct='struct nv_feature', **common)]


PRODUCT_PROCESS = r"""
int main(void)
{
  NV_PAIR_SETUP
  struct nv_feature f = product_feature(&gen, i);
  struct nv_procret r = product_process(&gen, i);
  __CPROVER_assert(!nv_thrown, "pairwise product: feature(i) / process(i) do not throw for a valid generator-local index");
  __CPROVER_assert(f.m_type != NVE_feature_type_sclass && f.m_type != NVE_feature_type_mclass && f.m_classes == 0, "pairwise product: feature(i) is a continuous feature without labels");
  __CPROVER_assert(r.colsize == NV_COLUMNS(f), "pairwise product: process(i) reports exactly the number of flatten columns that dataset_t::update() books for feature(i) (NV_COLUMNS of columns.h)");
  __CPROVER_assert(0, "nv_canary: end of harness reachable");
  return 0;
}
"""


UPD_H = 'specs/C08/update.h'
import os as _os
CBMC_TIMEOUT_DEFAULT = int(_os.environ.get('NV_CBMC_TIMEOUT', '600'))
FEATURE_TYPE_ENUM = [('src/dataset.cpp', 'nano::feature_type')]


def table_write_hook(P, n):
    """`table(i, j) = value` on a rank-2 index tensor -> nv_map_set(&table, i, j, value): the write is a call of the ghost-row
    setter (no pointer into the model is handed out)"""
    import re
    from cxx2c import unwrap, strip_cv, qual
    if n.get('kind') != 'BinaryOperator' or n.get('opcode') != '=':
        return None
    lhs = unwrap(n['inner'][0])
    if lhs.get('kind') != 'CXXOperatorCallExpr' or len(lhs.get('inner', [])) != 4:
        return None
    if unwrap(lhs['inner'][0]).get('referencedDecl', {}).get('name') != 'operator()':
        return None
    obj = lhs['inner'][1]
    if not re.search(r'tensor_(t<nano::tensor_vector_storage_t, |vector_storage_t<|base_t<)long, 2|tensor_mem_t<(nano::)?tensor_size_t, 2', strip_cv(qual(obj['type']))):
        return None
    P.note('table(i, j) = v -> nv_map_set')
    return f'nv_map_set({P.addr(obj)}, {P.expr(lhs["inner"][2])}, {P.expr(lhs["inner"][3])}, {P.expr(n["inner"][1])})'


def update_fns():
    """dataset_t::update(): the two passes over the generator list that build the feature / column / generator tables"""
    gv = r'std::vector<std::unique_ptr<nano::generator_t'
    types = [(r'__normal_iterator<\s*(const )?std::unique_ptr<nano::generator_t|^' + gv + r'.*>::(const_)?iterator$', 'int64_t'),
             (r'^nano::rgenerator_t$|^std::unique_ptr<nano::generator_t', 'struct nv_rgen'),
             (r'^nano::rgenerators_t$|^' + gv, 'struct nv_gens'),
             (r'^nano::feature_t$', 'struct nv_feature'), (r'^nano::feature_type$', 'int32_t'),
             (r'^nano::tensor3d_dims_t$|^std::array<long, 3>$|tensor_dims_t<3', 'struct nv_dims3')]
    t2 = r'nano::tensor_(t<nano::tensor_vector_storage_t, |vector_storage_t<|base_t<)long, 2'
    calls = [(r'^operator!=\|.*__normal_iterator', '({0} != {1})'), (r'^operator\+\+\|.*__normal_iterator', '(++{0})'),
             (r'^operator\*\|.*__normal_iterator', '(*nv_gens_at(&self->m_generators, {0}))'),
             (r'^operator->\|std::unique_ptr<nano::generator_t>::pointer \(\) const', '{&0}'),
             (r'^size\|nano::tensor_size_t \(const tensor_dims_t<3', 'nv_dims3_size({0})'),
             (r'^operator\[\]\|.*std::array<long, 3>', 'nv_dims3_get({0}, {1})'),
             ]
    members = [(r'^begin\|' + gv, 'nv_gens_begin'), (r'^end\|' + gv, 'nv_gens_end'),
               (r'^features\|nano::generator_t', 'nv_gen_features'), (r'^feature\|nano::generator_t', 'nv_gen_feature'),
               (r'^type\|nano::feature_t', 'nv_feat_type'), (r'^classes\|nano::feature_t', 'nv_feat_classes'), (r'^dims\|nano::feature_t', '{*self}.m_dims'),
               (r'^resize\|' + t2, 'nv_map_resize')]
    return [Fn('dataset_update', 'src/dataset.cpp', 'update', flt='nano::dataset_t::update', self_struct='struct nv_dataset', types=types,
               uf_float=False, calls=calls, members=members, hooks=[table_write_hook])]


def build(tier):
    targets = []
    if tier == 'thorough':
        # dataset_t::update() under contract (5 nested loop contracts, ghost prefix-sum arrays): ~4 minutes of SAT time, hence not in the quick tier
        targets.append(Target('dataset_update', update_fns, UPD_H, enforce='dataset_update', enums=FEATURE_TYPE_ENUM, cbmc_flags=['--arrays-uf-always'], timeout=max(300, CBMC_TIMEOUT_DEFAULT)))
    setbit, getbit, optional = mask_fns()
    targets.append(Target('mask_setbit', [setbit], MASK_H))
    targets.append(Target('mask_getbit', [getbit], MASK_H))
    s2, g2, _ = mask_fns()
    targets.append(Target('mask_roundtrip', [s2, g2], MASK_H, enforce_none=True, harness=ROUNDTRIP))
    # optional: the real getbit is inlined; element reads go through a stub that records the byte index as a witness
    _, g3, o3 = mask_fns(elem=[(r'^operator\(\)\|typename tbase::tconstref \(const nano::tensor_size_t\)', '(*nv_mask_at({&0}, {1}))')])
    targets.append(Target('mask_optional', [o3, g3], MASK_H))
    s4, g4, _ = mask_fns()
    targets.append(Target('mask_make', [make_mask_fn(), s4, g4], MASK_H, enforce_none=True, harness=MAKE))
    sample, inc, boolean, index, size = iter_fns()
    targets.append(Target('iter_sample', [sample], ITER_H))
    targets.append(Target('iter_inc', [inc], ITER_H))
    targets.append(Target('iter_bool', [boolean, index, size], ITER_H))
    chk_s, chk_f, byf, feats, dss = dataset_fns()
    targets.append(Target('dataset_check_samples', [chk_s, dss], DS_H))
    chk_s, chk_f, byf, feats, dss = dataset_fns()
    targets.append(Target('dataset_check_feature', [chk_f, feats], DS_H))
    chk_s, chk_f, byf, feats, dss = dataset_fns()
    targets.append(Target('dataset_byfeature', [byf, chk_f, feats], DS_H, replace=['dataset_check_feature']))
    targets.append(Target('iter_protocol', list(iter_fns()), ITER_H, enforce_none=True, harness=ITER_PROTOCOL))
    chk_s, chk_f, byf, feats, dss = dataset_fns()
    _, g5, _ = mask_fns()
    targets.append(Target('dataset_guarded_read', [chk_s, dss, g5] + list(iter_fns()), DS_H, enforce_none=True, harness=GUARDED_READ))
    targets.append(Target('flatten_sclass_u8', flatten_fns(), FLAT_H))
    for t1 in STORAGE:
        targets.append(product_target(t1))
    targets.append(Target('datasource_storage_access', storage_fns(), STORAGE_H, enforce_none=True, harness=STORAGE_ACCESS))
    targets.append(Target('datasource_storage_disjoint', storage_fns(), STORAGE_H, enforce_none=True, harness=STORAGE_DISJOINT))
    for nm, cv in (('datasource_storage_single', True), ('datasource_storage_single_w', False)):
        targets.append(Target(nm, storage_fns(const_visit=cv), 'specs/C08/storage_single.h', enforce_none=True, harness=STORAGE_SINGLE, loops=0, cbmc_flags=['--unwind', '3', '--unwinding-assertions']))
    targets.append(Target('datasource_storage_access_w', storage_fns(const_visit=False), STORAGE_H, enforce_none=True, harness=STORAGE_ACCESS))
    targets.append(Target('datasource_storage_disjoint_w', storage_fns(const_visit=False), STORAGE_H, enforce_none=True, harness=STORAGE_DISJOINT))
    targets.append(Target('pairwise_select_scalar', pairloop_fns('select'), PAIRLOOP_H))
    targets.append(Target('pairwise_flatten', pairloop_fns('flatten'), PAIRLOOP_H))
    for op in ('drop', 'shuffle', 'undrop', 'unshuffle'):
        targets.append(Target('gen_' + op, gen_fns([op, 'should_drop', 'shuffled']), GEN_H, enforce_none=True, harness=gen_harness(op)))
    targets.append(Target('gen_should_drop', gen_fns(['should_drop']), GEN_H))
    for kind in ('scalar', 'sclass', 'mclass', 'struct'):
        targets.append(Target('gen_select_' + kind, gen_fns(['select_' + kind, 'should_drop']), GEN_H))
    for kind in ('sclass', 'mclass', 'scalar', 'struct'):
        targets.append(Target('dataset_select_' + kind, select_fns(kind), SEL_H, replace=['dataset_byfeature', 'dataset_check_samples']))
    for kind in PROC_KINDS:
        targets.append(Target('process_' + kind, process_fns(kind), PROC_H, enforce_none=True, harness=process_harness(kind), enums=FEATURE_TYPE_ENUM, timeout=60))
    targets.append(Target('process_product', product_process_fns, PROC_H, enforce_none=True, harness=PRODUCT_PROCESS, enums=FEATURE_TYPE_ENUM, timeout=60))
    for nm in ('drop', 'shuffle', 'shuffled'):
        targets.append(Target('dataset_' + nm, wrapper_fns(nm), DROP_H, replace=['dataset_byfeature']))
    for nm in ('undrop', 'unshuffle'):
        targets.append(Target('dataset_' + nm, wrapper_fns(nm), DROP_H))
    return {
        'targets': targets, 'vcs': [],
        'decided': [
            'bit mask (mask.h): setbit(m,s) sets the bit of s, leaves the bit of every other sample unchanged (ghost index), writes only byte s/8, clears nothing; getbit reads byte s/8 < (samples+7)/8 only; layout-free round trip of the real setbit+getbit for every sample value; make_mask<1> allocates (samples+7)/8 bytes with every bit clear; optional(mask, samples) <=> some sample in [0, samples) has no value (both directions)',
            'base_datasource_iterator_t: sample() = samples[index] / shuffled[samples[index]] with every read in bounds and the result in [0, N); operator++ / operator bool; the for(; it; ++it) protocol keeps 0 <= index <= size and never evaluates sample() at index == size',
            'range guards: dataset_t::check(feature) throws iff the index is outside [0, features()); byfeature rejects an invalid index before indexing and returns m_generators[mapping(feature, 0)] in bounds; check(samples) returning normally => every listed index >= 0 [proved] and < samples() [REFUTED on the unchanged library: `>` instead of `>=`]',
            'guarded read chain: real check(samples) + real iterator + real getbit: the sample handed to the storage readers is in [0, N) and every read is inside its buffer [REFUTED on the unchanged library for the index N]',
            'dataset_t::select(samples, feature, buffer) x4: the reader (generator_t::select) is reached only after the sample guard ran on this very list without throwing and with a valid feature index, on the mapped generator / local feature, one row per listed sample; an invalid feature index throws and nothing is read',
            'one-hot flatten (elemwise_generator_t<sclass_identity_t>::flatten, 8-bit labels) with the real operator*, iterator, getbit and label operator: every cell of the processed rows inside [column, column+colsize) is +1 / -1 by the documented C-1 column encoding or NaN when the value is missing, every other cell is untouched, every row / segment / one-hot index is inside the buffer',
            'typed value pools: for every feature list (any length, kinds, class counts -- every storage-width boundary --, dimensions) the real visit() (reader and writer overload) slices the pool whose type the real resize() recorded for the feature, inside the rows resize() gave that pool; two features never share rows of a pool; the mask has one row per feature and (samples+7)/8 bytes; no width rule is written in the spec (the two real dispatches are compared); datasource_storage_access*: dsrc_resize.loop_invariant_step.3/.4 = clause (c)+(a) at the observed features, step.5 = clause (b); datasource_storage_single*: the same clauses as named assertions for one-feature data sources',
            'pairwise product: the operator of pairwise_product_t::process equals (scalar_t)v1 * (scalar_t)v2 with IEEE semantics for all 10 x 10 storage-type instantiations; pairwise select_scalar / flatten (int32 x uint32): a cell is that product of the two stored sources of the sample behind the row when both are given, NaN otherwise, every other cell untouched, all reads in bounds',
            '[thorough tier] dataset_t::update() (real body, 5 loop contracts, for every generator list of up to 1000 generators / 1000 generated features, feature counts and column counts given by ghost prefix sums fbase / cbase): ESTABLISHES the bookkeeping invariant from any prior state: feature table has one row per generated feature and 5 columns, column table one row per flattened column (documented encodings: one-hot C-1, multi-label C, scalar / structured size(dims)) and 3 columns, generator table one row per generator; every write of the three tables is inside its table and every row is written; row f of the feature table names a generator g in [0, generators) that owns f (fbase[g] <= f < fbase[g+1]), the local index f - fbase[g] and the dimensions of the descriptor (mclass: (classes,1,1), scalar / struct: dims()); row c of the column table names the feature k < features() that owns c (cbase[k] <= c < cbase[k+1]: the column ranges of the features are consecutive, disjoint and tile [0, columns()), column2feature answers with the owner), the local column c - cbase[k] and a generator that owns k; row g of the generator table is the width of the column range [cbase[fbase[g]], cbase[fbase[g+1]]) that dataset_t::flatten hands to generator g; generator->feature(i) is only called with a valid local index',
            'dataset_t::drop(f) / shuffle(f) / shuffled(f, samples) (real bodies, byfeature by its proved contract, m_feature_mapping as a real bounds-checked array whose every read by the wrapper is an access obligation 0 <= f < rows and is counted): an index outside [0, features()) throws, the generator is not called and NO cell of the mapping table is read on that path (dataset_<op>.postcondition.1-3, nv_t2i_at.assertion.1); a valid index does not throw and is forwarded exactly once, to the right operation, of the generator the table names (column 0) with the generator-local index (column 1) (postcondition.4-5); shuffled hands back the generator\'s answer for the caller\'s sample list; dataset_t::undrop() / unshuffle() (loop contract): every generator of the list (ghost slot) gets exactly one call of the right operation, no table cell is read, nothing throws',
            'generator side of the column bookkeeping (quick tier): for the four identity generators (sclass / mclass / scalar / struct) and the pairwise product generator (real pairwise_product_t::process / feature, base_pairwise_generator_t::make_scalar_feature / mapped_original1/2, feature_t::scalar with its default dimensions read from the declaration) the real process(i) reports exactly NV_COLUMNS(feature(i)) flatten columns, with the real feature(), mapped_original / mapped_classes / mapped_dims and every read of the generator\'s mapping table in bounds; NV_COLUMNS is ONE macro (specs/C08/columns.h) shared with the contract of dataset_t::update() (thorough tier), so a generator whose width disagrees with the bookkeeping fails process_<kind>/main.assertion.3; feature(i) is the descriptor of the original feature the mapping names (main.assertion.2)',
            'drop / shuffle protocol: transition contracts of drop / shuffle / undrop / unshuffle over every reachable state, observed through the real should_drop / shuffled readers (hence for every call sequence, by induction); generator_t::select x4: a dropped feature is filled with NaN / -1 and its values are not computed, otherwise do_select runs on exactly these arguments'],
        'not_decided': [
            'agreement of the per-feature and flattened views for the other 11 feature kinds / storage widths, product and gradient generators, targets (the instantiations that exist were not enumerated with astload.instantiations in this round)',
            'the invariant proved for dataset_t::update() (thorough tier) is not yet wired into its callers: byfeature / select / flatten still ASSUME it at the queried row (the assumed instance -- 5 columns, 0 <= mapping(f, 0) < generators -- is a consequence of clauses 1 and 3 of the update contract, but no refinement target checks that implication); the loop of dataset_t::flatten that adds up the generator widths is not under contract',
            'column width of the other generators (elemwise_gradient_t::process: rows * cols against make_struct_feature; the sclass / mclass / struct pairwise kinds, which have no generator in the library yet): not under contract; that elemwise_generator_t::flatten advances its column by exactly the colsize of process(i) is proved for the sclass / 8-bit instantiation only (flatten_sclass_u8)',
            'the fit() side of the identity generators: detail::select (include/nano/generator/select.h, nested generic lambdas) builds the generator\'s mapping table; its result (row k = original index, classes(), dims() of a data-source feature of the generator\'s kind) is ASSUMED at the queried row by the process_* targets',
            'dataset_t::drop / shuffle / shuffled: byfeature(feature) is hoisted in front of the statement that uses it (C++17: the postfix expression of a call is sequenced before its arguments); a source that passes byfeature(..) as one of SEVERAL arguments of a call (unspecified order) is refused (exit 2), not decided',
            'the thread-parallel dataset_t::flatten / targets bodies; generator_t::shuffled(feature, samples) (the loop that applies the permutation) and flatten_dropped',
            'the reshape arithmetic inside datasource_t::visit (only pool and row range are observed) and the value conversion in datasource_t::set / feature_storage_t',
            'pairwise loops for the other 99 storage-type pairs and the sclass / mclass / struct pairwise generators (same template text, other instantiations)',
            'make_mask for rank > 1: the index of std::get<trank-1> is not visible in the AST dump of the instantiation',
            'empty sample lists: Eigen minCoeff/maxCoeff of an empty vector are undefined (the stubs return an arbitrary value)',
            'dataset_t::column2feature(column) has no range check at all (columns are not named by the property clause)'],
        'assumptions': [
            'storage targets: feature_t::type() is one of the enumerators, classes() is in [0, 2^40], size(dims) is in [0, 2^40] (C16 proves nano::size); which enumerator a pool member stores (m_storage_u08 <-> uint8, ... by element type); the feature list, m_storage_type and m_storage_range are observed at two ghost features (other elements read as arbitrary values); unordered_map<feature_type, tensor_size_t>::operator[] value-initialises to 0; pool.resize(rows, samples) sets the dimensions',
            'pairwise targets: tensor(sample) of a rank-4 value tensor is the component block of that sample (at least one component), observed at the stored sample behind the ghost row; process(ifeature) returns the operator checked in product_op_* and colsize 1; in the loop targets the double multiplication is uninterpreted (its arithmetic is decided in product_op_*)',
            'generator targets: the permutation map is modelled over the keys [0, features) (operator[] inserts, find / iterator dereference, clear); arange(0, n) is a permutation of [0, n) and std::shuffle keeps it one; generator_t::NaN is a NaN; do_select / full are recorded by ghost variables',
            'indices.min() / indices.max() (Eigen minCoeff / maxCoeff): min <= a[g] and max >= a[g] at a ghost position g, arbitrary result for an empty list',
            'tensor_t::operator()(i) on rank-1 maps is p[i] (bounds become CBMC pointer checks); tensor_t::operator()(i, j) on the rank-2 feature mapping is the row-major element p[i*cols+j] with its index precondition checked at each use (C16 proves nano::index)',
            'tensor.size<k>() / size() return the k-th / only dimension; std::vector::operator[] is p[i] (bounds checked)',
            'mask of a feature has (samples+7)/8 bytes (datasource_t::resize: m_storage_mask.resize(features, (samples + 7) / 8)); callers pass 0 <= sample < samples (datasource_t::set asserts it; for readers this is exactly what dataset_t::check(samples) must establish)',
            'tensor_mem_t<uint8_t,1>(dims) allocates size(dims) elements; tensor.zero() sets every element to 0',
            'update target: generator_t::features() / feature(i) are pure functions of (generator, i) answered from ghost prefix-sum arrays (features(g) >= 0; at most 1000 generators, 1000 generated features, 2^40 columns in total); feature_t: classes() >= 1 for a single-label feature, >= 0 otherwise, size(dims) >= 0 is the number of components (C16 proves nano::size); tensor.resize(rows, cols) sets the dimensions and leaves arbitrary contents; the three tables are observed at one ghost row each plus the largest row ever written; range-for over m_generators visits the slots 0 .. size-1 in order',
            'dataset invariant from dataset_t::update() (now proved for update() itself in the thorough tier, still assumed by the callers), used only at the queried row: m_feature_mapping has 5 columns and mapping(feature, 0) is a valid index into m_generators',
            'the permutation m_shuffled_all_samples is empty or has samples() entries each in [0, samples()) (generator_t::shuffle: std::shuffle of arange)',
            'flatten target: the listed samples are valid indices (what check(samples) must establish) -- every list read returns some index in [0, N); the flatten buffer is tracked at one ghost cell (the function never reads it); Eigen segment / setConstant / coefficient access have their documented meaning with their index preconditions checked at each use; dataset_t::flatten maps the buffer to samples.size() rows and hands the generator a column range inside it; generator_t::NaN is a NaN',
            'select targets: dataset_t::feature(i) throws for an invalid i (as proved for byfeature) and otherwise returns an arbitrary descriptor; handle_<kind> throws unless the descriptor has that kind; resize_and_map returns a view with the requested leading dimension (further dimensions not modelled); generator_t::select may throw',
            'wrapper targets (drop / shuffle / shuffled / undrop / unshuffle): dataset_byfeature by its contract (proved by the dataset_byfeature target) under the same instance of the update() invariant at the queried row; generator_t::drop / shuffle / shuffled / undrop / unshuffle do not throw and are recorded by ghost variables (their transitions: gen_* targets); range-for / iterator loop over m_generators visits the slots 0 .. size-1 in order; at most 10^5 generators',
            'process targets: the generator is fitted (generator_t::datasource() returns the data source, does not throw); base_elemwise_generator_t::fit() invariant at the queried row i (from select_<kind> / detail::select, not extracted): mapping(i, 0) is a valid feature index of the data source, mapping(i, 1) = its classes(), mapping(i, 2..4) = its dims(), and the feature has the generator\'s kind (is_sclass / is_mclass / is_scalar: size(dims) == 1 / is_struct: size(dims) > 1); 0 <= classes() <= 2^40; nano::size(dims) is an uninterpreted function of the three extents (congruence only; C16 proves nano::size), make_dims(a, b, c) is the triple; datasource_t::feature(i) is a pure function observed at one ghost index; the generator\'s mapping table is observed at one ghost row (index preconditions checked at every use); std::max / std::min on tensor_size_t have their exact meaning; the operator half of the tuple returned by process() is not looked at here; process_product: both originals named by the (2 x 5 column) mapping row are features of the data source (make_pairwise of two select_<kind> tables), feature_t{name} is a descriptor with arbitrary contents (name not modelled), m_labels.clear() makes classes() 0, nano::size of the dimensions (1, 1, 1) is 1',
            'exceptions are early returns with nv_thrown set; stubs called with a may-throw argument do nothing once nv_thrown is set',
            'sizes are bounded (2^40 samples for the bit mask, 10^6 list entries / samples elsewhere, 10^5 features / generators) only to keep byte counts inside size_t and CBMC objects addressable'],
        'trusted': [],
    }
_REPLAY = {}


def replay(rp):
    """range-guard counterexamples (dataset_check_samples / dataset_guarded_read): the verifier's sample count N and the
    accepted list entry are replayed against a real in-memory datasource + dataset_t through the public API
    (flatten / select).  Storage-dispatch, pairwise-product and drop/shuffle counterexamples run the matching scenario of
    the same driver on the real library (class count taken from the counterexample where there is one)."""
    import replaylib
    out = {'reproduced': False, 'runs': []}
    t = rp['target']
    runs = []
    if t in ('dataset_check_samples', 'dataset_guarded_read'):
        cands = []
        for fo in rp['failed_obligations']:
            ce = fo.get('counterexample') or {}
            n = None
            idx = None
            for k, v in ce.items():
                if k.endswith('return_value_datasource_samples') or k.endswith('main::N'):
                    n = v
                if k.endswith('nv_w_index'):
                    idx = v
            try:
                n, idx = int(str(n).rstrip('l')), int(str(idx).rstrip('l'))
            except (TypeError, ValueError):
                continue
            if 0 <= n <= 2000000:
                cands.append((n, idx))
            elif idx == n:            # same input class at a size the driver can allocate: index == samples()
                cands.append((16, 16))
        if not cands:
            cands = [(16, 16), (13, 13)]
        runs = [[n, idx] for n, idx in dict.fromkeys(cands)]
        # the same entry inside an unsorted list (valid first and last entries)
        runs += [['list', n, 0, idx, max(0, min(3, n - 1))] for n, idx in list(dict.fromkeys(cands))[:2] if n >= 1]
        # ... and the boundary values of the property's quantifier (N, -1) in the middle / at the front of an unsorted list
        n0 = next((n for n, _ in cands if 4 <= n <= 2000000), 16)
        runs += [['list', n0, 0, n0, 3], ['list', n0, 3, -1, 0], ['list', n0, n0, 0, 1]]
    elif t.startswith('datasource_storage'):
        classes = []
        for fo in rp['failed_obligations']:
            for k, v in (fo.get('counterexample') or {}).items():
                if k.endswith('nv_F1.m_classes') or k.endswith('nv_F2.m_classes'):
                    try:
                        c = int(str(v).rstrip('l'))
                        if 2 <= c <= 70000:
                            classes.append(c)
                    except ValueError:
                        pass
        runs = [['storage', c] for c in dict.fromkeys(classes + [256, 65536])][:4]
    elif t.startswith('product_op') or t.startswith('pairwise_'):
        runs = [['product']]
    elif t.startswith('gen_'):
        runs = [['flags']]
    elif t in ('dataset_check_feature', 'dataset_byfeature'):
        runs = [['feature', 2], ['feature', -1], ['feature', 3]]      # the driver's dataset has 2 features
    elif t == 'flatten_sclass_u8':
        runs = [['onehot']]
    else:
        out['note'] = 'no native driver for this target: the replay file carries the verifier output only'
        return out
    if 'exe' not in _REPLAY:      # one build per run, shared by all replays
        _REPLAY['exe'] = replaylib.build_with_library('replay/C08_replay.cpp', 'C08_replay')
    exe = _REPLAY['exe']
    for args in runs:
        key = tuple(args)
        if key not in _REPLAY:
            _REPLAY[key] = replaylib.run_driver(exe, args)
        rc, so, se = _REPLAY[key]
        out['runs'].append({'args': args, 'exit': rc, 'output': so.strip()[:2000]})
        if rc == 1:
            out['reproduced'] = True
    return out
