/* C08 (iterator part): base_datasource_iterator_t maps (sample list, optional permutation of all samples) -> stored
 * sample.  "sample indices outside the valid range are ... never read": given a list whose entries are in [0, N)
 * (N = samples() of the data source; what dataset_t::check(samples) has to establish) and a permutation of [0, N) (or
 * none), every sample handed to the storage readers is in [0, N), every read of the list / the permutation is in
 * bounds, and the for(; it; ++it) protocol never evaluates sample() at index() == size(). */
#include "mask.h"
struct nv_iter { int64_t m_index; struct nv_t1i m_samples; struct nv_t1i m_shuffled_all_samples; };
int64_t nv_nsamples;     /* ghost: N = number of samples of the data source */
/* the iterator's data: a sample list of symbolic length and either no permutation (size 0) or one of all N samples */
#define NV_ITER_OK(it) (__CPROVER_is_fresh(it, sizeof(struct nv_iter)) && NV_T1I_OK((it)->m_samples) && NV_T1I_OK((it)->m_shuffled_all_samples) \
  && 0 <= nv_nsamples && nv_nsamples <= NV_MAXN && ((it)->m_shuffled_all_samples.n == 0 || (it)->m_shuffled_all_samples.n == nv_nsamples))
/* instance, at the current position, of: every listed index is in [0, N) (dataset_t::check(samples)); the permutation
 * (generator_t::shuffle: std::shuffle of arange(0, N)) maps [0, N) into [0, N) */
#define NV_ITER_CUR(it) ((it)->m_samples.p[(it)->m_index])
#define NV_ITER_VALUES_OK(it) (0 <= NV_ITER_CUR(it) && NV_ITER_CUR(it) < nv_nsamples && ((it)->m_shuffled_all_samples.n == 0 || \
  (0 <= (it)->m_shuffled_all_samples.p[NV_ITER_CUR(it)] && (it)->m_shuffled_all_samples.p[NV_ITER_CUR(it)] < nv_nsamples)))

#define NV_CONTRACT_iter_sample \
__CPROVER_requires(NV_ITER_OK(self) && 0 <= self->m_index && self->m_index < self->m_samples.n && NV_ITER_VALUES_OK(self)) \
__CPROVER_assigns() \
__CPROVER_ensures(__CPROVER_return_value == (self->m_shuffled_all_samples.n == 0 ? NV_ITER_CUR(self) : self->m_shuffled_all_samples.p[NV_ITER_CUR(self)])) \
__CPROVER_ensures(0 <= __CPROVER_return_value && __CPROVER_return_value < nv_nsamples)

#define NV_CONTRACT_iter_inc \
__CPROVER_requires(NV_ITER_OK(self) && 0 <= self->m_index && self->m_index < self->m_samples.n) \
__CPROVER_assigns(self->m_index) \
__CPROVER_ensures(self->m_index == __CPROVER_old(self->m_index) + 1 && __CPROVER_return_value == self)

#define NV_CONTRACT_iter_bool \
__CPROVER_requires(NV_ITER_OK(self)) \
__CPROVER_assigns() \
__CPROVER_ensures(__CPROVER_return_value == (self->m_index < self->m_samples.n))
