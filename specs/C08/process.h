/* C08 (generator side of the column bookkeeping): "the per-feature view and the flattened dense view ... agree under the
 * documented encodings (one-hot +-1 with C-1 columns, 2*hit-1, row-major flattening) ... the feature/column bookkeeping
 * (counts, column-to-feature map, descriptors) is consistent".
 * dataset_t::update() books NV_COLUMNS(generator->feature(i)) flatten columns for generated feature i (update.h, proved in
 * the thorough tier) and dataset_t::flatten hands generator g the column range of that width; the generator's flatten
 * advances its write position by the colsize that ITS process(i) reports.  Claim (for every identity generator, every
 * fitted state, every valid generator-local feature index i):
 *        process(i).colsize == NV_COLUMNS(feature(i))          -- the SAME macro (columns.h) as the bookkeeping side,
 * with the real feature(), process(), mapped_original / mapped_classes / mapped_dims (all extracted). */
#include <stdlib.h>
#include "columns.h"
#define NV_MAXF 100000
#define NV_MAXC 1099511627776L       /* class count / number of components of one feature (2^40, as in update.h) */
struct nv_t2i { int64_t rows, cols; int64_t grow; int64_t c[10]; };   /* feature_mapping_t = tensor_mem_t<tensor_size_t, 2>: dimensions + the cells of one ghost row */
struct nv_dsrc { int64_t features; };                               /* datasource_t: number of features; descriptors answered at a ghost index */
struct nv_egen { const struct nv_dsrc* m_datasource; struct nv_t2i m_feature_mapping; };   /* base_elemwise_generator_t (+ generator_t::m_datasource) */
struct nv_procret { int64_t colsize; };                             /* std::tuple<operator, colsize>: the operator is the flatten targets' business */

int64_t nv_go;                  /* ghost: an arbitrary feature index of the data source */
struct nv_feature nv_F;         /* ghost: its descriptor (datasource_t::feature is a pure function) */

/* tensor(i, j) on the generator's mapping table: indices checked at every use; the table is observed at ONE ghost row
 * (arbitrary, fixed before the calls: every other row reads as an arbitrary value) */
int64_t nv_other_cell;
static const int64_t* nv_t2i_at(const struct nv_t2i* t, int64_t i, int64_t j)
{
  __CPROVER_assert(0 <= i && i < t->rows && 0 <= j && j < t->cols, "tensor(i, j): indices inside the dimensions");
  if (i == t->grow && 0 <= j && j < 10) return &t->c[j];
  nv_other_cell = nv_nondet_int64_t();
  return &nv_other_cell;
}
/* generator_t::datasource(): the fitted data source (assumed: the generator is fitted, otherwise it throws) */
static const struct nv_dsrc* nv_gen_datasource(const struct nv_egen* g) { return g->m_datasource; }
/* datasource_t::feature(i): a copy of the i-th descriptor */
static struct nv_feature nv_dsrc_feature(const struct nv_dsrc* d, int64_t i)
{
  __CPROVER_assert(0 <= i && i < d->features, "datasource.feature(i): a valid feature index of the data source");
  struct nv_feature f;                   /* arbitrary for every other feature */
  if (i == nv_go) f = nv_F;
  return f;
}
/* make_dims(a, b, c) / size(dims): the product is NAMED (uninterpreted, congruence only; nano::size is proved in C16) */
int64_t __CPROVER_uninterpreted_nv_prod3(int64_t, int64_t, int64_t);
static struct nv_dims3 nv_make_dims3(int64_t a, int64_t b, int64_t c)
{ struct nv_dims3 d; d.d0 = a; d.d1 = b; d.d2 = c; d.nv_size = __CPROVER_uninterpreted_nv_prod3(a, b, c); return d; }
static int64_t nv_dims3_size(struct nv_dims3 d) { return d.nv_size; }

/* std::max / std::min on tensor_size_t (exact meaning) */
static int64_t nv_max_i64(int64_t a, int64_t b) { return a < b ? b : a; }
static int64_t nv_min_i64(int64_t a, int64_t b) { return b < a ? b : a; }

#define NV_KIND_SCLASS 0
#define NV_KIND_MCLASS 1
#define NV_KIND_SCALAR 2
#define NV_KIND_STRUCT 3
/* what base_elemwise_generator_t::fit() establishes (m_feature_mapping = select_<kind>(datasource, ..), include/nano/
 * generator/select.h detail::select: row k = (original, classes(), dims() of datasource.feature(original)) for the
 * features of the generator's kind) -- ASSUMED here, at the queried row i */
#define NV_FIT_ROW(gen, i, kind) ( \
     (gen)->m_feature_mapping.grow == (i) && (gen)->m_feature_mapping.c[0] == nv_go && 0 <= nv_go && nv_go < (gen)->m_datasource->features \
  && (gen)->m_feature_mapping.c[1] == nv_F.m_classes && 0 <= nv_F.m_classes && nv_F.m_classes <= NV_MAXC      /* feature_t::classes() = labels().size() */ \
  && (gen)->m_feature_mapping.c[2] == nv_F.m_dims.d0 && (gen)->m_feature_mapping.c[3] == nv_F.m_dims.d1 && (gen)->m_feature_mapping.c[4] == nv_F.m_dims.d2 \
  && nv_F.m_dims.nv_size == __CPROVER_uninterpreted_nv_prod3(nv_F.m_dims.d0, nv_F.m_dims.d1, nv_F.m_dims.d2)     /* ghost definition of size(dims) */ \
  && ((kind) == NV_KIND_SCLASS ? nv_F.m_type == NVE_feature_type_sclass                                           /* feature_t::is_sclass() */ \
    : (kind) == NV_KIND_MCLASS ? nv_F.m_type == NVE_feature_type_mclass                                           /* is_mclass() */ \
    : (kind) == NV_KIND_SCALAR ? (nv_F.m_type != NVE_feature_type_sclass && nv_F.m_type != NVE_feature_type_mclass && nv_F.m_dims.nv_size == 1)   /* is_scalar() */ \
    :                            (nv_F.m_type != NVE_feature_type_sclass && nv_F.m_type != NVE_feature_type_mclass && nv_F.m_dims.nv_size > 1)))  /* is_struct() */

#define NV_PROCESS_SETUP(kind) \
  struct nv_egen gen; struct nv_dsrc ds; int64_t i; \
  __CPROVER_assume(0 <= ds.features && ds.features <= NV_MAXF); \
  gen.m_datasource = &ds; \
  __CPROVER_assume(0 <= gen.m_feature_mapping.rows && gen.m_feature_mapping.rows <= NV_MAXF); gen.m_feature_mapping.cols = 5; \
  __CPROVER_assume(0 <= i && i < gen.m_feature_mapping.rows);      /* a valid generator-local feature index */ \
  __CPROVER_assume(NV_FIT_ROW(&gen, i, kind)); \
  nv_thrown = 0;

/* ---- pairwise generators (base_pairwise_generator_t): the mapping has 2 x 5 columns (original1, classes1, dims1, original2, ...) ---- */
/* datasource_t::feature(i) bound to a reference: the address of the descriptor (ghost feature, or an arbitrary other one) */
struct nv_feature nv_otherF;
static const struct nv_feature* nv_dsrc_feature_ref(const struct nv_dsrc* d, int64_t i)
{
  __CPROVER_assert(0 <= i && i < d->features, "datasource.feature(i): a valid feature index of the data source");
  if (i == nv_go) return &nv_F;
  struct nv_feature any; nv_otherF = any;
  return &nv_otherF;
}
/* feature_t{name}: a descriptor with arbitrary contents (the name is not modelled; scalar() / sclass() / .. overwrite what matters) */
static struct nv_feature nv_feature_named(void) { struct nv_feature f; return f; }
/* m_labels.clear() inside feature_t: classes() = m_labels.size() becomes 0 */
static void nv_feature_clear_labels(struct nv_feature* f) { f->m_classes = 0; }
#define NV_PAIR_SETUP \
  struct nv_egen gen; struct nv_dsrc ds; int64_t i; \
  __CPROVER_assume(0 <= ds.features && ds.features <= NV_MAXF); \
  gen.m_datasource = &ds; \
  __CPROVER_assume(0 <= gen.m_feature_mapping.rows && gen.m_feature_mapping.rows <= NV_MAXF); gen.m_feature_mapping.cols = 10; \
  __CPROVER_assume(0 <= i && i < gen.m_feature_mapping.rows && gen.m_feature_mapping.grow == i); \
  /* fit() invariant at row i (make_pairwise of two select_<kind> tables): both originals are features of the data source */ \
  __CPROVER_assume(0 <= gen.m_feature_mapping.c[0] && gen.m_feature_mapping.c[0] < ds.features && 0 <= gen.m_feature_mapping.c[5] && gen.m_feature_mapping.c[5] < ds.features); \
  /* nano::size of the dimensions (1, 1, 1) is 1 (C16 proves nano::size = product of the extents) */ \
  __CPROVER_assume(__CPROVER_uninterpreted_nv_prod3(1, 1, 1) == 1); \
  nv_thrown = 0;
