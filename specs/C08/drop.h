/* C08 (drop / shuffle wrappers of dataset_t): "Dropping a feature makes exactly that feature missing, shuffling a feature
 * permutes exactly that feature ...; sample or feature indices outside the valid range are rejected with an exception,
 * never read".
 *   dataset_t::drop(f) / shuffle(f) / shuffled(f, samples):
 *     f outside [0, features())  ==> throws, the generator is NOT called and NO cell of m_feature_mapping is read by the
 *                                    wrapper (every m_feature_mapping(i, j) of the wrapper is an access obligation
 *                                    0 <= i < rows, 0 <= j < cols of the real bounds-checked table model nv_t2i_at, and
 *                                    is counted in the ghost nv_fm_reads);
 *     f inside                   ==> does not throw, forwards exactly once to the generator that the table names for f
 *                                    (column 0) with the generator-local index of f (column 1), and to the right
 *                                    operation.
 *   dataset_t::undrop() / unshuffle(): every generator of the list (ghost slot nv_gg) gets the operation exactly once,
 *                                    nothing else is called, no table cell is read.
 * byfeature is taken by its contract (proved by the dataset_byfeature target on the real code: throws iff the index is
 * invalid, reads the table only behind check(feature)).  The transition of the generator itself is the business of the
 * gen_drop / gen_shuffle / gen_undrop / gen_unshuffle targets. */
#include "dataset.h"
struct nv_idxv { int64_t n; uint64_t id; };      /* indices_t returned by generator_t::shuffled: length + identity */

int64_t nv_fm_reads;                              /* ghost: cells of m_feature_mapping read by the wrapper itself */
static int64_t* nv_fm_read(const struct nv_t2i* t, int64_t i, int64_t j)
{
  if (nv_fm_reads < 1000) nv_fm_reads = nv_fm_reads + 1;
  return nv_t2i_at(t, i, j);                      /* asserts 0 <= i < rows && 0 <= j < cols */
}

/* ghost record of the forwarded call */
#define NV_OP_DROP 1
#define NV_OP_SHUFFLE 2
#define NV_OP_SHUFFLED 3
#define NV_OP_UNDROP 4
#define NV_OP_UNSHUFFLE 5
int64_t nv_fwd_calls; const struct nv_rgen* nv_fwd_gen; int64_t nv_fwd_ifeature; int32_t nv_fwd_op; int64_t nv_fwd_nsamples; uint64_t nv_fwd_ret;
static void nv_fwd_record(const struct nv_rgen* g, int64_t ifeature, int32_t op)
{
  if (nv_fwd_calls < 1000) nv_fwd_calls = nv_fwd_calls + 1;
  nv_fwd_gen = g; nv_fwd_ifeature = ifeature; nv_fwd_op = op;
}
/* generator_t::drop / shuffle / shuffled (contracts: gen_drop / gen_shuffle targets); none is evaluated once an argument threw */
static void nv_generator_drop(const struct nv_rgen* g, int64_t ifeature) { if (nv_thrown) return; nv_fwd_record(g, ifeature, NV_OP_DROP); }
static void nv_generator_shuffle(const struct nv_rgen* g, int64_t ifeature) { if (nv_thrown) return; nv_fwd_record(g, ifeature, NV_OP_SHUFFLE); }
static struct nv_idxv nv_generator_shuffled(const struct nv_rgen* g, int64_t ifeature, struct nv_t1i samples)
{
  struct nv_idxv r; r.n = nv_nondet_int64_t(); r.id = nv_nondet_uint64_t();
  if (nv_thrown) return r;
  nv_fwd_record(g, ifeature, NV_OP_SHUFFLED); nv_fwd_nsamples = samples.n; nv_fwd_ret = r.id;
  return r;
}

#define NV_WRAP_CONTRACT(op) \
__CPROVER_requires(NV_DATASET_OK(self)) \
/* instance of the mapping invariant (dataset_t::update) at the queried row */ \
__CPROVER_requires(NV_FEATURE_OK(self, feature) ==> (0 <= self->m_feature_mapping.p[feature * 5] && (uint64_t)self->m_feature_mapping.p[feature * 5] < self->m_generators.size)) \
__CPROVER_requires(nv_fwd_calls == 0 && nv_fm_reads == 0) \
__CPROVER_assigns(nv_thrown, nv_fm_reads, nv_fwd_calls, nv_fwd_gen, nv_fwd_ifeature, nv_fwd_op, nv_fwd_nsamples, nv_fwd_ret) \
/* 1. an invalid feature index is rejected with an exception */ \
__CPROVER_ensures(!NV_FEATURE_OK(self, feature) ==> nv_thrown) \
/* 2. ... never read: no cell of the mapping table was read on that path */ \
__CPROVER_ensures(!NV_FEATURE_OK(self, feature) ==> nv_fm_reads == 0) \
/* 3. ... and the generator is not called */ \
__CPROVER_ensures(!NV_FEATURE_OK(self, feature) ==> nv_fwd_calls == 0) \
/* 4. a valid index is not rejected and is forwarded exactly once, to the right operation */ \
__CPROVER_ensures(NV_FEATURE_OK(self, feature) ==> (!nv_thrown && nv_fwd_calls == 1 && nv_fwd_op == (op))) \
/* 5. ... of the generator that the table names for the feature, with the generator-local index of the feature */ \
__CPROVER_ensures(NV_FEATURE_OK(self, feature) ==> (nv_fwd_gen == &self->m_generators.p[self->m_feature_mapping.p[feature * 5]] \
  && nv_fwd_ifeature == self->m_feature_mapping.p[feature * 5 + 1]))
#define NV_CONTRACT_dataset_drop NV_WRAP_CONTRACT(NV_OP_DROP)
#define NV_CONTRACT_dataset_shuffle NV_WRAP_CONTRACT(NV_OP_SHUFFLE)
#define NV_CONTRACT_dataset_shuffled NV_WRAP_CONTRACT(NV_OP_SHUFFLED) \
__CPROVER_requires(NV_T1I_OK(samples)) \
/* 6. the permutation handed back is the generator's answer for exactly the caller's sample list */ \
__CPROVER_ensures(NV_FEATURE_OK(self, feature) ==> (__CPROVER_return_value.id == nv_fwd_ret && nv_fwd_nsamples == samples.n))

/* ---- undrop() / unshuffle(): one call per generator of the list ---- */
int64_t nv_gg;                                    /* ghost: an arbitrary slot of m_generators */
int64_t nv_all_hit;                               /* ghost: calls received by the generator in slot nv_gg */
int32_t nv_all_badop;                             /* ghost: some call was not the expected operation */
int32_t nv_all_expect;                            /* ghost: the expected operation, fixed by the contract */
static int64_t nv_gens_begin(const struct nv_gens* v) { return 0; }
static int64_t nv_gens_end(const struct nv_gens* v) { return (int64_t)v->size; }
static const struct nv_rgen* nv_gens_at(const struct nv_gens* v, int64_t k)
{
  __CPROVER_assert(0 <= k && (uint64_t)k < v->size, "*iterator: inside m_generators");
  return &v->p[k];
}
static void nv_generator_all(const struct nv_rgen* g, const struct nv_gens* v, int32_t op)
{
  if (nv_fwd_calls < NV_MAXF + 10) nv_fwd_calls = nv_fwd_calls + 1;
  if (0 <= nv_gg && (uint64_t)nv_gg < v->size && g == &v->p[nv_gg] && nv_all_hit < 1000) nv_all_hit = nv_all_hit + 1;
  if (op != nv_all_expect) nv_all_badop = 1;
}
static void nv_generator_undrop(const struct nv_rgen* g, const struct nv_gens* v) { nv_generator_all(g, v, NV_OP_UNDROP); }
static void nv_generator_unshuffle(const struct nv_rgen* g, const struct nv_gens* v) { nv_generator_all(g, v, NV_OP_UNSHUFFLE); }

#define NV_ALL_CONTRACT(op) \
__CPROVER_requires(NV_DATASET_OK(self)) \
__CPROVER_requires(nv_fwd_calls == 0 && nv_fm_reads == 0 && nv_all_hit == 0 && nv_all_badop == 0 && nv_all_expect == (op)) \
__CPROVER_assigns(nv_thrown, nv_fm_reads, nv_fwd_calls, nv_all_hit, nv_all_badop) \
/* 1. does not throw, reads no cell of the mapping table */ \
__CPROVER_ensures(!nv_thrown && nv_fm_reads == 0) \
/* 2. one call per generator, each of the expected operation */ \
__CPROVER_ensures(nv_fwd_calls == (int64_t)self->m_generators.size && nv_all_badop == 0) \
/* 3. every generator of the list (ghost slot) is called exactly once */ \
__CPROVER_ensures((0 <= nv_gg && (uint64_t)nv_gg < self->m_generators.size) ==> nv_all_hit == 1)
#define NV_CONTRACT_dataset_undrop NV_ALL_CONTRACT(NV_OP_UNDROP)
#define NV_CONTRACT_dataset_unshuffle NV_ALL_CONTRACT(NV_OP_UNSHUFFLE)
/* written without clang's __endN (an explicit iterator loop `it != m_generators.end()` has none) and for a loop variable of
 * either signedness (range-for / iterator position: int64_t; index loop: size_t): the first conjunct bounds it by a
 * constant, which makes the conversions to int64_t that follow value-preserving */
#define NV_POS(it) ((int64_t)(it))
#define NV_ALL_LOOP(it) \
__CPROVER_assigns(it, nv_fwd_calls, nv_all_hit, nv_all_badop) \
__CPROVER_loop_invariant(0 <= (it) && (it) <= NV_MAXF && NV_POS(it) <= (int64_t)self->m_generators.size \
  && nv_fwd_calls == NV_POS(it) && nv_all_badop == 0 \
  && nv_all_hit == ((0 <= nv_gg && nv_gg < NV_POS(it)) ? 1 : 0)) \
__CPROVER_decreases((int64_t)self->m_generators.size - NV_POS(it))
#define NV_LOOP_dataset_undrop_1 NV_ALL_LOOP(NV_LOOPVAR_dataset_undrop_1)
#define NV_LOOP_dataset_unshuffle_1 NV_ALL_LOOP(NV_LOOPVAR_dataset_unshuffle_1)
