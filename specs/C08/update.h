/* C08 (bookkeeping): "the feature/column bookkeeping (counts, column-to-feature map, descriptors) is consistent".
 * dataset_t::update() rebuilds three tables from the generator list:
 *   m_feature_mapping(f, .)   = (generator, local feature, dim1, dim2, dim3)      one row per generated feature
 *   m_column_mapping(c, .)    = (generator, local column of the feature, feature) one row per flattened column
 *   m_generator_mapping(g, 0) = number of flattened columns of generator g
 * INPUT MODEL.  A generator list is: G generators, generator g offers features(g) >= 0 features, feature (g, i) has a
 * descriptor; the documented encodings give its number of flattened columns (NV_COLUMNS: one-hot C-1, multi-label C,
 * scalar / structured size(dims), row-major).  The two functions g -> features(g), (g, i) -> columns(g, i) are given by
 * their prefix sums (ghost arrays, arbitrary contents):
 *   nv_fbase[g] = number of features of the generators before g     (features(g)   = nv_fbase[g+1] - nv_fbase[g])
 *   nv_cbase[k] = number of columns of the features before global feature k (columns(k) = nv_cbase[k+1] - nv_cbase[k])
 * Every choice of non-negative counts is one such pair of arrays; the stubs of generator_t::features() / feature(i)
 * answer from the arrays (and assume, at the entries they touch, that the differences are non-negative and bounded), so
 * the contract below is proved for every generator list.  With prefix sums the claims "the column ranges are
 * consecutive, disjoint and tile [0, columns())" become: feature k owns exactly [nv_cbase[k], nv_cbase[k+1]), generator
 * g owns exactly [nv_cbase[nv_fbase[g]], nv_cbase[nv_fbase[g+1]]), and the tables answer with the owner.
 * The three tables are tracked at one ghost row each (arbitrary, fixed before the call: the claims hold for every
 * row); `maxrow` records the largest row ever written, `written` the columns of the ghost row that were written. */
#include <stdlib.h>
#include "columns.h"
#define NV_MAXG 1000               /* generators */
#define NV_MAXF 1000               /* generated features in total */
#define NV_MAXC 1099511627776L       /* flattened columns in total (2^40): keeps the counters inside int64 */
struct nv_rgen { int64_t idx; };                               /* rgenerator_t; ghost: the position of the slot in m_generators */
struct nv_gens { struct nv_rgen* p; uint64_t size; };          /* std::vector<rgenerator_t> */
struct nv_map_g { int64_t maxrow; uint32_t written; int64_t c0, c1, c2, c3, c4; };                /* what the writes change (one assigns target) */
struct nv_map { int64_t rows, cols; int64_t grow; struct nv_map_g g; };                /* tensor_mem_t<tensor_size_t, 2> at the ghost row */
struct nv_dataset { struct nv_gens m_generators; struct nv_map m_column_mapping, m_feature_mapping, m_generator_mapping; };

int64_t nv_fbase[NV_MAXG + 2];       /* ghost input: prefix sums of features(g) */
int64_t nv_cbase[NV_MAXF + 2];       /* ghost input: prefix sums of columns(k) over the global feature index */
struct nv_feature nv_F;              /* ghost input: the descriptor of the ghost feature (feature() is a pure function: both loops see it) */
int64_t nv_gfeat;                    /* ghost: the global index of the ghost feature */

/* the documented encodings: flattened columns of a feature = NV_COLUMNS of columns.h (shared with the generators' process targets) */

/* range-for over m_generators: the iterator is the position */
static int64_t nv_gens_begin(const struct nv_gens* v) { return 0; }
static int64_t nv_gens_end(const struct nv_gens* v) { return (int64_t)v->size; }
static struct nv_rgen* nv_gens_at(struct nv_gens* v, int64_t k)
{
  __CPROVER_assert(0 <= k && (uint64_t)k < v->size, "*iterator: inside m_generators");
  __CPROVER_assume(v->p[k].idx == k);                     /* the ghost field names the slot */
  __CPROVER_assume(0 <= nv_fbase[k] && nv_fbase[k] <= nv_fbase[k + 1] && nv_fbase[k + 1] <= NV_MAXF);   /* features() of this generator is >= 0, totals bounded */
  return &v->p[k];
}
/* generator_t::features() / feature(i): answered from the ghost prefix sums */
static int64_t nv_gen_features(const struct nv_rgen* gen)
{
  int64_t g = gen->idx;
  __CPROVER_assume(0 <= nv_fbase[g] && nv_fbase[g] <= nv_fbase[g + 1] && nv_fbase[g + 1] <= NV_MAXF);
  return nv_fbase[g + 1] - nv_fbase[g];
}
static struct nv_feature nv_gen_feature(const struct nv_rgen* gen, int64_t i)
{
  int64_t g = gen->idx;
  __CPROVER_assume(0 <= nv_fbase[g] && nv_fbase[g] <= nv_fbase[g + 1] && nv_fbase[g + 1] <= NV_MAXF);
  __CPROVER_assert(0 <= i && i < nv_fbase[g + 1] - nv_fbase[g], "generator->feature(i): a valid local feature index");
  int64_t k = nv_fbase[g] + i;
  struct nv_feature f;
  if (k == nv_gfeat) f = nv_F;
  /* feature_t invariants: any type (the code's default branch takes every non-categorical one), at least one class for a categorical feature, bounded sizes */
  __CPROVER_assume(0 <= f.m_classes && f.m_classes <= NV_MAXC && 0 <= f.m_dims.nv_size && f.m_dims.nv_size <= NV_MAXC);
  __CPROVER_assume(f.m_type != NVE_feature_type_sclass || f.m_classes >= 1);
  __CPROVER_assume(0 <= nv_cbase[k] && nv_cbase[k] <= nv_cbase[k + 1] && nv_cbase[k + 1] <= NV_MAXC && NV_COLUMNS(f) == nv_cbase[k + 1] - nv_cbase[k]);
  return f;
}
static int32_t nv_feat_type(const struct nv_feature* f) { return f->m_type; }
static int64_t nv_feat_classes(const struct nv_feature* f) { return f->m_classes; }
static int64_t nv_dims3_size(struct nv_dims3 d) { return d.nv_size; }
static int64_t nv_dims3_get(struct nv_dims3 d, uint64_t k)
{ __CPROVER_assert(k < 3, "dims[k]: k < 3"); return k == 0 ? d.d0 : k == 1 ? d.d1 : d.d2; }

/* tensor.resize(rows, cols) / tensor(i, j) on the three tables */
static void nv_map_resize(struct nv_map* t, int64_t rows, int64_t cols)
{
  __CPROVER_assert(0 <= rows && 0 <= cols, "resize(rows, cols): non-negative dimensions");
  struct nv_map_g fresh;                                    /* arbitrary contents */
  t->rows = rows; t->cols = cols; t->g = fresh; t->g.maxrow = -1; t->g.written = 0;
}
/* table(i, j) = v (spec hook table_write_hook: the assignment is printed as a call of the setter) */
static void nv_map_set(struct nv_map* t, int64_t i, int64_t j, int64_t v)
{
  __CPROVER_assert(0 <= j && j < t->cols && j < 5, "table(i, j): the column is inside the dimensions");
  __CPROVER_assert(0 <= i, "table(i, j): the row is >= 0");              /* i < rows: postcondition maxrow < rows */
  if (i > t->g.maxrow) t->g.maxrow = i;
  if (i == t->grow) { t->g.written = t->g.written | (1u << j); 
    if (j == 0) t->g.c0 = v; else if (j == 1) t->g.c1 = v; else if (j == 2) t->g.c2 = v; else if (j == 3) t->g.c3 = v; else t->g.c4 = v; }
}

#define NV_NG(self) ((int64_t)(self)->m_generators.size)
#define NV_FM(self) ((self)->m_feature_mapping)
#define NV_CM(self) ((self)->m_column_mapping)
#define NV_GM(self) ((self)->m_generator_mapping)
/* the row of feature f = FM.grow: written completely; generator c0 owns f, local index f - fbase[c0]; recorded dimensions */
#define NV_FM_ROW_OK(self) ((NV_FM(self).g.written & 31u) == 31u \
  && 0 <= NV_FM(self).g.c0 && NV_FM(self).g.c0 < NV_NG(self) \
  && 0 <= nv_fbase[NV_FM(self).g.c0] && nv_fbase[NV_FM(self).g.c0] <= NV_FM(self).grow && NV_FM(self).grow < nv_fbase[NV_FM(self).g.c0 + 1] \
  && NV_FM(self).g.c1 == NV_FM(self).grow - nv_fbase[NV_FM(self).g.c0] \
  && (NV_FM(self).grow != nv_gfeat || ( \
       (nv_F.m_type == NVE_feature_type_mclass ==> (NV_FM(self).g.c2 == nv_F.m_classes && NV_FM(self).g.c3 == 1 && NV_FM(self).g.c4 == 1)) \
    && ((nv_F.m_type != NVE_feature_type_mclass && nv_F.m_type != NVE_feature_type_sclass) ==> \
          (NV_FM(self).g.c2 == nv_F.m_dims.d0 && NV_FM(self).g.c3 == nv_F.m_dims.d1 && NV_FM(self).g.c4 == nv_F.m_dims.d2)))))
/* the row of column c = CM.grow: written completely; feature c2 (a row of the feature table that was written) owns c,
 * local column c - cbase[c2]; generator c0 owns feature c2 */
#define NV_CM_ROW_OK(self) ((NV_CM(self).g.written & 7u) == 7u \
  && 0 <= NV_CM(self).g.c2 && NV_CM(self).g.c2 <= NV_FM(self).g.maxrow && NV_CM(self).g.c2 < NV_MAXF \
  && 0 <= nv_cbase[NV_CM(self).g.c2] && nv_cbase[NV_CM(self).g.c2] <= NV_CM(self).grow && NV_CM(self).grow < nv_cbase[NV_CM(self).g.c2 + 1] \
  && NV_CM(self).g.c1 == NV_CM(self).grow - nv_cbase[NV_CM(self).g.c2] \
  && 0 <= NV_CM(self).g.c0 && NV_CM(self).g.c0 < NV_NG(self) \
  && nv_fbase[NV_CM(self).g.c0] <= NV_CM(self).g.c2 && NV_CM(self).g.c2 < nv_fbase[NV_CM(self).g.c0 + 1])
/* the row of generator g = GM.grow: its number of columns */
#define NV_GM_ROW_OK(self) ((NV_GM(self).g.written & 1u) == 1u && 0 <= nv_fbase[NV_GM(self).grow] && nv_fbase[NV_GM(self).grow] <= NV_MAXF \
  && 0 <= nv_fbase[NV_GM(self).grow + 1] && nv_fbase[NV_GM(self).grow + 1] <= NV_MAXF \
  && 0 <= nv_cbase[nv_fbase[NV_GM(self).grow]] && nv_cbase[nv_fbase[NV_GM(self).grow]] <= nv_cbase[nv_fbase[NV_GM(self).grow + 1]] && nv_cbase[nv_fbase[NV_GM(self).grow + 1]] <= NV_MAXC \
  && NV_GM(self).g.c0 == nv_cbase[nv_fbase[NV_GM(self).grow + 1]] - nv_cbase[nv_fbase[NV_GM(self).grow]])
/* the tables up to (nf features, nc columns, ng generators) */
#define NV_FM_UPTO(self, nf) (NV_FM(self).g.maxrow < (nf) && ((0 <= NV_FM(self).grow && NV_FM(self).grow < (nf)) ==> NV_FM_ROW_OK(self)))
#define NV_CM_UPTO(self, nc) (NV_CM(self).g.maxrow < (nc) && ((0 <= NV_CM(self).grow && NV_CM(self).grow < (nc)) ==> NV_CM_ROW_OK(self)))
#define NV_GM_UPTO(self, ng) (NV_GM(self).g.maxrow < (ng) && ((0 <= NV_GM(self).grow && NV_GM(self).grow < (ng)) ==> NV_GM_ROW_OK(self)))

#define NV_CONTRACT_dataset_update \
__CPROVER_requires(__CPROVER_is_fresh(self, sizeof(*self)) && self->m_generators.size <= NV_MAXG \
  && __CPROVER_is_fresh(self->m_generators.p, (self->m_generators.size > 0 ? self->m_generators.size : 1) * sizeof(struct nv_rgen))) \
__CPROVER_requires(nv_fbase[0] == 0 && nv_cbase[0] == 0)                                  /* prefix sums start at 0 */ \
__CPROVER_requires(NV_FM(self).grow == nv_gfeat)                                         /* one ghost feature: table row and descriptor */ \
__CPROVER_assigns(self->m_column_mapping, self->m_feature_mapping, self->m_generator_mapping) \
/* 1. counts: one row per feature / column / generator */ \
__CPROVER_ensures(NV_FM(self).cols == 5 && NV_CM(self).cols == 3 && NV_GM(self).cols == 1) \
__CPROVER_ensures(NV_GM(self).rows == NV_NG(self)) \
__CPROVER_ensures(NV_FM(self).rows == nv_fbase[NV_NG(self)] && 0 <= NV_FM(self).rows && NV_FM(self).rows <= NV_MAXF) \
__CPROVER_ensures(NV_CM(self).rows == nv_cbase[NV_FM(self).rows]) \
/* 2. every write was inside its table */ \
__CPROVER_ensures(NV_FM(self).g.maxrow < NV_FM(self).rows && NV_CM(self).g.maxrow < NV_CM(self).rows && NV_GM(self).g.maxrow < NV_GM(self).rows) \
/* 3. every feature row is written and names a generator that owns the feature, the local index, the dimensions */ \
__CPROVER_ensures((0 <= NV_FM(self).grow && NV_FM(self).grow < NV_FM(self).rows) ==> NV_FM_ROW_OK(self)) \
/* 4. every column row is written and names the feature that owns the column (column2feature), the local column, the generator of that feature */ \
__CPROVER_ensures((0 <= NV_CM(self).grow && NV_CM(self).grow < NV_CM(self).rows) ==> (NV_CM_ROW_OK(self) && NV_CM(self).g.c2 < NV_FM(self).rows)) \
/* 5. every generator row holds the width of the generator's column range [cbase[fbase[g]], cbase[fbase[g+1]]) */ \
__CPROVER_ensures((0 <= NV_GM(self).grow && NV_GM(self).grow < NV_GM(self).rows) ==> NV_GM_ROW_OK(self))

/* first pass: counting */
#define NV_UPD_LOOP_COUNT_GENS(it, end) \
__CPROVER_assigns(it, features, generators, total_columns) \
__CPROVER_loop_invariant(0 <= it && it <= end && end == NV_NG(self) && generators == it) \
__CPROVER_loop_invariant(0 <= features && features <= NV_MAXF && features == nv_fbase[it]) \
__CPROVER_loop_invariant(0 <= total_columns && total_columns <= NV_MAXC && total_columns == nv_cbase[features]) \
__CPROVER_decreases(end - it)
#define NV_UPD_LOOP_COUNT_FEATS(i, it) \
__CPROVER_assigns(i, features, total_columns) \
__CPROVER_loop_invariant(0 <= it && it < NV_NG(self) && generator->idx == it) \
__CPROVER_loop_invariant(0 <= nv_fbase[it] && nv_fbase[it] <= nv_fbase[it + 1] && nv_fbase[it + 1] <= NV_MAXF) \
__CPROVER_loop_invariant(0 <= i && i <= nv_fbase[it + 1] - nv_fbase[it] && features == nv_fbase[it] + i) \
__CPROVER_loop_invariant(0 <= total_columns && total_columns <= NV_MAXC && total_columns == nv_cbase[features]) \
__CPROVER_decreases(nv_fbase[it + 1] - nv_fbase[it] - i)
/* second pass: filling */
#define NV_UPD_TABLES(self) NV_FM(self).g, NV_CM(self).g
#define NV_UPD_LOOP_FILL_GENS(it, end) \
__CPROVER_assigns(it, index, offset_columns, offset_features, NV_UPD_TABLES(self), NV_GM(self).g) \
__CPROVER_loop_invariant(0 <= it && it <= end && end == NV_NG(self) && index == it) \
__CPROVER_loop_invariant(0 <= offset_features && offset_features <= NV_MAXF && offset_features == nv_fbase[it]) \
__CPROVER_loop_invariant(0 <= offset_columns && offset_columns <= NV_MAXC && offset_columns == nv_cbase[offset_features]) \
__CPROVER_loop_invariant(NV_FM_UPTO(self, offset_features)) \
__CPROVER_loop_invariant(NV_CM_UPTO(self, offset_columns)) \
__CPROVER_loop_invariant(NV_GM_UPTO(self, index)) \
__CPROVER_decreases(end - it)
#define NV_UPD_LOOP_FILL_FEATS(i, it) \
__CPROVER_assigns(i, offset_columns, offset_features, NV_UPD_TABLES(self)) \
__CPROVER_loop_invariant(0 <= it && it < NV_NG(self) && index == it && generator->idx == it) \
__CPROVER_loop_invariant(0 <= nv_fbase[it] && nv_fbase[it] <= nv_fbase[it + 1] && nv_fbase[it + 1] <= NV_MAXF) \
__CPROVER_loop_invariant(0 <= i && i <= nv_fbase[it + 1] - nv_fbase[it] && offset_features == nv_fbase[it] + i) \
__CPROVER_loop_invariant(0 <= offset_columns && offset_columns <= NV_MAXC && offset_columns == nv_cbase[offset_features]) \
__CPROVER_loop_invariant(0 <= nv_cbase[nv_fbase[it]] && nv_cbase[nv_fbase[it]] <= offset_columns)     /* the generator's columns so far: >= 0 */ \
__CPROVER_loop_invariant(NV_FM_UPTO(self, offset_features)) \
__CPROVER_loop_invariant(NV_CM_UPTO(self, offset_columns)) \
__CPROVER_decreases(nv_fbase[it + 1] - nv_fbase[it] - i)
#define NV_UPD_LOOP_FILL_COLS(c, it) \
__CPROVER_assigns(c, offset_columns, NV_CM(self).g) \
__CPROVER_loop_invariant(0 <= c && c <= columns && columns == nv_cbase[offset_features + 1] - nv_cbase[offset_features]) \
__CPROVER_loop_invariant(0 <= offset_columns && offset_columns <= NV_MAXC && offset_columns == nv_cbase[offset_features] + c) \
__CPROVER_loop_invariant(NV_CM_UPTO(self, offset_columns)) \
__CPROVER_decreases(columns - c)

#define NV_LOOP_dataset_update_1 NV_UPD_LOOP_COUNT_GENS(__begin1, __end1)
#define NV_LOOP_dataset_update_2 NV_UPD_LOOP_COUNT_FEATS(NV_LOOPVAR_dataset_update_2, __begin1)
#define NV_LOOP_dataset_update_3 NV_UPD_LOOP_FILL_GENS(__begin1, __end1)
#define NV_LOOP_dataset_update_4 NV_UPD_LOOP_FILL_FEATS(NV_LOOPVAR_dataset_update_4, __begin1)
#define NV_LOOP_dataset_update_5 NV_UPD_LOOP_FILL_COLS(NV_LOOPVAR_dataset_update_5, __begin1)
