/* C08: THE column-count function of the documented encodings, stated ONCE and used by
 *   - update.h  (dataset_t::update(): the bookkeeping side: column count, column-to-feature map, per-generator widths) and
 *   - process.h (the generators' process(ifeature): the width of the segment the generator really writes in flatten).
 * A feature descriptor (feature_t: type(), classes(), dims()) has
 *   single-label (sclass):  classes - 1 columns (one-hot +-1 without the last class)
 *   multi-label (mclass):   classes columns     (2*hit-1)
 *   scalar / structured:    size(dims) columns  (row-major flattening)
 * NVE_feature_type_* are generated from /repo's enum on every run (Target(enums=...)). */
#ifndef NV_C08_COLUMNS_H
#define NV_C08_COLUMNS_H
struct nv_dims3 { int64_t d0, d1, d2; int64_t nv_size; };            /* tensor3d_dims_t; ghost: nano::size(dims) (product, proved in C16) */
struct nv_feature { int32_t m_type; int64_t m_classes; struct nv_dims3 m_dims; };   /* feature_t: type(), classes(), dims() */
#define NV_COLUMNS(f) ((f).m_type == NVE_feature_type_sclass ? (f).m_classes - 1 : (f).m_type == NVE_feature_type_mclass ? (f).m_classes : (f).m_dims.nv_size)
#endif
