/* C08 (typed value pools of the data source): "identity features and targets equal the stored values", "for any data
 * source mixing categorical (single/multi-label), scalar and structured features of any storage type".
 * A feature's values live in a row range of one of ten typed pools.  datasource_t::resize() decides pool and range and
 * sizes the pools; datasource_t::visit() -- the only accessor, used by every read and write -- decides the pool again
 * from the feature descriptor and slices it with the stored range.  The views can equal the stored values only if, for
 * EVERY feature list (any length, any class counts -- every storage-width boundary --, any dimensions):
 *   (a) the slice visit() takes lies inside the pool it takes it from,
 *   (b) two different features never get overlapping rows of the same pool,
 *   (c) resize() records the pool it reserved the rows in (m_storage_type) and every pool is sized by its own counter,
 *   (d) the mask has one row per feature and (samples+7)/8 bytes per row (the premise of the bit-mask contracts).
 * No width rule is written down here: the target runs the REAL visit() dispatch on two arbitrary (ghost) features,
 * then the REAL resize() (loop contract below), then the REAL visit() again, and compares.  The only naming fact used
 * is which feature_type enumerator a pool member stores (m_storage_u08 <-> uint8, ...: NV_POOL_TYPE). */
#include "nv_tensor.h"
#include <stdlib.h>
enum { NVE_feature_type_int8 = 0, NVE_feature_type_int16, NVE_feature_type_int32, NVE_feature_type_int64, NVE_feature_type_uint8,
       NVE_feature_type_uint16, NVE_feature_type_uint32, NVE_feature_type_uint64, NVE_feature_type_float32, NVE_feature_type_float64,
       NVE_feature_type_sclass, NVE_feature_type_mclass, NV_NTYPES };
struct nv_dims3 { int64_t _0, _1, _2; };                               /* tensor3d_dims_t (structured bindings read _0.._2) */
struct nv_feat { int32_t m_type; int64_t m_classes; struct nv_dims3 m_dims; };  /* feature_t: type(), classes(), dims() */
struct nv_features { uint64_t size; };                                    /* features_t = std::vector<feature_t>: length; elements at the ghost features */
struct nv_types { uint64_t size; };                                       /* std::vector<feature_type>: length; elements at the ghost features */
struct nv_counts { int64_t c[NV_NTYPES]; };                               /* unordered_map<feature_type, tensor_size_t>: operator[] value-initialises (0) */
struct nv_pair_i64 { union { int64_t first; int64_t _0; }; union { int64_t second; int64_t _1; }; };   /* std::pair: .first/.second, bindings _0/_1 */
struct nv_range { int64_t m_begin, m_end; };                              /* tensor_range_t */
struct nv_pool { int64_t rows, cols; };                                   /* storage_t<T>: (rows, samples); contents not modelled */
struct nv_t2i { int64_t rows, cols; };                                    /* m_storage_range: dimensions; rows at the ghost features */
struct nv_mask1 { int64_t n; };
struct nv_visitor { int32_t unused; };
struct nv_dsrc { struct nv_t1i m_testing; struct nv_features m_features; int64_t m_target;
  struct nv_pool m_storage_f32, m_storage_f64, m_storage_i08, m_storage_i16, m_storage_i32, m_storage_i64, m_storage_u08, m_storage_u16, m_storage_u32, m_storage_u64;
  struct nv_pool m_storage_mask; struct nv_types m_storage_type; struct nv_t2i m_storage_range; };
#define NV_POOL_TYPE(self, pool) ((pool) == &(self)->m_storage_f32 ? NVE_feature_type_float32 : (pool) == &(self)->m_storage_f64 ? NVE_feature_type_float64 \
  : (pool) == &(self)->m_storage_i08 ? NVE_feature_type_int8 : (pool) == &(self)->m_storage_i16 ? NVE_feature_type_int16 : (pool) == &(self)->m_storage_i32 ? NVE_feature_type_int32 \
  : (pool) == &(self)->m_storage_i64 ? NVE_feature_type_int64 : (pool) == &(self)->m_storage_u08 ? NVE_feature_type_uint8 : (pool) == &(self)->m_storage_u16 ? NVE_feature_type_uint16 \
  : (pool) == &(self)->m_storage_u32 ? NVE_feature_type_uint32 : (pool) == &(self)->m_storage_u64 ? NVE_feature_type_uint64 : -1)
#define NV_MAXF 100000
#define NV_MAXROWS 1099511627776L     /* rows one feature may take (2^40): keeps the row counters inside int64 */

/* ghost: the two observed features, the pool visit() picks for each (probe before resize), the access it makes afterwards */
struct nv_feat nv_F1, nv_F2, nv_Fx;           /* ghost: the descriptors of the two observed features; any other feature reads as an arbitrary descriptor */
int32_t nv_T1, nv_T2, nv_Tx;                  /* ghost: m_storage_type at the two observed features (other entries: sink) */
int64_t nv_RNG1[2], nv_RNG2[2], nv_RNGx[2];   /* ghost: m_storage_range rows of the two observed features (other rows: arbitrary) */
int64_t nv_g1, nv_g2; int32_t nv_which;       /* nv_which: 1 / 2 = which ghost feature the current visit() is for */
const struct nv_pool* nv_P1; const struct nv_pool* nv_P2; struct nv_range nv_R1, nv_R2; _Bool nv_probe; int32_t nv_accesses;
/* op(feature, pool.slice(range).reshape(...), mask): the one access visit() makes */
static void nv_visit_access(const struct nv_dsrc* self, const struct nv_pool* pool, struct nv_range range)
{
  nv_accesses = nv_accesses + 1;
  if (!nv_probe)
    __CPROVER_assert(0 <= range.m_begin && range.m_begin <= range.m_end && range.m_end <= pool->rows, "(a) visit(): the slice lies inside the pool it is taken from");
  if (nv_which == 1) { nv_P1 = pool; nv_R1 = range; } else { nv_P2 = pool; nv_R2 = range; }
}
/* nano::size(dims): the number of components (product of the dimensions, see C16): non-negative, bounded */
static int64_t nv_dims3_size(struct nv_dims3 d) { int64_t n = nv_nondet_int64_t(); __CPROVER_assume(0 <= n && n <= NV_MAXROWS); return n; }
/* feature_t invariants (assumed at every feature that is looked at): the type is one of the enumerators, the class
 * count is non-negative and bounded */
static int32_t nv_feat_type(const struct nv_feat* f) { __CPROVER_assume(0 <= f->m_type && f->m_type < NV_NTYPES); return f->m_type; }
static int64_t nv_feat_classes(const struct nv_feat* f) { __CPROVER_assume(0 <= f->m_classes && f->m_classes <= NV_MAXROWS); return f->m_classes; }
static void nv_throw(void) { nv_thrown = 1; }
/* tensor / vector / map accessors (assumed contracts, index preconditions checked at each use) */
static const struct nv_feat* nv_feature_at(const struct nv_features* v, uint64_t i)
{
  __CPROVER_assert(i < v->size, "features[i]: index inside the feature list");
  if (i == (uint64_t)nv_g1) return &nv_F1;
  if (i == (uint64_t)nv_g2) return &nv_F2;
  nv_Fx.m_type = nv_nondet_int32_t(); nv_Fx.m_classes = nv_nondet_int64_t();
  return &nv_Fx;
}
static int32_t* nv_type_at(struct nv_types* v, uint64_t i)
{
  __CPROVER_assert(i < v->size, "m_storage_type[i]: index inside the vector");
  return i == (uint64_t)nv_g1 ? &nv_T1 : i == (uint64_t)nv_g2 ? &nv_T2 : &nv_Tx;
}
static int64_t* nv_t2i_at(const struct nv_t2i* t, int64_t i, int64_t j)
{
  __CPROVER_assert(0 <= i && i < t->rows && 0 <= j && j < t->cols && t->cols == 2, "m_storage_range(i, j): indices inside the dimensions");
  if (i == nv_g1) return &nv_RNG1[j];
  if (i == nv_g2) return &nv_RNG2[j];
  nv_RNGx[0] = nv_nondet_int64_t(); nv_RNGx[1] = nv_nondet_int64_t();
  return &nv_RNGx[j];
}
static void nv_t2i_resize(struct nv_t2i* t, int64_t rows, int64_t cols)
{ __CPROVER_assert(0 <= rows && cols >= 0, "m_storage_range.resize(rows, cols): non-negative dimensions"); t->rows = rows; t->cols = cols; }
static void nv_types_resize(struct nv_types* t, uint64_t n) { t->size = n; }
static void nv_pool_resize(struct nv_pool* p, int64_t rows, int64_t cols) { __CPROVER_assert(rows >= 0 && cols >= 0, "pool.resize(rows, samples): non-negative dimensions"); p->rows = rows; p->cols = cols; }
static void nv_pool_zero(struct nv_pool* p) { }
static void nv_t1i_resize(struct nv_t1i* t, int64_t n) { t->n = n; }
static void nv_t1i_zero(struct nv_t1i* t) { }
static int64_t* nv_counts_at(struct nv_counts* m, int32_t k)
{ __CPROVER_assert(0 <= k && k < NV_NTYPES, "size_storage[type]: a feature_type enumerator"); return &m->c[k]; }
static int64_t nv_t2i_size(const struct nv_t2i* t) { return nv_nondet_int64_t(); }   /* rows * cols (only used as the "no target" marker) */
static struct nv_mask1 nv_dsrc_mask(const struct nv_dsrc* self, int64_t ifeature) { struct nv_mask1 m; m.n = self->m_storage_mask.cols; return m; }

/* the invariant of resize()'s feature loop at ghost feature g (pool picked by the visit() probe: P):
 * recorded type is a pool type and is the type of the pool visit() uses; rows reserved inside that pool's counter */
#define NV_FEATURE_DONE(T, RNG, P) (0 <= (T) && (T) < NVE_feature_type_sclass && (T) == NV_POOL_TYPE(self, P) \
  && 0 <= (RNG)[0] && (RNG)[0] <= (RNG)[1] && (RNG)[1] <= size_storage.c[T])
#define NV_CNT_OK(k) (0 <= size_storage.c[k] && size_storage.c[k] <= (int64_t)i * NV_MAXROWS)
#ifndef NV_STORAGE_UNWIND
#define NV_LOOP_dsrc_resize_1 \
__CPROVER_assigns(i, size_storage, nv_T1, nv_T2, nv_Tx, nv_RNG1, nv_RNG2, nv_RNGx, nv_Fx) \
__CPROVER_loop_invariant(i <= size && size == features->size && self->m_storage_type.size == size && self->m_storage_range.rows == (int64_t)size && self->m_storage_range.cols == 2) \
__CPROVER_loop_invariant(NV_CNT_OK(0) && NV_CNT_OK(1) && NV_CNT_OK(2) && NV_CNT_OK(3) && NV_CNT_OK(4) && NV_CNT_OK(5) && NV_CNT_OK(6) && NV_CNT_OK(7) && NV_CNT_OK(8) && NV_CNT_OK(9) && NV_CNT_OK(10) && NV_CNT_OK(11)) \
__CPROVER_loop_invariant((uint64_t)nv_g1 < i ==> NV_FEATURE_DONE(nv_T1, nv_RNG1, nv_P1)) \
__CPROVER_loop_invariant((uint64_t)nv_g2 < i ==> NV_FEATURE_DONE(nv_T2, nv_RNG2, nv_P2)) \
__CPROVER_loop_invariant(((uint64_t)nv_g1 < i && (uint64_t)nv_g2 < i && nv_T1 == nv_T2) ==> (nv_RNG1[1] <= nv_RNG2[0] || nv_RNG2[1] <= nv_RNG1[0])) \
__CPROVER_decreases(size - i)
#endif
