/* C08 (range guards): "sample or feature indices outside the valid range are rejected with an exception, never read".
 *   dataset_t::check(samples) returns normally  ==>  every listed index is in [0, samples())      (ghost position nv_g)
 *   dataset_t::check(feature) returns normally  ==>  0 <= feature < features()
 *   dataset_t::byfeature(feature): out of range ==> throws, nothing indexed; else returns m_generators[mapping(feature,0)]
 *   and both the mapping row and the generator slot are inside their containers.
 * The dataset is modelled by exactly the members these functions touch. */
#include "iter.h"
struct nv_t2i { int64_t* p; int64_t rows, cols; };            /* tensor_mem_t<tensor_size_t, 2>, row-major */
struct nv_rgen { uint64_t id; };                               /* rgenerator_t (unique_ptr<generator_t>): identity only */
struct nv_gens { struct nv_rgen* p; uint64_t size; };          /* std::vector<rgenerator_t> */
struct nv_datasource { struct nv_t1i m_testing; };             /* datasource_t: samples() == m_testing.size() */
struct nv_dataset { struct nv_datasource m_datasource; struct nv_gens m_generators; struct nv_t2i m_feature_mapping; };
#define NV_MAXF 100000

/* assumed contracts of indices.min() / indices.max() (Eigen minCoeff / maxCoeff on a non-empty vector), stated at the
 * ghost position nv_g: min <= a[g], max >= a[g].  For an empty list Eigen's reductions are undefined: arbitrary value. */
int64_t nv_w_index, nv_w_listsize;   /* witnesses for replay: the list entry at the ghost position, the list length */
static int64_t nv_t1i_min(const struct nv_t1i* t)
{ int64_t m = nv_nondet_int64_t(); if (0 <= nv_g && nv_g < t->n) { __CPROVER_assume(m <= t->p[nv_g]); nv_w_index = t->p[nv_g]; nv_w_listsize = t->n; } return m; }
static int64_t nv_t1i_max(const struct nv_t1i* t)
{ int64_t m = nv_nondet_int64_t(); if (0 <= nv_g && nv_g < t->n) { __CPROVER_assume(m >= t->p[nv_g]); nv_w_index = t->p[nv_g]; nv_w_listsize = t->n; } return m; }
/* assumed contract of tensor_t::operator()(i, j) on a rank-2 tensor (row-major offset, proved for nano::index in C16):
 * the indices must be inside the dimensions (checked here at every use) */
static int64_t* nv_t2i_at(const struct nv_t2i* t, int64_t i, int64_t j)
{
  __CPROVER_assert(0 <= i && i < t->rows && 0 <= j && j < t->cols, "tensor(i, j): indices inside the dimensions");
  /* row-major offset i * cols + j; the case split only keeps the multiplier constant for the SAT back end */
  return t->p + (t->cols == 5 ? i * 5 + j : i * t->cols + j);
}

#define NV_DATASOURCE_OK(d) (NV_T1I_OK((d).m_testing))
#define NV_SAMPLES(self) ((self)->m_datasource.m_testing.n)

#define NV_CONTRACT_dataset_check_samples \
__CPROVER_requires(__CPROVER_is_fresh(self, sizeof(*self)) && NV_DATASOURCE_OK(self->m_datasource) && NV_T1I_OK(samples)) \
__CPROVER_requires(samples.n == 0 || (0 <= nv_g && nv_g < samples.n))      /* nv_g: an arbitrary position of an arbitrary (unsorted, repeating) list */ \
__CPROVER_assigns(nv_thrown, nv_w_index, nv_w_listsize) \
/* returning normally means every listed index (ghost position) is a valid sample */ \
__CPROVER_ensures((!nv_thrown && samples.n > 0) ==> 0 <= samples.p[nv_g]) \
__CPROVER_ensures((!nv_thrown && samples.n > 0) ==> samples.p[nv_g] < NV_SAMPLES(self)) \
/* and a list of valid samples is not rejected (only given at the ghost position: cannot be stated without a quantifier) */

/* dataset invariant established by dataset_t::update(): the feature mapping has 5 columns, one row per feature, and
 * column 0 holds the index of the generator that produces the feature (instance at the queried row) */
#define NV_DATASET_OK(self) (__CPROVER_is_fresh(self, sizeof(*self)) && 0 <= (self)->m_feature_mapping.rows && (self)->m_feature_mapping.rows <= NV_MAXF \
  && (self)->m_feature_mapping.cols == 5 && __CPROVER_is_fresh((self)->m_feature_mapping.p, ((self)->m_feature_mapping.rows > 0 ? (self)->m_feature_mapping.rows : 1) * sizeof(int64_t[5])) \
  && (self)->m_generators.size <= NV_MAXF && __CPROVER_is_fresh((self)->m_generators.p, ((self)->m_generators.size > 0 ? (self)->m_generators.size : 1) * sizeof(struct nv_rgen)))
#define NV_FEATURE_OK(self, f) (0 <= (f) && (f) < (self)->m_feature_mapping.rows)

#define NV_CONTRACT_dataset_features \
__CPROVER_requires(NV_DATASET_OK(self)) __CPROVER_assigns() \
__CPROVER_ensures(__CPROVER_return_value == self->m_feature_mapping.rows)

#define NV_CONTRACT_dataset_check_feature \
__CPROVER_requires(NV_DATASET_OK(self)) \
__CPROVER_assigns(nv_thrown) \
__CPROVER_ensures(nv_thrown == !NV_FEATURE_OK(self, feature))

#define NV_CONTRACT_dataset_byfeature \
__CPROVER_requires(NV_DATASET_OK(self)) \
__CPROVER_requires(NV_FEATURE_OK(self, feature) ==> (0 <= self->m_feature_mapping.p[feature * 5] && (uint64_t)self->m_feature_mapping.p[feature * 5] < self->m_generators.size)) \
__CPROVER_assigns(nv_thrown) \
__CPROVER_ensures(nv_thrown == !NV_FEATURE_OK(self, feature)) \
__CPROVER_ensures(!nv_thrown ==> __CPROVER_return_value == &self->m_generators.p[self->m_feature_mapping.p[feature * 5]])
