/* C08 (mask part): "missing values are marked ..., sample indices outside the valid range are ... never read".
 * The presence bitmask of a feature holds one bit per sample; datasource_t::resize allocates (samples+7)/8 bytes per
 * feature (src/datasource.cpp) and every reader/writer is handed a sample index in [0, samples) (datasource_t::set
 * asserts it, dataset_t::check(samples) is meant to establish it for the iterators).
 *
 *   setbit(m,s): afterwards the bit of s is set, the bit of every other sample s' (ghost nv_g) is unchanged, only byte
 *                s/8 is written (assigns), no bit of that byte is cleared and at most one is added (layout-free);
 *   getbit(m,s): reads byte s/8 < (samples+7)/8 only (pointer checks under the allocation formula), writes nothing;
 *   round trip (layout-free, real setbit + real getbit): getbit(s) after setbit(s); getbit(s') unchanged for s' != s.
 * NV_BIT is the encoding of mask.h (bit 7-(s%8) of byte s/8); the round-trip target does not depend on it. */
#include "nv_tensor.h"
#include <stdlib.h>
struct nv_mask { uint8_t* p; int64_t n; };   /* tensor_(c)map_t<uint8_t, 1>: pointer + number of bytes */
int64_t nv_samples;                          /* ghost: the number of samples the mask was allocated for */
int64_t nv_g;                                /* ghost: an arbitrary other sample, fixed before the call */
#define NV_MAXS 1099511627776L               /* 2^40 samples: keeps 8*bytes inside int64 and the object inside CBMC's offsets */
#define NV_BYTES(samples) (((samples) + 7) / 8)
#define NV_MASK_OK(m) (__CPROVER_is_fresh(m, sizeof(struct nv_mask)) && 0 <= nv_samples && nv_samples <= NV_MAXS \
  && (m)->n == NV_BYTES(nv_samples) && __CPROVER_is_fresh((m)->p, (m)->n > 0 ? (m)->n : 1))
#define NV_BITOF(byte, s) ((((byte) >> (7 - (s) % 8)) & 1) != 0)
#define NV_BIT(m, s) NV_BITOF((m)->p[(s) / 8], s)

/* make_mask(dims): rank-1 dimensions and the assumed contracts of the tensor constructor / zero() */
struct nv_dims1 { int64_t d[1]; };            /* tensor_dims_t<1> = std::array<tensor_size_t, 1> */
/* tensor_mem_t<uint8_t, 1>(dims): allocates size(dims) elements of unspecified content (negative size: undefined) */
static struct nv_mask nv_mask_alloc(struct nv_dims1 dims)
{
  struct nv_mask m;
  __CPROVER_assert(dims.d[0] >= 0, "tensor_mem_t(dims): non-negative size");
  m.n = dims.d[0];
  m.p = malloc(m.n);
  __CPROVER_assume(m.p != NULL);
  return m;
}
/* tensor.zero(): every element becomes 0 */
static void nv_mask_zero(struct nv_mask* m) { __CPROVER_array_set(m->p, (uint8_t)0); }

#define NV_CONTRACT_mask_setbit \
__CPROVER_requires(NV_MASK_OK(mask) && 0 <= sample && sample < nv_samples && 0 <= nv_g && nv_g < nv_samples) \
__CPROVER_assigns(mask->p[sample / 8]) \
/* the bit of `sample` is set */ \
__CPROVER_ensures(NV_BIT(mask, sample)) \
/* the bit of every other sample is unchanged (ghost index) */ \
__CPROVER_ensures(nv_g != sample ==> NV_BIT(mask, nv_g) == NV_BITOF(__CPROVER_old(mask->p[nv_g / 8]), nv_g)) \
/* layout-free: no bit of the byte is cleared, at most one bit is added */ \
__CPROVER_ensures((__CPROVER_old(mask->p[sample / 8]) & ~mask->p[sample / 8]) == 0) \
__CPROVER_ensures((((mask->p[sample / 8] ^ __CPROVER_old(mask->p[sample / 8]))) & ((mask->p[sample / 8] ^ __CPROVER_old(mask->p[sample / 8])) - 1)) == 0)

#define NV_CONTRACT_mask_getbit \
__CPROVER_requires(NV_MASK_OK(mask) && 0 <= sample && sample < nv_samples) \
__CPROVER_assigns() \
__CPROVER_ensures(__CPROVER_return_value == NV_BIT(mask, sample))

/* optional(mask, samples) <=> some sample in [0, samples) has no value:
 *   false ("no value is missing") only if every sample's bit is set            (ghost index nv_g);
 *   true only if some sample's bit is clear: the witness is the last mask byte the function read (recorded by the
 *   element-access stub below, which changes nothing else) -- that byte has a clear bit at a position that belongs to
 *   a sample < samples (the unused tail bits of the last byte do not count);
 *   reads bytes < (samples+7)/8 only (pointer checks). */
int64_t nv_w_byte;                           /* ghost witness: index of the mask byte read last */
static const uint8_t* nv_mask_at(const struct nv_mask* m, int64_t i) { nv_w_byte = i; return &m->p[i]; }
/* bits of byte b that belong to no sample (positions >= samples): the low 8 - samples%8 bits of the last byte */
#define NV_TAIL(b, samples) (((samples) % 8 != 0 && (b) == (samples) / 8) ? (0xFF >> ((samples) % 8)) : 0)
#define NV_CONTRACT_mask_optional \
__CPROVER_requires(NV_MASK_OK(mask) && samples == nv_samples && 0 <= nv_g && nv_g < nv_samples) \
__CPROVER_assigns(nv_w_byte) \
__CPROVER_ensures(!__CPROVER_return_value ==> NV_BIT(mask, nv_g)) \
__CPROVER_ensures(__CPROVER_return_value ==> (0 <= nv_w_byte && nv_w_byte < NV_BYTES(samples) && (mask->p[nv_w_byte] | NV_TAIL(nv_w_byte, samples)) != 0xFF))
#define NV_LOOP_mask_optional_1 \
__CPROVER_assigns(byte, nv_w_byte) \
__CPROVER_loop_invariant(0 <= byte && byte <= bytes && (nv_g / 8 < byte ==> mask->p[nv_g / 8] == 0xFF)) \
__CPROVER_decreases(bytes - byte)
#define NV_LOOP_mask_optional_2 \
__CPROVER_assigns(sample, nv_w_byte) \
__CPROVER_loop_invariant(8 * bytes <= sample && sample <= (samples > 8 * bytes ? samples : 8 * bytes) && (nv_g < sample ==> NV_BIT(mask, nv_g))) \
__CPROVER_decreases(samples - sample)
