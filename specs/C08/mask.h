/* C08 (mask part): "missing values are marked ..., sample indices outside the valid range are ... never read".
 * The presence bitmask of a feature holds one bit per sample; datasource_t::resize allocates (samples+7)/8 bytes per
 * feature (src/datasource.cpp) and every reader/writer is handed a sample index in [0, samples) (datasource_t::set
 * asserts it, dataset_t::check(samples) is meant to establish it for the iterators).
 *
 *   setbit(m,s): afterwards the bit of s is set, the bit of every other sample s' (ghost nv_g) is unchanged, only byte
 *                s/8 is written (assigns), no bit of that byte is cleared and at most one is added (layout-free);
 *   getbit(m,s): reads byte s/8 < (samples+7)/8 only (pointer checks under the allocation formula), writes nothing;
 *   round trip (layout-free, real setbit + real getbit): getbit(s) after setbit(s); getbit(s') unchanged for s' != s.
 * NV_BIT is the encoding of mask.h (bit 7-(s%8) of byte s/8); the round-trip target does not depend on it. */
#include "nv_tensor.h"
#include <stdlib.h>
struct nv_mask { uint8_t* p; int64_t n; };   /* tensor_(c)map_t<uint8_t, 1>: pointer + number of bytes */
int64_t nv_samples;                          /* ghost: the number of samples the mask was allocated for */
int64_t nv_g;                                /* ghost: an arbitrary other sample, fixed before the call */
#define NV_MAXS 1099511627776L               /* 2^40 samples: keeps 8*bytes inside int64 and the object inside CBMC's offsets */
#define NV_BYTES(samples) (((samples) + 7) / 8)
#define NV_MASK_OK(m) (__CPROVER_is_fresh(m, sizeof(struct nv_mask)) && 0 <= nv_samples && nv_samples <= NV_MAXS \
  && (m)->n == NV_BYTES(nv_samples) && __CPROVER_is_fresh((m)->p, (m)->n > 0 ? (m)->n : 1))
#define NV_BITOF(byte, s) ((((byte) >> (7 - (s) % 8)) & 1) != 0)
#define NV_BIT(m, s) NV_BITOF((m)->p[(s) / 8], s)

#define NV_CONTRACT_mask_setbit \
__CPROVER_requires(NV_MASK_OK(mask) && 0 <= sample && sample < nv_samples && 0 <= nv_g && nv_g < nv_samples) \
__CPROVER_assigns(mask->p[sample / 8]) \
/* the bit of `sample` is set */ \
__CPROVER_ensures(NV_BIT(mask, sample)) \
/* the bit of every other sample is unchanged (ghost index) */ \
__CPROVER_ensures(nv_g != sample ==> NV_BIT(mask, nv_g) == NV_BITOF(__CPROVER_old(mask->p[nv_g / 8]), nv_g)) \
/* layout-free: no bit of the byte is cleared, at most one bit is added */ \
__CPROVER_ensures((__CPROVER_old(mask->p[sample / 8]) & ~mask->p[sample / 8]) == 0) \
__CPROVER_ensures((((mask->p[sample / 8] ^ __CPROVER_old(mask->p[sample / 8]))) & ((mask->p[sample / 8] ^ __CPROVER_old(mask->p[sample / 8])) - 1)) == 0)

#define NV_CONTRACT_mask_getbit \
__CPROVER_requires(NV_MASK_OK(mask) && 0 <= sample && sample < nv_samples) \
__CPROVER_assigns() \
__CPROVER_ensures(__CPROVER_return_value == NV_BIT(mask, sample))

/* optional(mask, samples): "no value is missing" may only be reported if every sample's bit is set (ghost index);
 * reads bytes < (samples+7)/8 only. */
#define NV_CONTRACT_mask_optional \
__CPROVER_requires(NV_MASK_OK(mask) && samples == nv_samples && 0 <= nv_g && nv_g < nv_samples) \
__CPROVER_assigns() \
__CPROVER_ensures(!__CPROVER_return_value ==> NV_BIT(mask, nv_g))
#define NV_LOOP_mask_optional_1 \
__CPROVER_assigns(byte) \
__CPROVER_loop_invariant(0 <= byte && byte <= bytes && (nv_g / 8 < byte ==> mask->p[nv_g / 8] == 0xFF)) \
__CPROVER_decreases(bytes - byte)
#define NV_LOOP_mask_optional_2 \
__CPROVER_assigns(sample) \
__CPROVER_loop_invariant(8 * bytes <= sample && sample <= (samples > 8 * bytes ? samples : 8 * bytes) && (nv_g < sample ==> NV_BIT(mask, nv_g))) \
__CPROVER_decreases(samples - sample)
