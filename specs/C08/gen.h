/* C08 (drop / shuffle protocol of generator_t): "Dropping a feature makes exactly that feature missing, shuffling a
 * feature permutes exactly that feature by the reported bijection, and undoing restores the original views", over "any
 * sequence of drop/undrop/shuffle/unshuffle calls".
 *
 * Transition contracts over an ARBITRARY reachable state (representation invariant below), observed through the real
 * readers should_drop(f) / shuffled(f) -- what select() and flatten() consult -- so that they hold after every call
 * sequence by induction:
 *   drop(f)     : should_drop(f); every other feature keeps its dropped flag and its permutation
 *   shuffle(f)  : shuffled(f) is a permutation of all samples() samples and f is not dropped; other features unchanged
 *   undrop()    : no feature is dropped; every feature's permutation is unchanged or gone (original view)
 *   unshuffle() : no feature is shuffled; every feature's dropped flag is unchanged or cleared (original view)
 *   each operation re-establishes the representation invariant.
 * Representation invariant (stated at the ghost features): the flag byte is one of the documented values 0 / 1 (drop) /
 * 2 (shuffle), and a feature flagged 2 owns a stored permutation of all samples.
 * select(samples, f, storage) x4: a dropped feature is filled with the missing marker (NaN / -1) and the generator's own
 * do_select is not run; otherwise do_select runs on exactly these arguments and nothing else is written. */
#include "mask.h"
struct nv_ds { int64_t samples; };                                   /* datasource_t: samples() */
struct nv_idx { int64_t n; uint64_t id; uint8_t perm; };               /* indices_t / indices_cmap_t: length, identity of the contents, "is a permutation of [0, n)" */
struct nv_kv { int64_t first; struct nv_idx second; };               /* value_type of the permutation map */
struct nv_shufmap { uint8_t* has; struct nv_kv* kv; int64_t n; };    /* unordered_map<feature, indices_t> over the keys [0, n) */
struct nv_shufit { const struct nv_shufmap* m; int64_t k; };         /* const_iterator: the key it points to, or k == -1 for end() */
struct nv_rng { int32_t unused; };
struct nv_generator { struct nv_ds* m_datasource; struct nv_mask m_feature_infos; struct nv_shufmap m_feature_shuffles; };
uint64_t nv_fresh_id;

/* generator_t::datasource(): throws before fit(), else the fitted data source */
static struct nv_ds* nv_gen_datasource(const struct nv_generator* g) { if (g->m_datasource == NULL) nv_thrown = 1; return g->m_datasource; }
static struct nv_rng nv_make_rng(void) { struct nv_rng r; r.unused = nv_nondet_int32_t(); return r; }
/* arange(0, n): the identity permutation of [0, n) */
static struct nv_idx nv_arange(int64_t lo, int64_t hi) { struct nv_idx v; v.n = hi > lo ? hi - lo : 0; v.id = nv_nondet_uint64_t(); v.perm = (lo == 0); return v; }
/* std::shuffle(begin(v), end(v), rng): permutes the elements of v (a permutation stays a permutation, new contents) */
static void nv_std_shuffle(struct nv_idx* b, struct nv_idx* e) { __CPROVER_assert(b == e, "std::shuffle over [begin(v), end(v)) of one vector"); b->id = nv_nondet_uint64_t(); }
/* unordered_map: operator[] inserts a default value if the key is absent; find; iterator dereference (end() must not be dereferenced); clear */
static struct nv_idx* nv_shufmap_at(struct nv_shufmap* m, int64_t k)
{
  __CPROVER_assert(0 <= k && k < m->n, "permutation map: key is a feature index");
  if (!m->has[k]) { m->has[k] = 1; m->kv[k].first = k; m->kv[k].second.n = 0; m->kv[k].second.perm = 0; }
  return &m->kv[k].second;
}
static struct nv_shufit nv_shufmap_find(const struct nv_shufmap* m, int64_t k)
{ struct nv_shufit it; it.m = m; it.k = (0 <= k && k < m->n && m->has[k]) ? k : -1; return it; }
static const struct nv_kv* nv_shufit_deref(const struct nv_shufit* it)
{ __CPROVER_assert(it->k >= 0, "permutation map: the iterator returned by find() is dereferenced only if the key was found"); return &it->m->kv[it->k]; }
static void nv_shufmap_clear(struct nv_shufmap* m) { __CPROVER_array_set(m->has, (uint8_t)0); }
/* tensor.array() = value: every element is set */
static void nv_mask_fill(struct nv_mask* m, const uint8_t* v) { __CPROVER_array_set(m->p, *v); }

/* representation invariant at feature f */
#define NV_GEN_INV(g, f) ((g)->m_feature_infos.p[f] <= 2 && ((g)->m_feature_infos.p[f] == 2 ==> ((g)->m_feature_shuffles.has[f] \
  && (g)->m_feature_shuffles.kv[f].second.n == (g)->m_datasource->samples && (g)->m_feature_shuffles.kv[f].second.perm)))

/* ---- select(samples, ifeature, storage): ghost records of the two possible effects */
struct nv_store { uint64_t id; };                 /* *_map_t output views: identity only */
double NaN;                                        /* generator_t::NaN (static constexpr quiet NaN): constrained to be a NaN in the contracts */
_Bool nv_filled, nv_selected; uint64_t nv_fill_id, nv_sel_store, nv_sel_samples; int64_t nv_sel_feature, nv_fill_int; double nv_fill_dbl;
static void nv_store_full_d(struct nv_store* s, double v) { nv_filled = 1; nv_fill_id = s->id; nv_fill_dbl = v; nv_fill_int = 0; }
static void nv_store_full_i(struct nv_store* s, int64_t v) { nv_filled = 1; nv_fill_id = s->id; nv_fill_int = v; nv_fill_dbl = 0.0; }
static void nv_do_select(const struct nv_generator* g, struct nv_idx samples, int64_t ifeature, struct nv_store storage)
{ nv_selected = 1; nv_sel_samples = samples.id; nv_sel_feature = ifeature; nv_sel_store = storage.id; }

#define NV_GEN_OK(self) (__CPROVER_is_fresh(self, sizeof(*self)) && 0 <= (self)->m_feature_infos.n && (self)->m_feature_infos.n <= NV_MAXN \
  && __CPROVER_is_fresh((self)->m_feature_infos.p, (self)->m_feature_infos.n > 0 ? (self)->m_feature_infos.n : 1))
#define NV_GEN_SELECT(MISSING) \
__CPROVER_requires(NV_GEN_OK(self) && 0 <= ifeature && ifeature < self->m_feature_infos.n && NaN != NaN && !nv_filled && !nv_selected) \
__CPROVER_assigns(nv_filled, nv_selected, nv_fill_id, nv_sel_store, nv_sel_samples, nv_sel_feature, nv_fill_int, nv_fill_dbl) \
/* dropped: the whole view carries the missing marker and the feature's own values are not computed */ \
__CPROVER_ensures(self->m_feature_infos.p[ifeature] == 1 ==> (nv_filled && nv_fill_id == storage.id && (MISSING) && !nv_selected)) \
/* not dropped: the generator computes this feature for these samples into this view, nothing is overwritten */ \
__CPROVER_ensures(self->m_feature_infos.p[ifeature] != 1 ==> (nv_selected && nv_sel_samples == samples.id && nv_sel_feature == ifeature && nv_sel_store == storage.id && !nv_filled))
#define NV_CONTRACT_gen_select_scalar NV_GEN_SELECT(nv_fill_dbl != nv_fill_dbl)
#define NV_CONTRACT_gen_select_struct NV_GEN_SELECT(nv_fill_dbl != nv_fill_dbl)
#define NV_CONTRACT_gen_select_sclass NV_GEN_SELECT(nv_fill_int == -1)
#define NV_CONTRACT_gen_select_mclass NV_GEN_SELECT(nv_fill_int == -1)
/* should_drop is the documented flag test; the select contracts above are phrased over the flag it reads */
#define NV_CONTRACT_gen_should_drop \
__CPROVER_requires(NV_GEN_OK(self) && 0 <= feature && feature < self->m_feature_infos.n) __CPROVER_assigns() \
__CPROVER_ensures(__CPROVER_return_value == (self->m_feature_infos.p[feature] == 1))
