"""C09 -- linear::function_t::weights / bias (const and non-const overloads): WHICH coefficients of the parameter vector are W and b.

From the property statement ("the linear-model objective equals mean_i loss(t_i, W*x_i+b) + ..." over ONE parameter vector of
isize*tsize + tsize coefficients): the weights are the FIRST isize*tsize coefficients viewed as a tsize x isize matrix, the bias the NEXT
tsize coefficients; the two ranges are disjoint and together cover exactly [0, size()); the const and the non-const overload of an
accessor denote the same range (a value read through one and a gradient written through the other belong to the same coefficients).

Back end B over Int (offset arithmetic like specs/C16): every instantiation of the four member templates that exists in the
instantiation-only driver drivers/inst_linear_parts.cpp (3 vector types x const / non-const x weights / bias) and in
src/linear/function.cpp (the ones do_vgrad really calls) is walked on its real body.  A view is (buffer, element offset, extents).
ONE clause function (`clauses`) is the postcondition proved here AND the text the CBMC target linear_do_vgrad assumes for the calls
bias(x) / weights(x) / bias(gx) / weights(gx) (printed to C by `c_facts`; the product isize*tsize is NAMED there, never computed).
"""
import re
import astload
import nvwp
from core import VC
from nvwp import V, AND, IMP, Unsupported
from wplib import IdEnvWP

DRV = 'drivers/inst_linear_parts.cpp'
LTU = 'src/linear/function.cpp'
FLT = 'nano::linear::function_t'
HDR = astload.REPO + '/include/nano/linear/function.h'
INT64_MAX = 2 ** 63 - 1
SYMS = dict(isize='isize', tsize='tsize', wsize='wsize', xsize='xsize')


def clauses(kind, off, dims, s=SYMS):
    """the contract of weights(x) / bias(x): `off` = element offset of the view inside x, `dims` = its extents (terms); s names
    m_isize, m_tsize, the product m_isize * m_tsize (wsize) and x.size() (xsize).  First token of a label = obligation id."""
    if kind == 'weights':
        out = [('weights_rank: the weights view is a matrix (two extents)', 'true' if len(dims) == 2 else 'false')]
        if len(dims) == 2:
            out += [('weights_offset: the weights start at coefficient 0 of the parameter vector', f'(= {off} 0)'),
                    ('weights_rows: the weights matrix has tsize rows', f'(= {dims[0]} {s["tsize"]})'),
                    ('weights_cols: the weights matrix has isize columns', f'(= {dims[1]} {s["isize"]})')]
        return out
    out = [('bias_rank: the bias view is a vector (one extent)', 'true' if len(dims) == 1 else 'false')]
    if len(dims) == 1:
        out += [('bias_offset: the bias starts right after the isize*tsize weights', f'(= {off} {s["wsize"]})'),
                ('bias_size: the bias has tsize coefficients', f'(= {dims[0]} {s["tsize"]})'),
                ('bias_end: the bias ends at size() of the parameter vector', f'(= {dims[0]} (- {s["xsize"]} {off}))')]
    return out


def c_facts(kind, off, dims, s):
    """the same clauses over C names (assumed by the stub of the CBMC target linear_do_vgrad)"""
    import os
    import sys
    d = os.path.join(os.path.dirname(os.path.abspath(__file__)), '..', 'C16')
    if d not in sys.path:
        sys.path.append(d)
    from cspec import smt2c
    return smt2c(AND(*[c for _, c in clauses(kind, off, dims, s)]))


def preconditions(s=SYMS):
    """the asserted precondition of the accessors (x.size() == m_isize * m_tsize + m_tsize; compiled out under NDEBUG, stated here), the
    size bound (x.size() is a tensor_size_t: <= INT64_MAX) and the sign of the two extents (constructor: columns(), size(target_dims))"""
    return [f'(>= {s["isize"]} 0)', f'(>= {s["tsize"]} 0)', f'(= {s["wsize"]} (* {s["isize"]} {s["tsize"]}))',
            f'(= {s["xsize"]} (+ {s["wsize"]} {s["tsize"]}))', f'(<= {s["xsize"]} {INT64_MAX})']


# ------------------------------------------------------------------------------------------------ vocabulary of the walk
def m_data(wp, n, args, obj):
    """x.data(): pointer to coefficient 0 of the buffer x views (ASSUMED contract of tensor storage, proved in C16 sspec)"""
    v = wp.ev(obj)
    if v.s != 'Tens':
        raise Unsupported(f'{wp.name}: data() of something that is not the parameter vector')
    return V('0', 'Ptr', v.t)


def m_size(wp, n, args, obj):
    v = wp.ev(obj)
    if v.s != 'Tens':
        raise Unsupported(f'{wp.name}: size() of something that is not the parameter vector')
    return V(SYMS['xsize'], 'Int', 'long')


def ptr_hook(wp, n):
    """pointer +- integer as offset arithmetic; [expr.add]: the result points into the buffer or one past its end"""
    if n.get('kind') == 'BinaryOperator' and n.get('opcode') in ('+', '-') and nvwp.qual(n.get('type')).rstrip().endswith('*'):
        a, b = wp.ev(n['inner'][0]), wp.ev(n['inner'][1])
        if n['opcode'] == '+' and a.s == 'Int' and b.s == 'Ptr':
            a, b = b, a
        if a.s != 'Ptr' or b.s != 'Int':
            raise Unsupported(f'{wp.name}: pointer arithmetic on unmodelled operands')
        t = f'({n["opcode"]} {a.t} {b.t})' if a.t != '0' or n['opcode'] == '-' else b.t
        wp.oblige('pointer_range: data() + offset stays inside the parameter vector (or one past its end)',
                  f'(and (<= 0 {t}) (<= {t} {SYMS["xsize"]}))', n)
        return V(t, 'Ptr', a.c)
    return None


def h_map_tensor(wp, n, args, callee):
    """map_tensor(pointer, extents...): a view of prod(extents) coefficients starting at the pointer (ASSUMED: it is a constructor of
    (pointer, dims), C16); obligations: every extent >= 0 and the viewed block [off, off + prod) lies inside the buffer"""
    p = wp.ev(args[0])
    if p.s != 'Ptr':
        raise Unsupported(f'{wp.name}: map_tensor of an unmodelled pointer')
    dims = []
    for a in args[1:]:
        v = wp.ev(a)
        if v.s != 'Int':
            raise Unsupported(f'{wp.name}: map_tensor extent of sort {v.s}')
        dims.append(v.t)
    ext = dims[0] if len(dims) == 1 else '(* ' + ' '.join(dims) + ')'
    wp.oblige('view_extents: every extent of the view is non-negative', AND(*[f'(>= {d} 0)' for d in dims]), n)
    wp.oblige('view_inside: the viewed block [offset, offset + extent) lies inside [0, size()) of the parameter vector',
              f'(and (<= 0 {p.t}) (<= (+ {p.t} {ext}) {SYMS["xsize"]}))', n)
    return V(wp.tmp_name('view'), 'View', {'buf': p.c, 'off': p.t, 'dims': dims})


def ptr_decl_hook(wp, v, init):
    """a local of pointer type (`auto* first = x.data() + k;`) or a local view (`auto view = map_tensor(..); return view;`): the value of its initialiser"""
    if v.get('kind') != 'VarDecl' or len(init) != 1:
        return False
    q = nvwp.qual(v.get('type')).replace('const', '').strip()
    if not (q.endswith('*') or re.search(r'tensor_c?map_t<|tensor_(c|m)array_storage_t', q)):
        return False
    val = wp.ev(init[0])
    if val.s not in ('Ptr', 'View'):
        raise Unsupported(f'{wp.name}: local {v["name"]} of type {q} initialised by a value of sort {val.s}')
    wp.env[v['name']] = val
    return True


class PartWP(IdEnvWP):
    def __init__(self, *a, **kw):
        super().__init__(*a, **kw)
        self.decl_hooks = (ptr_decl_hook,) + tuple(self.decl_hooks)

    def tmp_name(self, hint):
        self.n += 1
        return f'{hint}!{self.n}'

    ret_node = None

    def ex(self, n):
        if n.get('kind') == 'ReturnStmt':
            self.ret_node = n
        return super().ex(n)

    def ev(self, n):
        if n.get('kind') == 'MaterializeTemporaryExpr' or n.get('kind') == 'CXXBindTemporaryExpr':
            return self.ev(n['inner'][0])
        if n.get('kind') == 'CXXConstructExpr' and len(n.get('inner', [])) == 1:
            return self.ev(n['inner'][0])       # copy / move of the returned view (elided)
        return super().ev(n)


def walk(tag, fn):
    kind = fn['name']
    wp = PartWP(tag, members=[(r'^data\|', m_data), (r'^size\|', m_size)], calls=[(r'^map_tensor\|', h_map_tensor)], hooks=[ptr_hook])
    keys = wp.bind_params(fn)
    if len(keys) != 1:
        raise astload.ExtractionError(f'{tag}: {len(keys)} parameters')
    wp.env[keys[0][0]] = V('x', 'Tens')
    for nm in SYMS.values():
        wp.const(nm, 'Int', 'long')
    wp.env['self.m_isize'] = V(SYMS['isize'], 'Int', 'long')
    wp.env['self.m_tsize'] = V(SYMS['tsize'], 'Int', 'long')
    for f in preconditions():
        wp.assume(f)

    def post(wp, rv):
        if rv is None or rv.s != 'View':
            wp.oblige(f'{kind}_view: the accessor returns a view of the parameter vector', 'false', wp.ret_node)
            return []
        out = [(f'{kind}_buffer: the view is a view of the parameter vector handed in', 'true' if rv.c['buf'] == 'x' else 'false')]
        # raised directly (not returned): the label then STARTS with the clause identifier, which is what mutations.json `expect` is matched against
        for label, claim in out + clauses(kind, rv.c['off'], rv.c['dims']):
            wp.oblige(label, claim, wp.ret_node)
        return []
    wp.post = post
    wp.ret_sort = None
    wp.run(fn, HDR)
    if wp.returns == 0:
        raise astload.ExtractionError(f'{tag}: no return path')
    about = f'linear::function_t::{kind}: which coefficients of the parameter vector the view denotes'
    vcs = wp.vcs(tag, HDR, about)
    from wplib import reach_vc
    vcs.append(reach_vc(wp, tag, HDR))
    return vcs


def storage_of(d):
    t = astload.template_args(d)[0] if astload.template_args(d) else '?'
    m = re.search(r'tensor_(vector|marray|carray)_storage_t', t)
    return {'vector': 'vec', 'marray': 'map', 'carray': 'cmap'}.get(m.group(1) if m else '', 'other')


def is_const_overload(d):
    return astload.param_types(d)[0].startswith('const ')


def tag_of(d, tu):
    return f'linear_parts_{d["name"]}_{"const" if is_const_overload(d) else "mut"}_{storage_of(d)}' + ('' if tu == DRV else '_called')


def lemma_vcs():
    """consequences of the contract itself (independent of the code): for ANY two views that satisfy the clauses -- one of weights, one of
    bias -- the ranges are disjoint, adjacent and cover exactly [0, size()); any two views satisfying the clauses of the same accessor
    (const / non-const overload, any vector type) denote the same range"""
    decl = '\n'.join(f'(declare-const {n} Int)' for n in list(SYMS.values()) + ['wo', 'w0', 'w1', 'bo', 'b0', 'wo2', 'w02', 'w12', 'bo2', 'b02'])
    hyp = preconditions() + [c for _, c in clauses('weights', 'wo', ['w0', 'w1'])] + [c for _, c in clauses('bias', 'bo', ['b0'])]
    hyp2 = hyp + [c for _, c in clauses('weights', 'wo2', ['w02', 'w12'])] + [c for _, c in clauses('bias', 'bo2', ['b02'])]
    wext = '(* w0 w1)'
    claims = [('parts_disjoint: the weights range ends where the bias range starts (no coefficient is in both)', hyp, f'(<= (+ wo {wext}) bo)'),
              ('parts_cover: weights and bias together are exactly [0, isize*tsize + tsize) == [0, size())', hyp,
               f'(and (= wo 0) (= (+ wo {wext}) bo) (= (+ bo b0) xsize) (= xsize (+ (* isize tsize) tsize)))'),
              ('parts_no_overflow: isize*tsize, the offsets and the extents are representable (<= INT64_MAX) under the size bound', hyp,
               f'(and (<= 0 (* isize tsize)) (<= (* isize tsize) {INT64_MAX}) (<= 0 bo) (<= (+ bo b0) {INT64_MAX}) (<= {wext} {INT64_MAX}))'),
              ('parts_same_range: two views satisfying the clauses of the same accessor (const / non-const overload) denote the same coefficients', hyp2,
               '(and (= wo wo2) (= w0 w02) (= w1 w12) (= bo bo2) (= b0 b02))')]
    out = []
    for label, h, c in claims:
        smt = nvwp.PRELUDE + decl + '\n' + '\n'.join(f'(assert {f})' for f in h) + f'\n(assert (not {c}))\n(check-sat)\n'
        out.append(VC(f'linear_parts/{label}', smt, about='partition of the parameter vector into weights and bias (lemma about the contract)', source={'file': HDR}))
    smt = nvwp.PRELUDE + decl + '\n' + '\n'.join(f'(assert {f})' for f in hyp2) + '\n(check-sat)\n'
    out.append(VC('linear_parts/reachability canary: the contract clauses are satisfiable', smt, about='vacuity guard (must be sat)', source={'file': HDR}, expect='sat'))
    return out


def called_by_do_vgrad():
    """the accessor instantiations linear::function_t::do_vgrad calls (by clang's declaration id inside the dump of its own TU), in call order:
    [(name, argument source name, definition)]"""
    do = astload.find_definition(LTU, FLT, 'do_vgrad')
    defs = {}
    for nm in ('weights', 'bias'):
        for d in astload.instantiations(LTU, FLT, nm):
            defs[d.get('id')] = d
    out = []
    for n in astload.walk(do):
        if n.get('kind') == 'CXXMemberCallExpr' and n['inner'][0].get('kind') == 'MemberExpr' and n['inner'][0].get('name') in ('weights', 'bias'):
            me = n['inner'][0]
            d = defs.get(me.get('referencedMemberDecl'))
            out.append((me['name'], d))
    return out


def predict_args_vc():
    """data flow from the accessors into the chunk task (read off clang's declaration ids): the one call linear::predict(inputs, W, b, outputs) of
    do_vgrad's lambda receives, as 2nd / 3rd argument, locals initialised by weights(<parameter 0>) / bias(<parameter 0>) -- the views of the
    parameter vector x, not of the gradient buffer (the task contract linear_task takes W and b as given)"""
    from cxx2c import unwrap
    do = astload.find_definition(LTU, FLT, 'do_vgrad')
    params = [c.get('id') for c in do['inner'] if c['kind'] == 'ParmVarDecl']

    def core_of(n):
        u = unwrap(n)
        while u.get('kind') in ('MaterializeTemporaryExpr', 'ExprWithCleanups', 'CXXBindTemporaryExpr', 'CXXConstructExpr', 'ImplicitCastExpr') and len(u.get('inner', [])) == 1:
            u = unwrap(u['inner'][0])
        return u
    origin = {}
    for v in astload.walk(do):
        if v.get('kind') == 'VarDecl' and v.get('inner'):
            u = core_of(v['inner'][-1])
            if u.get('kind') == 'CXXMemberCallExpr' and u['inner'][0].get('name') in ('bias', 'weights') and len(u['inner']) == 2:
                a = core_of(u['inner'][1])
                rid = (a.get('referencedDecl') or {}).get('id')
                origin[v.get('id')] = (u['inner'][0]['name'], params.index(rid) if rid in params else None)
    calls = [n for lam in astload.find_lambdas(do) for n in astload.walk(lam)
             if n.get('kind') == 'CallExpr' and (core_of(n['inner'][0]).get('referencedDecl') or {}).get('name') == 'predict']
    uniq = {}
    for n in calls:       # clang prints a lambda body twice (under the closure class and under the LambdaExpr): one call = one source range
        uniq.setdefault(repr(n.get('range')), n)
    calls = list(uniq.values())
    seen = []
    for n in calls:
        args = [core_of(a) for a in n['inner'][1:]]
        seen.append([origin.get((a.get('referencedDecl') or {}).get('id')) for a in args])
    ok = len(calls) == 1 and len(seen[0]) == 4 and seen[0][1] == ('weights', 0) and seen[0][2] == ('bias', 0)
    smt = nvwp.PRELUDE + f'(assert (not {"true" if ok else "false"}))\n(check-sat)\n'
    return VC(f'linear_parts/predict_args: the chunk task predicts with W = weights(x) and b = bias(x) of the parameter vector x (found: {seen})', smt,
              about='data flow from the accessors into linear::predict', source={'file': astload.REPO + '/' + LTU})


def vcs():
    out, seen, fns, walked = [], set(), [], {}
    want = {(nm, c, s) for nm in ('weights', 'bias') for c in (True, False) for s in ('vec', 'map', 'cmap')}
    for tu in (DRV, LTU):
        for nm in ('weights', 'bias'):
            for d in astload.instantiations(tu, FLT, nm):
                tag = tag_of(d, tu)
                if tag in seen or d.get('mangledName') in walked:
                    continue        # the same instantiation (same mangled name, same header body) was walked from the driver
                seen.add(tag)
                walked[d.get('mangledName')] = tag
                if tu == DRV:
                    want.discard((nm, is_const_overload(d), storage_of(d)))
                out += walk(tag, d)
                fns.append({'c_name': tag, 'cxx': f'linear::function_t::{nm}<{astload.template_args(d)[0]}>({astload.param_types(d)[0]})', 'file': HDR,
                            'line': d.get('loc', {}).get('line'), 'sha': astload.file_hash(HDR)})
    if want:
        raise astload.ExtractionError(f'accessor overloads without an instantiation in {DRV}: {sorted(want)}')
    called = called_by_do_vgrad()
    missing = [nm for nm, d in called if d is None or d.get('mangledName') not in walked]
    ok = 'true' if called and not missing else 'false'
    smt = nvwp.PRELUDE + f'(assert (not {ok}))\n(check-sat)\n'
    out.append(VC('linear_parts/called_under_contract: every weights / bias call of do_vgrad resolves to an instantiation walked above '
                  f'({len(called)} calls: {", ".join(nm + ":" + str(walked.get((d or {}).get("mangledName"))) for nm, d in called)})', smt,
                  about='the accessors do_vgrad calls are the ones under contract', source={'file': astload.REPO + '/' + LTU}))
    out.append(predict_args_vc())
    return out + lemma_vcs(), fns


# ------------------------------------------------------------------------------------------------ alpha-renaming for the walkers of do_vgrad
def canon_do_vgrad(fn):
    """a copy of the AST of linear::function_t::do_vgrad in which the locals that are initialised by an accessor call are NAMED by what
    they are -- bias(<param 0>) -> b, weights(<param 0>) -> W, bias(<param 1>) -> gb, weights(<param 1>) -> gW --, the parameters x / gx by
    position (renaming of declarations and of every reference to them by clang's declaration id:
    alpha-conversion).  The walkers reg_smt / reg_generic identify these objects by name; with this step a renamed local is no longer an
    extraction break, and a local that is NOT initialised by the accessor it is named after no longer passes for it."""
    import copy
    from cxx2c import unwrap
    fn = copy.deepcopy(fn)
    params = [c for c in fn['inner'] if c['kind'] == 'ParmVarDecl']
    ren = {}
    if len(params) == 2:
        ren[params[0].get('id')] = 'x'
        ren[params[1].get('id')] = 'gx'
    pos = {params[k].get('id'): k for k in range(len(params))}

    def core_of(n):
        u = unwrap(n)
        while u.get('kind') in ('MaterializeTemporaryExpr', 'ExprWithCleanups', 'CXXBindTemporaryExpr', 'CXXConstructExpr', 'ImplicitCastExpr') and len(u.get('inner', [])) == 1:
            u = unwrap(u['inner'][0])
        return u
    for v in astload.walk(fn):
        if v.get('kind') != 'VarDecl' or not v.get('inner'):
            continue
        u = core_of(v['inner'][-1])
        if u.get('kind') == 'CXXMemberCallExpr' and u['inner'][0].get('kind') == 'MemberExpr' and u['inner'][0].get('name') in ('bias', 'weights') \
                and unwrap(u['inner'][0]['inner'][0]).get('kind') == 'CXXThisExpr' and len(u['inner']) == 2:
            a = core_of(u['inner'][1])
            k = pos.get((a.get('referencedDecl') or {}).get('id')) if a.get('kind') == 'DeclRefExpr' else None
            if k is None:
                raise astload.ExtractionError(f'do_vgrad: {u["inner"][0]["name"]}(..) of something that is not a parameter')
            ren[v.get('id')] = {('bias', 0): 'b', ('weights', 0): 'W', ('bias', 1): 'gb', ('weights', 1): 'gW'}[(u['inner'][0]['name'], k)]
    taken = {}
    for i, nm in ren.items():
        if nm in taken:
            raise astload.ExtractionError(f'do_vgrad: two locals are both {nm}')
        taken[nm] = i
    for n in astload.walk(fn):
        if n.get('kind') in ('VarDecl', 'ParmVarDecl'):
            if n.get('id') in ren:
                n['name'] = ren[n['id']]
            elif n.get('name') in taken:
                raise astload.ExtractionError(f'do_vgrad: the local {n["name"]!r} is not what its name says (not initialised by the accessor call)')
        rd = n.get('referencedDecl')
        if isinstance(rd, dict) and rd.get('id') in ren:
            rd['name'] = ren[rd['id']]
    return fn
