/* C09 (c): constructors of the dataset iterators and of the ML objectives.
 * Property clause they serve: "these values do not depend on the number of worker threads / the batch size": the chunk tasks index
 * per-thread accumulators / buffers by the worker number tnum < pool.size() (C17) -- the vectors must therefore have exactly
 * pool.size() entries of THE pool the iterator maps on; the per-sample buffers of the gboost objectives must have one row per sample
 * of the iterator (a chunk writes rows [begin, end) with end <= #samples); the accumulators start zeroed with the shape of the
 * gradient they sum; the problem dimension is the one do_vgrad splits x by ((inputs + 1) * targets; #clusters; #targets;
 * #samples * #targets).  Everything is a provenance / shape record: no numerics. */
#include "nv_base.h"
enum { NVE_scaling_type_none = 0, NVE_scaling_type_mean = 1, NVE_scaling_type_minmax = 2, NVE_scaling_type_standard = 3 };  /* nano::scaling_type */
struct nv_cpool { uint64_t size; };                                            /* parallel::pool_t: size() workers */
struct nv_cfeature { _Bool valid; };
struct nv_cdims { int64_t d0; uint64_t tail; };                                /* tensorNd_dims_t: leading dimension + identity of the rest */
struct nv_cdataset { uint64_t id; struct nv_cpool* m_pool; int64_t columns; struct nv_cdims tdims; int64_t n_samples; struct nv_cfeature target; };
struct nv_cindices { uint64_t id; int64_t size; };                              /* indices_t / indices_cmap_t: identity of the contents + length */
enum { NV_STATS_DEFAULT = 0, NV_STATS_TARGETS = 1, NV_STATS_FLATTEN = 2 };
struct nv_cstats { int32_t kind; uint64_t ds, samples; };                       /* scalar_stats_t: made from which (dataset, samples) */
struct nv_cbufs { uint64_t size; };                                             /* std::vector<buffer>(n) */
struct nv_ctens { int64_t rows, cols; uint64_t tail; _Bool zeroed; };           /* tensorNd_t: leading dimension, 2nd dimension (rank 2) / identity of the others (rank 4) */
struct nv_citer { const struct nv_cdataset* m_dataset; struct nv_cindices m_samples; int64_t m_batch; int32_t m_scaling; struct nv_ctens m_targets;
                  struct nv_cstats m_targets_stats; struct nv_cbufs m_targets_buffers;
                  struct nv_cstats m_flatten_stats; struct nv_cbufs m_flatten_buffers; struct nv_ctens m_flatten;
                  struct nv_cbufs m_buffers; struct nv_cindices m_sclass_features, m_mclass_features, m_scalar_features, m_struct_features; };

static struct nv_cfeature nv_ds_target(const struct nv_cdataset* d) { return d->target; }
static _Bool nv_feature_valid(const struct nv_cfeature* f) { return f->valid; }
static struct nv_cindices nv_indices_copy(struct nv_cindices s) { return s; }
/* scalar_stats_t::make_targets_stats / make_flatten_stats(dataset, samples): statistics OF these samples of this dataset (C14) */
static struct nv_cstats nv_make_stats(int32_t kind, const struct nv_cdataset* d, struct nv_cindices s)
{ struct nv_cstats r; r.kind = kind; r.ds = d->id; r.samples = s.id; return r; }
static struct nv_cstats nv_stats_default(void) { struct nv_cstats r; r.kind = NV_STATS_DEFAULT; r.ds = 0; r.samples = 0; return r; }
static struct nv_cbufs nv_bufs_make(uint64_t n) { struct nv_cbufs b; b.size = n; return b; }          /* std::vector<T>(n): n entries */
static struct nv_ctens nv_tens_empty(void) { struct nv_ctens t; t.rows = 0; t.cols = 0; t.tail = 0; t.zeroed = 0; return t; }   /* tensor_t(): no rows */
static struct nv_cindices nv_make_features(const struct nv_cdataset* d) { struct nv_cindices s; s.id = nv_nondet_uint64_t(); s.size = nv_nondet_int64_t(); return s; }

#define NV_DS_FRESH(d) (__CPROVER_is_fresh(d, sizeof(*(d))) && __CPROVER_is_fresh((d)->m_pool, sizeof(struct nv_cpool)))
/* contracts name the parameters through NV_ARG_<fn>_<k> (k-th parameter, self first): a renamed parameter does not break them */
#define NV_CONTRACT_dataset_concurrency \
__CPROVER_requires(NV_DS_FRESH(self)) __CPROVER_assigns() \
__CPROVER_ensures(__CPROVER_return_value == self->m_pool->size)
#define NV_CONTRACT_base_iter_ctor \
__CPROVER_requires(__CPROVER_is_fresh(self, sizeof(*self)) && NV_DS_FRESH(NV_ARG_base_iter_ctor_1)) __CPROVER_assigns(self->m_dataset) \
__CPROVER_ensures(self->m_dataset == NV_ARG_base_iter_ctor_1)
/* concurrency() of an iterator is the size of the pool of ITS dataset: the pool base_dataset_iterator_t::map runs on (base_map target) */
#define NV_CONTRACT_base_concurrency \
__CPROVER_requires(__CPROVER_is_fresh(self, sizeof(*self)) && NV_DS_FRESH(self->m_dataset)) __CPROVER_assigns() \
__CPROVER_ensures(__CPROVER_return_value == self->m_dataset->m_pool->size)
#define NV_TARGETS_ITER_BUILT(dataset, samples) \
  (self->m_dataset == dataset && self->m_samples.id == samples.id && self->m_samples.size == samples.size \
   && self->m_targets_buffers.size == dataset->m_pool->size && self->m_targets.rows == 0 && self->m_batch >= 1 \
   && (dataset->target.valid ? (self->m_targets_stats.kind == NV_STATS_TARGETS && self->m_targets_stats.ds == dataset->id && self->m_targets_stats.samples == samples.id) \
                             : self->m_targets_stats.kind == NV_STATS_DEFAULT))
/* one per-thread target buffer per worker of the dataset's pool; the samples are the given ones; no cache yet; batch() >= 1;
 * the scaling statistics are those of (this dataset, these samples) */
#define NV_CONTRACT_targets_iter_ctor \
__CPROVER_requires(__CPROVER_is_fresh(self, sizeof(*self)) && NV_DS_FRESH(NV_ARG_targets_iter_ctor_1)) __CPROVER_assigns(__CPROVER_object_whole(self)) \
__CPROVER_ensures(NV_TARGETS_ITER_BUILT(NV_ARG_targets_iter_ctor_1, NV_ARG_targets_iter_ctor_2))
#define NV_FDS NV_ARG_flatten_iter_ctor_1
#define NV_FSM NV_ARG_flatten_iter_ctor_2
#define NV_CONTRACT_flatten_iter_ctor \
__CPROVER_requires(__CPROVER_is_fresh(self, sizeof(*self)) && NV_DS_FRESH(NV_FDS)) __CPROVER_assigns(__CPROVER_object_whole(self)) \
__CPROVER_ensures(NV_TARGETS_ITER_BUILT(NV_FDS, NV_FSM)) \
__CPROVER_ensures(self->m_flatten_buffers.size == NV_FDS->m_pool->size && self->m_flatten.rows == 0) \
__CPROVER_ensures(self->m_flatten_stats.kind == NV_STATS_FLATTEN && self->m_flatten_stats.ds == NV_FDS->id && self->m_flatten_stats.samples == NV_FSM.id)
#define NV_CONTRACT_select_iter_ctor \
__CPROVER_requires(__CPROVER_is_fresh(self, sizeof(*self)) && NV_DS_FRESH(NV_ARG_select_iter_ctor_1)) __CPROVER_assigns(__CPROVER_object_whole(self)) \
__CPROVER_ensures(self->m_dataset == NV_ARG_select_iter_ctor_1 && self->m_buffers.size == NV_ARG_select_iter_ctor_1->m_pool->size)

/* ---- accumulators --------------------------------------------------------------------------------------------------------- */
struct nv_clacc { struct nv_ctens m_outputs, m_vgrads, m_values; double m_vm1; struct nv_ctens m_gb1, m_gW1; };     /* linear::accumulator_t */
struct nv_cgacc { double m_vm1; struct nv_ctens m_gb1; };                                                            /* gboost::accumulator_t */
static void nv_tens_resize1(struct nv_ctens* t, int64_t n) { t->rows = n; t->cols = 1; t->zeroed = 0; }             /* resize: contents unspecified */
static void nv_tens_resize2(struct nv_ctens* t, int64_t r, int64_t c) { t->rows = r; t->cols = c; t->zeroed = 0; }
static struct nv_ctens nv_tens_zero(int64_t n) { struct nv_ctens t; t.rows = n; t.cols = 1; t.tail = 0; t.zeroed = 1; return t; }   /* vector_t::zero(n) */
/* linear::accumulator_t::clear() (contract proved in linear_acc_clear) */
static void nv_lacc_clear(struct nv_clacc* a) { a->m_vm1 = 0.0; a->m_gb1.zeroed = 1; a->m_gW1.zeroed = 1; }
#define NV_LACC_BUILT(a, isize, tsize) ((a).m_gb1.rows == (tsize) && (a).m_gW1.rows == (tsize) && (a).m_gW1.cols == (isize) \
  && (a).m_vm1 == 0.0 && (a).m_gb1.zeroed && (a).m_gW1.zeroed)
#define NV_GACC_BUILT(a, tsize) ((a).m_gb1.rows == (tsize) && (a).m_vm1 == 0.0 && (a).m_gb1.zeroed)
/* shape of the partial sums = shape of the gradient parts (bias: tsize; weights: tsize x isize), and they START at zero (the clear
 * comes after the resize) */
#define NV_CONTRACT_linear_acc_ctor \
__CPROVER_requires(__CPROVER_is_fresh(self, sizeof(*self))) __CPROVER_assigns(__CPROVER_object_whole(self)) \
__CPROVER_ensures(NV_LACC_BUILT(*self, NV_ARG_linear_acc_ctor_1, NV_ARG_linear_acc_ctor_2))
#define NV_CONTRACT_gboost_acc_ctor \
__CPROVER_requires(__CPROVER_is_fresh(self, sizeof(*self))) __CPROVER_assigns(__CPROVER_object_whole(self)) \
__CPROVER_ensures(NV_GACC_BUILT(*self, NV_ARG_gboost_acc_ctor_1))

/* ---- objectives ----------------------------------------------------------------------------------------------------------- */
struct nv_closs { char unused; };
struct nv_ccluster { int64_t n_samples, n_groups; };
struct nv_cfunction { int64_t m_size; };                                        /* nano::function_t: size() */
struct nv_claccs { uint64_t size; struct nv_clacc elem; };                      /* std::vector<accumulator_t>(n, value): n copies of value */
struct nv_cgaccs { uint64_t size; struct nv_cgacc elem; };
struct nv_clfun { struct nv_cfunction base; const struct nv_citer* m_iterator; const struct nv_closs* m_loss; double m_l1reg, m_l2reg; int64_t m_isize, m_tsize;
                  struct nv_claccs m_accumulators; };
struct nv_cgfun { struct nv_cfunction base; const struct nv_citer* m_iterator; const struct nv_closs* m_loss; const struct nv_ccluster* m_cluster;
                  const struct nv_ctens* m_soutputs; const struct nv_ctens* m_woutputs; struct nv_ctens m_values, m_vgrads, m_outputs; struct nv_cgaccs m_accumulators; };
/* tensor_size_t products inside the constructors: UNINTERPRETED (congruence only; a 64-bit multiplier does not terminate in SAT): the
 * stored dimension is that product for every interpretation; absence of overflow is not an obligation here (see assumptions) */
int64_t __CPROVER_uninterpreted_imul(int64_t, int64_t);
#define NV_IMUL(a, b) __CPROVER_uninterpreted_imul(a, b)
static void nv_function_init(struct nv_cfunction* f, int64_t size) { f->m_size = size; }       /* function_t(id, size): size() == size */
static _Bool nv_loss_flag(const struct nv_closs* l) { return nv_nondet__Bool(); }
/* nano::size(dims): the product of the dimensions: a function of the dims */
int64_t __CPROVER_uninterpreted_dims_size(int64_t, uint64_t);
static int64_t nv_dims_size(struct nv_cdims d)
{ return __CPROVER_uninterpreted_dims_size(d.d0, d.tail); }
uint64_t __CPROVER_uninterpreted_dims_pack(int64_t, uint64_t);
static struct nv_cdims nv_cat_dims(int64_t d0, struct nv_cdims t) { struct nv_cdims d; d.d0 = d0; d.tail = __CPROVER_uninterpreted_dims_pack(t.d0, t.tail); return d; }
static struct nv_ctens nv_tens_make1(int64_t n) { struct nv_ctens t; t.rows = n; t.cols = 1; t.tail = 0; t.zeroed = 0; return t; }             /* tensor1d_t(n) */
static struct nv_ctens nv_tens_make4(struct nv_cdims d) { struct nv_ctens t; t.rows = d.d0; t.cols = 0; t.tail = d.tail; t.zeroed = 0; return t; }   /* tensor4d_t(dims) */
/* iterator.concurrency() (contract proved in base_concurrency / dataset_concurrency) */
static uint64_t nv_iter_concurrency(const struct nv_citer* it) { return it->m_dataset->m_pool->size; }
/* accumulator_t{..}: the extracted constructors (inlined) */
void linear_acc_ctor(struct nv_clacc* self, int64_t isize, int64_t tsize);
void gboost_acc_ctor(struct nv_cgacc* self, int64_t tsize);
static struct nv_clacc nv_lacc_make(int64_t isize, int64_t tsize) { struct nv_clacc a; linear_acc_ctor(&a, isize, tsize); return a; }
static struct nv_cgacc nv_gacc_make(int64_t tsize) { struct nv_cgacc a; gboost_acc_ctor(&a, tsize); return a; }
static struct nv_claccs nv_laccs_make(uint64_t n, struct nv_clacc v) { struct nv_claccs r; r.size = n; r.elem = v; return r; }
static struct nv_cgaccs nv_gaccs_make(uint64_t n, struct nv_cgacc v) { struct nv_cgaccs r; r.size = n; r.elem = v; return r; }

#define NV_ITER_FRESH(it) (__CPROVER_is_fresh(it, sizeof(*(it))) && NV_DS_FRESH((it)->m_dataset))
#define NV_ITER_POOL(it) ((it)->m_dataset->m_pool->size)
#define NV_TDIMS_SIZE(it) __CPROVER_uninterpreted_dims_size((it)->m_dataset->tdims.d0, (it)->m_dataset->tdims.tail)
#define NV_ROWS_PER_SAMPLE(t, it) ((t).rows == (it)->m_samples.size && (t).tail == __CPROVER_uninterpreted_dims_pack((it)->m_dataset->tdims.d0, (it)->m_dataset->tdims.tail))
/* linear::function_t(iterator, loss, l1, l2): dimension (inputs + 1) * targets; one accumulator per worker of the iterator's pool, each
 * shaped (targets, targets x inputs) and zeroed; the iterator / loss / regularisation factors are the given ones */
#define NV_LIT NV_ARG_linear_fun_ctor_1
#define NV_CONTRACT_linear_fun_ctor \
__CPROVER_requires(__CPROVER_is_fresh(self, sizeof(*self)) && NV_ITER_FRESH(NV_LIT) && __CPROVER_is_fresh(NV_ARG_linear_fun_ctor_2, sizeof(*NV_ARG_linear_fun_ctor_2))) \
__CPROVER_requires(NV_LIT->m_dataset->columns < INT64_MAX) \
__CPROVER_assigns(__CPROVER_object_whole(self)) \
__CPROVER_ensures(self->m_iterator == NV_LIT && self->m_loss == NV_ARG_linear_fun_ctor_2 && NV_SAME(self->m_l1reg, NV_ARG_linear_fun_ctor_3) && NV_SAME(self->m_l2reg, NV_ARG_linear_fun_ctor_4)) \
__CPROVER_ensures(self->m_isize == NV_LIT->m_dataset->columns && self->m_tsize == NV_TDIMS_SIZE(NV_LIT)) \
__CPROVER_ensures(self->base.m_size == NV_IMUL(NV_LIT->m_dataset->columns + 1, NV_TDIMS_SIZE(NV_LIT))) \
__CPROVER_ensures(self->m_accumulators.size == NV_ITER_POOL(NV_LIT) && NV_LACC_BUILT(self->m_accumulators.elem, NV_LIT->m_dataset->columns, NV_TDIMS_SIZE(NV_LIT)))
/* gboost objectives: per-sample buffers with one row per sample OF THE ITERATOR (not of the dataset / cluster); one accumulator per worker
 * of the iterator's pool, its gradient sum shaped like the parameter vector (size()) and zeroed */
#define NV_GFUN_COMMON(iterator, loss) \
__CPROVER_requires(__CPROVER_is_fresh(self, sizeof(*self)) && NV_ITER_FRESH(iterator) && __CPROVER_is_fresh(loss, sizeof(*loss))) \
__CPROVER_assigns(__CPROVER_object_whole(self)) \
__CPROVER_ensures(self->m_iterator == iterator && self->m_loss == loss) \
__CPROVER_ensures(self->m_values.rows == iterator->m_samples.size && NV_ROWS_PER_SAMPLE(self->m_vgrads, iterator))
#define NV_GFUN_ACCS(iterator) \
__CPROVER_ensures(NV_ROWS_PER_SAMPLE(self->m_outputs, iterator)) \
__CPROVER_ensures(self->m_accumulators.size == NV_ITER_POOL(iterator) && NV_GACC_BUILT(self->m_accumulators.elem, self->base.m_size))
#define NV_SA(k) NV_ARG_scale_fun_ctor_##k
#define NV_CONTRACT_scale_fun_ctor \
__CPROVER_requires(__CPROVER_is_fresh(NV_SA(3), sizeof(*NV_SA(3))) && __CPROVER_is_fresh(NV_SA(4), sizeof(*NV_SA(4))) && __CPROVER_is_fresh(NV_SA(5), sizeof(*NV_SA(5)))) \
NV_GFUN_COMMON(NV_SA(1), NV_SA(2)) NV_GFUN_ACCS(NV_SA(1)) \
__CPROVER_ensures(self->base.m_size == NV_SA(3)->n_groups && self->m_cluster == NV_SA(3) && self->m_soutputs == NV_SA(4) && self->m_woutputs == NV_SA(5))
#define NV_CONTRACT_bias_fun_ctor NV_GFUN_COMMON(NV_ARG_bias_fun_ctor_1, NV_ARG_bias_fun_ctor_2) NV_GFUN_ACCS(NV_ARG_bias_fun_ctor_1) \
__CPROVER_ensures(self->base.m_size == NV_TDIMS_SIZE(NV_ARG_bias_fun_ctor_1))
#define NV_CONTRACT_grads_fun_ctor NV_GFUN_COMMON(NV_ARG_grads_fun_ctor_1, NV_ARG_grads_fun_ctor_2) \
__CPROVER_ensures(self->base.m_size == NV_IMUL(NV_ARG_grads_fun_ctor_1->m_samples.size, NV_TDIMS_SIZE(NV_ARG_grads_fun_ctor_1)))
