/* C09: the access paths of the dataset iterators: targets(tnum, range) / flatten(tnum, range) return "the scaled (missing -> 0)
 * targets / inputs of the samples m_samples[range]" -- the SAME values whether they come from the cache or are gathered on
 * the fly: in both branches the rows were gathered for exactly these sample positions and went, exactly once, through the
 * scaling function with this iterator's statistics and scaling mode.  The cache is filled, chunk by chunk, through the same
 * scaling wrapper (lambdas of cache_targets / cache_flatten).
 *
 * A block of rows is modelled by its PROVENANCE (no numbers): what it holds, for which positions of which sample list it
 * was gathered, whether / how it was scaled, where it is stored (a block gathered on the fly lives in the per-thread
 * buffer of the thread number the task was given -- never in another thread's buffer). */
enum { NV_TARGETS = 1, NV_FLATTEN = 2 };
enum { NVE_scaling_type_none = 0, NVE_scaling_type_mean = 1, NVE_scaling_type_minmax = 2, NVE_scaling_type_standard = 3 };  /* nano::scaling_type */
struct nv_range { int64_t m_begin, m_end; };
struct nv_data
{
  int32_t kind;                 /* NV_TARGETS / NV_FLATTEN */
  uint64_t src;                 /* id of the sample index list the rows were gathered for */
  int64_t begin, end;           /* positions [begin, end) of that list */
  _Bool scaled;                 /* went through scalar_stats_t::scale (scaling + missing -> 0) */
  uint64_t stats; int32_t mode; /* ... with these statistics and this scaling mode */
  _Bool cached; uint64_t buffer;/* stored in the cache / in per-thread buffer number `buffer` */
  int64_t rows;                 /* size<0>() of the storage */
};
struct nv_stats { uint64_t id; };                          /* scalar_stats_t */
struct nv_samples { uint64_t id; int64_t size; };          /* indices_t m_samples */
struct nv_sslice { uint64_t src; int64_t begin, end; };    /* m_samples.slice(range) */
struct nv_buf { uint64_t tnum; };
struct nv_bufs { uint64_t size; };                         /* std::vector<tensor_t>: per-thread buffers */
struct nv_dataset { char unused; };
struct nv_xiter                                            /* targets_iterator_t / flatten_iterator_t */
{
  struct nv_dataset m_dataset; struct nv_samples m_samples; int32_t m_scaling; int64_t m_batch;
  struct nv_data m_targets; struct nv_stats m_targets_stats; struct nv_bufs m_targets_buffers;
  struct nv_data m_flatten; struct nv_stats m_flatten_stats; struct nv_bufs m_flatten_buffers;
};
struct nv_data nv_w_ret;        /* witness for replay: the provenance of the returned block */

/* ---- assumed contracts of the dependencies ---------------------------------------------------------------------- */
static struct nv_dataset* nv_ds(struct nv_xiter* it) { return &it->m_dataset; }
static struct nv_buf nv_buf_cur;
static struct nv_buf* nv_buf_at(struct nv_bufs* v, uint64_t tnum)                       /* std::vector::operator[] */
{
  __CPROVER_assert(tnum < v->size, "per-thread buffer index below the number of buffers");
  nv_buf_cur.tnum = tnum; return &nv_buf_cur;
}
static struct nv_sslice nv_samples_slice(const struct nv_samples* s, const struct nv_range* r)  /* indices.slice(range) */
{
  __CPROVER_assert(0 <= r->m_begin && r->m_begin <= r->m_end && r->m_end <= s->size, "slice of the sample list inside [0, size)");
  struct nv_sslice x; x.src = s->id; x.begin = r->m_begin; x.end = r->m_end; return x;
}
/* dataset_t::targets(samples, buffer) / dataset_t::flatten(samples, buffer): gathers the raw (unscaled, missing = NaN) rows
 * of the given samples into the buffer */
static struct nv_data nv_gather(int32_t kind, struct nv_sslice s, const struct nv_buf* b)
{
  struct nv_data d; d.kind = kind; d.src = s.src; d.begin = s.begin; d.end = s.end; d.scaled = 0; d.stats = 0; d.mode = 0;
  d.cached = 0; d.buffer = b->tnum; d.rows = s.end - s.begin; return d;
}
static struct nv_data nv_ds_targets(const struct nv_dataset* ds, struct nv_sslice s, const struct nv_buf* b) { return nv_gather(NV_TARGETS, s, b); }
static struct nv_data nv_ds_flatten(const struct nv_dataset* ds, struct nv_sslice s, const struct nv_buf* b) { return nv_gather(NV_FLATTEN, s, b); }
/* scalar_stats_t::scale(mode, values): scales in place with (stats, mode) and maps missing values to 0 (formulas: C14) */
static void nv_stats_scale(const struct nv_stats* st, int32_t mode, struct nv_data* d)
{
  __CPROVER_assert(!d->scaled, "scale: the values are scaled exactly once (not already scaled)");
  d->scaled = 1; d->stats = st->id; d->mode = mode;
}
/* tensor.slice(range): a view of rows [begin, end) of the cache */
static struct nv_data nv_cache_slice(const struct nv_data* c, const struct nv_range* r)
{
  __CPROVER_assert(0 <= r->m_begin && r->m_begin <= r->m_end && r->m_end <= c->rows, "slice of the cache inside [0, rows)");
  struct nv_data d = *c; d.begin = c->begin + r->m_begin; d.end = c->begin + r->m_end; d.cached = 1; return d;
}
/* cache.slice(range) = values */
uint64_t nv_stores; struct nv_data nv_stored, nv_store_at;
static void nv_cache_store(struct nv_data at, struct nv_data v)
{
  __CPROVER_assert(at.cached, "store: the destination is the cache");
  __CPROVER_assert(v.end - v.begin == at.end - at.begin, "store: as many rows as the destination slice");
  nv_stores = nv_stores + 1; nv_stored = v; nv_store_at = at;
}

/* ---- contracts ------------------------------------------------------------------------------------------------------ */
#define NV_SCALED_ROWS_OF_SAMPLES(d, k, S, b, e) ((d).kind == (k) && (d).src == self->m_samples.id && (d).begin == (b) && (d).end == (e) && (d).scaled \
  && (d).stats == self->S.id && (d).mode == self->m_scaling)
/* representation invariant of a cache (established chunk by chunk by the cache_* lambdas below): if it has one row per sample,
 * it holds the scaled values of all samples, scaled with the CURRENT mode (the library sets the mode before caching:
 * src/linear.cpp:35-37) */
/* (an iterator over ZERO samples delivers zero rows from either branch: nothing to hold) */
#define NV_CACHE_OK(c, k, S) ((self->c.rows == self->m_samples.size && self->m_samples.size > 0) ==> NV_SCALED_ROWS_OF_SAMPLES(self->c, k, S, 0, self->m_samples.size))
#define NV_XITER_FRESH __CPROVER_is_fresh(self, sizeof(*self)) && self->m_samples.size >= 0 && self->m_samples.size < (1LL << 60)
#define NV_RANGE_OK __CPROVER_is_fresh(range, sizeof(*range)) && 0 <= range->m_begin && range->m_begin < range->m_end && range->m_end <= self->m_samples.size

/* targets(map) / flatten(map): the scaling wrapper */
#define NV_WRAP_CONTRACT(S) \
__CPROVER_requires(NV_XITER_FRESH && !data.scaled) __CPROVER_assigns() \
__CPROVER_ensures(__CPROVER_return_value.scaled && __CPROVER_return_value.stats == self->S.id && __CPROVER_return_value.mode == self->m_scaling) \
__CPROVER_ensures(__CPROVER_return_value.kind == data.kind && __CPROVER_return_value.src == data.src && __CPROVER_return_value.begin == data.begin && __CPROVER_return_value.end == data.end)
#define NV_CONTRACT_targets_scaled NV_WRAP_CONTRACT(m_targets_stats)
#define NV_CONTRACT_flatten_scaled NV_WRAP_CONTRACT(m_flatten_stats)
/* targets(tnum, range) / flatten(tnum, range): tnum < #buffers is what C17 gives (tnum < pool size == concurrency()) */
#define NV_CONTRACT_targets_at \
__CPROVER_requires(NV_XITER_FRESH && NV_RANGE_OK && tnum < self->m_targets_buffers.size && NV_CACHE_OK(m_targets, NV_TARGETS, m_targets_stats) && self->m_targets.begin == 0) \
__CPROVER_assigns(nv_buf_cur, nv_w_ret) \
__CPROVER_ensures(NV_SCALED_ROWS_OF_SAMPLES(__CPROVER_return_value, NV_TARGETS, m_targets_stats, range->m_begin, range->m_end)) \
__CPROVER_ensures(__CPROVER_return_value.cached || __CPROVER_return_value.buffer == tnum)
#define NV_CONTRACT_flatten_at \
__CPROVER_requires(NV_XITER_FRESH && NV_RANGE_OK && tnum < self->m_flatten_buffers.size && NV_CACHE_OK(m_flatten, NV_FLATTEN, m_flatten_stats) && self->m_flatten.begin == 0) \
__CPROVER_assigns(nv_buf_cur, nv_w_ret) \
__CPROVER_ensures(NV_SCALED_ROWS_OF_SAMPLES(__CPROVER_return_value, NV_FLATTEN, m_flatten_stats, range->m_begin, range->m_end)) \
__CPROVER_ensures(__CPROVER_return_value.cached || __CPROVER_return_value.buffer == tnum)
/* the chunk tasks of cache_targets / cache_flatten: rows [begin, end) of the cache receive the scaled values of exactly
 * the samples at positions [begin, end) */
#define NV_CACHE_TASK_CONTRACT(c, k, S, B) \
__CPROVER_requires(NV_XITER_FRESH && 0 <= begin && begin < end && end <= self->m_samples.size && tnum < self->B.size) \
__CPROVER_requires(self->c.rows == self->m_samples.size && self->c.begin == 0 && nv_stores == 0) \
__CPROVER_assigns(nv_buf_cur, nv_stores, nv_stored, nv_store_at) \
__CPROVER_ensures(nv_stores == 1 && NV_SCALED_ROWS_OF_SAMPLES(nv_stored, k, S, begin, end) && nv_store_at.begin == begin && nv_store_at.end == end) \
__CPROVER_ensures(nv_stored.buffer == tnum)
#define NV_CONTRACT_cache_targets_task NV_CACHE_TASK_CONTRACT(m_targets, NV_TARGETS, m_targets_stats, m_targets_buffers)
/* cache_flatten binds `samples = this->samples()` and `dataset = this->dataset()` by reference before creating the lambda
 * (the enclosing function contains a try/catch and is not extracted: this binding is read off its first two lines) */
#define NV_CONTRACT_cache_flatten_task NV_CACHE_TASK_CONTRACT(m_flatten, NV_FLATTEN, m_flatten_stats, m_flatten_buffers) \
__CPROVER_requires(samples == &self->m_samples && dataset == &self->m_dataset)

/* (b) the setters: scaling(mode) changes the mode and NOTHING else -- in particular a cache keeps the mode tag it was built under
 * (it is NOT rebuilt / dropped): after scaling(m') with m' != the build mode, NV_CACHE_OK no longer holds.  Usage rule (and
 * assumption of targets_at / flatten_at): the mode is set before cache_* and not afterwards -- true at every library call site
 * (src/linear.cpp:34-37, 119-120; src/linear/util.cpp:34-35; src/gboost/model.cpp:91-100, 321-322); natively demonstrated hazard:
 * FINDING_scaling_after_cache.md */
#define NV_CONTRACT_scaling_set \
__CPROVER_requires(NV_XITER_FRESH) __CPROVER_assigns(self->m_scaling) \
__CPROVER_ensures(self->m_scaling == NV_ARG_scaling_set_1) \
__CPROVER_ensures(self->m_targets.mode == __CPROVER_old(self->m_targets.mode) && self->m_flatten.mode == __CPROVER_old(self->m_flatten.mode) \
                  && self->m_targets.rows == __CPROVER_old(self->m_targets.rows) && self->m_flatten.rows == __CPROVER_old(self->m_flatten.rows)) \
__CPROVER_ensures(self->m_targets.scaled == __CPROVER_old(self->m_targets.scaled) && self->m_flatten.scaled == __CPROVER_old(self->m_flatten.scaled) \
                  && self->m_targets.stats == __CPROVER_old(self->m_targets.stats) && self->m_flatten.stats == __CPROVER_old(self->m_flatten.stats))
#define NV_CONTRACT_batch_set \
__CPROVER_requires(NV_XITER_FRESH) __CPROVER_assigns(self->m_batch) \
__CPROVER_ensures(self->m_batch == NV_ARG_batch_set_1)

/* ---- (a) cache_targets / cache_flatten, outer bodies (try / catch printed by the engine's CXXTryStmt form) ---------------------------
 * From the property ("the values do not depend on whether inputs / targets are cached"): whatever happens inside -- allocation failure,
 * a throwing chunk task -- ON RETURN a cache that has one row per sample holds the scaled rows of all samples (NV_CACHE_OK), because the
 * access paths select the cached branch by that shape alone; `true` is returned only for a complete cache; the chunk task is mapped once,
 * over ALL samples, in chunks of batch(), after the cache was resized to one row per sample. */
int64_t __CPROVER_uninterpreted_imul(int64_t, int64_t);
#define NV_IMUL(a, b) __CPROVER_uninterpreted_imul(a, b)        /* the byte-count guard: uninterpreted (it only gates the attempt) */
static int64_t nv_ds_columns(const struct nv_dataset* d) { return nv_nondet_int64_t(); }
static uint64_t nv_ds_tdims(const struct nv_dataset* d) { return nv_nondet_uint64_t(); }
static int64_t nv_tdims_size(uint64_t dims) { return nv_nondet_int64_t(); }
/* tensor_t::resize(dims) (ASSUMED contract, read off include/nano/tensor/storage.h:88-92): the new dimensions are stored FIRST, then the
 * storage is (re)allocated, which may throw std::bad_alloc; the contents are unspecified afterwards */
static void nv_cache_resize(struct nv_data* c, int64_t rows)
{
  c->rows = rows; c->begin = 0; c->end = 0; c->scaled = 0; c->kind = 0; c->src = 0; c->stats = 0; c->mode = 0;
  if (nv_nondet__Bool()) nv_thrown = 1;
}
/* tensorNd_t{}: no rows, nothing held; `cache = std::move(tensor)` (noexcept move assignment of an owning tensor, ASSUMED contract of
 * tensor_vector_storage_t): the destination takes the dimensions and the contents of the source, nothing can throw */
static struct nv_data nv_cache_empty(void)
{ struct nv_data d; d.kind = 0; d.src = 0; d.begin = 0; d.end = 0; d.scaled = 0; d.stats = 0; d.mode = 0; d.cached = 0; d.buffer = 0; d.rows = 0; return d; }
static struct nv_data* nv_cache_assign(struct nv_data* dst, struct nv_data src) { *dst = src; return dst; }
uint64_t nv_cache_maps;
/* map(elements, chunk, task) (C17: tiles [0, elements), rethrows a task's exception) running the chunk task (contract: cache_*_task) */
static void nv_cache_map(struct nv_xiter* it, struct nv_data* c, int32_t kind, uint64_t stats, int64_t elements, int64_t chunk)
{
  __CPROVER_assert(elements == it->m_samples.size, "cache: the chunk task is mapped over ALL samples");
  __CPROVER_assert(chunk == it->m_batch, "cache: in chunks of batch()");
  __CPROVER_assert(c->rows == it->m_samples.size, "cache: resized to one row per sample before it is filled");
  nv_cache_maps = nv_cache_maps + 1;
  if (nv_nondet__Bool()) { nv_thrown = 1; return; }          /* a chunk task threw: only some rows were stored */
  c->kind = kind; c->src = it->m_samples.id; c->begin = 0; c->end = it->m_samples.size; c->scaled = 1; c->stats = stats; c->mode = it->m_scaling;
}
#define NV_CACHE_OUTER(c, k, S) \
__CPROVER_requires(NV_XITER_FRESH && nv_cache_maps == 0 && NV_CACHE_OK(c, k, S)) __CPROVER_assigns(self->c, nv_thrown, nv_cache_maps) \
__CPROVER_ensures(nv_thrown || !__CPROVER_return_value || (self->c.rows == self->m_samples.size && nv_cache_maps == 1)) \
__CPROVER_ensures(nv_thrown || NV_CACHE_OK(c, k, S))
#define NV_CONTRACT_cache_targets NV_CACHE_OUTER(m_targets, NV_TARGETS, m_targets_stats)
#define NV_CONTRACT_cache_flatten NV_CACHE_OUTER(m_flatten, NV_FLATTEN, m_flatten_stats)

/* make_range / tensor_range_t(begin, end): extracted */
void range_ctor(struct nv_range* self, int64_t begin, int64_t end);
static struct nv_range nv_range_make(int64_t begin, int64_t end) { struct nv_range r; range_ctor(&r, begin, end); return r; }
struct nv_range make_range(int64_t begin, int64_t end);
struct nv_data targets_scaled(struct nv_xiter* self, struct nv_data data);
struct nv_data flatten_scaled(struct nv_xiter* self, struct nv_data data);
