"""C09 -- ML objectives equal their definitions for any thread count and batch size: the combinatorial skeleton only.

Decided: how per-thread partial sums are combined (sum_reduce / min_reduce, accumulator clear / += / /=), which sample ranges
the dataset iterators hand to the callbacks (through pool_t::map, proved in C17), the regularisation terms over the reals.
Everything numeric (loss values, Eigen kernels) and everything concurrent is not decided.
"""
import astload
from core import Fn, Target, VC

RTU = 'drivers/inst_reduce.cpp'
ACC = r'^nano::(linear|gboost)::accumulator_t$|cache_t$'
RTYPES = [(r'^\(lambda at .*reduce\.h', 'struct nv_lambda'),
          (r'__normal_iterator<(const )?.*cache_t \*|^std::vector<.*cache_t>::const_iterator$', 'uint64_t'),
          (r'^std::vector<', 'struct nv_accs'), (ACC, 'struct nv_acc'), (r'__alloc_traits<.*accumulator_t.*::value_type$', 'struct nv_acc')]


def targs(*want):
    return lambda d: astload.template_args(d)[:len(want)] == list(want)


def stateless_lambda_hook(P, n):
    """a capture-less lambda object (min_reduce's comparator `op`) is a value without state; its body is extracted separately"""
    if n.get('kind') != 'LambdaExpr':
        return None
    import hooks
    if hooks.lambda_captures(n):
        return None
    return P.default_value(P.ctype(n['type']))


def reduce_targets():
    H = 'specs/C09/reduce.h'
    out = []
    for tag in ('linear', 'gboost'):
        f = Fn(f'sum_reduce_{tag}', RTU, 'sum_reduce', flt='nano::sum_reduce', select=targs(f'nano::{tag}::accumulator_t'), types=RTYPES,
               calls=[(r'^operator\[\]\|', '(*nv_acc_at({&0}, {1}))'), (r'^operator\+=\|', '(*nv_acc_add({&0}, {&1}))'),
                      (r'^operator/=\|', '(*nv_acc_div({&0}, {1}))')],
               members=[(r'^size\|', '{self}->size')], uf_float=False)
        out.append(Target(f'sum_reduce_{tag}', [f], H))
    WTU = 'src/wlearner/stump.cpp'
    common = dict(types=RTYPES, uf_float=False)
    sel = targs('(anonymous namespace)::cache_t')
    cmp_ = lambda: Fn('min_reduce_cmp', WTU, 'min_reduce', flt='nano::min_reduce', select=sel, lambda_index=0, ret='_Bool', **common)
    mr = Fn('min_reduce', WTU, 'min_reduce', flt='nano::min_reduce', select=sel,
            calls=[(r'^min_element\|', 'nv_min_element({0}, {1})'), (r'^operator\*\|', '(*nv_iter_deref({0}, nv_size))')],
            members=[(r'^begin\|', '((uint64_t)0)'), (r'^end\|', '{self}->size')], hooks=[stateless_lambda_hook], **common)
    out += [Target('min_reduce', [mr, cmp_()], H), Target('min_reduce_cmp', [cmp_()], H)]
    return out


def acc_targets():
    H = 'specs/C09/acc.h'
    out = []
    TENS = r'tensor_t<nano::tensor_vector_storage_t, double, \d|^nano::tensor\dd_t$|^nano::vector_t$|^nano::tensor_mem_t<double, \d>$'
    for tag, st in (('linear', 'struct nv_lacc'), ('gboost', 'struct nv_gacc')):
        src = f'src/{tag}/accumulator.cpp'
        common = dict(self_struct=st, types=[(rf'^nano::{tag}::accumulator_t$', st), (TENS, 'struct nv_tens')],
                      members=[(r'^zero\|', 'nv_t_zero'), (r'^array\|', '({self})')],
                      calls=[(r'^operator\+=\|.*\|.*tensor', '(*nv_t_add({&0}, {&1}))'), (r'^operator/=\|.*\|.*tensor', '(*nv_t_div({&0}, {1}))'),
                             (r'^operator=\|.*ArrayWrapper', 'nv_t_fill({0}, {1})')])
        flt = f'{tag}::accumulator_t::'
        out += [Target(f'{tag}_acc_clear', [Fn(f'{tag}_acc_clear', src, 'clear', flt=flt + 'clear', **common)], H),
                Target(f'{tag}_acc_add', [Fn(f'{tag}_acc_add', src, 'operator+=', flt=flt + 'operator+=', **common)], H),
                Target(f'{tag}_acc_div', [Fn(f'{tag}_acc_div', src, 'operator/=', flt=flt + 'operator/=', **common)], H)]
    return out


def build(tier):
    targets = reduce_targets() + acc_targets()
    return {
        'targets': targets, 'vcs': [],
        'decided': [], 'not_decided': [], 'assumptions': [], 'trusted': [],
    }
