"""C09 -- ML objectives equal their definitions for any thread count and batch size: the combinatorial skeleton only.

Decided: how per-thread partial sums are combined (sum_reduce / min_reduce, accumulator clear / += / /=), which sample ranges
the dataset iterators hand to the callbacks (through pool_t::map, proved in C17), the regularisation terms over the reals.
Everything numeric (loss values, Eigen kernels) and everything concurrent is not decided.
"""
import astload
from core import Fn, Target, VC

RTU = 'drivers/inst_reduce.cpp'
ACC = r'^nano::(linear|gboost)::accumulator_t$|cache_t$'
RTYPES = [(r'^\(lambda at .*reduce\.h', 'struct nv_lambda'),
          (r'__normal_iterator<(const )?.*cache_t \*|^std::vector<.*cache_t>::const_iterator$', 'uint64_t'),
          (r'^std::vector<', 'struct nv_accs'), (ACC, 'struct nv_acc'), (r'__alloc_traits<.*accumulator_t.*::value_type$', 'struct nv_acc')]


def targs(*want):
    return lambda d: astload.template_args(d)[:len(want)] == list(want)


def stateless_lambda_hook(P, n):
    """a capture-less lambda object (min_reduce's comparator `op`) is a value without state; its body is extracted separately"""
    if n.get('kind') != 'LambdaExpr':
        return None
    import hooks
    if hooks.lambda_captures(n):
        return None
    return P.default_value(P.ctype(n['type']))


def reduce_targets():
    H = 'specs/C09/reduce.h'
    out = []
    for tag in ('linear', 'gboost'):
        f = Fn(f'sum_reduce_{tag}', RTU, 'sum_reduce', flt='nano::sum_reduce', select=targs(f'nano::{tag}::accumulator_t'), types=RTYPES,
               calls=[(r'^operator\[\]\|', '(*nv_acc_at({&0}, {1}))'), (r'^operator\+=\|', '(*nv_acc_add({&0}, {&1}))'),
                      (r'^operator/=\|', '(*nv_acc_div({&0}, {1}))')],
               members=[(r'^size\|', '{self}->size')], uf_float=False)
        out.append(Target(f'sum_reduce_{tag}', [f], H))
    WTU = 'src/wlearner/stump.cpp'
    common = dict(types=RTYPES, uf_float=False)
    sel = targs('(anonymous namespace)::cache_t')
    cmp_ = lambda: Fn('min_reduce_cmp', WTU, 'min_reduce', flt='nano::min_reduce', select=sel, lambda_index=0, ret='_Bool', **common)
    mr = Fn('min_reduce', WTU, 'min_reduce', flt='nano::min_reduce', select=sel,
            calls=[(r'^min_element\|', 'nv_min_element({0}, {1})'), (r'^operator\*\|', '(*nv_iter_deref({0}, nv_size))')],
            members=[(r'^begin\|', '((uint64_t)0)'), (r'^end\|', '{self}->size')], hooks=[stateless_lambda_hook], **common)
    out += [Target('min_reduce', [mr, cmp_()], H), Target('min_reduce_cmp', [cmp_()], H)]
    git = r'__normal_iterator<nano::gboost::accumulator_t \*|^std::vector<nano::gboost::accumulator_t>::iterator$'
    clr = Fn('gboost_clear_all', 'src/gboost/function.cpp', 'clear', flt='(anonymous namespace)::clear',
             types=[(git, 'uint64_t'), (r'^nano::gboost::accumulators_t$', 'struct nv_accs')] + RTYPES, uf_float=False,
             calls=[(r'^operator!=\|', '({0} != {1})'), (r'^operator\+\+\|', '(++{0})'), (r'^operator\*\|', '(*nv_acc_iter({0}))')],
             members=[(r'^begin\|', '((uint64_t)0)'), (r'^end\|', '{self}->size'), (r'^clear\|nano::gboost::accumulator_t', 'nv_acc_clear')])
    out.append(Target('gboost_clear_all', [clr], H))
    return out


def acc_targets():
    H = 'specs/C09/acc.h'
    out = []
    TENS = r'tensor_t<nano::tensor_(vector|carray|marray)_storage_t, double, \d|^nano::tensor\dd_(c?map_)?t$|^nano::vector_(c?map_)?t$|^nano::tensor_mem_t<double, \d>$'
    for tag, st in (('linear', 'struct nv_lacc'), ('gboost', 'struct nv_gacc')):
        src = f'src/{tag}/accumulator.cpp'
        common = dict(self_struct=st, types=[(rf'^nano::{tag}::accumulator_t$', st), (TENS, 'struct nv_tens')],
                      members=[(r'^zero\|', 'nv_t_zero'), (r'^array\|', '({self})')],
                      calls=[(r'^operator\+=\|.*\|.*tensor', '(*nv_t_add({&0}, {&1}))'), (r'^operator/=\|.*\|.*tensor', '(*nv_t_div({&0}, {1}))'),
                             (r'^operator=\|.*ArrayWrapper', 'nv_t_fill({0}, {1})')])
        flt = f'{tag}::accumulator_t::'
        if tag == 'gboost':
            gm = [(r'^array\|', '(*{self})'), (r'^sum\|', 'nv_t_sum({self})'), (r'^size\|', '{self}->n')] + common['members']
            gc = common['calls'] + [(r'^operator=\|.*tensor_marray_storage_t, double, 1.*\|', '(*nv_t_copy_to_gx({&0}, {&1}))')]
            gcm = dict(common, members=gm, calls=gc, types=common['types'] + [(r'ArrayWrapper<', 'struct nv_tens')])
            out += [Target('gboost_acc_update', [Fn('gboost_acc_update', src, 'update', flt=flt + 'update', **gcm)], H),
                    Target('gboost_acc_vgrad', [Fn('gboost_acc_vgrad', src, 'vgrad', flt=flt + 'vgrad', **gcm)], H)]
        out += [Target(f'{tag}_acc_clear', [Fn(f'{tag}_acc_clear', src, 'clear', flt=flt + 'clear', **common)], H),
                Target(f'{tag}_acc_add', [Fn(f'{tag}_acc_add', src, 'operator+=', flt=flt + 'operator+=', **common)], H),
                Target(f'{tag}_acc_div', [Fn(f'{tag}_acc_div', src, 'operator/=', flt=flt + 'operator/=', **common)], H)]
    return out


def mangled(*parts):
    return lambda d: all(p in (d.get('mangledName') or '') for p in parts)


def iter_targets():
    H = 'specs/C09/iter.h'
    ITU = 'src/dataset/iterator.cpp'
    types = [(r'^nano::(flatten|targets|base_dataset)_iterator_t$', 'struct nv_iter'), (r'^nano::tensor_range_t$', 'struct nv_range'),
             (r'^nano::(flatten_targets|flatten|targets)_callback_t$|^std::function<', 'struct nv_cb'), (r'^nano::dataset_t$', 'struct nv_dataset'),
             (r'^nano::tensor[24]d_cmap_t$|tensor_t<nano::tensor_carray_storage_t, double, [24]', 'struct nv_view'),
             (r'^nano::parallel::pool_t$|^parallel::pool_t$', 'struct nv_poolref'), (r'^\(lambda at .*iterator\.cpp', 'struct nv_cb')]
    common = dict(self_struct='struct nv_iter', types=types, uf_float=False)
    members = [(r'^map\|nano::base_dataset_iterator_t \*', 'nv_iter_map({self}, {0}, {1})'), (r'^samples\|nano::targets_iterator_t \*', '(*{self})'),
               (r'^size\|nano::tensor_base_t<long, 1, true>', '{self}->n_samples'), (r'^batch\|nano::targets_iterator_t \*', '{self}->m_batch'),
               (r'^flatten\|nano::flatten_iterator_t \*', 'nv_flatten({self}, {0}, {&1})'), (r'^targets\|nano::targets_iterator_t \*', 'nv_targets({self}, {0}, {&1})'),
               (r'^thread_pool\|nano::dataset_t', '(*nv_thread_pool({self}))'), (r'^map\|(nano::)?parallel::pool_t', 'nv_pool_map({self}, {0}, {1})')]
    calls = [(r'^make_range\|', 'make_range({0}, {1})'),
             (r'^operator\(\)\|void \(nano::tensor_range_t, unsigned long, nano::tensor_t<nano::tensor_carray_storage_t, double, 2>, nano::tensor_t<nano::tensor_carray_storage_t, double, 4>\) const', 'nv_callback_ft({&0}, {1}, {2}, {3}, {4})'),
             (r'^operator\(\)\|void \(nano::tensor_range_t, unsigned long, nano::tensor_t<nano::tensor_carray_storage_t, double, 2>\) const', 'nv_callback_f({&0}, {1}, {2}, {3})'),
             (r'^operator\(\)\|void \(nano::tensor_range_t, unsigned long, nano::tensor_t<nano::tensor_carray_storage_t, double, 4>\) const', 'nv_callback_t({&0}, {1}, {2}, {3})')]
    rng = lambda: Fn('range_ctor', ITU, 'tensor_range_t', flt='nano::tensor_range_t::tensor_range_t', kinds=('CXXConstructorDecl',),
                     select=lambda d: len(astload.param_types(d)) == 2, self_struct='struct nv_range', types=types, uf_float=False)
    mkr = lambda: Fn('make_range', ITU, 'make_range', flt='nano::make_range', types=types, uf_float=False,
                     calls=[(r'^ctor\|nano::tensor_range_t\|void \((const )?nano::tensor_size_t, (const )?nano::tensor_size_t\)', 'nv_range_make({0}, {1})')])
    out = [Target('range_ctor', [rng()], H), Target('make_range', [mkr(), rng()], H)]
    variants = [('flatten_loop_ft', 'flatten_iterator_t::loop', lambda d: 'flatten_targets_callback_t' in astload.param_types(d)[0], ('flatten_iterator_t4loopE', 'dLm4E')),
                ('flatten_loop_f', 'flatten_iterator_t::loop', lambda d: 'flatten_callback_t' in astload.param_types(d)[0], None),
                ('targets_loop', 'targets_iterator_t::loop', None, None)]
    for cname, flt, sel, _ in variants:
        loop = Fn(cname, ITU, 'loop', flt=flt, select=sel, members=members, calls=calls, **common)
        task = Fn(cname + '_task', ITU, 'loop', flt=flt, select=sel, lambda_index=0, members=members, calls=calls,
                  extra_params=['const struct nv_cb* callback'], **common)
        out += [Target(cname, [loop], H), Target(cname + '_task', [task, mkr(), rng()], H)]
    bmap = Fn('base_map', ITU, 'map', flt='base_dataset_iterator_t::map', select=mangled('flatten_iterator_t4loopE', 'dLm4E'),
              members=members, **common)
    out.append(Target('base_map', [bmap], H))
    return out


def scale_view_hook(P, n):
    """stats.scale(mode, view): the view argument is a by-value copy of a tensor MAP, which shares the storage of the object it
    was copied from -- the scaling therefore acts on that object: pass its address (not the address of a temporary copy)"""
    if n.get('kind') != 'CXXMemberCallExpr':
        return None
    me = n['inner'][0]
    if me.get('kind') != 'MemberExpr' or me.get('name') != 'scale' or 'scalar_stats_t' not in qual_of(me['inner'][0]) or len(n['inner']) != 3:
        return None
    from cxx2c import unwrap
    v = unwrap(n['inner'][2])
    while v.get('kind') == 'CXXConstructExpr' and len(v.get('inner', [])) == 1:
        v = unwrap(v['inner'][0])
    if v.get('valueCategory') != 'lvalue':
        return None
    obj = me['inner'][0]
    P.note('stats.scale(mode, map) -> nv_stats_scale(&stats, mode, &storage)')
    return f'nv_stats_scale({P.addr(obj)}, {P.expr(n["inner"][1])}, {P.addr(v)})'


def qual_of(node):
    t = node.get('type', {})
    return t.get('desugaredQualType', t.get('qualType', ''))


def access_targets():
    """targets(tnum, range) / flatten(tnum, range), the scaling wrappers and the chunk tasks of cache_targets / cache_flatten"""
    H = 'specs/C09/access.h'
    ITU = 'src/dataset/iterator.cpp'
    types = [(r'^nano::(flatten|targets|base_dataset)_iterator_t$', 'struct nv_xiter'), (r'^nano::tensor_range_t$', 'struct nv_range'),
             (r'^nano::dataset_t$', 'struct nv_dataset'), (r'^nano::scalar_stats_t$', 'struct nv_stats'), (r'^nano::scaling_type$', 'int32_t'),
             (r'^nano::indices_t$|tensor_t<nano::tensor_vector_storage_t, long, 1', 'struct nv_samples'),
             (r'^(nano::)?(indices_c?map_t|tensor_c?map_t<long, 1UL>)$|tensor_t<nano::tensor_(carray|marray)_storage_t, long, 1', 'struct nv_sslice'),
             (r'buffers_t$|^std::vector<nano::tensor_t<nano::tensor_vector_storage_t, double, [24]>', 'struct nv_bufs'),
             (r'__alloc_traits<.*tensor_vector_storage_t, double, [24]>.*::value_type$', 'struct nv_buf'),
             (r'^nano::tensor[24]d_(c?map_)?t$|^(nano::)?tensor_c?map_t<double, [24]UL>$|tensor_t<nano::tensor_(carray|marray|vector)_storage_t, double, [24]', 'struct nv_data')]
    common = dict(self_struct='struct nv_xiter', types=types, uf_float=False, hooks=[scale_view_hook])
    members = [(r'^size\|nano::tensor_base_t<double, [24], true>', '{self}->rows'), (r'^size\|nano::tensor_base_t<long, 1, true>', '{self}->size'),
               (r'^slice\|nano::tensor[24]d_t$|^slice\|nano::tensor_t<nano::tensor_vector_storage_t, double, [24]', 'nv_cache_slice({self}, {&0})'),
               (r'^slice\|nano::indices_t|^slice\|nano::tensor_t<nano::tensor_vector_storage_t, long, 1', 'nv_samples_slice({self}, {&0})'),
               (r'^dataset\|nano::base_dataset_iterator_t \*', '(*nv_ds({self}))'), (r'^samples\|nano::targets_iterator_t \*', '({self}->m_samples)'),
               (r'^targets\|nano::dataset_t', 'nv_ds_targets({self}, {0}, {&1})'), (r'^flatten\|nano::dataset_t', 'nv_ds_flatten({self}, {0}, {&1})'),
               (r'^targets\|nano::targets_iterator_t \*', 'targets_scaled({self}, {0})'), (r'^flatten\|nano::flatten_iterator_t \*', 'flatten_scaled({self}, {0})'),
               (r'^scaling\|nano::targets_iterator_t \*', '{self}->m_scaling'),
               (r'^begin\|nano::tensor_range_t', '{self}->m_begin'), (r'^end\|nano::tensor_range_t', '{self}->m_end'),
               (r'^size\|nano::tensor_range_t', '({self}->m_end - {self}->m_begin)')]
    calls = [(r'^operator\[\]\|', '(*nv_buf_at({&0}, {1}))'), (r'^make_range\|', 'make_range({0}, {1})'),
             (r'^operator=\|.*tensor_marray_storage_t, double, [24]', 'nv_cache_store({0}, {1})'),
             (r'^ctor\|nano::tensor_t<nano::tensor_carray_storage_t, double, [24]>\|void \(const tensor_t<nano::tensor_marray_storage_t, double, [24]UL> &\)', '{0}'),
             (r'^ctor\|nano::tensor_t<nano::tensor_carray_storage_t, long, 1>\|void \(const tensor_t<nano::tensor_marray_storage_t, long, 1UL> &\)', '{0}'),
             (r'^ctor\|nano::tensor_range_t\|void \((const )?nano::tensor_size_t, (const )?nano::tensor_size_t\)', 'nv_range_make({0}, {1})')]
    wrap_members = members
    nparams = lambda k: (lambda d: len(astload.param_types(d)) == k)
    tsc = lambda: Fn('targets_scaled', ITU, 'targets', flt='targets_iterator_t::targets', select=nparams(1), members=wrap_members, calls=calls, **common)
    fsc = lambda: Fn('flatten_scaled', ITU, 'flatten', flt='flatten_iterator_t::flatten', select=nparams(1), members=wrap_members, calls=calls, **common)
    tat = Fn('targets_at', ITU, 'targets', flt='targets_iterator_t::targets', select=nparams(2), members=members, calls=calls, **common)
    fat = Fn('flatten_at', ITU, 'flatten', flt='flatten_iterator_t::flatten', select=nparams(2), members=members, calls=calls, **common)
    rng = lambda: Fn('range_ctor', ITU, 'tensor_range_t', flt='nano::tensor_range_t::tensor_range_t', kinds=('CXXConstructorDecl',),
                     select=nparams(2), self_struct='struct nv_range', types=types, uf_float=False)
    mkr = lambda: Fn('make_range', ITU, 'make_range', flt='nano::make_range', types=types, uf_float=False, calls=calls)
    ctt = Fn('cache_targets_task', ITU, 'cache_targets', flt='targets_iterator_t::cache_targets', lambda_index=0, members=members, calls=calls, **common)
    cft = Fn('cache_flatten_task', ITU, 'cache_flatten', flt='flatten_iterator_t::cache_flatten', lambda_index=0, members=members, calls=calls,
             extra_params=['struct nv_samples* samples', 'struct nv_dataset* dataset'], **common)
    import ctor_spec
    omembers = [(r'^resize\|nano::tensor_vector_storage_t<double, [24]>|^resize\|nano::tensor[24]d_t|^resize\|nano::tensor_t<nano::tensor_vector_storage_t, double, [24]>', 'nv_cache_resize({self}, {0})!'),
                (r'^target_dims\|nano::dataset_t', 'nv_ds_tdims({self})'), (r'^columns\|nano::dataset_t', 'nv_ds_columns({self})'),
                (r'^batch\|nano::targets_iterator_t \*', '{self}->m_batch')] + members
    ocalls = [(r'^size\|', 'nv_tdims_size({0})'), (r'^cat_dims\|', '{0}'),
              # the handler of the repaired library: `m_cache = tensorNd_t{};` (move assignment of a default-constructed tensor, noexcept)
              (r'^operator=\|nano::tensor_t<nano::tensor_vector_storage_t, double, [24]> &\(nano::tensor_t<nano::tensor_vector_storage_t, double, [24]> &&\) noexcept', '(*nv_cache_assign({&0}, {1}))'),
              (r'^ctor\|nano::tensor[24]d_t\|void \(\)|^ctor\|nano::tensor_t<nano::tensor_vector_storage_t, double, [24]>\|void \(\)', 'nv_cache_empty()')] + calls
    octc = dict(common, hooks=[scale_view_hook, ctor_spec.imul_hook], types=[(r'^nano::tensor[34]d_dims_t$|^std::array<long, [34](UL)?>$|tensor_dims_t<', 'uint64_t')] + types)
    oct_ = Fn('cache_targets', ITU, 'cache_targets', flt='targets_iterator_t::cache_targets', calls=ocalls,
              members=[(r'^map\|nano::base_dataset_iterator_t \*', 'nv_cache_map(self, &self->m_targets, NV_TARGETS, self->m_targets_stats.id, {0}, {1})!')] + omembers, **octc)
    ocf = Fn('cache_flatten', ITU, 'cache_flatten', flt='flatten_iterator_t::cache_flatten', calls=ocalls,
             members=[(r'^map\|nano::base_dataset_iterator_t \*', 'nv_cache_map(self, &self->m_flatten, NV_FLATTEN, self->m_flatten_stats.id, {0}, {1})!')] + omembers, **octc)
    outer = [Target('cache_targets', [oct_], H), Target('cache_flatten', [ocf], H)]
    sset = Fn('scaling_set', ITU, 'scaling', flt='targets_iterator_t::scaling', select=nparams(1), members=members, calls=calls, **common)
    bset = Fn('batch_set', ITU, 'batch', flt='targets_iterator_t::batch', select=nparams(1), members=members, calls=calls, **common)
    return outer + [Target('scaling_set', [sset], H), Target('batch_set', [bset], H),
            Target('targets_scaled', [tsc()], H), Target('flatten_scaled', [fsc()], H),
            Target('targets_at', [tat, tsc(), mkr(), rng()], H), Target('flatten_at', [fat, fsc(), mkr(), rng()], H),
            Target('cache_targets_task', [ctt, tsc(), mkr(), rng()], H), Target('cache_flatten_task', [cft, fsc(), mkr(), rng()], H)]


VG_TYPES = [(r'__normal_iterator<nano::(linear|gboost)::accumulator_t \*|^std::vector<nano::(linear|gboost)::accumulator_t>::iterator$', 'uint64_t'),
            (r'Eigen::|CwiseBinaryOp<|CwiseUnaryOp<|ArrayWrapper<|ArrayBase<|DenseBase<|MatrixBase<', 'struct nv_expr'),
            (r'^nano::linear::function_t$', 'struct nv_lfun'), (r'^nano::gboost::(bias|scale|grads)_function_t$', 'struct nv_gfun'),
            (r'^nano::(linear|gboost)::accumulators_t$|^std::vector<nano::(linear|gboost)::accumulator_t', 'struct nv_vaccs'),
            (r'^nano::(linear|gboost)::accumulator_t$|__alloc_traits<.*accumulator_t.*::value_type$', 'struct nv_vacc'),
            (r'^nano::(flatten|targets|base_dataset)_iterator_t$', 'struct nv_miter'), (r'^nano::dataset_t$', 'struct nv_dsinfo'),
            (r'^nano::cluster_t$', 'struct nv_cluster'), (r'^nano::loss_t$', 'struct nv_loss'), (r'^nano::tensor_range_t$', 'struct nv_range'),
            (r'^nano::indices_t$|tensor_t<nano::tensor_vector_storage_t, long, 1', 'struct nv_samples'),
            (r'^nano::(vector_c?map_t|vector_t|tensor\dd_(c?map_)?t)$|^(const )?(nano::)?tensor_c?map_t<double, \dUL>$|tensor_t<nano::tensor_(carray|marray|vector)_storage_t, double, \d', 'struct nv_tens')]
VG_ITER = [(r'^operator!=\|bool \(const __normal_iterator', '({0} != {1})'), (r'^operator\+\+\|.*__normal_iterator', '(++{0})'),
           (r'^operator\*\|.*__normal_iterator<nano::(linear|gboost)::accumulator_t', '(*nv_vacc_iter({0}))')]
VG_MEMBERS = [(r'^begin\|(nano::(linear|gboost)::accumulators_t|std::vector<nano::(linear|gboost)::accumulator_t)', '((uint64_t)0)'),
              (r'^end\|(nano::(linear|gboost)::accumulators_t|std::vector<nano::(linear|gboost)::accumulator_t)', '{self}->size'),
              (r'^size\|(nano::(linear|gboost)::accumulators_t|std::vector<nano::(linear|gboost)::accumulator_t)', '{self}->size'),
              (r'^clear\|nano::(linear|gboost)::accumulator_t', 'nv_vacc_clear'),
              (r'^loop\|nano::(flatten|targets)_iterator_t', 'nv_iter_loop({self})'),
              (r'^samples\|nano::targets_iterator_t', '({self}->m_samples)'), (r'^dataset\|nano::base_dataset_iterator_t', '(*nv_iter_dataset({self}))'),
              (r'^samples\|nano::dataset_t', '{self}->n_samples'), (r'^samples\|nano::cluster_t', '{self}->n_samples'),
              (r'^groups\|nano::cluster_t', '{self}->n_groups'), (r'^columns\|nano::dataset_t', '{self}->n_columns'),
              (r'^size\|nano::tensor_base_t<long, 1, true>', '{self}->size'), (r'^size\|nano::tensor_base_t<double, \d, true>', '{self}->size')]
VG_CALLS = VG_ITER + [(r'^sum_reduce\|', '(*nv_sum_reduce({&0}, {1}))'),
                      (r'^operator\[\]\|std::vector<nano::(linear|gboost)::accumulator_t>::reference', '(*nv_vacc_at({&0}, {1}))')]


def vgrad_targets():
    H = 'specs/C09/vgrad.h'
    LTU = 'src/linear/function.cpp'
    lmembers = VG_MEMBERS + [(r'^bias\|nano::linear::function_t \*', 'nv_part_view(self, {&0}, NV_ROLE_BIAS)'),
                             (r'^weights\|nano::linear::function_t \*', 'nv_part_view(self, {&0}, NV_ROLE_WEIGHTS)'),
                             (r'^array\|', 'nv_e_of({self})'), (r'^(sign|abs|square)\|', 'nv_e_unary({*self})'), (r'^mean\|', 'nv_e_mean({*self})')]
    lcalls = VG_CALLS + [(r'^operator=\|nano::tensor_t<nano::tensor_marray_storage_t, double, [12]> &\(const tensor_t<nano::tensor_vector_storage_t, double, [12]UL> &\)', 'nv_part_assign({&0}, {&1})'),
                         (r'^operator\*\|', 'nv_e_scale({0}, {1})'), (r'^operator/\|', 'nv_e_div({0}, {1})'), (r'^operator\+=\|.*ArrayWrapper', 'nv_arr_add({0}, {1})'),
                         (r'^sqrt\|', '__CPROVER_uninterpreted_fsqrt({0})')]
    ldo = Fn('linear_do_vgrad', LTU, 'do_vgrad', flt='linear::function_t::do_vgrad', self_struct='struct nv_lfun', types=VG_TYPES,
             members=lmembers, calls=lcalls)
    GTU = 'src/gboost/function.cpp'
    gtypes = [(r'^nano::tensor4d_dims_t$|^std::array<long, 4(UL)?>$|tensor_dims_t<4|tensor_dims_t<3UL \+ 1>', 'struct nv_dims'), (r'^nano::tensor3d_dims_t$|^std::array<long, 3>$|tensor_dims_t<3', 'uint64_t')] + VG_TYPES
    gmembers = VG_MEMBERS + [(r'^vgrad\|nano::gboost::accumulator_t', 'nv_acc_vgrad({self}, {0})'), (r'^target_dims\|nano::dataset_t', '{self}->tdims'),
                             (r'^data\|', '({self})'),
                             (r'^gradients\|nano::gboost::grads_function_t \*', '(*grads_gradients({self}, {&0}))'),
                             (r'^vector\|', 'nv_e_vec({self})'), (r'^mean\|', 'nv_e_mean_of({*self})')]
    gcalls = VG_CALLS + [(r'^clear\|void \(nano::gboost::accumulators_t &\)', 'nv_clear_all({&0})'), (r'^size\|', 'nv_dims_size({0})'),
                         (r'^cat_dims\|', 'nv_cat_dims({0}, {1})'), (r'^map_tensor\|', 'nv_map_tensor({0}, {1})'),
                         (r'^operator/\|', 'nv_e_divd({0}, {1})'), (r'^operator=\|.*tensor_marray_storage_t, double, 1', 'nv_vec_assign({&0}, {1})')]
    gcommon = dict(self_struct='struct nv_gfun', types=gtypes, members=gmembers, calls=gcalls)
    bdo = Fn('bias_do_vgrad', GTU, 'do_vgrad', flt='bias_function_t::do_vgrad', **gcommon)
    sdo = Fn('scale_do_vgrad', GTU, 'do_vgrad', flt='scale_function_t::do_vgrad', **gcommon)
    gdo = Fn('grads_do_vgrad', GTU, 'do_vgrad', flt='grads_function_t::do_vgrad', **gcommon)
    ggr = lambda: Fn('grads_gradients', GTU, 'gradients', flt='grads_function_t::gradients', **gcommon)
    # the calls bias(.) / weights(.) of do_vgrad are replaced by the clause list PROVED for the accessors on back end B (parts_smt.clauses)
    import parts_smt
    cn = dict(isize='self->m_isize', tsize='self->m_tsize', wsize='nv_wsize', xsize='x->size')
    pdefs = ['NV_FACTS_BIAS=' + parts_smt.c_facts('bias', 'nv_off', ['nv_d0'], cn), 'NV_FACTS_WEIGHTS=' + parts_smt.c_facts('weights', 'nv_off', ['nv_d0', 'nv_d1'], cn)]
    return [Target('linear_do_vgrad', [ldo], H, defines=pdefs), Target('bias_do_vgrad', [bdo], H), Target('scale_do_vgrad', [sdo], H),
            Target('grads_do_vgrad', [gdo, ggr()], H, replace=['grads_gradients']), Target('grads_gradients', [ggr()], H)]


TK_TYPES = [(r'^nano::linear::function_t$|^nano::gboost::(bias|scale|grads)_function_t$', 'struct nv_tfun'),
            (r'^nano::(linear|gboost)::accumulators_t$|^std::vector<nano::(linear|gboost)::accumulator_t', 'struct nv_taccs'),
            (r'^nano::(linear|gboost)::accumulator_t$|__alloc_traits<.*accumulator_t.*::value_type$', 'struct nv_tacc'),
            (r'^nano::loss_t$', 'struct nv_loss'), (r'^nano::tensor_range_t$', 'struct nv_range'), (r'^nano::cluster_t$', 'struct nv_cluster'),
            (r'^nano::indices_t$|tensor_t<nano::tensor_vector_storage_t, long, 1', 'struct nv_samples'),
            (r'^nano::(flatten|targets)_iterator_t$', 'struct nv_titer'),
            (r'Eigen::|CwiseBinaryOp<|CwiseUnaryOp<|ArrayWrapper<|ArrayBase<|DenseBase<|MatrixBase<|^(const )?Product<|VectorwiseOp<|Transpose', 'struct nv_tt'),
            (r'^nano::(vector_c?map_t|vector_t|tensor\dd_(c?map_)?t)$|^(const )?(nano::)?tensor_c?map_t<double, \dUL>$|tensor_t<nano::tensor_(carray|marray|vector)_storage_t, double, \d', 'struct nv_tt')]
TK_MEMBERS = [(r'^value\|nano::loss_t', 'nv_loss_value({self}, {0}, {1}, {&2})'), (r'^vgrad\|nano::loss_t', 'nv_loss_vgrad({self}, {0}, {1}, {&2})'),
              (r'^sum\|nano::tensor_t<', 'nv_sum({self})'), (r'^sum\|.*VectorwiseOp', 'nv_colsum({*self})'), (r'^colwise\|', 'nv_view_v({*self})'),
              (r'^matrix\|', 'nv_view({self})'), (r'^vector\|', 'nv_view({self})'), (r'^transpose\|', 'nv_transpose({self})'),
              (r'^reshape\|', 'nv_reshape({self}, {0})'), (r'^size\|nano::tensor_range_t', '({self}->m_end - {self}->m_begin)'),
              (r'^begin\|nano::tensor_range_t', '{self}->m_begin'), (r'^end\|nano::tensor_range_t', '{self}->m_end'),
              (r'^size\|nano::tensor_base_t<double, \d, true>', '{self}->rows')]
TK_CALLS = [(r'^operator\[\]\|std::vector<nano::(linear|gboost)::accumulator_t>::reference', '(*nv_tacc_at({&0}, {1}))'),
            (r'^predict\|', 'nv_predict({&0}, {&1}, {&2}, {&3})'), (r'^make_range\|', 'nv_mk_range({0}, {1})'),
            (r'^ctor\|nano::tensor[1-4]d_cmap_t\||^ctor\|nano::tensor_t<nano::tensor_carray_storage_t, double, \d>\|', '{0}'),
            (r'^operator\+=\|', 'nv_add_to({0}, {1})'), (r'^operator\*\|Product<', 'nv_matmul({0}, {&1})')]


def _root_lvalue(n):
    """the lvalue a by-value copy of a tensor MAP shares its storage with (looking through copy constructions)"""
    from cxx2c import unwrap
    v = unwrap(n)
    while v.get('kind') in ('CXXConstructExpr', 'MaterializeTemporaryExpr', 'CXXBindTemporaryExpr') and len(v.get('inner', [])) == 1:
        v = unwrap(v['inner'][0])
    return v


def loss_hook(value_stub, vgrad_stub):
    """loss.value(targets, outputs, values) / loss.vgrad(..): the third argument is a map passed by value that shares the storage of
    the object it was copied from: the kernel writes THERE -- pass that object's address (a prvalue slice: a temporary)"""
    def h(P, n):
        if n.get('kind') != 'CXXMemberCallExpr':
            return None
        me = n['inner'][0]
        if me.get('kind') != 'MemberExpr' or me.get('name') not in ('value', 'vgrad') or 'loss_t' not in qual_of(me['inner'][0]) or len(n['inner']) != 4:
            return None
        dst = _root_lvalue(n['inner'][3])
        stub = value_stub if me['name'] == 'value' else vgrad_stub
        P.note(f'loss.{me["name"]}(targets, outputs, map) -> {stub}(&loss, targets, outputs, &storage)')
        return f'{stub}({P.addr(me["inner"][0])}, {P.expr(n["inner"][1])}, {P.expr(n["inner"][2])}, {P.addr(dst)})'
    return h


def rows_assign_hook(P, n):
    """<local>.reshape(R, -1).matrix().rowwise() = rhs  ->  nv_set_all_rows(&local, R, rhs);   <local>.vector(K) = rhs  ->  nv_set_row(&local, K, rhs)
    (an assignment through a chain of Eigen views writes into the storage of the local map the chain starts from)"""
    from cxx2c import unwrap
    if n.get('kind') != 'CXXOperatorCallExpr' or unwrap(n['inner'][0]).get('referencedDecl', {}).get('name') != 'operator=':
        return None
    lhs = _root_lvalue(n['inner'][1])
    chain = []
    while lhs.get('kind') == 'CXXMemberCallExpr':
        me = lhs['inner'][0]
        chain.append((me.get('name'), lhs['inner'][1:]))
        lhs = _root_lvalue(me['inner'][0])
    if lhs.get('kind') != 'DeclRefExpr' or not chain:
        return None
    names = [c[0] for c in chain]
    if names == ['rowwise', 'matrix', 'reshape']:
        P.note('local.reshape(R, -1).matrix().rowwise() = rhs -> nv_set_all_rows')
        return f'nv_set_all_rows({P.addr(lhs)}, {P.expr(chain[2][1][0])}, {P.expr(n["inner"][2])})'
    if names == ['vector'] and len(chain[0][1]) == 1:
        P.note('local.vector(K) = rhs -> nv_set_row')
        return f'nv_set_row({P.addr(lhs)}, {P.expr(chain[0][1][0])}, {P.expr(n["inner"][2])})'
    return None


def row_hook(P, n):
    """tensor.vector(k) with one argument: row k of the tensor (the 0-argument form is the whole tensor as a vector)"""
    if n.get('kind') != 'CXXMemberCallExpr':
        return None
    me = n['inner'][0]
    if me.get('kind') != 'MemberExpr' or me.get('name') != 'vector' or len(n['inner']) != 2:
        return None
    obj = me['inner'][0]
    return f'nv_row({P.expr(obj) if me.get("isArrow") else P.addr(obj)}, {P.expr(n["inner"][1])})'


def cell_add_hook(P, n):
    """acc.m_gb1(group) += v  ->  nv_gb_cell_add(acc.m_gb1, group, v)   (one element of a partial-sum vector)"""
    from cxx2c import unwrap
    if n.get('kind') != 'CompoundAssignOperator' or n.get('opcode') != '+=':
        return None
    lhs = unwrap(n['inner'][0])
    if lhs.get('kind') != 'CXXOperatorCallExpr' or unwrap(lhs['inner'][0]).get('referencedDecl', {}).get('name') != 'operator()' or len(lhs['inner']) != 3:
        return None
    return f'nv_gb_cell_add({P.expr(lhs["inner"][1])}, {P.expr(lhs["inner"][2])}, {P.expr(n["inner"][1])})'


def task_targets():
    H = 'specs/C09/task.h'
    common = dict(self_struct='struct nv_tfun', types=TK_TYPES, members=TK_MEMBERS, calls=TK_CALLS)
    lt = Fn('linear_task', 'src/linear/function.cpp', 'do_vgrad', flt='linear::function_t::do_vgrad', lambda_index=0,
            extra_params=['struct nv_tt W', 'struct nv_tt b', 'struct nv_tt gx'], **common)
    GTU = 'src/gboost/function.cpp'
    gmembers = [(r'^slice\|', 'nv_slot({self}, {&0})'), (r'^update\|nano::gboost::accumulator_t', 'nv_acc_update({self}, {0})'),
                (r'^transpose\|', 'nv_transpose_any({self})')] + TK_MEMBERS
    gcalls = [(r'^ctor\|(nano::)?tensor_c?map_t<double, \dUL>\||^ctor\|nano::tensor_t<nano::tensor_(carray|marray)_storage_t, double, \d>\|', '{0}')] + TK_CALLS
    gcommon = dict(self_struct='struct nv_tfun', types=TK_TYPES, members=gmembers, calls=gcalls, hooks=[loss_hook('nv_loss_value_g', 'nv_loss_vgrad_g'), rows_assign_hook])
    bt = Fn('bias_task', GTU, 'do_vgrad', flt='bias_function_t::do_vgrad', lambda_index=0,
            extra_params=['struct nv_tt x', 'struct nv_tt gx', 'int64_t tsize'], **gcommon)
    gt = Fn('grads_task', GTU, 'gradients', flt='grads_function_t::gradients', lambda_index=0, extra_params=['const struct nv_tt* outputs'], **gcommon)
    scalls = [(r'^operator\(\)\|.*\|nano::indices_t|^operator\(\)\|.*tensor_vector_storage_t, long, 1', 'nv_sample_at({&0}, {1})'),
              (r'^operator\(\)\|.*\|nano::vector_cmap_t|^operator\(\)\|.*tensor_carray_storage_t, double, 1', 'nv_param_at({&0}, {1})'),
              (r'^operator\*\|(const )?CwiseBinaryOp<internal::scalar_product_op', 'nv_row_scale({0}, {1})'), (r'^operator\+\|', 'nv_row_sum({0}, {1})')] + gcalls
    smembers = [(r'^group\|nano::cluster_t', 'nv_group_of({0})'), (r'^dot\|', 'nv_dot({*self}, {0})')] + gmembers
    st = Fn('scale_task', GTU, 'do_vgrad', flt='scale_function_t::do_vgrad', lambda_index=0, self_struct='struct nv_tfun', types=TK_TYPES,
            members=smembers, calls=scalls, hooks=[loss_hook('nv_loss_value_g', 'nv_loss_vgrad_g'), rows_assign_hook, row_hook, cell_add_hook],
            extra_params=['struct nv_tt x', 'struct nv_tt gx', 'const struct nv_samples* samples'])
    return [Target('linear_task', [lt], H), Target('bias_task', [bt], H), Target('grads_task', [gt], H), Target('scale_task', [st], H)]


def select_targets(tier='thorough'):
    """(d) select_iterator_t::loop (feature-wise iteration), all 12 overloads + features_per_thread: the functional contracts of
    specs/C18/functional.py (one definition of the clause for both properties): a chunk task [begin, end) invokes the operator exactly
    end - begin times, invocation k for the feature AT POSITION begin + k of the given list, with this task's tnum and the values
    dataset().select(samples, THAT feature, m_buffers[tnum].m_<kind>); loop(samples, features, op) maps once over [0, features.size())
    in chunks >= 1; loop(samples, feature, op) is one invocation with tnum 0; loop(samples, op) walks the list of the operator's kind"""
    import os
    import sys
    d = os.path.join(os.path.dirname(os.path.abspath(__file__)), '..', 'C18')
    if d not in sys.path:
        sys.path.append(d)
    import functional
    ts = functional.select_targets()
    # quick tier: one target per overload kind, every value kind once; the other 12 instantiations of the same four contracts are thorough
    quick = ('features_per_thread', 'fsel_task_sclass', 'fsel_loop_mclass', 'fsel_one_scalar', 'fsel_all_struct')
    return [t for t in ts if tier != 'quick' or t.name in quick]


def build(tier):
    import ctor_spec
    targets = reduce_targets() + acc_targets() + iter_targets() + access_targets() + vgrad_targets() + task_targets() + ctor_spec.targets(tier) + select_targets(tier)
    import reg_smt
    bounded, fns = [], []
    for n in (1, 2, 3):
        try:
            v, info = reg_smt.vcs_for(n)
        except astload.ExtractionError as e:
            # the walk over do_vgrad met something outside its vocabulary: this stand-in is undecided, the other targets still decide
            v = [VC(f'linear_do_vgrad_reg[n={n}]/not extracted: {str(e)[:160]}', '(check-sat)', solvers=['none'], about='regularisation terms (bounded): extraction failed')]
            info = {'c_name': f'linear_do_vgrad_reg[n={n}]', 'cxx': 'linear::function_t::do_vgrad (regularisation part)', 'file': reg_smt.FILE, 'undecided': str(e)[:300]}
        for x in v:
            x.bound = f'|W| = {n}'
        bounded += v
        fns.append(info)
    vcs = []
    import reg_generic
    try:
        v, info = reg_generic.vcs()
    except astload.ExtractionError as e:
        v = [VC(f'linear_do_vgrad_reg[generic]/not extracted: {str(e)[:160]}', '(check-sat)', solvers=['none'], about='regularisation terms (generic coordinate): extraction failed')]
        info = {'c_name': 'linear_do_vgrad_reg[generic]', 'cxx': 'linear::function_t::do_vgrad (regularisation part)', 'file': reg_smt.FILE, 'undecided': str(e)[:300]}
    vcs += v
    fns.append(info)
    import parts_smt
    try:
        v, infos = parts_smt.vcs()
    except (astload.ExtractionError, Exception) as e:
        if not isinstance(e, astload.ExtractionError) and type(e).__name__ != 'Unsupported':
            raise
        v = [VC(f'linear_parts/not extracted: {str(e)[:160]}', '(check-sat)', solvers=['none'], about='weights / bias accessors: extraction failed')]
        infos = [{'c_name': 'linear_parts', 'cxx': 'linear::function_t::weights / bias', 'file': parts_smt.HDR, 'undecided': str(e)[:300]}]
    vcs += v
    fns += infos
    return {
        'targets': targets, 'vcs': vcs, 'bounded': bounded, 'functions': fns,
        'decided': [
            'sum_reduce<linear::accumulator_t>, sum_reduce<gboost::accumulator_t> for every number of accumulators k >= 1: accumulator 0 absorbs accumulators 1..k-1 exactly once each (in order, never itself, no other accumulator is a target), is then normalised exactly once by `samples`, and is the one returned',
            'min_reduce (instantiation of src/wlearner/stump.cpp): returns an element of the vector whose m_score is minimal (at positions 0 and ghost g), with the real comparator lambda = strict < on m_score',
            'linear::accumulator_t / gboost::accumulator_t clear, operator+=, operator/=: every partial-sum field (m_vm1, m_gb1 and m_gW1 for linear) is zeroed / added from the SAME field of `other` / divided by (double)samples, exactly once; the buffers m_outputs/m_vgrads/m_values are untouched (frame); *this is returned',
            'gboost clear(accumulators): every per-thread accumulator is cleared exactly once',
            'flatten_iterator_t::loop (both callbacks), targets_iterator_t::loop: map is called once with (samples().size(), batch()); base_dataset_iterator_t::map forwards (elements, chunksize) in this order to thread_pool().map; each task calls the callback exactly once with range [begin, end), the same tnum and the inputs / targets of exactly that (tnum, range); make_range / tensor_range_t(begin, end) store (begin, end).  With C17 (pool_t::map tiles [0, elements), tnum < pool size): every sample reaches the callback in exactly one range',
            'linear::function_t::do_vgrad, gboost::bias/scale_function_t::do_vgrad (protocol up to the reduction): every per-thread accumulator is cleared before the samples are visited; exactly one loop over the function\'s own iterator; exactly one sum_reduce over the function\'s accumulators, after the loop, whose normaliser is the number of samples of the iterator that was looped over; value and gradient handed back are read from the reduced accumulator (linear: + the regularisation terms computed from the weights part of x, gradient parts written into gx once each)',
            'gboost::grads_function_t::do_vgrad / gradients: one loop over the iterator; gradient = m_vgrads / (double)#iterator samples written into gx iff requested; value = mean of m_values',
            'chunk tasks (the lambdas handed to loop): the task touches only m_accumulators[tnum]; predictions are computed from the chunk\'s inputs and the current parameters, loss values / gradients from the chunk\'s targets and these predictions, written to the chunk\'s own slots; the partial sums receive exactly once the sum of the chunk\'s loss values and, iff a gradient is requested, the chunk\'s gradient contributions (linear: column sums and gradients^T * inputs over all rows of the chunk; scale: per sample, strong + (cluster < 0 ? 0 : x[cluster]) * weak of the sample at that position, gradient <gradient row, weak row of the same sample> added to m_gb1[cluster of that sample], unassigned samples skipped; grads: values and gradients of the chunk go to rows [begin, end) of m_values / m_vgrads)',
            'gboost::accumulator_t::update / vgrad: m_vm1 += sum of the given values; vgrad returns m_vm1 and copies m_gb1 into gx iff gx is not empty',
            'access paths targets(tnum, range) / flatten(tnum, range): cached and on-the-fly branch return rows gathered for exactly the sample positions of the range that went exactly once through the scaling function with this iterator\'s statistics and mode; on-the-fly rows live in the per-thread buffer tnum; the chunk tasks of cache_targets / cache_flatten store such rows into rows [begin, end) of the cache; the wrappers targets(map) / flatten(map) scale with (own statistics, m_scaling)',
            'regularisation terms for EVERY number of weights |W| = tsize * isize >= 1 (SMT over the reals, generic-coordinate mode of specs/C06/eig.py on the real body of linear::function_t::do_vgrad): value == loss + l1*mean|W| + (l2/2)*mean(W^2) with mean|W| and mean(W^2) the reductions over all coefficients; when a gradient is requested the coefficient written to the weights part of gx at a generic coordinate k is gW1[k] + l1*sign(W[k])/|W| + l2*W[k]/|W|, otherwise gx is untouched; W.size() / rows() / cols() are tsize*isize / tsize / isize',
            'constructors (CBMC): linear::function_t, gboost::{scale,bias,grads}_function_t: m_accumulators has iterator.concurrency() entries, each a copy of accumulator_t{isize, tsize} / accumulator_t{size()} whose gradient sums have the shape of the gradient parts (tsize; tsize x isize; size()) and start zeroed (clear AFTER resize); m_values / m_vgrads / m_outputs have one row per sample OF THE ITERATOR and the dataset\'s target dims; size() == (columns + 1) * size(target_dims) / cluster.groups() / size(target_dims) / samples * size(target_dims); m_isize / m_tsize / m_l1reg / m_l2reg / the iterator, loss, cluster, strong and weak outputs stored are the given ones.  linear / gboost accumulator_t constructors.  targets_ / flatten_ / select_iterator_t constructors: the per-thread buffer vectors have concurrency() entries, the samples are the given ones, no cache (0 rows), batch() >= 1 (default 100), scaling statistics made from (this dataset, these samples); base_dataset_iterator_t::concurrency() == dataset_t::concurrency() == m_pool->size() of the dataset whose thread_pool() map runs on: hence tnum < pool size (C17) < every per-thread vector',
            'select_iterator_t::loop, all 12 overloads + features_per_thread (functional contracts shared with specs/C18/functional.py): a chunk task [begin, end) invokes the operator exactly end - begin times, invocation k for the feature AT POSITION begin + k of the given list, with this task\'s tnum and the values dataset().select(samples, THAT feature, m_buffers[tnum].m_<kind>); loop(samples, features, op) maps once over [0, features.size()) in chunks of features_per_thread >= 1; loop(samples, feature, op) is one invocation with tnum 0; loop(samples, op) walks the feature list of the operator\'s kind with the caller\'s samples',
            'cache_targets / cache_flatten outer bodies (try / catch printed by the engine): the chunk task is mapped exactly once over ALL samples in chunks of batch(), after the cache was resized to one row per sample; true is returned only for a complete cache; no exception leaves the try block; on EVERY return path (allocation failure, throwing chunk task, size guard false) a cache with one row per sample holds the scaled rows of all samples, so that cached and uncached iteration deliver the same rows (the handler drops the cache: repaired defect, FINDING_failed_cache.md; refuted on the text before the repair; native driver replay/C09_failed_cache.cpp)',
            'setters targets_iterator_t::scaling(mode) / batch(n): store the argument and touch nothing else: an existing cache keeps the mode tag it was built under (FINDING_scaling_after_cache.md: stale rows, natively demonstrated; no library call site changes the mode after caching)',
            'linear::function_t::weights / bias, const AND non-const overloads, for the three parameter-vector types (vector_t, vector_map_t, vector_cmap_t; 12 instantiations of drivers/inst_linear_parts.cpp, the 4 that do_vgrad calls are among them by mangled name) -- back end B over Int on the real header bodies (specs/C09/parts_smt.py): under x.size() == m_isize * m_tsize + m_tsize <= INT64_MAX and m_isize, m_tsize >= 0, weights(x) is the view of x at offset 0 with extents (tsize, isize), bias(x) the view of x at offset isize * tsize with tsize coefficients ending exactly at x.size(); the product m_isize * m_tsize does not overflow, data() + offset stays inside the vector, every view lies inside [0, size()).  Lemmas about the contract: the two ranges are adjacent and disjoint, together exactly [0, isize * tsize + tsize) == [0, size()); two views that satisfy the clauses of the same accessor (const / non-const overload, any vector type) are the same range',
            'linear::function_t::do_vgrad (CBMC target linear_do_vgrad): the calls bias(.) / weights(.) are replaced by exactly the clause list proved for the accessors (NV_FACTS_BIAS / NV_FACTS_WEIGHTS generated from parts_smt.clauses; their precondition is an assertion at each call): the bias gradient m_gb1 of the reduced accumulator is stored into coefficients [isize * tsize, isize * tsize + tsize) == the LAST tsize coefficients of gx, the weights gradient m_gW1 into [0, isize * tsize); the regularisation value / gradient are computed from block [0, isize * tsize) of x and added to the same block of gx.  Data flow (clang declaration ids): the one linear::predict call of the chunk task receives W = weights(x) and b = bias(x) of the parameter vector (obligation predict_args).  The regularisation walkers (reg_smt / reg_generic) identify W / gW / b / gb by the accessor call that initialises them (alpha-renaming parts_smt.canon_do_vgrad), no longer by the local\'s name; W.rows() == tsize, W.cols() == isize used there is the proved clause weights_rows / weights_cols',
            'BOUNDED (|W| = 1, 2, 3; entries, l1, l2, loss symbolic reals): linear::function_t::do_vgrad returns loss + l1*mean|W| + (l2/2)*mean(W^2) and, when a gradient is requested, writes gW1 + l1*sign(W)/|W| + l2*W/|W| into the weights part of gx'],
        'not_decided': [
            'the loss values and their gradients (mean_i loss(t_i, W x_i + b), gboost bias/scale/grads objectives): numeric, Eigen kernels',
            'independence of the result from thread count / batch size beyond the combinatorial skeleton: floating-point re-association (1e-9 clause), and ANY effect of concurrent execution (races on per-thread buffers, accumulator index tnum used by two tasks at once)',
            'the numeric kernels themselves (linear::predict, loss_t::value / vgrad, Eigen products and reductions, scalar_stats_t::scale formulas incl. missing -> 0: C14)',
            'the cache invariant (a complete cache was built under the CURRENT scaling mode and statistics) is a precondition of targets(tnum, range) / flatten(tnum, range) and of cache_*: scaling(mode) does not re-establish it (finding); that no caller changes the mode after caching was READ off the five library call sites (src/linear.cpp:34-37, 119-120; src/linear/util.cpp:34-35; src/gboost/model.cpp:91-100, 321-322), not proved: the call-site functions (fit of linear / gboost) are not under contract',
            'inside cache_*: that pool_t::map tiles [0, samples) and rethrows a task\'s exception is C17\'s contract, represented by a stub (complete cache or exception); tensor resize (dims first, then allocation), the default-constructed tensor (0 rows) and the noexcept move assignment are assumed contracts read off include/nano/tensor/storage.h',
            'the products (columns + 1) * tsize, samples * tsize and the byte-count guard of cache_* are uninterpreted in the constructor / cache contracts (no overflow obligation); the asserts of the constructors (m_isize > 0, m_tsize > 0, dims of the strong / weak outputs) are compiled out (NDEBUG) and not obligations',
            'IEEE rounding in the regularisation terms (double treated as real); finite sums are known only through congruence + linearity (S2)',
            'dataset_t::select / flatten / targets themselves (what the values of a feature are): C08',
            'weights / bias: that the Eigen / tensor map constructed by map_tensor(pointer, extents...) addresses coefficient (r, c) of the matrix view at pointer + r * cols + c (row-major layout of a tensor map: C16) and that W * x_i + b inside linear::predict uses this layout (numeric kernel); callers of the accessors other than do_vgrad (src/linear.cpp:42-43 reads the fitted model through the const overloads: covered by the accessor contracts, the call site itself is not under contract); x.size() == size() of the function at the call of do_vgrad is function_t::vgrad\'s assert (C06 / C01), here a precondition'],
        'assumptions': [
            'accumulators.size() >= 1 when sum_reduce / min_reduce are called: the vectors are sized with concurrency() == pool size >= 1 (C17 constructor postcondition)',
            'batch() >= 1: linear::batch and gboost::batch are registered with domain [10, 10000] (src/linear.cpp:54, src/gboost/model.cpp:202); m_batch defaults to 100; targets_iterator_t::batch(v) itself does not validate v',
            'l1reg, l2reg >= 0 (the property\'s domain [0, 1e6])',
            'tensor operations zero() / array() = 0 / += / /= act coefficient-wise on the whole tensor (Eigen / tensor_t assumed contract); Eigen abs/square/sign/mean/scalar*array/array/scalar interpreted by their definitions on real entries; std::sqrt(v) is a non-negative s with s*s == v; double treated as Real in the regularisation VCs',
            'std::vector::operator[] / range-for / std::min_element(first, last, comp): returns an iterator to an element such that no element compares less (stated at positions 0 and g)',
            'scalar double + and / are uninterpreted in the accumulator contracts (congruence only): the postconditions hold for every interpretation, IEEE included',
            'provenance models: a tensor map passed / copied by value shares the storage it was created from (hooks scale_view_hook, loss_hook, rows_assign_hook); loss_t::value / vgrad write one row per sample of their arguments; linear::predict computes outputs row-wise from inputs; dataset_t::targets / flatten gather the raw rows of the given samples into the given buffer; scalar_stats_t::scale scales in place (and maps missing to 0)',
            'tnum < pool size (C17); that the per-thread buffers / accumulators have concurrency() == pool size entries is now PROVED at construction (ctor targets) -- what remains assumed is that the vectors are not resized between construction and use (no library function does)',
            'std::vector<T>(n) / (n, value) has n entries (copies of value); tensor_t(dims) / resize(dims) / vector_t::zero(n) have these dims (zero: zeroed); a default-constructed tensor has 0 rows; scalar_stats_t::make_*_stats(dataset, samples) are the statistics of these samples (C14); dataset.columns() < INT64_MAX; |W| = m_tsize * m_isize >= 1 in the generic regularisation VCs (the constructor asserts both positive; NDEBUG builds do not check it)',
            'STATED FACT S2 (specs/C06/poly.py): a finite sum of a polynomial summand is the linear combination of its monomial sums (used for sum_k (sqrt(l2) W_k)^2 = sqrt(l2)^2 sum_k W_k^2); Q1: sqrt(u) >= 0 and sqrt(u)^2 == u for u >= 0',
            'sum_reduce inside do_vgrad is represented by a symbolic reduced accumulator in the regularisation VCs (its protocol is the subject of the sum_reduce targets)',
            'weights / bias accessors: the asserted precondition x.size() == m_isize * m_tsize + m_tsize (compiled out under NDEBUG; in linear_do_vgrad an ASSERTION at every accessor call, discharged from do_vgrad\'s own asserts x.size() == (m_isize + 1) * m_tsize and gx.size() in {0, x.size()}, which are preconditions of that target); size bound: x.size() is a tensor_size_t (<= INT64_MAX); m_isize >= 0, m_tsize >= 0 (constructor: dataset.columns(), size(target_dims)); x.data() points to coefficient 0 of a buffer of x.size() coefficients and map_tensor(p, extents...) is the view (p, extents) (assumed contracts of tensor storage / map construction, C16); in the CBMC target the product m_tsize * m_isize is the uninterpreted nv_prod2(m_tsize, m_isize) (congruence only)'],
        'trusted': [],
    }


def replay(rp):
    """sum_reduce / min_reduce counterexamples: the real templates of include/nano/core/reduce.h on probe accumulators that
    record what happens to them (k = 1..9 and the counterexample's vector size when small); other targets: verifier output only"""
    import re
    import replaylib
    out = {'reproduced': False, 'runs': []}
    if re.match(r'cache_(targets|flatten)$', rp['target']):
        # outer bodies of cache_*: the REAL library under an address-space limit around cache_flatten (replay/C09_failed_cache.cpp): exit 1 =
        # the iterator is unusable / delivers other values after a failed caching (SIGSEGV is reported by the driver itself)
        exe = replaylib.build_with_library('replay/C09_failed_cache.cpp', 'C09_failed_cache')
        try:
            rc, so, se = replaylib.run_driver(exe, [], timeout=600)
            out['runs'].append({'exit': rc, 'output': so.strip()[-600:]})
            out['reproduced'] = (rc == 1)
        except Exception as e:
            out['runs'].append({'error': repr(e)})
        return out
    if re.match(r'(linear|bias|scale|grads)_(do_vgrad|task)$|grads_gradients$|(targets|flatten)_(at|scaled)$|cache_(targets|flatten)_task$', rp['target']):
        # objective protocol / access paths: the REAL objectives of the working tree (library rebuilt incrementally) over a strict
        # subset of a 30-sample dataset: MEAN (objective == mean of the single-sample objectives) and CACHE (cached == on the fly
        # for every scaling mode); the verifier's counterexample is symbolic (iterator size != dataset / cluster size)
        exe = replaylib.build_with_library('replay/C09_objective_replay.cpp', 'C09_objective_replay')
        for args in ([5, 23, 3, 4], [0, 17, 1, 100], [10, 30, 2, 7]):
            try:
                rc, so, se = replaylib.run_driver(exe, args, timeout=300)
            except Exception as e:
                out['runs'].append({'args': args, 'error': repr(e)})
                continue
            bad = [ln for ln in so.splitlines() if '"ok": false' in ln]
            out['runs'].append({'first_last_threads_batch': args, 'exit': rc, 'violated': bad[:6]})
            if rc == 1:
                out['reproduced'] = True
        return out
    if not re.match(r'(sum_reduce|min_reduce)', rp['target']):
        out['note'] = 'no native driver for this target: the replay file carries the verifier output only'
        return out
    exe = replaylib.build_header_only('replay/C09_replay.cpp', 'C09_replay')
    ks = list(range(1, 10))
    for fo in rp['failed_obligations']:
        ce = fo.get('counterexample') or {}
        for key, v in ce.items():
            if key.endswith('size') and re.fullmatch(r'\d+(ul|UL)?', str(v)):
                k = int(re.sub(r'\D', '', str(v)))
                if 1 <= k <= 5000 and k not in ks:
                    ks.append(k)
    for k in ks[:14]:
        try:
            rc, so, se = replaylib.run_driver(exe, [k, 17])
        except Exception as e:
            out['runs'].append({'k': k, 'error': repr(e)})
            continue
        out['runs'].append({'k': k, 'exit': rc, 'output': so.strip()})
        if rc == 1:
            out['reproduced'] = True
    return out
