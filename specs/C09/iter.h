/* C09: the dataset iterators hand every sample range to the callback exactly as pool_t::map generated it.
 *   loop(callback)      calls base_dataset_iterator_t::map exactly once with (elements = samples().size(), chunksize = batch())
 *   base map            forwards (elements, chunksize) in this order to dataset.thread_pool().map (C17: tiles [0, elements))
 *   the lambda          called with (begin, end, tnum) calls the callback exactly once with range [begin, end), the same
 *                       tnum, and the inputs / targets of exactly that (tnum, range)
 * Together with C17 (map tiles [0, elements) in chunks, tnum < pool size): every sample index reaches the callback in
 * exactly one range.  What the callback computes from it is not decided. */
struct nv_dataset { char unused; };
struct nv_poolref { char unused; };
struct nv_iter { struct nv_dataset m_dataset; int64_t n_samples; int64_t m_batch; };   /* samples().size(), batch() */
struct nv_range { int64_t m_begin, m_end; };                                        /* tensor_range_t */
enum { NV_VIEW_FLATTEN = 1, NV_VIEW_TARGETS = 2 };
struct nv_view { int32_t kind; uint64_t tnum; struct nv_range range; };              /* what a tensor map was computed from */
struct nv_cb { char unused; };                                                      /* std::function callback: opaque */

/* ---- loop -> map ---- */
uint64_t nv_map_calls; int64_t nv_map_elements, nv_map_chunk;
static void nv_iter_map(const struct nv_iter* it, int64_t elements, int64_t chunksize)
{ nv_map_calls = nv_map_calls + 1; nv_map_elements = elements; nv_map_chunk = chunksize; }
#define NV_LOOP_CONTRACT \
__CPROVER_requires(__CPROVER_is_fresh(self, sizeof(*self)) && __CPROVER_is_fresh(callback, sizeof(*callback)) && nv_map_calls == 0) \
__CPROVER_assigns(nv_map_calls, nv_map_elements, nv_map_chunk) \
__CPROVER_ensures(nv_map_calls == 1 && nv_map_elements == self->n_samples && nv_map_chunk == self->m_batch)
#define NV_CONTRACT_flatten_loop_ft NV_LOOP_CONTRACT
#define NV_CONTRACT_flatten_loop_f NV_LOOP_CONTRACT
#define NV_CONTRACT_targets_loop NV_LOOP_CONTRACT

/* ---- base map -> pool map ---- */
static struct nv_poolref nv_the_pool;
static struct nv_poolref* nv_thread_pool(const struct nv_dataset* d) { return &nv_the_pool; }
static void nv_pool_map(struct nv_poolref* p, int64_t elements, int64_t chunksize)
{ nv_map_calls = nv_map_calls + 1; nv_map_elements = elements; nv_map_chunk = chunksize; }
#define NV_CONTRACT_base_map \
__CPROVER_requires(__CPROVER_is_fresh(self, sizeof(*self)) && nv_map_calls == 0) \
__CPROVER_assigns(nv_map_calls, nv_map_elements, nv_map_chunk) \
__CPROVER_ensures(nv_map_calls == 1 && nv_map_elements == elements && nv_map_chunk == chunksize)

/* ---- tensor_range_t(begin, end) / make_range: extracted (range_ctor, make_range); the constructor expression needs a value */
void range_ctor(struct nv_range* self, int64_t begin, int64_t end);
static struct nv_range nv_range_make(int64_t begin, int64_t end) { struct nv_range r; range_ctor(&r, begin, end); return r; }
#define NV_CONTRACT_range_ctor \
__CPROVER_requires(__CPROVER_is_fresh(self, sizeof(*self))) __CPROVER_assigns(*self) \
__CPROVER_ensures(self->m_begin == begin && self->m_end == end)
#define NV_CONTRACT_make_range \
__CPROVER_assigns() __CPROVER_ensures(__CPROVER_return_value.m_begin == begin && __CPROVER_return_value.m_end == end)

/* ---- the lambdas ---- */
struct nv_range make_range(int64_t begin, int64_t end);
uint64_t nv_cb_calls, nv_cb_tnum; struct nv_range nv_cb_range; struct nv_view nv_cb_inputs, nv_cb_targets;
/* flatten(tnum, range) / targets(tnum, range): the inputs / targets of the samples in `range`, using thread buffer tnum */
static struct nv_view nv_flatten(const struct nv_iter* it, uint64_t tnum, const struct nv_range* r)
{ struct nv_view v; v.kind = NV_VIEW_FLATTEN; v.tnum = tnum; v.range = *r; return v; }
static struct nv_view nv_targets(const struct nv_iter* it, uint64_t tnum, const struct nv_range* r)
{ struct nv_view v; v.kind = NV_VIEW_TARGETS; v.tnum = tnum; v.range = *r; return v; }
static void nv_callback_ft(const struct nv_cb* cb, struct nv_range r, uint64_t tnum, struct nv_view inputs, struct nv_view targets)
{ nv_cb_calls = nv_cb_calls + 1; nv_cb_range = r; nv_cb_tnum = tnum; nv_cb_inputs = inputs; nv_cb_targets = targets; }
static void nv_callback_f(const struct nv_cb* cb, struct nv_range r, uint64_t tnum, struct nv_view inputs)
{ nv_cb_calls = nv_cb_calls + 1; nv_cb_range = r; nv_cb_tnum = tnum; nv_cb_inputs = inputs; }
static void nv_callback_t(const struct nv_cb* cb, struct nv_range r, uint64_t tnum, struct nv_view targets)
{ nv_cb_calls = nv_cb_calls + 1; nv_cb_range = r; nv_cb_tnum = tnum; nv_cb_targets = targets; }
#define NV_VIEW_IS(v, k) ((v).kind == (k) && (v).tnum == tnum && (v).range.m_begin == begin && (v).range.m_end == end)
#define NV_TASK_REQ __CPROVER_requires(__CPROVER_is_fresh(self, sizeof(*self)) && __CPROVER_is_fresh(callback, sizeof(*callback)) && nv_cb_calls == 0)
#define NV_TASK_BASE (nv_cb_calls == 1 && nv_cb_range.m_begin == begin && nv_cb_range.m_end == end && nv_cb_tnum == tnum)
#define NV_CONTRACT_flatten_loop_ft_task NV_TASK_REQ \
__CPROVER_assigns(nv_cb_calls, nv_cb_range, nv_cb_tnum, nv_cb_inputs, nv_cb_targets) \
__CPROVER_ensures(NV_TASK_BASE && NV_VIEW_IS(nv_cb_inputs, NV_VIEW_FLATTEN) && NV_VIEW_IS(nv_cb_targets, NV_VIEW_TARGETS))
#define NV_CONTRACT_flatten_loop_f_task NV_TASK_REQ \
__CPROVER_assigns(nv_cb_calls, nv_cb_range, nv_cb_tnum, nv_cb_inputs) \
__CPROVER_ensures(NV_TASK_BASE && NV_VIEW_IS(nv_cb_inputs, NV_VIEW_FLATTEN))
#define NV_CONTRACT_targets_loop_task NV_TASK_REQ \
__CPROVER_assigns(nv_cb_calls, nv_cb_range, nv_cb_tnum, nv_cb_targets) \
__CPROVER_ensures(NV_TASK_BASE && NV_VIEW_IS(nv_cb_targets, NV_VIEW_TARGETS))
