"""C09, back end B (reals): the regularisation terms of linear::function_t::do_vgrad equal the property's definition

    value    = (normalised loss) + l1 * mean|W| + (l2/2) * mean(W^2)
    gradient = (normalised gW)   + l1 * sign(W) / |W| + l2 * W / |W|        (coefficient-wise; |W| = number of weights)

walked on the REAL function body by nvwp with double as Real (assumption recorded).  W is an array of n symbolic reals,
n = 1, 2, 3: a BOUNDED stand-in in the array size (the entries, l1, l2 and the loss are unbounded symbolic reals).
Eigen's coefficient-wise operators (array(), abs(), square(), sign(), scalar * array, array / scalar, +=) and mean() are
interpreted by their definition on the n entries (assumed contract of Eigen).  std::sqrt(v) is any s >= 0 with s*s == v.
The per-sample part of the function (clear, loop over the dataset, sum_reduce) is opaque here: the reduced accumulator
(m_vm1, m_gW1) is symbolic; it is the subject of the other C09 targets."""
import astload
import nvwp
from nvwp import V, AND, OR, NOT, IMP, ITE
from wplib import IdEnvWP, load, reach_vc
from cxx2c import unwrap, strip_cv, qual

SRC = 'src/linear/function.cpp'
FILE = astload.REPO + '/' + SRC


def rsum(ts):
    return ts[0] if len(ts) == 1 else '(+ ' + ' '.join(ts) + ')'


class RegWP(IdEnvWP):
    """values are V (scalars) or python lists of V (coefficient-wise array expressions of n entries)"""

    def __init__(self, name, n):
        super().__init__(name, real=True)
        self.dim = n
        self.dropped = []
        self.decl_hooks = (self.decl_hook,)

    # -------------------------------------------------------------- arrays stored in the environment as name.k
    alias = {'gW': 'gx.W'}     # gW = weights(gx) is a map onto the caller's gradient buffer: writes to gW are writes to gx

    def arr(self, name):
        name = self.alias.get(name, name)
        return [self.env[f'{name}.{k}'] for k in range(self.dim)]

    def set_arr(self, name, vals):
        name = self.alias.get(name, name)
        for k, v in enumerate(vals):
            self.env[f'{name}.{k}'] = V(v.t, 'Real', 'double')

    def fresh_arr(self, name):
        self.set_arr(name, [self.fresh('Real', f'{name}_{k}', 'double') for k in range(self.dim)])

    def var_of(self, node):
        u = unwrap(node)
        while u.get('kind') in ('MaterializeTemporaryExpr', 'ExprWithCleanups', 'CXXBindTemporaryExpr') and u.get('inner'):
            u = unwrap(u['inner'][0])
        if u.get('kind') == 'DeclRefExpr':
            return u['referencedDecl']['name']
        if u.get('kind') == 'MemberExpr':
            return self.member_name(u)
        if u.get('kind') == 'CXXMemberCallExpr' and u['inner'][0].get('name') == 'array':
            return self.var_of(u['inner'][0]['inner'][0])
        raise nvwp.Unsupported(f'{self.name}: array lvalue of kind {u.get("kind")}')

    # -------------------------------------------------------------- declarations of class type
    def decl_hook(self, wp, v, init):
        name = v['name']
        q = strip_cv(qual(v['type']))
        if name in ('b', 'gb'):
            return True                                   # bias maps: not part of the regularisation terms
        if name == 'W':
            self.fresh_arr('W')                           # weights(x): n arbitrary reals
            return True
        if name == 'gW':
            return True                                   # weights(gx): a view of the caller's buffer (alias of gx.W)
        if name == 'accumulator':
            # const auto& accumulator = sum_reduce(m_accumulators, samples): the reduced, normalised accumulator (opaque here)
            self.env['accumulator.m_vm1'] = self.fresh('Real', 'loss_mean', 'double')
            self.fresh_arr('accumulator.m_gW1')
            self.note('sum_reduce -> symbolic reduced accumulator')
            return True
        return False

    # -------------------------------------------------------------- expressions
    def ev(self, n):
        k = n.get('kind')
        inner = n.get('inner', [])
        if k == 'DeclRefExpr' and f'{self.alias.get(n["referencedDecl"]["name"], n["referencedDecl"]["name"])}.0' in self.env:
            return self.arr(n['referencedDecl']['name'])
        if k == 'MemberExpr':
            try:
                nm = self.member_name(n)
            except nvwp.Unsupported:
                nm = None
            if nm and f'{nm}.0' in self.env:
                return self.arr(nm)
        if k == 'CXXMemberCallExpr':
            me = inner[0]
            name = me.get('name')
            obj = me['inner'][0]
            if name == 'array':
                return self.ev(obj)
            if name in ('abs', 'square', 'sign'):
                a = self.ev(obj)
                f = {'abs': lambda t: f'(rabs {t})', 'square': lambda t: f'(* {t} {t})',
                     'sign': lambda t: f'(ite (> {t} 0.0) 1.0 (ite (< {t} 0.0) (- 1.0) 0.0))'}[name]
                self.note('Eigen ' + name)
                return [V(f(x.t), 'Real', 'double') for x in a]
            if name == 'mean':
                a = self.ev(obj)
                self.note('Eigen mean')
                return V(f'(/ {rsum([x.t for x in a])} {len(a)}.0)', 'Real', 'double')
            if name == 'size':
                o = unwrap(obj)
                if o.get('kind') == 'DeclRefExpr' and o['referencedDecl']['name'] == 'W':
                    return V(str(self.dim), 'Int', 'long')
                if o.get('kind') == 'DeclRefExpr' and o['referencedDecl']['name'] == 'gx':
                    return self.env['gx.size']
                raise nvwp.Unsupported(f'{self.name}: size() of something else')
            if name == 'loop':
                self.note('m_iterator.loop(lambda): per-sample accumulation (opaque here)')
                self.dropped.append('m_iterator.loop(...)')
                return V('0', 'Int', 'int')
        if k == 'CXXOperatorCallExpr':
            op = unwrap(inner[0]).get('referencedDecl', {}).get('name')
            if op in ('operator*', 'operator/'):
                a, b = self.ev(inner[1]), self.ev(inner[2])
                sym = op[-1]
                if isinstance(a, list) and isinstance(b, list):
                    raise nvwp.Unsupported('array (*|/) array')
                if not isinstance(a, list) and not isinstance(b, list):
                    raise nvwp.Unsupported('scalar operator call')
                self.note('Eigen scalar ' + sym + ' array')
                if isinstance(b, list):
                    if sym == '/':
                        raise nvwp.Unsupported('scalar / array')
                    s = self.conv(a, 'Real', 'double')
                    return [V(f'(* {s.t} {x.t})', 'Real', 'double') for x in b]
                s = self.conv(b, 'Real', 'double')
                if sym == '/':
                    self.oblige('real-model division is defined (divisor non-zero)', f'(not (= {s.t} 0.0))', n)
                return [V(f'({sym} {x.t} {s.t})', 'Real', 'double') for x in a]
            if op == 'operator+=':
                tgt = self.var_of(inner[1])
                add = self.ev(inner[2])
                if not isinstance(add, list):
                    raise nvwp.Unsupported('array += scalar')
                self.note('Eigen array += array')
                self.set_arr(tgt, [V(f'(+ {o.t} {x.t})', 'Real', 'double') for o, x in zip(self.arr(tgt), add)])
                return V('0', 'Int', 'int')
            if op == 'operator=':
                tgt = self.var_of(inner[1])
                if tgt == 'gb':
                    return V('0', 'Int', 'int')
                src = self.ev(inner[2])
                if not isinstance(src, list):
                    raise nvwp.Unsupported('array = scalar')
                self.set_arr(tgt, src)
                return V('0', 'Int', 'int')
        if k == 'CallExpr':
            rd = unwrap(inner[0]).get('referencedDecl', {})
            if rd.get('name') == 'sqrt':
                v = self.ev(inner[1])
                s = self.fresh('Real', 'sqrt', 'double')
                self.oblige('sqrt of a non-negative value', f'(>= {v.t} 0.0)', n)
                self.assume(f'(and (>= {s.t} 0.0) (= (* {s.t} {s.t}) {v.t}))')
                self.note('std::sqrt')
                return s
        return super().ev(n)

    # -------------------------------------------------------------- statements
    def ex(self, n):
        if n.get('kind') == 'CXXForRangeStmt':
            # for (auto& accumulator : m_accumulators) accumulator.clear();   -- no effect on the symbolic reduced accumulator
            calls = [x for x in astload.walk(n['inner'][-1]) if x.get('kind') == 'CXXMemberCallExpr']
            if [c['inner'][0].get('name') for c in calls] != ['clear']:
                raise nvwp.Unsupported(f'{self.name}: range-for that is not the accumulator clearing loop')
            self.dropped.append('for (accumulator : m_accumulators) accumulator.clear()')
            return
        return super().ex(n)


def vcs_for(n):
    name = f'linear_do_vgrad_reg[n={n}]'
    docs, fn = load(SRC, 'linear::function_t::do_vgrad', 'do_vgrad', None)
    import parts_smt
    fn = parts_smt.canon_do_vgrad(fn)       # locals named by the accessor call that initialises them (alpha-renaming)
    wp = RegWP(name, n)
    wp.bind_params(fn)
    l1 = wp.env['self.m_l1reg'] = wp.fresh('Real', 'l1', 'double')
    l2 = wp.env['self.m_l2reg'] = wp.fresh('Real', 'l2', 'double')
    # the property's domain (and the registered parameter domain of linear::l1reg / l2reg): l1, l2 >= 0
    wp.assume(f'(>= {l1.t} 0.0)')
    wp.assume(f'(>= {l2.t} 0.0)')
    wp.env['gx.size'] = wp.fresh('Int', 'gx_size', 'long')
    wp.assume(f'(>= {wp.env["gx.size"].t} 0)')
    wp.fresh_arr('gx.W')          # the weights part of the caller's gradient buffer: arbitrary on entry

    def post(wp, rv):
        w = [x.t for x in wp.arr('W')]
        loss = wp.env['accumulator.m_vm1'].t
        mean_abs = f'(/ {rsum([f"(rabs {x})" for x in w])} {n}.0)'
        mean_sq = f'(/ {rsum([f"(* {x} {x})" for x in w])} {n}.0)'
        out = [('value == loss + l1*mean|W| + (l2/2)*mean(W^2)',
                f'(= {rv.t} (+ {loss} (* {l1.t} {mean_abs}) (* (/ {l2.t} 2.0) {mean_sq})))')]
        for k in range(n):
            g0 = wp.env[f'accumulator.m_gW1.{k}'].t
            sign = f'(ite (> {w[k]} 0.0) 1.0 (ite (< {w[k]} 0.0) (- 1.0) 0.0))'
            out.append((f'gradient wrt W[{k}] == gW1[{k}] + l1*sign(W[{k}])/|W| + l2*W[{k}]/|W| (when a gradient is requested)',
                        f'(=> (> {wp.env["gx.size"].t} 0) (= {wp.env[f"gx.W.{k}"].t} (+ {g0} (/ (* {l1.t} {sign}) {n}.0) (/ (* {l2.t} {w[k]}) {n}.0))))'))
        return out
    wp.post = post
    wp.run(fn, FILE)
    if wp.returns == 0:
        raise astload.ExtractionError(f'{name}: no return path')
    out = wp.vcs(name, FILE, f'regularisation terms over the reals, |W| = {n} (bounded array size)')
    out.append(reach_vc(wp, name, FILE))
    info = {'c_name': name, 'cxx': 'linear::function_t::do_vgrad (regularisation part)', 'file': FILE,
            'line': fn.get('loc', {}).get('line'), 'sha': astload.file_hash(FILE), 'dropped': wp.dropped}
    return out, info
