/* C09: sum_reduce(accumulators, samples): "accumulator 0 absorbs accumulators 1..k-1 exactly once each, then is normalised
 * exactly once (by the number of samples)"; min_reduce(accumulators): the returned element has the minimum m_score.
 * The vector has symbolic length; universal statements at a ghost position nv_g (DESIGN 4.3/4.4). */
struct nv_acc { uint64_t idx; double m_score; };      /* an accumulator: its position in the vector (+ score for min_reduce) */
struct nv_accs { uint64_t size; };
struct nv_lambda { char unused; };                    /* a capture-less lambda object */                    /* std::vector<accumulator_t> */
uint64_t nv_g;                                        /* ghost index */
struct nv_acc nv_acc0, nv_acc_g, nv_acc_other;        /* element 0, element nv_g, any other element */
uint64_t nv_absorbed, nv_g_adds, nv_norms, nv_norm_after; int64_t nv_norm_samples;
uint64_t nv_w_add_idx;                                /* witness: index of the last absorbed accumulator */

/* std::vector::operator[] */
static struct nv_acc* nv_acc_at(struct nv_accs* v, uint64_t i)
{
  __CPROVER_assert(i < v->size, "operator[]: index below size()");
  if (i == 0) return &nv_acc0;
  if (i == nv_g) return &nv_acc_g;
  nv_acc_other.idx = i; nv_acc_other.m_score = nv_nondet_double();
  return &nv_acc_other;
}
/* accumulator_t::operator+= / operator/= (their own contracts are proved in targets linear_acc_* / gboost_acc_*) */
static struct nv_acc* nv_acc_add(struct nv_acc* a, const struct nv_acc* b)
{
  nv_w_add_idx = b->idx;
  __CPROVER_assert(a == &nv_acc0, "+=: the target is accumulator 0");
  __CPROVER_assert(b->idx == nv_absorbed + 1, "+=: accumulators 1..k-1 are absorbed in order, each exactly once (never accumulator 0 itself)");
  __CPROVER_assert(nv_norms == 0, "+=: nothing is absorbed after the normalisation");
  nv_absorbed = nv_absorbed + 1;
  if (b == &nv_acc_g) nv_g_adds = nv_g_adds + 1;
  return a;
}
static struct nv_acc* nv_acc_div(struct nv_acc* a, int64_t samples)
{
  __CPROVER_assert(a == &nv_acc0, "/=: the normalised accumulator is accumulator 0");
  nv_norms = nv_norms + 1; nv_norm_samples = samples; nv_norm_after = nv_absorbed;
  return a;
}
#define NV_SUM_REDUCE_CONTRACT \
__CPROVER_requires(__CPROVER_is_fresh(accumulators, sizeof(*accumulators)) && accumulators->size >= 1 && accumulators->size < (1ULL << 62)) \
__CPROVER_requires(nv_acc0.idx == 0 && nv_acc_g.idx == nv_g && nv_g >= 1 && nv_absorbed == 0 && nv_g_adds == 0 && nv_norms == 0) \
__CPROVER_assigns(nv_absorbed, nv_g_adds, nv_norms, nv_norm_after, nv_norm_samples, nv_acc_other, nv_w_add_idx) \
__CPROVER_ensures(__CPROVER_return_value == &nv_acc0) \
__CPROVER_ensures(nv_absorbed == accumulators->size - 1 && (nv_g < accumulators->size ==> nv_g_adds == 1)) \
__CPROVER_ensures(nv_norms == 1 && nv_norm_samples == samples && nv_norm_after == accumulators->size - 1)
#define NV_SUM_REDUCE_LOOP \
__CPROVER_assigns(i, nv_absorbed, nv_g_adds, nv_acc_other, nv_w_add_idx) \
__CPROVER_loop_invariant(1 <= i && i <= accumulators->size && nv_absorbed == i - 1 && nv_g_adds == (nv_g < i ? 1 : 0) && nv_norms == 0) \
__CPROVER_decreases(accumulators->size - i)
#define NV_CONTRACT_sum_reduce_linear NV_SUM_REDUCE_CONTRACT
#define NV_LOOP_sum_reduce_linear_1 NV_SUM_REDUCE_LOOP
#define NV_CONTRACT_sum_reduce_gboost NV_SUM_REDUCE_CONTRACT
#define NV_LOOP_sum_reduce_gboost_1 NV_SUM_REDUCE_LOOP

/* min_reduce: std::min_element(first, last, comp) returns an iterator i in [first, last) such that no element j has
 * comp(*j, *i); last if the range is empty.  Assumed contract, stated at positions 0 and nv_g through the REAL comparator
 * (the lambda inside min_reduce, extracted as min_reduce_cmp). */
_Bool min_reduce_cmp(const struct nv_acc* one, const struct nv_acc* other);
uint64_t nv_min_idx; _Bool nv_min_called;
static struct nv_acc* nv_tracked(uint64_t i) { return i == 0 ? &nv_acc0 : (i == nv_g ? &nv_acc_g : &nv_acc_other); }
static uint64_t nv_min_element(uint64_t first, uint64_t last)
{
  nv_min_called = 1; nv_min_idx = last;
  if (first == last) return last;
  uint64_t i = nv_nondet_uint64_t();
  __CPROVER_assume(first <= i && i < last);
  if (i != 0 && i != nv_g) { nv_acc_other.idx = i; nv_acc_other.m_score = nv_nondet_double(); }
  if (first <= nv_g && nv_g < last) __CPROVER_assume(!min_reduce_cmp(&nv_acc_g, nv_tracked(i)));
  if (first == 0) __CPROVER_assume(!min_reduce_cmp(&nv_acc0, nv_tracked(i)));
  nv_min_idx = i;
  return i;
}
/* *it */
static struct nv_acc* nv_iter_deref(uint64_t it, uint64_t size)
{
  __CPROVER_assert(it < size, "*it: the iterator is dereferenceable (not end())");
  __CPROVER_assert(it == 0 || it == nv_g || it == nv_min_idx, "*it: the element returned by min_element");
  return nv_tracked(it);
}
uint64_t nv_size;   /* ghost copy of accumulators.size() (operator* has no access to the container) */
#define NV_CONTRACT_min_reduce \
__CPROVER_requires(__CPROVER_is_fresh(accumulators, sizeof(*accumulators)) && accumulators->size >= 1 && nv_size == accumulators->size) \
__CPROVER_requires(nv_acc0.idx == 0 && nv_acc_g.idx == nv_g && nv_g >= 1 && !nv_min_called) \
__CPROVER_requires(nv_acc0.m_score == nv_acc0.m_score && nv_acc_g.m_score == nv_acc_g.m_score) \
__CPROVER_assigns(nv_min_idx, nv_min_called, nv_acc_other) \
__CPROVER_ensures(nv_min_called && __CPROVER_return_value == nv_tracked(nv_min_idx) && __CPROVER_return_value->idx < accumulators->size) \
__CPROVER_ensures(nv_g < accumulators->size ==> !(nv_acc_g.m_score < __CPROVER_return_value->m_score)) \
__CPROVER_ensures(!(nv_acc0.m_score < __CPROVER_return_value->m_score))
/* the comparator: strict "less" on m_score */
#define NV_CONTRACT_min_reduce_cmp \
__CPROVER_requires(__CPROVER_is_fresh(one, sizeof(*one)) && __CPROVER_is_fresh(other, sizeof(*other))) \
__CPROVER_assigns() \
__CPROVER_ensures(__CPROVER_return_value == (one->m_score < other->m_score))

/* gboost: clear(accumulators) (src/gboost/function.cpp, anonymous namespace), called first by every gboost objective: every
 * per-thread accumulator is cleared exactly once (stated at nv_g and by the visit count), nothing else happens */
uint64_t nv_clears, nv_g_clears;
static struct nv_acc* nv_acc_iter(uint64_t it)
{
  __CPROVER_assert(it < nv_size, "*it: inside the vector");
  if (it == 0) return &nv_acc0;
  if (it == nv_g) return &nv_acc_g;
  nv_acc_other.idx = it;
  return &nv_acc_other;
}
static void nv_acc_clear(struct nv_acc* a)
{
  __CPROVER_assert(a->idx == nv_clears, "clear: accumulators are cleared in order, each once");
  nv_clears = nv_clears + 1;
  if (a == &nv_acc_g) nv_g_clears = nv_g_clears + 1;
}
#define NV_CONTRACT_gboost_clear_all \
__CPROVER_requires(__CPROVER_is_fresh(accumulators, sizeof(*accumulators)) && nv_size == accumulators->size && accumulators->size < (1ULL << 62)) \
__CPROVER_requires(nv_acc0.idx == 0 && nv_acc_g.idx == nv_g && nv_g >= 1 && nv_clears == 0 && nv_g_clears == 0) \
__CPROVER_assigns(nv_clears, nv_g_clears, nv_acc_other) \
__CPROVER_ensures(nv_clears == accumulators->size && (nv_g < accumulators->size ==> nv_g_clears == 1))
#define NV_LOOP_gboost_clear_all_1 \
__CPROVER_assigns(__begin1, nv_clears, nv_g_clears, nv_acc_other) \
__CPROVER_loop_invariant(__begin1 <= __end1 && __end1 == accumulators->size && nv_clears == __begin1 && nv_g_clears == (nv_g < __begin1 ? 1 : 0)) \
__CPROVER_decreases(__end1 - __begin1)
