/* C09: linear::accumulator_t and gboost::accumulator_t: clear / operator+= / operator/= act on EVERY partial-sum field
 * (m_vm1, m_gb1 and, for the linear model, m_gW1), with the right operand, exactly once, and on nothing else.
 * Tensors are ghost-versioned opaque values (DESIGN 4.2): each tensor operation bumps the version and records what was
 * done with which operand; scalar double arithmetic is uninterpreted (NV_FADD / NV_FDIV). */
enum { NV_OP_NONE = 0, NV_OP_ZERO = 1, NV_OP_ADD = 2, NV_OP_DIV = 3, NV_OP_COPY = 4 };
struct nv_tens { uint64_t id, ver; int32_t op; uint64_t arg_id, arg_ver; double arg_val; int64_t n; };
struct nv_lacc { struct nv_tens m_outputs, m_vgrads, m_values; double m_vm1; struct nv_tens m_gb1, m_gW1; };
struct nv_gacc { double m_vm1; struct nv_tens m_gb1; };
/* assumed contracts of the tensor operations: t.zero() / t.array() = 0 ; t += o ; t /= v (coefficient-wise, Eigen) */
static void nv_t_zero(struct nv_tens* t) { t->ver = t->ver + 1; t->op = NV_OP_ZERO; t->arg_id = 0; t->arg_ver = 0; t->arg_val = 0.0; }
static void nv_t_fill(struct nv_tens* t, double v) { t->ver = t->ver + 1; t->op = (v == 0.0) ? NV_OP_ZERO : NV_OP_NONE; t->arg_id = 0; t->arg_ver = 0; t->arg_val = v; }
static struct nv_tens* nv_t_add(struct nv_tens* t, const struct nv_tens* o)
{ t->ver = t->ver + 1; t->op = NV_OP_ADD; t->arg_id = o->id; t->arg_ver = o->ver; t->arg_val = 0.0; return t; }
static struct nv_tens* nv_t_div(struct nv_tens* t, double v)
{ t->ver = t->ver + 1; t->op = NV_OP_DIV; t->arg_id = 0; t->arg_ver = 0; t->arg_val = v; return t; }

#define NV_T_ZEROED(f) (self->f.ver == __CPROVER_old(self->f.ver) + 1 && self->f.op == NV_OP_ZERO)
#define NV_T_ADDED(f) (self->f.ver == __CPROVER_old(self->f.ver) + 1 && self->f.op == NV_OP_ADD && self->f.arg_id == other->f.id && self->f.arg_ver == other->f.ver)
#define NV_T_DIVIDED(f) (self->f.ver == __CPROVER_old(self->f.ver) + 1 && self->f.op == NV_OP_DIV && self->f.arg_val == (double)samples)
#define NV_ACC_FRESH __CPROVER_is_fresh(self, sizeof(*self))

/* linear: the frame (assigns) says the three buffers m_outputs / m_vgrads / m_values are untouched */
#define NV_CONTRACT_linear_acc_clear \
__CPROVER_requires(NV_ACC_FRESH) __CPROVER_assigns(self->m_vm1, self->m_gb1, self->m_gW1) \
__CPROVER_ensures(self->m_vm1 == 0.0 && NV_T_ZEROED(m_gb1) && NV_T_ZEROED(m_gW1))
#define NV_CONTRACT_linear_acc_add \
__CPROVER_requires(NV_ACC_FRESH && __CPROVER_is_fresh(other, sizeof(*other))) __CPROVER_assigns(self->m_vm1, self->m_gb1, self->m_gW1) \
__CPROVER_ensures(NV_SAME(self->m_vm1, NV_FADD(__CPROVER_old(self->m_vm1), other->m_vm1)) && NV_T_ADDED(m_gb1) && NV_T_ADDED(m_gW1)) \
__CPROVER_ensures(__CPROVER_return_value == self)
#define NV_CONTRACT_linear_acc_div \
__CPROVER_requires(NV_ACC_FRESH) __CPROVER_assigns(self->m_vm1, self->m_gb1, self->m_gW1) \
__CPROVER_ensures(NV_SAME(self->m_vm1, NV_FDIV(__CPROVER_old(self->m_vm1), (double)samples)) && NV_T_DIVIDED(m_gb1) && NV_T_DIVIDED(m_gW1)) \
__CPROVER_ensures(__CPROVER_return_value == self)
/* gboost */
#define NV_CONTRACT_gboost_acc_clear \
__CPROVER_requires(NV_ACC_FRESH) __CPROVER_assigns(self->m_vm1, self->m_gb1) \
__CPROVER_ensures(self->m_vm1 == 0.0 && NV_T_ZEROED(m_gb1))
#define NV_CONTRACT_gboost_acc_add \
__CPROVER_requires(NV_ACC_FRESH && __CPROVER_is_fresh(other, sizeof(*other))) __CPROVER_assigns(self->m_vm1, self->m_gb1) \
__CPROVER_ensures(NV_SAME(self->m_vm1, NV_FADD(__CPROVER_old(self->m_vm1), other->m_vm1)) && NV_T_ADDED(m_gb1)) \
__CPROVER_ensures(__CPROVER_return_value == self)
#define NV_CONTRACT_gboost_acc_div \
__CPROVER_requires(NV_ACC_FRESH) __CPROVER_assigns(self->m_vm1, self->m_gb1) \
__CPROVER_ensures(NV_SAME(self->m_vm1, NV_FDIV(__CPROVER_old(self->m_vm1), (double)samples)) && NV_T_DIVIDED(m_gb1)) \
__CPROVER_ensures(__CPROVER_return_value == self)

/* gboost::accumulator_t::update(values): m_vm1 += sum of the given loss values; vgrad(gx): returns m_vm1 and, when a gradient
 * is requested (gx not empty), copies m_gb1 into gx -- nothing else */
uint64_t nv_sum_calls, nv_sum_of; double nv_sum_ret;
static double nv_t_sum(const struct nv_tens* t) { nv_sum_calls = nv_sum_calls + 1; nv_sum_of = t->id; nv_sum_ret = nv_nondet_double(); return nv_sum_ret; }
static struct nv_tens* nv_t_copy(struct nv_tens* dst, const struct nv_tens* src)
{ dst->ver = dst->ver + 1; dst->op = NV_OP_COPY; dst->arg_id = src->id; dst->arg_ver = src->ver; dst->arg_val = 0.0; return dst; }
#define NV_CONTRACT_gboost_acc_update \
__CPROVER_requires(NV_ACC_FRESH && __CPROVER_is_fresh(values, sizeof(*values)) && nv_sum_calls == 0) __CPROVER_assigns(self->m_vm1, nv_sum_calls, nv_sum_of, nv_sum_ret) \
__CPROVER_ensures(nv_sum_calls == 1 && nv_sum_of == values->id && NV_SAME(self->m_vm1, NV_FADD(__CPROVER_old(self->m_vm1), nv_sum_ret)))
struct nv_tens nv_gx_store;      /* the storage the map gx views (a map passed by value shares it) */
uint64_t nv_gx_id;
static struct nv_tens* nv_t_copy_to_gx(struct nv_tens* dst, const struct nv_tens* src)
{
  __CPROVER_assert(dst->id == nv_gx_id, "vgrad: the gradient is written into the caller's buffer gx");
  return nv_t_copy(&nv_gx_store, src);
}
#define NV_CONTRACT_gboost_acc_vgrad \
__CPROVER_requires(NV_ACC_FRESH && gx.n >= 0 && nv_gx_id == gx.id) __CPROVER_assigns(nv_gx_store) \
__CPROVER_ensures(NV_SAME(__CPROVER_return_value, self->m_vm1)) \
__CPROVER_ensures(gx.n > 0 ? (nv_gx_store.op == NV_OP_COPY && nv_gx_store.arg_id == self->m_gb1.id && nv_gx_store.arg_ver == self->m_gb1.ver && nv_gx_store.ver == __CPROVER_old(nv_gx_store.ver) + 1) \
                           : nv_gx_store.ver == __CPROVER_old(nv_gx_store.ver))
