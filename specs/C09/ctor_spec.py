"""C09 (c): the constructors of the objectives and of the dataset iterators.  What they establish is what the do_vgrad / chunk-task /
access-path targets REQUIRE: one accumulator (one buffer) per worker of the pool that `map` runs on, one row per iterator sample in
the per-sample buffers, the problem dimension the parameter vector is split by.  Prelude: specs/C09/ctor.h."""
import astload
from core import Fn, Target

H = 'specs/C09/ctor.h'
ITU = 'src/dataset/iterator.cpp'
LTU = 'src/linear/function.cpp'
GTU = 'src/gboost/function.cpp'
CTOR = ('CXXConstructorDecl',)

TYPES = [(r'^nano::dataset_t$', 'struct nv_cdataset'), (r'^nano::(flatten|targets|base_dataset|select)_iterator_t$', 'struct nv_citer'),
         (r'^nano::feature_t$', 'struct nv_cfeature'), (r'^nano::scalar_stats_t$', 'struct nv_cstats'), (r'^nano::scaling_type$', 'int32_t'),
         (r'^nano::indices_t$|^(nano::)?indices_c?map_t$|tensor_t<nano::tensor_(vector|carray|marray)_storage_t, long, 1', 'struct nv_cindices'),
         (r'buffers_t$|^std::vector<nano::tensor_t<nano::tensor_vector_storage_t, double, [24]>|^std::vector<nano::select_iterator_t::buffer_t', 'struct nv_cbufs'),
         (r'^nano::tensor[1-4]d_t$|^nano::vector_t$|tensor_t<nano::tensor_vector_storage_t, double, \d', 'struct nv_ctens'),
         (r'^nano::tensor[34]d_dims_t$|^std::array<long, [34](UL)?>$|tensor_dims_t<', 'struct nv_cdims'),
         (r'^nano::loss_t$', 'struct nv_closs'), (r'^nano::cluster_t$', 'struct nv_ccluster'),
         (r'^nano::linear::accumulator_t$', 'struct nv_clacc'), (r'^nano::gboost::accumulator_t$', 'struct nv_cgacc'),
         (r'^nano::linear::accumulators_t$|^std::vector<nano::linear::accumulator_t', 'struct nv_claccs'),
         (r'^nano::gboost::accumulators_t$|^std::vector<nano::gboost::accumulator_t', 'struct nv_cgaccs'),
         (r'^nano::linear::function_t$', 'struct nv_clfun'), (r'^nano::gboost::(bias|scale|grads)_function_t$', 'struct nv_cgfun'),
         (r'^nano::function_t$', 'struct nv_cfunction'), (r'^nano::parallel::pool_t$|^parallel::pool_t$', 'struct nv_cpool')]


def reference_fields():
    """names of the reference members (`const T& m_x;`) of the classes whose constructors are extracted, read from the CURRENT headers"""
    import re
    out = set()
    for h in ('include/nano/dataset/iterator.h', 'include/nano/linear/function.h', 'include/nano/gboost/function.h'):
        out |= set(re.findall(r'&\s+(m_\w+)\s*;', open(astload.REPO + '/' + h).read()))
    return out


def ref_member_hook(P, n):
    """a reference member is a pointer field of the C model (Fn(..., ref_member_pointers=True) binds it): a use denotes the object"""
    if n.get('kind') != 'MemberExpr' or not n.get('inner') or n.get('name') not in reference_fields():
        return None
    base = n['inner'][0]
    from cxx2c import unwrap
    if unwrap(base).get('kind') != 'CXXThisExpr':
        return None
    return f'(*self->{n["name"]})'


def imul_hook(P, n):
    """integer `a * b` inside the objective constructors -> NV_IMUL(a, b) (uninterpreted: see ctor.h)"""
    if n.get('kind') != 'BinaryOperator' or n.get('opcode') != '*':
        return None
    from cxx2c import qual, strip_cv
    if strip_cv(qual(n.get('type'))) not in ('long', 'nano::tensor_size_t', 'tensor_size_t', 'Eigen::Index'):
        return None
    P.note('tensor_size_t product -> NV_IMUL (uninterpreted)')
    return f'NV_IMUL({P.expr(n["inner"][0])}, {P.expr(n["inner"][1])})'


def nparams(k):
    return lambda d: len(astload.param_types(d)) == k


def iterator_ctor_targets():
    members = [(r'^concurrency\|nano::(targets|flatten|select|base_dataset)_iterator_t', 'base_concurrency((struct nv_citer*){self})'),
               (r'^concurrency\|nano::dataset_t', 'dataset_concurrency({self})'), (r'^size\|.*pool_t', '{self}->size'),
               (r'^target\|nano::dataset_t', 'nv_ds_target({self})'), (r'^valid\|nano::feature_t', 'nv_feature_valid({self})')]
    calls = [(r'^operator->\|.*unique_ptr<nano::parallel::pool_t>', '({0})'), (r'^ctor\|nano::base_dataset_iterator_t\|', 'base_iter_ctor(self, {&0})'),
             (r'^ctor\|nano::targets_iterator_t\|', 'targets_iter_ctor(self, {&0}, {1})'),
             (r'^ctor\|nano::indices_t\||^ctor\|nano::tensor_t<nano::tensor_vector_storage_t, long, 1>\|', 'nv_indices_copy({0})'),
             (r'^ctor\|nano::(indices_cmap_t|tensor_t<nano::tensor_carray_storage_t, long, 1>)\|', '{0}'),
             (r'^make_targets_stats\|', 'nv_make_stats(NV_STATS_TARGETS, {&0}, {1})'), (r'^make_flatten_stats\|', 'nv_make_stats(NV_STATS_FLATTEN, {&0}, {1})'),
             (r'^ctor\|nano::scalar_stats_t\|void \((nano::)?tensor_size_t\)', 'nv_stats_default()'), (r'^ctor\|nano::scalar_stats_t\|', '{0}'),
             (r'^ctor\|(nano::(targets|flatten|select)_iterator_t::)?buffers_t\||^ctor\|std::vector<nano::(tensor_t<nano::tensor_vector_storage_t, double, [24]>|select_iterator_t::buffer_t)', 'nv_bufs_make({0})'),
             (r'^ctor\|nano::tensor[24]d_t\|void \(\)|^ctor\|nano::tensor_t<nano::tensor_vector_storage_t, double, [24]>\|void \(\)', 'nv_tens_empty()'),
             (r'^make_(sclass|mclass|scalar|struct)_features\|', 'nv_make_features({&0})')]
    common = dict(self_struct='struct nv_citer', types=TYPES, members=members, calls=calls, uf_float=False, ref_member_pointers=True, hooks=[ref_member_hook])
    bctor = lambda: Fn('base_iter_ctor', ITU, 'base_dataset_iterator_t', flt='base_dataset_iterator_t::base_dataset_iterator_t', kinds=CTOR, **common)
    bcon = lambda: Fn('base_concurrency', ITU, 'concurrency', flt='base_dataset_iterator_t::concurrency', **common)
    dcon = lambda: Fn('dataset_concurrency', ITU, 'concurrency', flt='nano::dataset_t::concurrency', **dict(common, self_struct='struct nv_cdataset'))
    tctor = lambda: Fn('targets_iter_ctor', ITU, 'targets_iterator_t', flt='targets_iterator_t::targets_iterator_t', kinds=CTOR, select=nparams(2), **common)
    fctor = lambda: Fn('flatten_iter_ctor', ITU, 'flatten_iterator_t', flt='flatten_iterator_t::flatten_iterator_t', kinds=CTOR, select=nparams(2), **common)
    sctor = lambda: Fn('select_iter_ctor', ITU, 'select_iterator_t', flt='select_iterator_t::select_iterator_t', kinds=CTOR, select=nparams(1), **common)
    return [Target('dataset_concurrency', [dcon()], H),
            Target('base_iter_ctor', [bctor()], H), Target('base_concurrency', [bcon(), dcon()], H),
            Target('targets_iter_ctor', [tctor(), bctor(), bcon(), dcon()], H),
            Target('flatten_iter_ctor', [fctor(), tctor(), bctor(), bcon(), dcon()], H),
            Target('select_iter_ctor', [sctor(), bctor(), bcon(), dcon()], H)]


def objective_ctor_targets():
    ACC_L, ACC_G = 'src/linear/accumulator.cpp', 'src/gboost/accumulator.cpp'
    amembers = [(r'^resize\|nano::tensor_t<nano::tensor_vector_storage_t, double, 1>|^resize\|nano::tensor1d_t|^resize\|nano::tensor_vector_storage_t<double, 1>', 'nv_tens_resize1({self}, {0})'),
                (r'^resize\|nano::tensor_t<nano::tensor_vector_storage_t, double, 2>|^resize\|nano::tensor2d_t|^resize\|nano::tensor_vector_storage_t<double, 2>', 'nv_tens_resize2({self}, {0}, {1})'),
                (r'^clear\|nano::linear::accumulator_t', 'nv_lacc_clear({self})')]
    acalls = [(r'^ctor\|nano::(tensor[1-4]d_t|vector_t|tensor_t<nano::tensor_vector_storage_t, double, \d>)\|void \(\)', 'nv_tens_empty()'), (r'^zero\|', 'nv_tens_zero({0})'), (r'^ctor\|nano::vector_t\||^ctor\|nano::tensor_t<nano::tensor_vector_storage_t, double, 1>\|', '{0}')]
    lacc = lambda: Fn('linear_acc_ctor', ACC_L, 'accumulator_t', flt='linear::accumulator_t::accumulator_t', kinds=CTOR, select=nparams(2),
                      self_struct='struct nv_clacc', types=TYPES, members=amembers, calls=acalls, uf_float=False)
    gacc = lambda: Fn('gboost_acc_ctor', ACC_G, 'accumulator_t', flt='gboost::accumulator_t::accumulator_t', kinds=CTOR, select=nparams(1),
                      self_struct='struct nv_cgacc', types=TYPES, members=amembers, calls=acalls, uf_float=False)
    members = [(r'^dataset\|nano::base_dataset_iterator_t', '(*{self}->m_dataset)'), (r'^columns\|nano::dataset_t', '{self}->columns'),
               (r'^target_dims\|nano::dataset_t', '{self}->tdims'), (r'^samples\|nano::dataset_t', '{self}->n_samples'),
               (r'^samples\|nano::targets_iterator_t', '({self}->m_samples)'), (r'^size\|nano::tensor_base_t<long, 1, true>', '{self}->size'),
               (r'^concurrency\|nano::base_dataset_iterator_t', 'nv_iter_concurrency({self})'),
               (r'^groups\|nano::cluster_t', '{self}->n_groups'),
               (r'^size\|nano::(gboost::(scale|bias|grads)_function_t|function_t)', '{self}->base.m_size'),
               (r'^(convex|smooth)\|nano::loss_t', 'nv_loss_flag({self})'),
               (r'^(convex|smooth|strong_convexity)\|nano::(linear::function_t|gboost::\w+_function_t|function_t)', '@drop')]
    calls = [(r'^ctor\|nano::function_t\|', 'nv_function_init(&self->base, {1})'),
             (r'^size\|', 'nv_dims_size({0})'), (r'^cat_dims\|', 'nv_cat_dims({0}, {1})'),
             (r'^ctor\|nano::linear::accumulator_t\|void \((const )?(nano::)?tensor_size_t, (const )?(nano::)?tensor_size_t\)', 'nv_lacc_make({0}, {1})'),
             (r'^ctor\|nano::gboost::accumulator_t\|void \((const )?(nano::)?tensor_size_t\)', 'nv_gacc_make({0})'),
             (r'^ctor\|nano::linear::accumulators_t\||^ctor\|std::vector<nano::linear::accumulator_t', 'nv_laccs_make({0}, {1})'),
             (r'^ctor\|nano::gboost::accumulators_t\||^ctor\|std::vector<nano::gboost::accumulator_t', 'nv_gaccs_make({0}, {1})'),
             (r'^ctor\|nano::tensor1d_t\||^ctor\|nano::tensor_t<nano::tensor_vector_storage_t, double, 1>\|', 'nv_tens_make1({0})'),
             (r'^ctor\|nano::tensor4d_t\||^ctor\|nano::tensor_t<nano::tensor_vector_storage_t, double, 4>\|', 'nv_tens_make4({0})')]
    lcommon = dict(self_struct='struct nv_clfun', types=TYPES, members=members, calls=calls, uf_float=False, ref_member_pointers=True, hooks=[ref_member_hook, imul_hook])
    gcommon = dict(lcommon, self_struct='struct nv_cgfun')
    lfun = Fn('linear_fun_ctor', LTU, 'function_t', flt='linear::function_t::function_t', kinds=CTOR, select=nparams(4), **lcommon)
    sfun = Fn('scale_fun_ctor', GTU, 'scale_function_t', flt='scale_function_t::scale_function_t', kinds=CTOR, select=nparams(5), **gcommon)
    bfun = Fn('bias_fun_ctor', GTU, 'bias_function_t', flt='bias_function_t::bias_function_t', kinds=CTOR, select=nparams(2), **gcommon)
    gfun = Fn('grads_fun_ctor', GTU, 'grads_function_t', flt='grads_function_t::grads_function_t', kinds=CTOR, select=nparams(2), **gcommon)
    return [Target('linear_acc_ctor', [lacc()], H), Target('gboost_acc_ctor', [gacc()], H),
            Target('linear_fun_ctor', [lfun, lacc()], H), Target('scale_fun_ctor', [sfun, gacc()], H), Target('bias_fun_ctor', [bfun, gacc()], H), Target('grads_fun_ctor', [gfun], H)]


# quick tier: one target per family, chosen so that the callees of the others are INLINED in them (flatten_iter_ctor runs the real
# targets_iterator_t / base_dataset_iterator_t constructors and base / dataset concurrency(); linear_fun_ctor and scale_fun_ctor run the
# real linear / gboost accumulator_t constructors); the rest (the callees on their own, bias / grads objectives) is thorough
QUICK = ('flatten_iter_ctor', 'select_iter_ctor', 'linear_fun_ctor', 'scale_fun_ctor')


def targets(tier='thorough'):
    ts = iterator_ctor_targets() + objective_ctor_targets()
    return [t for t in ts if tier != 'quick' or t.name in QUICK]
