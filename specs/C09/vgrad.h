/* C09: the objective evaluations linear::function_t::do_vgrad, gboost::{bias,scale,grads}_function_t::do_vgrad up to the final
 * reduction.  From the property ("the objective equals mean_i loss(...)" over the samples of the iterator, for any thread
 * count and batch size), the combinatorial skeleton every one of them must follow:
 *   1. every per-thread accumulator is cleared before the samples are visited;
 *   2. the samples are visited by exactly ONE loop over the function's own iterator (which hands every sample to the
 *      callback exactly once: C17 + the iterator targets);
 *   3. the per-thread partial sums are combined by exactly one sum_reduce over the function's accumulators, after the loop,
 *      and the normaliser handed to it is the number of samples of the iterator that was looped over -- not any other count
 *      (dataset size, cluster size, parameter size, ...);
 *   4. value and gradient handed back are those of the reduced accumulator (plus, for the linear model, the regularisation
 *      terms computed from the weights; their formulas are proved over the reals in reg_smt.py).
 * Tensors are provenance records; floating point is uninterpreted; the chunk tasks (the lambdas) have their own contracts. */
#include "nv_base.h"
enum { NV_ROLE_NONE = 0, NV_ROLE_BIAS = 1, NV_ROLE_WEIGHTS = 2, NV_ROLE_VECTOR = 3 };
struct nv_tens { uint64_t id; int64_t size; int32_t role; uint64_t of; int64_t off, len; };   /* a tensor or a map: identity, size, (the view returned by accessor `role` of tensor `of`: coefficients [off, off + len) of it) */
struct nv_expr { uint64_t base; int32_t role; uint64_t of; int64_t off, len; };               /* Eigen expression: the tensor (and the block of it) it is computed from */
struct nv_samples { uint64_t id; int64_t size; };                            /* indices_t */
struct nv_dsinfo { int64_t n_samples; uint64_t tdims; };                     /* dataset_t: samples(), target_dims() */
struct nv_miter { struct nv_dsinfo m_dataset; struct nv_samples m_samples; uint64_t id; };   /* targets_ / flatten_iterator_t */
struct nv_cluster { int64_t n_samples, n_groups; };                          /* cluster_t: samples(), groups() */
struct nv_loss { char unused; };
struct nv_vacc { uint64_t idx; double m_vm1; struct nv_tens m_gb1, m_gW1, m_outputs, m_vgrads, m_values; };   /* accumulator_t */
struct nv_vaccs { uint64_t size; };                                          /* std::vector<accumulator_t> */
struct nv_lfun { struct nv_miter m_iterator; struct nv_loss m_loss; double m_l1reg, m_l2reg; int64_t m_isize, m_tsize; struct nv_vaccs m_accumulators; };
struct nv_gfun { struct nv_miter m_iterator; struct nv_loss m_loss; struct nv_cluster m_cluster; struct nv_tens m_soutputs, m_woutputs, m_values, m_vgrads, m_outputs;
                 struct nv_vaccs m_accumulators; };

/* ---- ghost protocol state ---------------------------------------------------------------------------------------------- */
uint64_t nv_g;                      /* ghost index: an arbitrary accumulator position */
uint64_t nv_clears, nv_g_clears;    /* accumulators cleared so far / clears of the one at nv_g */
uint64_t nv_loops, nv_reduces;      /* loops over the iterator / sum_reduce calls */
uint64_t nv_loop_iter; int64_t nv_loop_samples;   /* which iterator was looped over, and how many samples it has */
int64_t nv_reduce_samples;          /* the normaliser handed to sum_reduce */
struct nv_vaccs* nv_reduce_accs;    /* the vector handed to sum_reduce */
struct nv_vacc nv_reduced;          /* the accumulator sum_reduce returns */
struct nv_vacc nv_acc_g, nv_acc_other;
uint64_t nv_acc_count;              /* ghost copy of m_accumulators.size() */
uint64_t nv_x_id, nv_gx_id;         /* ghost copies of the identities of the parameters x and gx */
int64_t nv_w_norm, nv_w_iter_samples;   /* witnesses for replay */

/* std::vector<accumulator_t> iteration (range-for) and accumulator_t::clear() (contract proved in *_acc_clear) */
static struct nv_vacc* nv_vacc_iter(uint64_t it)
{
  __CPROVER_assert(it < nv_acc_count, "*it: inside the vector of accumulators");
  if (it == nv_g) { nv_acc_g.idx = it; return &nv_acc_g; }
  nv_acc_other.idx = it; return &nv_acc_other;
}
static struct nv_vacc* nv_vacc_at(struct nv_vaccs* v, uint64_t i)        /* std::vector::operator[] */
{
  __CPROVER_assert(i < v->size, "operator[]: accumulator index below size()");
  if (i == nv_g) { nv_acc_g.idx = i; return &nv_acc_g; }
  nv_acc_other.idx = i; return &nv_acc_other;
}
static void nv_vacc_clear(struct nv_vacc* a)
{
  __CPROVER_assert(nv_loops == 0 && nv_reduces == 0, "clear: accumulators are cleared before the samples are visited");
  __CPROVER_assert(a->idx == nv_clears, "clear: accumulators are cleared in order, each once");
  nv_clears = nv_clears + 1;
  if (a == &nv_acc_g) nv_g_clears = nv_g_clears + 1;
}
/* gboost: ::clear(accumulators) (contract proved in gboost_clear_all: every accumulator exactly once) */
static void nv_clear_all(struct nv_vaccs* v)
{
  __CPROVER_assert(nv_loops == 0 && nv_reduces == 0, "clear: accumulators are cleared before the samples are visited");
  __CPROVER_assert(nv_clears == 0, "clear: once");
  nv_clears = v->size; nv_g_clears = 1;
}
/* iterator.loop(callback) (contracts: *_loop, *_loop_task, C17) */
static void nv_iter_loop(const struct nv_miter* it)
{
  __CPROVER_assert(nv_clears == nv_acc_count, "loop: every per-thread accumulator was cleared before the samples are visited");
  __CPROVER_assert(nv_loops == 0 && nv_reduces == 0, "loop: the samples are visited by exactly one loop, before the reduction");
  nv_loops = nv_loops + 1; nv_loop_iter = it->id; nv_loop_samples = it->m_samples.size; nv_w_iter_samples = it->m_samples.size;
}
/* nano::sum_reduce(accumulators, samples) (contract proved in sum_reduce_*) */
static struct nv_vacc* nv_sum_reduce(struct nv_vaccs* accs, int64_t samples)
{
  nv_w_norm = samples;
  __CPROVER_assert(nv_loops == 1 && nv_reduces == 0, "sum_reduce: exactly once, after the loop over the samples");
  __CPROVER_assert(samples == nv_loop_samples, "sum_reduce: the normaliser is the number of samples of the iterator that was looped over (mean over exactly the visited samples)");
  nv_reduces = nv_reduces + 1; nv_reduce_samples = samples; nv_reduce_accs = accs;
  return &nv_reduced;
}
static struct nv_dsinfo* nv_iter_dataset(struct nv_miter* it) { return &it->m_dataset; }

#define NV_PROTOCOL_INIT (nv_clears == 0 && nv_g_clears == 0 && nv_loops == 0 && nv_reduces == 0 && nv_acc_count == self->m_accumulators.size \
  && self->m_accumulators.size >= 1 && self->m_accumulators.size < (1ULL << 60))
#define NV_PROTOCOL_ASSIGNS nv_clears, nv_g_clears, nv_loops, nv_reduces, nv_loop_iter, nv_loop_samples, nv_reduce_samples, nv_reduce_accs, \
  nv_acc_g.idx, nv_acc_other.idx, nv_w_norm, nv_w_iter_samples
/* clauses 1-3 */
#define NV_PROTOCOL_DONE (nv_clears == self->m_accumulators.size && (nv_g < self->m_accumulators.size ==> nv_g_clears == 1) \
  && nv_loops == 1 && nv_loop_iter == self->m_iterator.id && nv_reduces == 1 && nv_reduce_accs == &self->m_accumulators \
  && nv_reduce_samples == self->m_iterator.m_samples.size)

/* ---- linear::function_t::do_vgrad ----------------------------------------------------------------------------------------- */
double __CPROVER_uninterpreted_fsqrt(double);
uint64_t nv_gx_b_from, nv_gx_W_from;         /* which tensors the bias / weights part of gx were assigned from */
uint64_t nv_gx_b_writes, nv_gx_W_writes, nv_gx_W_updates;
uint64_t nv_means; double nv_mean1, nv_mean2; uint64_t nv_mean_base_bad;
uint64_t nv_part_ids;
/* bias(x) / weights(x): views of a block of the parameter vector.  WHICH block is not written here: the stub assumes exactly the clause list
 * proved for every instantiation of the four accessors on back end B (specs/C09/parts_smt.py `clauses`, printed to C as NV_FACTS_BIAS /
 * NV_FACTS_WEIGHTS over nv_off, nv_d0, nv_d1) and asserts their precondition (the accessors' own assert, compiled out under NDEBUG).
 * The product m_tsize * m_isize is NAMED (nv_wsize == nv_prod2(m_tsize, m_isize), uninterpreted), never computed. */
int64_t nv_wsize;
int64_t __CPROVER_uninterpreted_nv_prod2(int64_t, int64_t);
#ifdef NV_FACTS_BIAS    /* defined for the target linear_do_vgrad only (the gboost targets share this prelude and have no such calls) */
static struct nv_tens nv_part_view(const struct nv_lfun* self, const struct nv_tens* x, int32_t which)
{
  struct nv_tens t; int64_t nv_off = nv_nondet_int64_t(), nv_d0 = nv_nondet_int64_t(), nv_d1 = nv_nondet_int64_t();
  __CPROVER_assert(nv_wsize >= 0 && nv_wsize <= x->size && x->size - nv_wsize == self->m_tsize, "weights / bias precondition: x.size() == m_isize * m_tsize + m_tsize");
  if (which == NV_ROLE_BIAS) { __CPROVER_assume(NV_FACTS_BIAS); t.len = nv_d0; }
  else { __CPROVER_assume(NV_FACTS_WEIGHTS); t.len = __CPROVER_uninterpreted_nv_prod2(nv_d0, nv_d1); }
  t.id = nv_nondet_uint64_t(); t.size = t.len; t.role = which; t.of = x->id; t.off = nv_off; return t;
}
#endif
int64_t nv_gx_b_off, nv_gx_b_len, nv_gx_W_off, nv_gx_W_len;   /* the blocks of gx the two gradient parts were stored into */
/* map = tensor (copies the values into the storage the map views) */
static void nv_part_assign(struct nv_tens* dst, const struct nv_tens* src)
{
  __CPROVER_assert(nv_reduces == 1, "gradient: read from the accumulators only after the reduction");
  __CPROVER_assert(dst->of == nv_gx_id, "gradient: written into the caller's gradient buffer gx");
  if (dst->role == NV_ROLE_BIAS) { nv_gx_b_from = src->id; nv_gx_b_writes = nv_gx_b_writes + 1; nv_gx_b_off = dst->off; nv_gx_b_len = dst->len; }
  if (dst->role == NV_ROLE_WEIGHTS) { nv_gx_W_from = src->id; nv_gx_W_writes = nv_gx_W_writes + 1; nv_gx_W_off = dst->off; nv_gx_W_len = dst->len; }
}
/* Eigen coefficient-wise expressions: only what they are computed FROM is tracked (formulas: reg_smt.py) */
static struct nv_expr nv_e_of(const struct nv_tens* t) { struct nv_expr e; e.base = t->of; e.role = t->role; e.of = t->of; e.off = t->off; e.len = t->len; return e; }
#define NV_IS_WEIGHTS_BLOCK(e) ((e).off == 0 && (e).len == nv_wsize)     /* the first m_tsize * m_isize coefficients */
static struct nv_expr nv_e_unary(struct nv_expr e) { return e; }
static struct nv_expr nv_e_scale(double s, struct nv_expr e) { return e; }
static struct nv_expr nv_e_div(struct nv_expr e, int64_t n) { return e; }
static void nv_arr_add(struct nv_expr dst, struct nv_expr src)
{
  __CPROVER_assert(dst.of == nv_gx_id && dst.role == NV_ROLE_WEIGHTS && NV_IS_WEIGHTS_BLOCK(dst), "regulariser gradient: added to the weights part of gx");
  __CPROVER_assert(src.of == nv_x_id && src.role == NV_ROLE_WEIGHTS && NV_IS_WEIGHTS_BLOCK(src), "regulariser gradient: computed from the weights part of x");
  __CPROVER_assert(nv_gx_W_writes == 1, "regulariser gradient: added after the data gradient was stored");
  nv_gx_W_updates = nv_gx_W_updates + 1;
}
static double nv_e_mean(struct nv_expr e)
{
  double m = nv_nondet_double();
  __CPROVER_assert(e.of == nv_x_id && e.role == NV_ROLE_WEIGHTS && NV_IS_WEIGHTS_BLOCK(e), "regulariser value: computed from the weights part of x");
  nv_means = nv_means + 1;
  if (nv_means == 1) nv_mean1 = m; else nv_mean2 = m;
  return m;
}
/* value = reduced loss (+ l1 * mean|W| if l1 > 0) (+ 0.5 * mean((sqrt(l2) W)^2) if l2 > 0): the shape only; means are opaque */
#define NV_LIN_V1 (self->m_l1reg > 0.0 ? NV_FADD(nv_reduced.m_vm1, NV_FMUL(self->m_l1reg, nv_mean1)) : nv_reduced.m_vm1)
#define NV_LIN_VALUE (self->m_l2reg > 0.0 ? NV_FADD(NV_LIN_V1, NV_FMUL(0.5, (self->m_l1reg > 0.0 ? nv_mean2 : nv_mean1))) : NV_LIN_V1)
#define NV_CONTRACT_linear_do_vgrad \
__CPROVER_requires(__CPROVER_is_fresh(self, sizeof(*self)) && NV_PROTOCOL_INIT && nv_x_id == x.id && nv_gx_id == gx.id && x.id != gx.id && gx.size >= 0) \
__CPROVER_requires(nv_gx_b_writes == 0 && nv_gx_W_writes == 0 && nv_gx_W_updates == 0 && nv_means == 0) \
__CPROVER_requires(self->m_isize >= 0 && self->m_tsize >= 0 && nv_wsize == __CPROVER_uninterpreted_nv_prod2(self->m_tsize, self->m_isize) && nv_wsize >= 0) \
__CPROVER_requires(x.size >= nv_wsize && x.size - nv_wsize == self->m_tsize && (gx.size == 0 || gx.size == x.size))   /* do_vgrad's own asserts (NDEBUG) */ \
__CPROVER_assigns(NV_PROTOCOL_ASSIGNS, nv_gx_b_from, nv_gx_W_from, nv_gx_b_writes, nv_gx_W_writes, nv_gx_W_updates, nv_means, nv_mean1, nv_mean2, nv_gx_b_off, nv_gx_b_len, nv_gx_W_off, nv_gx_W_len) \
__CPROVER_ensures(NV_PROTOCOL_DONE) \
__CPROVER_ensures(gx.size > 0 ? (nv_gx_b_writes == 1 && nv_gx_b_from == nv_reduced.m_gb1.id && nv_gx_W_writes == 1 && nv_gx_W_from == nv_reduced.m_gW1.id) : (nv_gx_b_writes == 0 && nv_gx_W_writes == 0 && nv_gx_W_updates == 0)) \
__CPROVER_ensures(gx.size > 0 ==> nv_gx_W_updates == (self->m_l1reg > 0.0 ? 1 : 0) + (self->m_l2reg > 0.0 ? 1 : 0)) \
__CPROVER_ensures(gx.size > 0 ==> (nv_gx_b_off == nv_wsize && nv_gx_b_len == self->m_tsize && nv_gx_b_off + nv_gx_b_len == gx.size))   /* the bias gradient lands in the bias block of gx: the LAST tsize coefficients */ \
__CPROVER_ensures(gx.size > 0 ==> (nv_gx_W_off == 0 && nv_gx_W_len == nv_wsize))                                                     /* the weights gradient in the FIRST tsize * isize */ \
__CPROVER_ensures(NV_SAME(__CPROVER_return_value, NV_LIN_VALUE))
#define NV_LOOP_linear_do_vgrad_1 \
__CPROVER_assigns(__begin1, nv_clears, nv_g_clears, nv_acc_g.idx, nv_acc_other.idx) \
__CPROVER_loop_invariant(__begin1 <= __end1 && __end1 == self->m_accumulators.size && nv_clears == __begin1 && nv_g_clears == (nv_g < __begin1 ? 1 : 0) && nv_loops == 0 && nv_reduces == 0) \
__CPROVER_decreases(__end1 - __begin1)

/* ---- gboost::bias_function_t / scale_function_t::do_vgrad ------------------------------------------------------------------- */
uint64_t nv_vgrad_calls, nv_vgrad_gx; double nv_vgrad_ret;
/* gboost::accumulator_t::vgrad(gx) (contract proved in gboost_acc_vgrad): copies m_gb1 into gx when requested, returns m_vm1 */
static double nv_acc_vgrad(const struct nv_vacc* a, struct nv_tens gx)
{
  __CPROVER_assert(a == &nv_reduced, "result: value and gradient are read from the reduced accumulator (the one sum_reduce returned)");
  nv_vgrad_calls = nv_vgrad_calls + 1; nv_vgrad_gx = gx.id; nv_vgrad_ret = a->m_vm1;
  return a->m_vm1;
}
static int64_t nv_dims_size(uint64_t dims) { return nv_nondet_int64_t(); }              /* nano::size(dims) */
#define NV_GB_CONTRACT \
__CPROVER_requires(__CPROVER_is_fresh(self, sizeof(*self)) && NV_PROTOCOL_INIT && nv_x_id == x.id && nv_gx_id == gx.id && nv_vgrad_calls == 0) \
__CPROVER_assigns(NV_PROTOCOL_ASSIGNS, nv_vgrad_calls, nv_vgrad_gx, nv_vgrad_ret) \
__CPROVER_ensures(NV_PROTOCOL_DONE) \
__CPROVER_ensures(nv_vgrad_calls == 1 && nv_vgrad_gx == gx.id && NV_SAME(__CPROVER_return_value, nv_reduced.m_vm1))
#define NV_CONTRACT_bias_do_vgrad NV_GB_CONTRACT
#define NV_CONTRACT_scale_do_vgrad NV_GB_CONTRACT

/* ---- gboost::grads_function_t::do_vgrad / gradients ----------------------------------------------------------------------------
 * value = mean of the per-sample loss values, gradient = per-sample loss gradients / #samples (no accumulators: every sample
 * owns its slot of m_values / m_vgrads, which have one row per sample of the iterator: constructor) */
struct nv_dims { int64_t d0; uint64_t tail; };
static struct nv_dims nv_cat_dims(int64_t d0, uint64_t tail) { struct nv_dims d; d.d0 = d0; d.tail = tail; return d; }
static struct nv_tens nv_map_tensor(const struct nv_tens* x, struct nv_dims d)
{ struct nv_tens t; t.id = nv_nondet_uint64_t(); t.size = d.d0; t.role = NV_ROLE_VECTOR; t.of = x->id; t.off = 0; t.len = d.d0; return t; }
uint64_t nv_gx_writes, nv_gx_from; double nv_gx_div; uint64_t nv_mean_of;
struct nv_exprd { uint64_t base; double div; };
static struct nv_expr nv_e_vec(const struct nv_tens* t) { struct nv_expr e; e.base = t->id; e.role = NV_ROLE_VECTOR; e.of = t->id; e.off = 0; e.len = t->size; return e; }
static struct nv_exprd nv_e_divd(struct nv_expr e, double d) { struct nv_exprd r; r.base = e.base; r.div = d; return r; }
static void nv_vec_assign(struct nv_tens* dst, struct nv_exprd e)
{
  __CPROVER_assert(dst->id == nv_gx_id, "gradient: written into the caller's gradient buffer gx");
  nv_gx_writes = nv_gx_writes + 1; nv_gx_from = e.base; nv_gx_div = e.div;
}
static double nv_e_mean_of(struct nv_expr e) { nv_mean_of = e.base; nv_means = nv_means + 1; nv_mean1 = nv_nondet_double(); return nv_mean1; }
struct nv_tens* grads_gradients(struct nv_gfun* self, struct nv_tens* outputs);
#define NV_CONTRACT_grads_gradients \
__CPROVER_requires(__CPROVER_is_fresh(self, sizeof(*self)) && __CPROVER_is_fresh(outputs, sizeof(*outputs)) && nv_loops == 0 && nv_reduces == 0 && nv_clears == nv_acc_count) \
__CPROVER_requires(outputs->size == self->m_iterator.m_samples.size) \
__CPROVER_assigns(nv_loops, nv_loop_iter, nv_loop_samples, nv_w_iter_samples) \
__CPROVER_ensures(nv_loops == 1 && nv_loop_iter == self->m_iterator.id && __CPROVER_return_value == &self->m_vgrads)
#define NV_CONTRACT_grads_do_vgrad \
__CPROVER_requires(__CPROVER_is_fresh(self, sizeof(*self)) && nv_loops == 0 && nv_reduces == 0 && nv_clears == 0 && nv_acc_count == 0 && nv_x_id == x.id && nv_gx_id == gx.id && x.id != gx.id) \
__CPROVER_requires(nv_gx_writes == 0 && nv_means == 0 && self->m_iterator.m_samples.size >= 0) \
__CPROVER_assigns(nv_loops, nv_loop_iter, nv_loop_samples, nv_w_iter_samples, nv_gx_writes, nv_gx_from, nv_gx_div, nv_means, nv_mean1, nv_mean_of) \
__CPROVER_ensures(nv_loops == 1 && nv_loop_iter == self->m_iterator.id) \
__CPROVER_ensures(gx.size > 0 ? (nv_gx_writes == 1 && nv_gx_from == self->m_vgrads.id && nv_gx_div == (double)self->m_iterator.m_samples.size) : nv_gx_writes == 0) \
__CPROVER_ensures(nv_means == 1 && nv_mean_of == self->m_values.id && NV_SAME(__CPROVER_return_value, nv_mean1))
