/* C09: the per-chunk tasks (the lambdas handed to iterator.loop by linear::function_t::do_vgrad and the gboost objectives).
 * Property clause: "every per-chunk task accumulates into accumulator[tnum] exactly the chunk's samples": called with
 * (range, tnum, inputs, targets) -- the inputs / targets of exactly the samples at positions `range` (iterator targets) -- a task
 *   - touches only the accumulator of its own thread number, m_accumulators[tnum];
 *   - computes the predictions from the chunk's inputs (and the current parameters), the loss values / loss gradients from the
 *     chunk's targets and these predictions;
 *   - adds to the partial sums exactly once: the sum of the chunk's loss values to m_vm1 and, when a gradient is requested,
 *     the chunk's gradient contributions to m_gb1 (and m_gW1) -- nothing from any other range.
 * Every tensor / view / Eigen expression is a provenance record (what it holds, derived from which sample positions); the
 * numeric kernels (predict, loss_t::value/vgrad, Eigen products) are opaque and CHECK the provenance of their arguments. */
enum { NV_NONE = 0, NV_INPUTS = 1, NV_TARGETS = 2, NV_PARAMS = 3, NV_OUTPUTS = 4, NV_VALUES = 5, NV_VGRADS = 6, NV_COLSUM_VGRADS = 7,
       NV_VGRADS_T = 8, NV_VGRADS_T_X_INPUTS = 9, NV_ACC_GB = 10, NV_ACC_GW = 11, NV_STRONG = 12, NV_WEAK = 13, NV_SLOT = 14, NV_ROWDOT = 15 };
struct nv_tt { uint64_t id; int32_t what; int64_t rb, re; int64_t rows; int64_t row; double coef; };
struct nv_range { int64_t m_begin, m_end; };
struct nv_loss { char unused; };
struct nv_tacc { uint64_t idx; double m_vm1; struct nv_tt m_gb1, m_gW1, m_outputs, m_vgrads, m_values; };
struct nv_taccs { uint64_t size; };
struct nv_samples { uint64_t id; int64_t size; };
struct nv_cluster { char unused; };
struct nv_titer { struct nv_samples m_samples; };
struct nv_tfun { struct nv_loss m_loss; int64_t m_isize, m_tsize; struct nv_taccs m_accumulators; struct nv_titer m_iterator; struct nv_cluster m_cluster;
                 struct nv_tt m_soutputs, m_woutputs, m_values, m_vgrads, m_outputs; };

int64_t nv_rb, nv_re;                 /* ghost copies of the task's range */
uint64_t nv_tnum;                     /* ghost copy of the task's thread number */
uint64_t nv_x_id;                     /* identity of the parameter vector x of the enclosing do_vgrad */
struct nv_tacc nv_acc;                /* the accumulator the task obtained */
uint64_t nv_acc_gets, nv_acc_index;   /* how many times m_accumulators[.] was indexed, and with which index */
uint64_t nv_sums; double nv_sum_val;  /* loss-value sums taken, and the value of the (last) one */
uint64_t nv_gb_adds, nv_gW_adds, nv_updates;

#define NV_OF_CHUNK(t, w) ((t).what == (w) && (t).rb == nv_rb && (t).re == nv_re)
/* std::vector<accumulator_t>::operator[] */
static struct nv_tacc* nv_tacc_at(struct nv_taccs* v, uint64_t i)
{
  __CPROVER_assert(i < v->size, "accumulator index below the number of accumulators");
  __CPROVER_assert(i == nv_tnum, "the task uses the accumulator of its own thread number only");
  nv_acc_gets = nv_acc_gets + 1; nv_acc_index = i;
  return &nv_acc;
}
static struct nv_range nv_mk_range(int64_t b, int64_t e) { struct nv_range r; r.m_begin = b; r.m_end = e; return r; }   /* make_range (proved in make_range / range_ctor) */
/* views: same contents, same provenance */
static struct nv_tt nv_view(const struct nv_tt* t) { return *t; }
static struct nv_tt nv_view_v(struct nv_tt t) { return t; }
static struct nv_tt nv_reshape(const struct nv_tt* t, int64_t rows)
{
  __CPROVER_assert(rows == t->re - t->rb, "reshape: one row per sample of the chunk");
  struct nv_tt r = *t; r.rows = rows; return r;
}
/* linear::predict(inputs, W, b, outputs): outputs := W * inputs + b, row by row */
static void nv_predict(const struct nv_tt* inputs, const struct nv_tt* W, const struct nv_tt* b, struct nv_tt* outputs)
{
  __CPROVER_assert(NV_OF_CHUNK(*inputs, NV_INPUTS), "predict: from the inputs of the chunk's samples");
  __CPROVER_assert(W->what == NV_PARAMS && W->id == nv_x_id && b->what == NV_PARAMS && b->id == nv_x_id, "predict: with the weights and bias parts of the current parameter vector x");
  outputs->what = NV_OUTPUTS; outputs->rb = inputs->rb; outputs->re = inputs->re;
}
/* loss_t::value(targets, outputs, values) / loss_t::vgrad(targets, outputs, vgrads): one value / gradient row per sample */
static void nv_loss_value(const struct nv_loss* l, struct nv_tt targets, struct nv_tt outputs, struct nv_tt* values)
{
  __CPROVER_assert(NV_OF_CHUNK(targets, NV_TARGETS), "loss value: against the targets of the chunk's samples");
  __CPROVER_assert(NV_OF_CHUNK(outputs, NV_OUTPUTS), "loss value: of the predictions for the chunk's samples");
  values->what = NV_VALUES; values->rb = targets.rb; values->re = targets.re;
}
static void nv_loss_vgrad(const struct nv_loss* l, struct nv_tt targets, struct nv_tt outputs, struct nv_tt* vgrads)
{
  __CPROVER_assert(NV_OF_CHUNK(targets, NV_TARGETS), "loss gradient: against the targets of the chunk's samples");
  __CPROVER_assert(NV_OF_CHUNK(outputs, NV_OUTPUTS), "loss gradient: of the predictions for the chunk's samples");
  vgrads->what = NV_VGRADS; vgrads->rb = targets.rb; vgrads->re = targets.re;
}
/* tensor.sum() of the loss values */
static double nv_sum(const struct nv_tt* values)
{
  __CPROVER_assert(NV_OF_CHUNK(*values, NV_VALUES), "sum: of the loss values of the chunk's samples");
  nv_sums = nv_sums + 1; nv_sum_val = nv_nondet_double(); return nv_sum_val;
}
/* Eigen: m.colwise().sum(), m.transpose(), a * b, v += e */
static struct nv_tt nv_colsum(struct nv_tt m) { struct nv_tt r = m; r.what = (m.what == NV_VGRADS && m.rows == m.re - m.rb) ? NV_COLSUM_VGRADS : NV_NONE; return r; }
static struct nv_tt nv_transpose(const struct nv_tt* m) { struct nv_tt r = *m; r.what = (m->what == NV_VGRADS && m->rows == m->re - m->rb) ? NV_VGRADS_T : NV_NONE; return r; }
static struct nv_tt nv_matmul(struct nv_tt a, const struct nv_tt* b)
{ struct nv_tt r = a; r.what = (a.what == NV_VGRADS_T && b->what == NV_INPUTS && a.rb == b->rb && a.re == b->re) ? NV_VGRADS_T_X_INPUTS : NV_NONE; return r; }
static struct nv_tt nv_acc_vec(const struct nv_tt* t) { struct nv_tt r = *t; return r; }
static void nv_add_to(struct nv_tt dst, struct nv_tt e)
{
  if (dst.what == NV_ACC_GB)
  {
    __CPROVER_assert(NV_OF_CHUNK(e, NV_COLSUM_VGRADS), "m_gb1 += the column sums of the loss gradients of the chunk's samples (all rows)");
    nv_gb_adds = nv_gb_adds + 1;
  }
  else
  {
    __CPROVER_assert(dst.what == NV_ACC_GW, "+=: the destination is a partial sum of this thread's accumulator");
    __CPROVER_assert(NV_OF_CHUNK(e, NV_VGRADS_T_X_INPUTS), "m_gW1 += (loss gradients)^T * inputs of the chunk's samples");
    nv_gW_adds = nv_gW_adds + 1;
  }
}

#define NV_TASK_INIT (nv_rb == range.m_begin && nv_re == range.m_end && 0 <= nv_rb && nv_rb < nv_re && nv_tnum == tnum && tnum < self->m_accumulators.size \
  && nv_acc_gets == 0 && nv_sums == 0 && nv_gb_adds == 0 && nv_gW_adds == 0 && nv_updates == 0 && nv_acc.m_gb1.what == NV_ACC_GB && nv_acc.m_gW1.what == NV_ACC_GW)
/* linear: [&](range, tnum, inputs, targets) */
#define NV_CONTRACT_linear_task \
__CPROVER_requires(__CPROVER_is_fresh(self, sizeof(*self)) && NV_TASK_INIT && NV_OF_CHUNK(inputs, NV_INPUTS) && NV_OF_CHUNK(targets, NV_TARGETS)) \
__CPROVER_requires(W.what == NV_PARAMS && W.id == nv_x_id && b.what == NV_PARAMS && b.id == nv_x_id) \
__CPROVER_assigns(nv_acc.m_vm1, nv_acc.m_outputs, nv_acc.m_values, nv_acc.m_vgrads, nv_acc_gets, nv_acc_index, nv_sums, nv_sum_val, nv_gb_adds, nv_gW_adds) \
__CPROVER_ensures(nv_acc_gets == 1 && nv_acc_index == tnum) \
__CPROVER_ensures(nv_sums == 1 && NV_SAME(nv_acc.m_vm1, NV_FADD(__CPROVER_old(nv_acc.m_vm1), nv_sum_val))) \
__CPROVER_ensures(gx.rows > 0 ? (nv_gb_adds == 1 && nv_gW_adds == 1) : (nv_gb_adds == 0 && nv_gW_adds == 0))

/* ---- gboost tasks: per-sample buffers m_outputs / m_values / m_vgrads (one row per sample of the iterator); a task works on
 * the rows of its own range only (tensor.slice(range)) ----------------------------------------------------------------------- */
uint64_t nv_lv_calls, nv_lg_calls; uint64_t nv_lv_dst, nv_lg_dst; int64_t nv_lv_rb, nv_lv_re, nv_lg_rb, nv_lg_re;   /* where loss values / gradients were written */
static struct nv_tt nv_slot(const struct nv_tt* t, const struct nv_range* r)      /* tensor.slice(range) */
{
  struct nv_tt s = *t; s.rb = r->m_begin; s.re = r->m_end; s.rows = r->m_end - r->m_begin;
  s.what = (t->what == NV_PARAMS) ? NV_OUTPUTS : NV_SLOT;      /* a slice of the candidate outputs x (grads objective) is the chunk's outputs */
  return s;
}
static void nv_loss_value_g(const struct nv_loss* l, struct nv_tt targets, struct nv_tt outputs, struct nv_tt* values)
{
  nv_lv_calls = nv_lv_calls + 1; nv_lv_dst = values->id; nv_lv_rb = values->rb; nv_lv_re = values->re;
  __CPROVER_assert(values->rb == nv_rb && values->re == nv_re, "loss value: written to the value slots of the chunk's samples");
  nv_loss_value(l, targets, outputs, values);
}
static void nv_loss_vgrad_g(const struct nv_loss* l, struct nv_tt targets, struct nv_tt outputs, struct nv_tt* vgrads)
{
  nv_lg_calls = nv_lg_calls + 1; nv_lg_dst = vgrads->id; nv_lg_rb = vgrads->rb; nv_lg_re = vgrads->re;
  __CPROVER_assert(vgrads->rb == nv_rb && vgrads->re == nv_re, "loss gradient: written to the gradient slots of the chunk's samples");
  nv_loss_vgrad(l, targets, outputs, vgrads);
}
/* gboost::accumulator_t::update(values): m_vm1 += values.sum() (contract proved in gboost_acc_update) */
static void nv_acc_update(struct nv_tacc* a, struct nv_tt values)
{
  __CPROVER_assert(a == &nv_acc, "update: this thread's accumulator");
  __CPROVER_assert(NV_OF_CHUNK(values, NV_VALUES), "update: with the loss values of the chunk's samples");
  nv_updates = nv_updates + 1;
}
/* outputs.reshape(rows, -1).matrix().rowwise() = x.transpose(): every row of the chunk's outputs := the parameter vector */
static struct nv_tt nv_transpose_any(const struct nv_tt* m) { struct nv_tt r = *m; if (m->what == NV_VGRADS) r.what = (m->rows == m->re - m->rb) ? NV_VGRADS_T : NV_NONE; return r; }
static void nv_set_all_rows(struct nv_tt* dst, int64_t rows, struct nv_tt src)
{
  __CPROVER_assert(dst->what == NV_SLOT && dst->rb == nv_rb && dst->re == nv_re && rows == nv_re - nv_rb, "outputs: all rows of the chunk's own slots are written");
  __CPROVER_assert(src.what == NV_PARAMS && src.id == nv_x_id, "outputs: computed from the current parameter vector x");
  dst->what = NV_OUTPUTS;
}
#define NV_GTASK_INIT (nv_rb == range->m_begin && nv_re == range->m_end && 0 <= nv_rb && nv_rb < nv_re && nv_tnum == tnum && tnum < self->m_accumulators.size \
  && nv_acc_gets == 0 && nv_sums == 0 && nv_gb_adds == 0 && nv_gW_adds == 0 && nv_updates == 0 && nv_lv_calls == 0 && nv_lg_calls == 0 && nv_acc.m_gb1.what == NV_ACC_GB)
#define NV_GTASK_FRESH __CPROVER_is_fresh(self, sizeof(*self)) && __CPROVER_is_fresh(range, sizeof(*range)) && __CPROVER_is_fresh(targets, sizeof(*targets))
#define NV_GTASK_ASSIGNS nv_acc_gets, nv_acc_index, nv_updates, nv_gb_adds, nv_lv_calls, nv_lg_calls, nv_lv_dst, nv_lg_dst, nv_lv_rb, nv_lv_re, nv_lg_rb, nv_lg_re
/* bias: [&](range, tnum, targets) */
#define NV_CONTRACT_bias_task \
__CPROVER_requires(NV_GTASK_FRESH && NV_GTASK_INIT && NV_OF_CHUNK(*targets, NV_TARGETS) && x.what == NV_PARAMS && x.id == nv_x_id) \
__CPROVER_requires(self->m_outputs.what == NV_NONE && self->m_values.what == NV_NONE && self->m_vgrads.what == NV_NONE) \
__CPROVER_assigns(NV_GTASK_ASSIGNS) \
__CPROVER_ensures(nv_acc_gets == 1 && nv_acc_index == tnum && nv_updates == 1 && nv_lv_calls == 1 && nv_lv_dst == self->m_values.id) \
__CPROVER_ensures(gx.rows > 0 ? (nv_lg_calls == 1 && nv_lg_dst == self->m_vgrads.id && nv_gb_adds == 1) : (nv_lg_calls == 0 && nv_gb_adds == 0))
/* grads: [&](range, tnum, targets) inside gradients(outputs): the loss values and gradients of the chunk go to the chunk's
 * own slots of m_values / m_vgrads, computed from the chunk's targets and the chunk's rows of `outputs` */
#define NV_CONTRACT_grads_task \
__CPROVER_requires(NV_GTASK_FRESH && __CPROVER_is_fresh(outputs, sizeof(*outputs)) && nv_rb == range->m_begin && nv_re == range->m_end && 0 <= nv_rb && nv_rb < nv_re) \
__CPROVER_requires(nv_lv_calls == 0 && nv_lg_calls == 0 && NV_OF_CHUNK(*targets, NV_TARGETS) && outputs->what == NV_PARAMS) \
__CPROVER_assigns(nv_lv_calls, nv_lg_calls, nv_lv_dst, nv_lg_dst, nv_lv_rb, nv_lv_re, nv_lg_rb, nv_lg_re) \
__CPROVER_ensures(nv_lv_calls == 1 && nv_lv_dst == self->m_values.id && nv_lv_rb == range->m_begin && nv_lv_re == range->m_end) \
__CPROVER_ensures(nv_lg_calls == 1 && nv_lg_dst == self->m_vgrads.id && nv_lg_rb == range->m_begin && nv_lg_re == range->m_end)

/* ---- scale: [&](range, tnum, targets): per-sample rows ---------------------------------------------------------------------------
 * outputs[k] = strong(sample_k) + (cluster(sample_k) < 0 ? 0 : x[cluster(sample_k)]) * weak(sample_k),  sample_k = samples(begin + k)
 * gradient wrt x[g]: sum over the chunk's samples in cluster g of <loss gradient row k, weak(sample_k)>                                    */
int64_t __CPROVER_uninterpreted_sample(int64_t pos);
int64_t __CPROVER_uninterpreted_group(int64_t sample);
double __CPROVER_uninterpreted_param(int64_t group);
int64_t nv_r, nv_r_sample, nv_r_group;     /* ghost position in the chunk, the sample stored there and its cluster (fixed before the call) */
static int64_t nv_sample_at(const struct nv_samples* s, int64_t pos)            /* indices(pos) */
{
  __CPROVER_assert(0 <= pos && pos < s->size, "samples(i): position inside the iterator's sample list");
  return pos == nv_r ? nv_r_sample : __CPROVER_uninterpreted_sample(pos);
}
static int64_t nv_pos_sample(int64_t pos) { return pos == nv_r ? nv_r_sample : __CPROVER_uninterpreted_sample(pos); }
static int64_t nv_group_of(int64_t sample) { return sample == nv_r_sample ? nv_r_group : __CPROVER_uninterpreted_group(sample); }   /* cluster_t::group */
static double nv_param_at(const struct nv_tt* x, int64_t group)                 /* x(group) */
{
  __CPROVER_assert(x->what == NV_PARAMS && x->id == nv_x_id, "x(group): the current parameter vector");
  __CPROVER_assert(0 <= group, "x(group): only for samples assigned to a cluster");
  return __CPROVER_uninterpreted_param(group);
}
/* tensor.vector(k): row k (strong / weak outputs are indexed by SAMPLE, the chunk's buffers by position in the chunk) */
static struct nv_tt nv_row(const struct nv_tt* t, int64_t k) { struct nv_tt r = *t; r.row = k; r.coef = 1.0; return r; }
static struct nv_tt nv_row_scale(double c, struct nv_tt r) { r.coef = c; return r; }
enum { NV_OUTROW = 20 };
static struct nv_tt nv_row_sum(struct nv_tt a, struct nv_tt b)
{ struct nv_tt r = a; r.what = (a.what == NV_STRONG && b.what == NV_WEAK && a.row == b.row) ? NV_OUTROW : NV_NONE; r.coef = b.coef; return r; }
uint64_t nv_rows_set;
int64_t nv_pos_base;    /* ghost: nv_rb (position of row 0 of the chunk in the sample list) */
static void nv_set_row(struct nv_tt* dst, int64_t k, struct nv_tt e)
{
  __CPROVER_assert((dst->what == NV_SLOT || dst->what == NV_OUTPUTS) && dst->rb == nv_rb && dst->re == nv_re, "outputs: a row of the chunk's own slots is written");
  __CPROVER_assert(0 <= k && k < nv_re - nv_rb && (uint64_t)k == nv_rows_set, "outputs: rows are written in order, each once");
  __CPROVER_assert(e.what == NV_OUTROW, "outputs: strong output + coefficient * weak output of ONE sample");
  int64_t sample = nv_pos_sample(nv_rb + k);
  int64_t group = nv_group_of(sample);
  __CPROVER_assert(e.row == sample, "outputs: row k is computed from the sample at position begin + k");
  __CPROVER_assert(NV_SAME(e.coef, group < 0 ? 0.0 : __CPROVER_uninterpreted_param(group)), "outputs: the weak output is scaled by x[cluster of the sample]; unassigned samples are not scaled (coefficient 0)");
  nv_rows_set = nv_rows_set + 1;
  if (nv_rows_set == (uint64_t)(nv_re - nv_rb)) dst->what = NV_OUTPUTS;
}
uint64_t nv_dots, nv_cell_adds, nv_r_dots, nv_r_adds; int64_t nv_dot_sample; int64_t nv_dot_k;
static double nv_dot(struct nv_tt g, struct nv_tt w)
{
  __CPROVER_assert(g.what == NV_VGRADS && g.rb == nv_rb && g.re == nv_re && 0 <= g.row && g.row < nv_re - nv_rb, "dot: a loss-gradient row of the chunk");
  __CPROVER_assert(w.what == NV_WEAK && w.row == nv_pos_sample(nv_rb + g.row), "dot: with the weak output of the sample at the same position");
  nv_dots = nv_dots + 1; nv_dot_sample = w.row; nv_dot_k = g.row;
  if (nv_rb + g.row == nv_r) nv_r_dots = nv_r_dots + 1;
  return nv_nondet_double();
}
static void nv_gb_cell_add(struct nv_tt gb, int64_t group, double v)              /* m_gb1(group) += v */
{
  __CPROVER_assert(gb.what == NV_ACC_GB, "m_gb1(group) +=: this thread's accumulator");
  __CPROVER_assert(nv_cell_adds + 1 == nv_dots, "m_gb1(group) +=: one addition per computed dot product");
  __CPROVER_assert(0 <= group && group == nv_group_of(nv_dot_sample), "m_gb1(group) +=: into the cluster of the sample the dot product belongs to");
  nv_cell_adds = nv_cell_adds + 1;
  if (nv_rb + nv_dot_k == nv_r) nv_r_adds = nv_r_adds + 1;
}
#define NV_CONTRACT_scale_task \
__CPROVER_requires(NV_GTASK_FRESH && NV_GTASK_INIT && __CPROVER_is_fresh(samples, sizeof(*samples)) && nv_re <= samples->size && nv_re < (1LL << 60)) \
__CPROVER_requires(NV_OF_CHUNK(*targets, NV_TARGETS) && x.what == NV_PARAMS && x.id == nv_x_id && nv_rb <= nv_r && nv_r < nv_re) \
__CPROVER_requires(self->m_outputs.what == NV_NONE && self->m_values.what == NV_NONE && self->m_vgrads.what == NV_NONE && self->m_soutputs.what == NV_STRONG && self->m_woutputs.what == NV_WEAK) \
__CPROVER_requires(nv_rows_set == 0 && nv_dots == 0 && nv_cell_adds == 0 && nv_r_dots == 0 && nv_r_adds == 0) \
__CPROVER_assigns(NV_GTASK_ASSIGNS, nv_rows_set, nv_dots, nv_cell_adds, nv_r_dots, nv_r_adds, nv_dot_sample, nv_dot_k) \
__CPROVER_ensures(nv_acc_gets == 1 && nv_acc_index == tnum && nv_updates == 1 && nv_lv_calls == 1 && nv_lv_dst == self->m_values.id && nv_rows_set == (uint64_t)(nv_re - nv_rb)) \
__CPROVER_ensures(gx.rows == x.rows ? (nv_lg_calls == 1 && nv_lg_dst == self->m_vgrads.id && nv_cell_adds == nv_dots && nv_r_dots == (nv_r_group >= 0 ? 1 : 0) && nv_r_adds == nv_r_dots) \
                                    : (nv_lg_calls == 0 && nv_dots == 0 && nv_cell_adds == 0))
#define NV_LOOP_scale_task_1 \
__CPROVER_assigns(i, outputs.what, nv_rows_set) \
__CPROVER_loop_invariant(begin <= i && i <= end && nv_rows_set == (uint64_t)(i - begin) && outputs.rb == nv_rb && outputs.re == nv_re && outputs.what == ((i == end) ? NV_OUTPUTS : NV_SLOT)) \
__CPROVER_decreases(end - i)
#define NV_LOOP_scale_task_2 \
__CPROVER_assigns(i, nv_dots, nv_cell_adds, nv_r_dots, nv_r_adds, nv_dot_sample, nv_dot_k) \
__CPROVER_loop_invariant(begin <= i && i <= end && nv_cell_adds == nv_dots && nv_r_dots == ((nv_r < i && nv_r_group >= 0) ? 1 : 0) && nv_r_adds == nv_r_dots) \
__CPROVER_decreases(end - i)
