"""C09, back end B (reals), GENERIC-COORDINATE mode: the regularisation terms of linear::function_t::do_vgrad equal the
property's definition for EVERY number of weights |W| = n >= 1 (n symbolic):

    value          = (normalised loss) + l1 * mean|W| + (l2/2) * mean(W^2)
    gradient at k  = (normalised gW)_k + l1 * sign(W_k) / n + l2 * W_k / n          (k = the generic coordinate)

The REAL body of do_vgrad is walked by specs/C06/eig.EigWP in generic mode (n=None): an array is its coefficient term at ONE
generic index, `.mean()` / `.sum()` are `(nv_sum phi)` nodes.  The only things known about a finite sum are
   * equal summands give equal sums (one constant per distinct printed summand: specs/C06/vcgen.Gen), and
   * STATED FACT S2 (linearity of finite sums, specs/C06/poly.normalise_sums): a summand that is polynomial in the coefficients
     is summed monomial by monomial with the coefficient-free factors pulled out  (sum_k (s W_k)^2 = s^2 sum_k W_k^2);
the property's side is written with the SAME reduction nodes (nv_sum |W_k|, nv_sum W_k^2), so "mean|W|" and "mean(W^2)" mean
the code-independent textbook reductions over all n coefficients.  std::sqrt is uninterpreted with Q1 (sqrt(u) >= 0 and
sqrt(u)^2 = u for u >= 0) instantiated on the applications that occur.  W (a tsize x isize map) is treated as its
coefficient array: every Eigen operation applied to it here is coefficient-wise (checked against the functor clang deduced).
The per-sample part (clear, loop, sum_reduce) is opaque: the reduced accumulator (m_vm1, m_gW1) is symbolic."""
import os
import sys

import astload
import nvwp
from nvwp import V, Unsupported
from wplib import load, reach_vc
from cxx2c import unwrap

sys.path.insert(0, os.path.join(os.path.dirname(os.path.abspath(__file__)), '..', 'C06'))
import eig       # noqa: E402
import poly      # noqa: E402
import sx        # noqa: E402
import vcgen     # noqa: E402

SRC = 'src/linear/function.cpp'
FILE = astload.REPO + '/' + SRC
N = 'nW'


class RegGenericWP(eig.EigWP):
    def __init__(self, name):
        super().__init__(name, n=None)
        self.dropped = []

    def decl_hook(self, wp, v, init):
        name = v['name']
        if name in ('b', 'gb'):
            return True                                   # bias maps: not part of the regularisation terms
        if name == 'W':
            self.input_array('W', 'W', N)                 # weights(x): n arbitrary reals
            return True
        if name == 'gW':
            self.idmap[v.get('id')] = 'gx.W'              # weights(gx): a map onto the caller's buffer: an ALIAS of its weights part
            return True
        if name == 'accumulator':
            # const auto& accumulator = sum_reduce(m_accumulators, samples): the reduced, normalised accumulator (opaque here)
            self.env['accumulator.m_vm1'] = self.const('loss_mean', 'Real', 'double')
            self.input_array('accumulator.m_gW1', 'gW1', N)
            self.note('sum_reduce -> symbolic reduced accumulator')
            return True
        return super().decl_hook(wp, v, init)

    def member_name(self, n):
        # accumulator.m_gW1 / accumulator.m_vm1 of the local reference `accumulator`
        if n.get('kind') == 'MemberExpr':
            b = unwrap(n['inner'][0])
            if b.get('kind') == 'DeclRefExpr' and b['referencedDecl'].get('name') == 'accumulator':
                return 'accumulator.' + n['name']
        return super().member_name(n)

    def ev(self, n):
        k = n.get('kind')
        inner = n.get('inner', [])
        if k == 'CXXMemberCallExpr' and inner[0].get('kind') == 'MemberExpr':
            me = inner[0]
            if me.get('name') == 'loop':
                self.note('m_iterator.loop(lambda): per-sample accumulation (opaque here)')
                self.dropped.append('m_iterator.loop(...)')
                return V('0', 'Int', 'int')
            if me.get('name') == 'size' and len(inner) == 1:
                o = unwrap(me['inner'][0])
                if o.get('kind') == 'DeclRefExpr' and o['referencedDecl'].get('name') == 'gx':
                    return self.env['gx.size']
            if me.get('name') in ('rows', 'cols') and len(inner) == 1:
                o = unwrap(me['inner'][0])
                if o.get('kind') == 'DeclRefExpr' and o['referencedDecl'].get('name') == 'W':
                    # weights(x) = map_tensor(x.data(), m_tsize, m_isize): rows() == tsize, cols() == isize, size() == tsize * isize
                    return V('tsize' if me['name'] == 'rows' else 'isize', 'Int', 'long')
        if k == 'CXXOperatorCallExpr' and unwrap(inner[0]).get('referencedDecl', {}).get('name') == 'operator=':
            try:
                if self.key_of(inner[1]) == 'gb':
                    return V('0', 'Int', 'int')           # gb = accumulator.m_gb1: the bias part (protocol: linear_do_vgrad target)
            except Unsupported:
                pass
        return super().ev(n)

    def ex(self, n):
        if n.get('kind') == 'CXXForRangeStmt':
            calls = [x for x in astload.walk(n['inner'][-1]) if x.get('kind') == 'CXXMemberCallExpr']
            if [c['inner'][0].get('name') for c in calls] != ['clear']:
                raise Unsupported(f'{self.name}: range-for that is not the accumulator clearing loop')
            self.dropped.append('for (accumulator : m_accumulators) accumulator.clear()')
            return
        return super().ex(n)


def vcs():
    name = 'linear_do_vgrad_reg[generic]'
    docs, fn = load(SRC, 'linear::function_t::do_vgrad', 'do_vgrad', None)
    import parts_smt
    fn = parts_smt.canon_do_vgrad(fn)       # locals named by the accessor call that initialises them (alpha-renaming)
    wp = RegGenericWP(name)
    wp.const(N, 'Int', 'long')
    wp.const('tsize', 'Int', 'long')
    wp.const('isize', 'Int', 'long')
    SHAPE = f'(and (>= tsize 1) (>= isize 1) (= {N} (* tsize isize)))'
    wp.assume(SHAPE)                         # |W| = m_tsize * m_isize, both positive (constructor; see assumptions)
    wp.assume(f'(>= {N} 1)')
    wp.bind_params(fn)
    l1 = wp.env['self.m_l1reg'] = wp.const('l1', 'Real', 'double')
    l2 = wp.env['self.m_l2reg'] = wp.const('l2', 'Real', 'double')
    wp.assume('(>= l1 0.0)')                 # the property's domain (and the registered domain of linear::l1reg / l2reg)
    wp.assume('(>= l2 0.0)')
    wp.env['gx.size'] = wp.const('gx_size', 'Int', 'long')
    wp.assume('(>= gx_size 0)')
    wp.input_array('gx.W', 'gW0', N)         # the weights part of the caller's gradient buffer: arbitrary on entry
    rets = []
    wp.post = lambda w, rv: (rets.append((w.guard, rv, dict(w.env))), [])[1]
    wp.run(fn, FILE)
    if len(rets) != 1:
        raise astload.ExtractionError(f'{name}: {len(rets)} return paths')
    guard, rv, env = rets[0]
    hyps = [SHAPE, f'(>= {N} 1)', '(>= l1 0.0)', '(>= l2 0.0)', '(>= gx_size 0)']
    gen = vcgen.Gen(wp.decls, length=N, hyps=hyps, tag=name)
    src = {'file': FILE, 'line': fn.get('loc', {}).get('line')}
    out = gen.from_wp(wp, name, FILE, about='regularisation terms over the reals, generic coordinate (symbolic |W|)')
    cnt = ('to_real', N)
    W = '|W@i|'
    value = poly.normalise_sums(sx.parse(rv.t), cnt)
    mean_abs = ('/', ('nv_sum', sx.parse(eig.rabs(W))), cnt)
    mean_sq = ('/', ('nv_sum', ('*', W, W)), cnt)
    want = ('+', 'loss_mean', ('*', 'l1', mean_abs), ('*', ('/', 'l2', '2.0'), mean_sq))
    out.append(gen.vc(f'{name}/postcondition: value == loss + l1*mean|W| + (l2/2)*mean(W^2)', [guard], ('=', value, want), source=src,
                      about='returned value against the property\'s definition, any number of weights'))
    gW = env['gx.W']
    if 'gx.W' not in getattr(wp, 'written', ()):
        raise astload.ExtractionError(f'{name}: the weights part of the gradient is never written')
    g = poly.normalise_sums(sx.parse(gW.c[0]), cnt)
    gwant = ('+', '|gW1@i|', ('/', ('*', 'l1', sx.parse(eig.rsign(W))), cnt), ('/', ('*', 'l2', W), cnt))
    out.append(gen.vc(f'{name}/postcondition: gradient wrt W[k] == gW1[k] + l1*sign(W[k])/|W| + l2*W[k]/|W| at the generic coordinate k (when a gradient is requested)',
                      [guard, '(> gx_size 0)'], ('=', g, gwant), source=src, about='gradient written to the weights part of gx, coefficient k arbitrary'))
    out.append(gen.vc(f'{name}/postcondition: no gradient requested => the weights part of gx is untouched', [guard, '(= gx_size 0)'], ('=', g, '|gW0@i|'), source=src))
    out += gen.lemmas
    out.append(reach_vc(wp, name, FILE))
    info = {'c_name': name, 'cxx': 'linear::function_t::do_vgrad (regularisation part, generic coordinate)', 'file': FILE,
            'line': fn.get('loc', {}).get('line'), 'sha': astload.file_hash(FILE), 'dropped': wp.dropped}
    return out, info
