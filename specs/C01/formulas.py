"""C01, part 2-4: the update FORMULAS of the line-search solvers (quasi.py, lbfgs.py, cgd.py) as bounded SMT obligations.

Everything here is a BOUNDED stand-in: the vector dimension is fixed (n = 1, 2, 3), the L-BFGS history holds m = 0, 1, 2 pairs; the coefficients are
unbounded reals.  The obligations are returned through `bounded=[...]` (a failure is a violation, a success is never counted as `discharged`)."""
import astload
import core
from cxx2c import Unsupported

import quasi
import lbfgs
import cgd


def guarded(job, what):
    def run():
        try:
            return job()
        except Unsupported as e:
            raise astload.ExtractionError(f'{what}: {e}')
        except (KeyError, IndexError, TypeError, AttributeError, ValueError) as e:
            raise astload.ExtractionError(f'{what}: the walk of the real code left the shape the contract is written for ({type(e).__name__}: {e})')
    return run


def build(tier):
    info = []
    thorough = tier == 'thorough'
    jobs = []
    sizes = (1, 2, 3)
    # one clang run per translation unit, before the walks fan out
    core.parallel([(lambda tu=tu, flt=flt: astload.dump(tu, flt)) for tu, flt in (
        (quasi.TU, quasi.ANON), (quasi.TU, quasi.MEMBERS), (quasi.TU, 'nano::quasi_initialization'), (cgd.TU, cgd.ANON), (cgd.TU, cgd.FLT), (lbfgs.TU, lbfgs.FLT))])
    for n in sizes:
        for name, np_ in quasi.HELPERS:
            jobs.append(guarded(lambda name=name, np_=np_, n=n: quasi.helper_vcs(name, np_, n, info, thorough)[0], f'quasi ::{name} n={n}'))
        for cls, helper in quasi.UPDATES:
            jobs.append(guarded(lambda cls=cls, helper=helper, n=n: quasi.update_vcs(cls, helper, n, info), f'quasi update {cls} n={n}'))
        for first in (True, False):
            jobs.append(guarded(lambda n=n, first=first: quasi.iteration_vcs(n, first, info), f'quasi iteration n={n}'))
            jobs.append(guarded(lambda n=n, first=first: cgd.iteration_vcs(n, first, info), f'cgd iteration n={n}'))
        for h in cgd.HELPERS:
            jobs.append(guarded(lambda h=h, n=n: cgd.helper_vcs(h, n, info), f'cgd ::{h} n={n}'))
        for c in cgd.BETAS:
            jobs.append(guarded(lambda c=c, n=n: cgd.beta_vcs(c, n, info), f'cgd beta {c} n={n}'))
        jobs.append(guarded(lambda n=n: lbfgs.direction_vcs(n, 0, info, first=True), f'lbfgs first iteration n={n}'))
        for m in (0, 1, 2):
            jobs.append(guarded(lambda n=n, m=m: lbfgs.direction_vcs(n, m, info), f'lbfgs iteration n={n} m={m}'))
            if m:
                jobs.append(guarded(lambda n=n, m=m: lbfgs.secant_vcs(n, m), f'lbfgs secant n={n} m={m}'))
            if n <= 2:
                for hist in (1, 2):
                    if m <= hist:
                        for d in (True, False):
                            jobs.append(guarded(lambda n=n, m=m, hist=hist, d=d: lbfgs.history_arm(n, m, hist, d), f'lbfgs history n={n} m={m}'))
    vcs = []
    for r in [j() for j in jobs]:
        vcs += r
    # the heavy identities stay in the thorough tier
    slow = ('lbfgs_iteration[g=y_last,n=3,m=2]/secant',)
    out = []
    for v in vcs:
        if any(v.name.startswith(s) for s in slow):
            if not thorough:
                continue
            v.timeout = 60
        out.append(v)
    seen = {}
    for f in info:
        seen[f['c_name']] = f
    return out, list(seen.values())
