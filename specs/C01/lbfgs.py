"""C01, part 3: the L-BFGS two-loop recursion of solver_lbfgs_t::do_minimize (src/solver/lbfgs.cpp), over the reals, at fixed dimension
n and history length m (bounded stand-ins).

One iteration of the real loop body is walked (iterwp.IterWP) from
  first      the state the code's own prefix builds (empty history), and
  generic    an arbitrary loop-head state with m stored pairs (s_0, y_0) .. (s_m-1, y_m-1) (oldest first), arbitrary current state.
Obligations (g = gradient of the current state, d = the vector handed to has_descent / to the line search):
  two-loop     the candidate direction is -H_k g, H_k the textbook L-BFGS matrix of the stored pairs:
                   H^0 = gamma I, gamma = s_m-1.y_m-1 / y_m-1.y_m-1;   H^(i+1) = V_i' H^(i) V_i + rho_i s_i s_i',  V_i = I - rho_i y_i s_i',
                   rho_i = 1 / (y_i.s_i)                                                            [Nocedal & Wright (7.19), (7.20)]
               with no stored pair: the candidate is -g
  secant       for g = y_m-1 the candidate is -s_m-1   (H_k y_last == s_last)
  fallback     the direction handed to the line search is the candidate if g.candidate < 0, else -g; it starts from the current state
  descent      g != 0  =>  g . d < 0 for the direction handed to the line search (the precondition of every line search, C07)
  history      (the test has_descent decided beforehand, one walk per outcome) after an iteration that continues: has_descent => the pairs are the old ones followed by (x+ - x, g+ - g), the oldest dropped
               when there were already `history` of them; !has_descent => no pair is kept
Preconditions: s_i.y_i != 0 for every stored pair (see `assumptions`: the curvature condition of the line search), hence y_i != 0.
"""
import astload
from nvwp import V, Unsupported
from linalg import Vcg, AV, t_dot, t_matvec, t_matmul, t_outer, t_ident, t_transpose, t_madd, t_mscale, conj, eqs, flat
from iterwp import IterWP, DQ, walk_iteration

TU = 'src/solver/lbfgs.cpp'
FLT = 'solver_lbfgs_t::do_minimize'


def fninfo(cname, cxx, path, fn):
    return {'c_name': cname, 'cxx': cxx, 'file': path, 'line': fn.get('loc', {}).get('line') or fn.get('_line'), 'sha': astload.file_hash(path)}


def tb_lbfgs_matrix(ss, ys):
    """H_k of Nocedal & Wright (7.19) for the pairs (oldest first), initial matrix gamma I (7.20)"""
    n = len(ss[0])
    gamma = f'(/ {t_dot(ss[-1], ys[-1])} {t_dot(ys[-1], ys[-1])})'
    H = t_mscale(t_ident(n), gamma)
    for s, y in zip(ss, ys):
        rho = f'(/ 1.0 {t_dot(y, s)})'
        V_ = t_madd(t_ident(n), t_mscale(t_outer(y, s), rho), '-')
        H = t_madd(t_matmul(t_matmul(t_transpose(V_), H), V_), t_mscale(t_outer(s, s), rho))
    return H


def head_state(m, gx_is_last_y=False):
    def head(wp):
        wp.new_state('cstate', 'cur')
        wp.new_state('pstate', 'prev')
        wp.new_vec('q', 'q')
        wp.new_vec('r', 'r')
        ss, ys = [], []
        for i in range(m):
            ss.append(wp.new_vec(f'#s{i}', f's{i}'))
            ys.append(wp.new_vec(f'#y{i}', f'y{i}'))
        wp.env['ss'], wp.env['ys'] = DQ([AV(v.c, v.n) for v in ss]), DQ([AV(v.c, v.n) for v in ys])
        if gx_is_last_y and m:
            wp.env['cstate.gx'] = AV(ys[-1].c, ys[-1].n)
            wp.ver['cstate.gx'] = wp.ver.get('cstate.gx', 0) + 1
        wp.head_pairs = ([list(v.c) for v in ss], [list(v.c) for v in ys])
        wp.head_x, wp.head_gx = list(wp.env['cstate.x'].c), list(wp.env['cstate.gx'].c)
    return head


def walk(n, m, hist, first=False, gx_is_last_y=False):
    name = f'lbfgs_iteration[n={n},m={m}' + (',first' if first else '') + (f',history={hist}' if hist is not None else '') + ']'

    def setup(wp):
        if hist is not None:
            wp.params['solver::lbfgs::history'] = V(str(hist), 'Int', 'unsigned long')
    wp, fn = walk_iteration(name, n, TU, FLT, scenario='first' if first else 'generic', head=None if first else head_state(m, gx_is_last_y), setup=setup)
    for var in ('ss', 'ys'):
        if not isinstance(wp.entry_env.get(var), DQ):
            raise Unsupported(f'{name}: no std::deque named {var} at the loop head')
    if first:
        wp.head_pairs = ([list(v.c) for v in wp.entry_env['ss'].items], [list(v.c) for v in wp.entry_env['ys'].items])
        wp.head_x, wp.head_gx = list(wp.entry_env['cstate.x'].c), list(wp.entry_env['cstate.gx'].c)
    return wp, fn


def observations(wp):
    hd = [o for o in wp.obs if o['kind'] == 'has_descent' and o['state'] == 'cstate']
    ls = [o for o in wp.obs if o['kind'] == 'lsearch']
    if len(hd) != 1 or len(ls) != 1:
        raise Unsupported(f'{wp.name}: {len(hd)} has_descent tests and {len(ls)} line searches in one iteration')
    return hd[0], ls[0]


def pair_pre(ss, ys):
    return [f'(not (= {t_dot(s, y)} 0.0))' for s, y in zip(ss, ys)]


def direction_vcs(n, m, info, first=False):
    path = astload.REPO + '/' + TU
    wp, fn = walk(n, m, None, first=first)
    line = fn.get('loc', {}).get('line') or fn.get('_line')
    if n == 1 and m == 0 and not first:
        info.append(fninfo('lbfgs_iteration', 'solver_lbfgs_t::do_minimize (one iteration of the main loop)', path, fn))
    ss, ys = wp.head_pairs
    if first and (ss or ys):
        raise Unsupported(f'{wp.name}: the history is not empty when the loop is entered')
    g = Vcg(wp, wp.name, hyps=pair_pre(ss, ys), bound=f'dimension n = {n}, {len(ss)} stored pair(s)', path=path)
    hd, ls = observations(wp)
    gx = wp.head_gx
    out = g.from_wp()
    neg = lambda v: [f'(- {t})' for t in v]
    if ss:
        want = neg(t_matvec(tb_lbfgs_matrix(ss, ys), gx))
        what = f'-H_k g with H_k the L-BFGS matrix of the {len(ss)} stored pair(s), initial scaling gamma = s.y / y.y of the most recent pair'
    else:
        want, what = neg(gx), '-g (no stored pair)'
    same_state = conj([eqs(hd['gx'], gx), eqs(ls['gx'], gx), eqs(ls['x'], wp.head_x)])
    out.append(g.vc(f'two-loop: the candidate direction is {what}', [hd['guard']], conj([eqs(hd['d'], want), same_state]), line=line))
    cand_ok = f'(< {t_dot(gx, hd["d"])} 0.0)'
    # with stored pairs the candidate is a large rational term: the two clauses below do not depend on what it is
    abstract = (hd['d'], 'candidate') if ss else None
    out.append(g.vc('fallback: the line search gets the candidate if g.candidate < 0, else -g, and starts from the current state', [ls['guard']],
                    conj([f'(ite {cand_ok} {eqs(ls["d"], hd["d"])} {eqs(ls["d"], neg(gx))})', same_state]), line=line, abstract=abstract))
    out.append(g.vc('descent: g != 0 => g.d < 0 for the direction handed to the line search', [ls['guard'], f'(not (= {t_dot(gx, gx)} 0.0))'],
                    f'(< {t_dot(gx, ls["d"])} 0.0)', line=line, abstract=abstract))
    out.append(g.canary([ls['guard']]))
    return out


def secant_vcs(n, m):
    path = astload.REPO + '/' + TU
    wp, fn = walk(n, m, None, gx_is_last_y=True)
    wp.name = wp.name.replace('lbfgs_iteration[', 'lbfgs_iteration[g=y_last,')
    line = fn.get('loc', {}).get('line') or fn.get('_line')
    ss, ys = wp.head_pairs
    g = Vcg(wp, wp.name, hyps=pair_pre(ss, ys), bound=f'dimension n = {n}, {m} stored pair(s)', path=path)
    hd, ls = observations(wp)
    return [g.vc('secant: for g == y_last the candidate direction is -s_last (H_k * y_last == s_last)', [hd['guard']],
                 eqs(hd['d'], [f'(- {t})' for t in ss[-1]]), line=line), g.canary([hd['guard']])]


def history_arm(n, m, hist, descent):
    """end of an iteration that continues, with has_descent decided: the stored pairs of the next loop head"""
    path = astload.REPO + '/' + TU
    name = f'lbfgs_history[n={n},m={m},history={hist},{"descent" if descent else "no-descent"}]'

    def setup(wp):
        wp.params['solver::lbfgs::history'] = V(str(hist), 'Int', 'unsigned long')
        wp.decide_descent = descent
        base = wp.h_has_descent

        def h(w, node, args, obj):
            r = base(w, node, args, obj)
            w.assume(r.t if descent else f'(not {r.t})')
            return V('true' if descent else 'false', 'Bool', 'bool')
        wp.iter_members = [(r'^has_descent\|.*solver_state_t', h)] + list(wp.iter_members)
    wp, fn = walk_iteration(name, n, TU, FLT, scenario='generic', head=head_state(m), setup=setup)
    line = fn.get('loc', {}).get('line') or fn.get('_line')
    ss, ys = wp.head_pairs
    g = Vcg(wp, wp.name, hyps=pair_pre(ss, ys), bound=f'dimension n = {n}, {m} stored pair(s), history length {hist}', path=path)
    hd, ls = observations(wp)
    end = wp.end_env
    got_s, got_y = end.get('ss'), end.get('ys')
    claim = 'false'
    if isinstance(got_s, DQ) and isinstance(got_y, DQ):
        if descent:
            dx = [f'(- {a} {b})' for a, b in zip(ls['x_new'], ls['x'])]
            dg = [f'(- {a} {b})' for a, b in zip(ls['gx_new'], ls['gx'])]
            want_s, want_y = (ss + [dx])[-hist:], (ys + [dg])[-hist:]
        else:
            want_s, want_y = [], []
        if len(got_s.items) == len(want_s) and len(got_y.items) == len(want_y):
            claim = conj([eqs(a.c, b) for a, b in zip(got_s.items, want_s)] + [eqs(a.c, b) for a, b in zip(got_y.items, want_y)] +
                         [eqs(ls['x'], wp.head_x), eqs(ls['gx'], wp.head_gx)])
    what = ('the stored pairs are the old ones followed by (x+ - x, g+ - g), oldest dropped beyond the history length' if descent
            else 'no pair is kept after a forced gradient step')
    return [g.vc(f'history: {what}', [wp.end_guard], claim, line=line), g.canary([wp.end_guard])]
