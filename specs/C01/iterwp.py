"""iterwp: ONE iteration of the main loop of a line-search solver's do_minimize (src/solver/{lbfgs,cgd,quasi}.cpp), walked on the real
body with the vector algebra KEPT (linalg.LinWP, fixed dimension n, double as Real) and everything else behind contracts:

  solver_state_t          a pair of stored vectors (x, gx); copy construction / assignment copy both; `solver_state_t{function, x0}` and the
                          state after `lsearch.get` are arbitrary vectors (fresh constants)                      [ASSUMED: evaluation]
  state.has_descent(d)    gx . d < 0                                 [contract PROVED in C07: pred_smt has_descent / dg]
  lsearch.get(state, d)   OBSERVATION POINT: the direction handed to the line search is recorded together with the state it starts from;
                          afterwards the state is arbitrary, the result an arbitrary bool
  gradient_test / done / valid / fcalls / gcalls       arbitrary values (the decision protocol is the subject of the CBMC targets of C01)
  parameter("..").value   an arbitrary constant per parameter name (or the value the scenario fixes, e.g. the history length)
  this->beta(pg, pd, cg)  (cgd) arbitrary real, arguments recorded; this->update(prev, curr, H) (quasi) arguments recorded, H arbitrary after
  std::deque<vector_t>    a python-level immutable sequence of vectors: size, empty, operator[], emplace_back, pop_front, clear
  std::vector<double>(k)  k scalar cells
A scenario decides where the iteration starts: 'first' = the state the code's own prefix builds (empty history, H = I, empty direction),
'generic' = an arbitrary loop-head state of a given shape (m stored pairs, arbitrary H, ..).  Conditions that fold to a literal select one
branch (the dead one is not walked); `break` ends the path.
"""
import re

import astload
import nvwp
from nvwp import V, Unsupported, AND, NOT
from cxx2c import unwrap, strip_cv, qual, string_literal_of
from linalg import LinWP, AV, MV, RV, Stop, t_dot, real_of, lit_int, type_str
from eig import fold

STATE_RX = r'^(nano::)?solver_state_t$'
VEC_RX = r'^(nano::)?(vector_t|tensor_t<nano::tensor_vector_storage_t, double, 1>|tensor_t<tensor_vector_storage_t, double, 1>)$'
MAT_RX = r'^(nano::)?(matrix_t|tensor_t<nano::tensor_vector_storage_t, double, 2>|tensor_t<tensor_vector_storage_t, double, 2>)$'
DEQUE_RX = r'^std::deque<'
STDVEC_RX = r'^std::vector<double'


class Opaque:
    """a class-typed value the walk only passes around"""
    c = None

    def __init__(self, kind, name):
        self.s, self.t = kind, f'{kind}:{name}'


class DQ:
    s, c = 'Deque', None

    def __init__(self, items):
        self.items = tuple(items)
        self.t = 'deque<' + ' | '.join(i.t for i in self.items) + '>'


def tname(n):
    t = n.get('type') or {}
    return strip_cv((t.get('desugaredQualType') or t.get('qualType') or '')).rstrip('&').strip()


def is_type(n, rx):
    t = n.get('type') or {}
    return any(q is not None and re.search(rx, strip_cv(strip_cv(q).rstrip('&').strip())) for q in (t.get('qualType'), t.get('desugaredQualType')))


class IterWP(LinWP):
    def __init__(self, name, n, tu, params=None, scenario='first', head=None):
        super().__init__(name, n)
        self.tu = tu
        self.params = dict(params or {})       # parameter name -> V (fixed by the scenario)
        self.scenario, self.head = scenario, head
        self.obs = []                          # observation records
        self.owned = set()                     # locals that own their storage (assignment may resize)
        self.nfresh = 0
        self.real_div_check = True
        self.iter_members = [
            (r'^value\|.*parameter_t', self.h_param_value),
            (r'^(x|gx)\|.*solver_state_t', self.h_state_vec),
            (r'^has_descent\|.*solver_state_t', self.h_has_descent),
            (r'^gradient_test\|.*solver_state_t', lambda w, n_, a, o: w.fresh('Real', 'gradient_test', 'double')),
            (r'^valid\|.*solver_state_t', lambda w, n_, a, o: w.fresh('Bool', 'valid', 'bool')),
            (r'^done\|', self.h_done),
            (r'^(fcalls|gcalls)\|.*function_t', self.h_calls),
            (r'^size\|.*function_t', lambda w, n_, a, o: V(str(w.dim), 'Int', 'long')),
            (r'^get\|.*lsearch_t', self.h_lsearch_get),
            (r'^(size|empty|emplace_back|pop_front|pop_back|push_back|push_front|emplace_front|clear|back|front)\|(const )?std::deque<', self.h_deque),
        ]
        self.calls = [(r'^operator\[\]\|.*\|(const )?std::deque<', self.h_deque_at),
                      (r'^operator\[\]\|.*\|(const )?std::vector<double', self.h_stdvec_at)] + list(self.calls)

    # ------------------------------------------------------------------------------------------- fresh values
    def new_vec(self, key, hint):
        self.nfresh += 1
        self.owned.add(key)
        return self.input_array(key, f'{hint}#{self.nfresh}', str(self.dim))

    def new_state(self, var, hint):
        self.env[var] = Opaque('State', var)
        self.new_vec(var + '.x', hint + '_x')
        self.new_vec(var + '.gx', hint + '_gx')

    def copy_state(self, dst, src):
        self.env[dst] = Opaque('State', dst)
        for f in ('x', 'gx'):
            v = self.env[f'{src}.{f}']
            self.env[f'{dst}.{f}'] = AV(v.c, v.n)
            self.ver[f'{dst}.{f}'] = self.ver.get(f'{dst}.{f}', 0) + 1
            self.owned.add(f'{dst}.{f}')

    def state_var(self, node):
        u = unwrap(node)
        if u.get('kind') != 'DeclRefExpr' or not isinstance(self.env.get(u['referencedDecl']['name']), Opaque):
            raise Unsupported(f'{self.name}: solver state expression of kind {u.get("kind")}')
        return u['referencedDecl']['name']

    # ------------------------------------------------------------------------------------------- member contracts
    def h_param_value(self, wp, node, args, obj):
        u = unwrap(obj)
        lit_ = string_literal_of(u['inner'][1]) if u.get('kind') == 'CXXMemberCallExpr' and len(u.get('inner', [])) > 1 else None
        if lit_ is None:
            raise Unsupported(f'{self.name}: parameter value of an unnamed parameter')
        if lit_ not in self.params:
            try:
                s, c = self.sort_of(node['type'])
            except Unsupported:
                s, c = 'Int', 'long'              # an enumeration: its enumerators are compared by value
            self.params[lit_] = self.const(f'|parameter {lit_}|', s, c)
        return self.params[lit_]

    def h_state_vec(self, wp, node, args, obj):
        key = self.state_var(obj) + '.' + node['inner'][0]['name']
        return self.read_stored(key, self.env[key])

    def h_has_descent(self, wp, node, args, obj):
        st = self.state_var(obj)
        d = self.ev(args[0])
        if not isinstance(d, AV) or len(d.c) != len(self.env[st + '.gx'].c):
            raise Unsupported(f'{self.name}: has_descent of something that is not a vector of the state\'s dimension')
        self.obs.append({'kind': 'has_descent', 'state': st, 'gx': list(self.env[st + '.gx'].c), 'd': list(d.c), 'guard': self.guard})
        return V(f'(< {t_dot(self.env[st + ".gx"].c, d.c)} 0.0)', 'Bool', 'bool')

    def h_done(self, wp, node, args, obj):
        for a in args[1:3]:
            self.ev(a)
        return self.fresh('Bool', 'done', 'bool')

    def h_calls(self, wp, node, args, obj):
        v = self.fresh('Int', 'calls', 'long')
        self.assume(f'(and (<= 0 {v.t}) (<= {v.t} 4611686018427387903))')
        return v

    def h_lsearch_get(self, wp, node, args, obj):
        st = self.state_var(args[0])
        d = self.ev(args[1])
        if not isinstance(d, AV):
            raise Unsupported(f'{self.name}: lsearch.get with a direction that is not a vector')
        rec = {'kind': 'lsearch', 'state': st, 'x': list(self.env[st + '.x'].c), 'gx': list(self.env[st + '.gx'].c), 'd': list(d.c),
               'guard': self.guard, 'env': dict(self.env), 'facts': list(self.facts)}
        self.obs.append(rec)
        self.new_state(st, 'after')
        rec['x_new'], rec['gx_new'] = list(self.env[st + '.x'].c), list(self.env[st + '.gx'].c)
        return self.fresh('Bool', 'iter_ok', 'bool')

    # ------------------------------------------------------------------------------------------- std::deque / std::vector
    def deque_key(self, obj):
        u = unwrap(obj)
        if u.get('kind') != 'DeclRefExpr' or not isinstance(self.env.get(u['referencedDecl']['name']), DQ):
            raise Unsupported(f'{self.name}: deque expression of kind {u.get("kind")}')
        return u['referencedDecl']['name']

    def h_deque(self, wp, node, args, obj):
        name = node['inner'][0]['name']
        key = self.deque_key(obj)
        dq = self.env[key]
        if name == 'size':
            return V(str(len(dq.items)), 'Int', 'unsigned long')
        if name == 'empty':
            return V('true' if not dq.items else 'false', 'Bool', 'bool')
        if name in ('emplace_back', 'push_back', 'emplace_front', 'push_front') and len(args) == 1:
            v = self.ev(args[0])
            if not isinstance(v, AV) or isinstance(v, RV):
                raise Unsupported(f'{self.name}: {name} of something that is not a column vector')
            item = AV(v.c, v.n)                  # the deque stores a vector_t constructed from the expression: evaluated now
            self.env[key] = DQ(dq.items + (item,) if name.endswith('back') else (item,) + dq.items)
            return V('0', 'Int', 'int')
        if name in ('pop_front', 'pop_back') and not args:
            self.oblige(f'std::deque::{name} on a non-empty deque', 'true' if dq.items else 'false', node)
            if not dq.items:
                raise Unsupported(f'{self.name}: {name} on an empty deque')
            self.env[key] = DQ(dq.items[1:] if name == 'pop_front' else dq.items[:-1])
            return V('0', 'Int', 'int')
        if name == 'clear' and not args:
            self.env[key] = DQ(())
            return V('0', 'Int', 'int')
        if name in ('back', 'front') and not args:
            self.oblige(f'std::deque::{name} on a non-empty deque', 'true' if dq.items else 'false', node)
            if not dq.items:
                raise Unsupported(f'{self.name}: {name} on an empty deque')
            return dq.items[-1 if name == 'back' else 0]
        raise Unsupported(f'{self.name}: std::deque::{name} with {len(args)} argument(s)')

    def h_deque_at(self, wp, node, args, callee):
        dq = self.env[self.deque_key(args[0])]
        k = lit_int(self.ev(args[1]).t)
        if k is None:
            raise Unsupported(f'{self.name}: deque element at a symbolic index')
        self.oblige('std::deque::operator[] index within bounds', 'true' if 0 <= k < len(dq.items) else 'false', node)
        if not (0 <= k < len(dq.items)):
            raise Unsupported(f'{self.name}: deque index {k} outside [0, {len(dq.items)})')
        return dq.items[k]

    def h_stdvec_at(self, wp, node, args, callee):
        u = unwrap(args[0])
        name = u.get('referencedDecl', {}).get('name')
        size = self.env.get(f'{name}.#')
        if size is None:
            raise Unsupported(f'{self.name}: operator[] on an unknown std::vector')
        k = lit_int(self.ev(args[1]).t)
        if k is None:
            raise Unsupported(f'{self.name}: std::vector element at a symbolic index')
        self.oblige('std::vector::operator[] index within bounds', 'true' if 0 <= k < int(size.t) else 'false', node)
        if not (0 <= k < int(size.t)):
            raise Unsupported(f'{self.name}: std::vector index {k} outside [0, {size.t})')
        key = f'{name}.{k}'
        if getattr(self, 'want_loc', False):
            return key
        return self.env[key]

    # ------------------------------------------------------------------------------------------- declarations
    def decl_hook(self, wp, v, init):
        name = v.get('name')
        if is_type(v, STATE_RX) and not qual(v.get('type')).rstrip().endswith('&'):
            src = unwrap(init[0]) if init else None
            while src is not None and src.get('kind') in ('CXXConstructExpr', 'CXXTemporaryObjectExpr') and len(src.get('inner', [])) == 1 \
                    and is_type(src['inner'][0], STATE_RX):
                src = unwrap(src['inner'][0])
            if src is not None and src.get('kind') == 'DeclRefExpr' and isinstance(self.env.get(src['referencedDecl']['name']), Opaque):
                self.copy_state(name, src['referencedDecl']['name'])
            else:
                self.new_state(name, name)       # solver_state_t{function, x0} / solver_state_t{}: arbitrary vectors
            return True
        if is_type(v, r'^(nano::)?lsearch_t$'):
            self.env[name] = Opaque('LineSearch', name)
            return True
        if is_type(v, DEQUE_RX):
            if init and unwrap(init[0]).get('inner'):
                raise Unsupported(f'{self.name}: std::deque {name} constructed with arguments')
            self.env[name] = DQ(())
            return True
        if is_type(v, STDVEC_RX):
            a = [x for x in (unwrap(init[0]).get('inner', []) if init else []) if x.get('kind') != 'CXXDefaultArgExpr']
            k = lit_int(self.ev(a[0]).t) if len(a) == 1 else (0 if not a else None)
            if k is None:
                raise Unsupported(f'{self.name}: std::vector<double> {name} of symbolic size')
            self.env[f'{name}.#'] = V(str(k), 'Int', 'long')
            for i in range(k):
                self.env[f'{name}.{i}'] = V('0.0', 'Real', 'double')       # value-initialised
            return True
        if is_type(v, VEC_RX) and not qual(v.get('type')).rstrip().endswith('&'):
            u = unwrap(init[0]) if init else None
            if u is None or (u.get('kind') in ('CXXConstructExpr', 'CXXTemporaryObjectExpr', 'InitListExpr') and not u.get('inner')):
                self.env[name] = AV([], '0')      # default-constructed: empty
                self.ver[name] = 0
                self.owned.add(name)
                return True
            val = self.ev(init[0])
            if isinstance(val, AV) and not isinstance(val, RV):
                self.env[name] = AV(val.c, val.n)
                self.ver[name] = 0
                self.owned.add(name)
                return True
        if is_type(v, MAT_RX) and not qual(v.get('type')).rstrip().endswith('&') and init:
            val = self.ev(init[0])
            if isinstance(val, MV):
                self.env[name] = MV(val.m)
                self.ver[name] = 0
                self.owned.add(name)
                return True
        return super().decl_hook(wp, v, init)

    # ------------------------------------------------------------------------------------------- expressions / statements
    def eigen_member(self, n):
        me = n['inner'][0]
        if me.get('kind') == 'MemberExpr':
            # the contracts of this module come before the Eigen vocabulary (`size` of a deque, `x` of a state, ..)
            key = f'{me.get("name")}|{strip_cv(qual(me["inner"][0].get("type")))}'
            h = self.lookup(self.iter_members, key)
            if h is not None:
                self.note(me.get('name'))
                return h(self, n, n['inner'][1:], me['inner'][0])
        if me.get('kind') == 'MemberExpr' and me.get('name') == 'size' and len(n['inner']) == 1:
            o = unwrap(me['inner'][0])
            if o.get('kind') == 'DeclRefExpr':
                key = self.alias.get(o['referencedDecl']['name'], o['referencedDecl']['name'])
                if isinstance(self.env.get(key), AV):
                    return V(str(len(self.env[key].c)), 'Int', 'long')
        return super().eigen_member(n)

    def eigen_operator(self, n):
        inner = n['inner']
        op = unwrap(inner[0]).get('referencedDecl', {}).get('name')
        args = inner[1:]
        if op == 'operator=' and len(args) == 2 and is_type(args[0], STATE_RX):
            self.copy_state(self.state_var(args[0]), self.state_var(args[1]))
            return self.env[self.state_var(args[0])]
        if op == 'operator=' and len(args) == 2:
            key = self.lkey(args[0])
            if key in self.owned and isinstance(self.env.get(key), AV):
                rhs = self.ev(args[1])
                if not isinstance(rhs, AV) or isinstance(rhs, RV):
                    raise Unsupported(f'{self.name}: assignment to the vector {key} of something that is not a column vector')
                self.env[key] = AV(rhs.c, rhs.n)          # an owning tensor takes the size of what is assigned
                self.ver[key] = self.ver.get(key, 0) + 1
                self.written = getattr(self, 'written', set()) | {key}
                return self.env[key]
        return super().eigen_operator(n)

    def ev(self, n):
        if n.get('kind') == 'DeclRefExpr' and n.get('referencedDecl', {}).get('kind') == 'EnumConstantDecl':
            return V(str(self.enum_value(n)), 'Int', 'long')
        if n.get('kind') in ('CXXConstructExpr', 'CXXTemporaryObjectExpr') and is_type(n, VEC_RX) and not n.get('inner'):
            return AV([], '0')
        return super().ev(n)

    def enum_value(self, n):
        t = strip_cv(qual(n.get('type')))
        for nm, val in astload.enum_constants(self.tu, t):
            if nm == n['referencedDecl']['name']:
                return val
        raise Unsupported(f'{self.name}: enumerator {n["referencedDecl"]["name"]} of {t}')

    def merge(self, c, envA, envB):
        envA, envB = dict(envA), dict(envB)
        for k in set(envA) & set(envB):
            a, b = envA[k], envB[k]
            if isinstance(a, DQ) and isinstance(b, DQ) and a.t != b.t:
                if len(a.items) != len(b.items):
                    # not representable: any later use of this deque ends the walk as Unsupported (scenarios that look at the
                    # history after such a branch decide its condition beforehand)
                    envA[k] = envB[k] = Opaque('DequeOfUnknownLength', k)
                    continue
                envA[k] = envB[k] = DQ([x if x.c == y.c else AV([nvwp.ITE(c, p, q) for p, q in zip(x.c, y.c)], x.n) for x, y in zip(a.items, b.items)])
            if isinstance(a, Opaque) and isinstance(b, Opaque):
                envB[k] = a
            if isinstance(a, AV) and isinstance(b, AV) and len(a.c) != len(b.c):
                raise Unsupported(f'{self.name}: the two branches leave vectors of different lengths in {k}')
        return super().merge(c, envA, envB)

    def ex(self, n):
        k = n.get('kind')
        if k == 'BreakStmt':
            self.guard = 'false'
            return
        if k == 'IfStmt' and not n.get('hasInit'):
            parts = n['inner']
            c = fold(self.conv(self.ev(parts[0]), 'Bool', 'bool').t)
            if c in ('true', 'false'):
                if c == 'true':
                    self.ex(parts[1])
                elif len(parts) > 2:
                    self.ex(parts[2])
                return
            g = self.guard
            env0 = dict(self.env)
            self.guard = AND(g, c)
            self.ex(parts[1])
            gA, envA = self.guard, self.env
            self.env = dict(env0)
            self.guard = AND(g, NOT(c))
            if len(parts) > 2:
                self.ex(parts[2])
            gB, envB = self.guard, self.env
            if gA == 'false':
                self.env = envB
            elif gB == 'false':
                self.env = envA
            else:
                self.env = self.merge(c, envA, envB)
            self.guard = nvwp.OR(gA, gB)
            return
        return super().ex(n)

    def loop(self, n):
        if n.get('kind') != 'WhileStmt':
            return super().loop(n)
        if getattr(self, 'in_main', False):
            raise Unsupported(f'{self.name}: nested while loop')
        self.in_main = True
        body = n['inner'][-1]
        if self.scenario != 'first':
            self.head(self)                      # an arbitrary loop-head state of the scenario's shape
        self.entry_env = dict(self.env)
        self.ev(n['inner'][0])                   # the loop condition is evaluated (arbitrary counters)
        self.ex(body)
        self.end_env, self.end_guard = dict(self.env), self.guard
        raise Stop()


def walk_iteration(name, n, tu, flt, scenario='first', head=None, params=None, setup=None):
    fn = astload.find_definition(tu, flt, 'do_minimize')
    wp = IterWP(name, n, tu, params=params, scenario=scenario, head=head)
    if setup:
        setup(wp)
    for key, p in wp.bind_params(fn):
        if key == 'x0':
            wp.new_vec('x0', 'x0')
        else:
            wp.env[key] = Opaque('Param', key)
    wp.post = lambda w, rv: []
    try:
        wp.run(fn, astload.REPO + '/' + tu)
    except Stop:
        pass
    else:
        raise Unsupported(f'{name}: do_minimize has no main while loop')
    return wp, fn
