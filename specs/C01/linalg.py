"""linalg: dense linear algebra at a FIXED small dimension on top of specs/C06/eig.EigWP (concrete mode, double as Real).

The C06 walker knows columns (`AV`) and matrices (`MV`); the update formulas of the line-search solvers also need
  row vectors            v.transpose()            (`RV`, an AV that remembers its orientation)
  products               matrix * matrix, matrix * column, row * matrix, row * column (1x1), column * row (outer product)
                         -- recognised by the OUTERMOST template of the result type clang deduced: Eigen::Product<..>
  coefficient-wise       matrix +- matrix, matrix * scalar, scalar * matrix, matrix / scalar, -matrix, -vector (outermost template
                         Eigen::CwiseBinaryOp / CwiseUnaryOp whose functor must be the matching scalar_*_op)
  1x1 product -> scalar  the conversion operator `operator const double` of Eigen's inner-product base
  norms                  .norm(), .lpNorm<2>() = nv_sqrt(squaredNorm)   (nv_sqrt uninterpreted, sqrt(u)^2 = u and sqrt(u) >= 0 for u >= 0
                         are instantiated per application)
ASSUMED contracts of the dependency (Eigen, and nano's operator wrappers of include/nano/tensor/numeric.h that forward to it): the
operators above have their mathematical meaning, and an assignment `M = expression mentioning M` evaluates the whole right-hand side
before the first coefficient is stored (true for Eigen: every Product nested in a coefficient-wise expression is evaluated into a
temporary when the evaluator is built; storage aliasing itself is outside this technique).

`Vcg` prints the SMT scripts.  Every division `(/ a d)` is replaced by `(* a r)` for a fresh real constant r with the hypothesis
`d = 0 or d * r = 1` (one constant per distinct divisor and script): the same value wherever the divisor is non-zero, which is what the
separate `real-model division is defined` obligations (for every division the code executes, under its path condition) and the stated
preconditions (for the divisions of the textbook formulas) say.  (z3 decides the resulting polynomial identities
instantly; with `/` left in place n = 3 already takes 10 s per coordinate.)
"""
import os
import re
import sys

sys.path.insert(0, os.path.join(os.path.dirname(os.path.abspath(__file__)), '..', 'C06'))
import astload                                       # noqa: E402
import nvwp                                          # noqa: E402
import sx                                            # noqa: E402
from nvwp import V, Unsupported                      # noqa: E402
from core import VC                                  # noqa: E402
from cxx2c import unwrap, strip_cv, qual             # noqa: E402
from eig import EigWP, AV, MV, real_of, rsum, type_str, lit_int   # noqa: E402

CW = {'operator+': ('+', 'scalar_sum_op'), 'operator-': ('-', 'scalar_difference_op'), 'operator*': ('*', 'scalar_product_op'),
      'operator/': ('/', 'scalar_quotient_op')}


SOLVERS = ['z3-new', 'z3']      # polynomial identities over the reals: cvc5 answers none of them within the time limit


class RV(AV):
    """row vector (the transpose of a column): same coefficient list, other orientation"""
    s = 'Array'


class Stop(Exception):
    """raised by a call handler to end the walk of an iteration body at an observation point"""


def outer_template(t):
    t = re.sub(r'^(const|typename)\s+', '', t.strip())
    m = re.match(r'(?:Eigen::)?(?:internal::)?(\w+)<', t)
    return m.group(1) if m else None


def outer_functor(t):
    m = re.match(r'(?:const\s+)?(?:Eigen::)?Cwise(?:Binary|Unary)Op<\s*(?:typename\s+)?(?:Eigen::)?(?:internal::)?(\w+)', t.strip())
    return m.group(1) if m else None


def col(v):
    return isinstance(v, AV) and not isinstance(v, RV)


# ------------------------------------------------------------------------------------------------- python-level algebra on terms
def t_dot(a, b):
    return rsum([f'(* {x} {y})' for x, y in zip(a, b)])


def t_matvec(m, v):
    return [rsum([f'(* {m[r][c]} {v[c]})' for c in range(len(v))]) for r in range(len(m))]


def t_matmul(a, b):
    return [[rsum([f'(* {a[r][k]} {b[k][c]})' for k in range(len(b))]) for c in range(len(b[0]))] for r in range(len(a))]


def t_outer(a, b):
    return [[f'(* {x} {y})' for y in b] for x in a]


def t_ident(n):
    return [['1.0' if i == j else '0.0' for j in range(n)] for i in range(n)]


def t_transpose(m):
    return [[m[r][c] for r in range(len(m))] for c in range(len(m[0]))]


def t_madd(a, b, op='+'):
    return [[f'({op} {x} {y})' for x, y in zip(ra, rb)] for ra, rb in zip(a, b)]


def t_mscale(m, s, op='*'):
    return [[f'({op} {x} {s})' for x in r] for r in m]


class LinWP(EigWP):
    def __init__(self, name, n, **kw):
        super().__init__(name, n=n, **kw)
        self.alias = {}

    # ------------------------------------------------------------------------------------------- members
    def eigen_member(self, n):
        me = n['inner'][0]
        if me.get('kind') != 'MemberExpr':
            return None
        name, obj, args = me.get('name'), me['inner'][0], n['inner'][1:]
        if name == 'transpose' and not args:
            o = self.ev(obj)
            if isinstance(o, RV):
                r = AV(o.c, o.n, o.deps, o.kind)
            elif isinstance(o, AV):
                r = RV(o.c, o.n, o.deps, o.kind)
            elif isinstance(o, MV):
                r = MV(t_transpose(o.m), o.deps)
            else:
                return None
            if outer_template(type_str(n)) != 'Transpose':
                raise Unsupported(f'{self.name}: transpose() whose result type is not Eigen::Transpose: {type_str(n)[:80]}')
            return r
        if name in ('norm', 'lpNorm') and not args:
            o = self.ev(obj)
            if not isinstance(o, AV):
                return None
            if name == 'lpNorm' and self.member_template_args(me) != ['2']:
                return super().eigen_member(n)
            self.note('Eigen .' + name + '()')
            sq = rsum([f'(* {t} {t})' for t in o.c])
            return V(f'(nv_sqrt {sq})', 'Real', 'double')          # a sum of squares: sqrt is defined
        if name.startswith('operator ') and 'double' in name and not args:
            o = self.ev(obj)
            if isinstance(o, MV) and o.rows == 1 and o.cols == 1:
                if 'dense_product_base' not in type_str(obj) and 'Product' not in type_str(obj):
                    raise Unsupported(f'{self.name}: scalar conversion of something that is not an Eigen inner product')
                return V(o.m[0][0], 'Real', 'double')
            raise Unsupported(f'{self.name}: conversion to double of a non 1x1 value')
        return super().eigen_member(n)

    # ------------------------------------------------------------------------------------------- operators
    def eigen_operator(self, n):
        inner = n['inner']
        op = unwrap(inner[0]).get('referencedDecl', {}).get('name')
        args = inner[1:]
        if op in CW and len(args) == 2:
            a, b = self.ev(args[0]), self.ev(args[1])
            if not isinstance(a, (AV, MV)) and not isinstance(b, (AV, MV)):
                return None
            t = type_str(n)
            if op == 'operator*' and outer_template(t) == 'Product':
                return self.product(a, b, n)
            sym, functor = CW[op]
            if outer_functor(t) != functor:
                raise Unsupported(f'{self.name}: {op}: the outermost Eigen functor of the result type is {outer_functor(t)}, not {functor}: {t[:120]}')
            self.note('Eigen ' + op)
            return self.cw(sym, a, b, n)
        if op == 'operator-' and len(args) == 1:
            a = self.ev(args[0])
            if not isinstance(a, (AV, MV)):
                return None
            if outer_functor(type_str(n)) != 'scalar_opposite_op':
                raise Unsupported(f'{self.name}: unary minus whose result type is not scalar_opposite_op')
            if isinstance(a, MV):
                return MV([[f'(- {x})' for x in r] for r in a.m], a.deps)
            return type(a)([f'(- {t})' for t in a.c], a.n, a.deps)
        if op == 'operator=' and len(args) == 2:
            key = self.lkey(args[0])
            if key is not None and isinstance(self.env.get(key), MV):
                rhs = self.ev(args[1])
                old = self.env[key]
                if not isinstance(rhs, MV) or (rhs.rows, rhs.cols) != (old.rows, old.cols):
                    raise Unsupported(f'{self.name}: assignment to the matrix {key} of something that is not a matrix of its shape')
                self.env[key] = MV(rhs.m)
                self.ver[key] = self.ver.get(key, 0) + 1
                self.written = getattr(self, 'written', set()) | {key}
                return self.env[key]
        return super().eigen_operator(n)

    def lkey(self, node):
        try:
            return self.key_of(node)
        except Unsupported:
            return None

    def key_of(self, node):
        k = super().key_of(node)
        return self.alias.get(k, k)

    def cw(self, sym, a, b, node):
        if isinstance(b, MV) and (b.rows, b.cols) == (1, 1) and sym in '*/' and isinstance(a, (AV, MV)) and not (isinstance(a, MV) and sym == '*'):
            b = V(b.m[0][0], 'Real', 'double')       # Eigen's promote_scalar_arg: an inner product used as the scalar operand
        if isinstance(a, MV) and isinstance(b, MV):
            if sym not in '+-' or (a.rows, a.cols) != (b.rows, b.cols):
                raise Unsupported(f'{self.name}: coefficient-wise {sym} on matrices of shapes {a.rows}x{a.cols} / {b.rows}x{b.cols}')
            return MV(t_madd(a.m, b.m, sym), self.deps_of(a, b))
        if isinstance(a, MV) and isinstance(b, V) and sym in '*/':
            s = real_of(self, b)
            if sym == '/':
                self.oblige('real-model division is defined (divisor non-zero)', f'(not (= {s} 0.0))', node)
            return MV(t_mscale(a.m, s, sym), a.deps)
        if isinstance(a, V) and isinstance(b, MV) and sym == '*':
            s = real_of(self, a)
            return MV([[f'(* {s} {x})' for x in r] for r in b.m], b.deps)
        if isinstance(a, MV) or isinstance(b, MV):
            raise Unsupported(f'{self.name}: coefficient-wise {sym} between {type(a).__name__} and {type(b).__name__}')
        if isinstance(a, AV) and isinstance(b, AV) and type(a) is not type(b):
            raise Unsupported(f'{self.name}: coefficient-wise {sym} between a row and a column')
        if isinstance(b, AV) and not isinstance(a, AV) and sym != '*':
            raise Unsupported(f'{self.name}: scalar {sym} vector')
        if isinstance(a, AV) and not isinstance(b, AV) and sym not in '*/':
            raise Unsupported(f'{self.name}: vector {sym} scalar')
        if isinstance(a, AV) and isinstance(b, V) and sym == '/':
            s = real_of(self, b)
            self.oblige('real-model division is defined (divisor non-zero)', f'(not (= {s} 0.0))', node)
            return type(a)([f'(/ {x} {s})' for x in a.c], a.n, a.deps)
        r = self.bin_cw(sym, a, b, node)
        cls = type(a) if isinstance(a, AV) else type(b)
        return cls(r.c, r.n, r.deps)

    def product(self, a, b, node):
        self.note('Eigen matrix product')
        d = self.deps_of(a, b)

        def bad():
            raise Unsupported(f'{self.name}: Eigen::Product of {type(a).__name__}[{shape(a)}] and {type(b).__name__}[{shape(b)}]')

        def shape(v):
            return f'{v.rows}x{v.cols}' if isinstance(v, MV) else (len(v.c) if isinstance(v, AV) else 'scalar')
        if isinstance(a, MV) and isinstance(b, MV):
            if a.cols != b.rows:
                bad()
            return MV(t_matmul(a.m, b.m), d)
        if isinstance(a, MV) and col(b):
            if a.cols != len(b.c):
                bad()
            return AV(t_matvec(a.m, b.c), str(a.rows), d)
        if isinstance(a, RV) and isinstance(b, MV):
            if b.rows != len(a.c):
                bad()
            return RV(t_matvec(t_transpose(b.m), a.c), str(b.cols), d)
        if isinstance(a, RV) and col(b):
            if len(a.c) != len(b.c):
                bad()
            return MV([[t_dot(a.c, b.c)]], d)
        if col(a) and isinstance(b, RV):
            return MV(t_outer(a.c, b.c), d)
        if col(a) and isinstance(b, MV) and b.rows == 1:
            return MV(t_outer(a.c, b.m[0]), d)
        bad()

    def merge(self, c, envA, envB):
        mats = {}
        for k in set(envA) & set(envB):
            a, b = envA[k], envB[k]
            if isinstance(a, MV) and isinstance(b, MV) and a is not b and a.t != b.t:
                if (a.rows, a.cols) != (b.rows, b.cols):
                    raise Unsupported(f'{self.name}: merging matrices of different shapes')
                mats[k] = MV([[x if x == y else nvwp.ITE(c, x, y) for x, y in zip(ra, rb)] for ra, rb in zip(a.m, b.m)])
        if mats:
            envA, envB = dict(envA), dict(envB)
            for k, m in mats.items():
                envA[k] = envB[k] = m
        return super().merge(c, envA, envB)

    # ------------------------------------------------------------------------------------------- declarations
    def decl_hook(self, wp, v, init):
        t = qual(v.get('type'))
        if init and t.rstrip().endswith('&') and not t.rstrip().endswith('&&'):
            u = unwrap(init[0])
            if u.get('kind') == 'DeclRefExpr':
                rd = u['referencedDecl']
                key = self.idmap.get(rd.get('id'), rd.get('name'))
                key = self.alias.get(key, key)
                if isinstance(self.env.get(key), (AV, MV)) and key in self.ver:
                    self.alias[v['name']] = key          # `auto& descent = r;`: another name of the same stored array
                    return True
        return super().decl_hook(wp, v, init)

    def ev(self, n):
        if n.get('kind') == 'DeclRefExpr':
            nm = n['referencedDecl'].get('name')
            if nm in self.alias:
                key = self.alias[nm]
                return self.read_stored(key, self.env[key])
        return super().ev(n)


# ------------------------------------------------------------------------------------------------- SMT scripts
class Vcg:
    def __init__(self, wp, tag, hyps=(), bound=None, path=None):
        self.wp, self.tag, self.hyps, self.bound, self.path = wp, tag, list(hyps), bound, path
        self.recips = {}          # show(divisor after rewriting) -> constant
        self.extra = []

    def rw(self, t):
        """(/ a d) -> (* a r_d), d * r_d = 1"""
        if isinstance(t, str):
            return t
        t = (t[0],) + tuple(self.rw(x) for x in t[1:])
        if t[0] == '/' and len(t) == 3 and not (sx.num_value(t[1]) is not None and sx.num_value(t[2]) is not None):
            key = sx.show(t[2])
            if key not in self.recips:
                self.recips[key] = f'|1/#{len(self.recips) + 1}|'
            return ('*', t[1], self.recips[key])
        return t

    def sqrt_axioms(self, terms):
        out, seen = [], []
        for t in terms:
            for s in sx.subterms(t, 'nv_sqrt'):
                if s not in seen:
                    seen.append(s)
        for s in seen:
            u, r = sx.show(s[1]), sx.show(s)
            out.append(f'(=> (>= {u} 0.0) (and (>= {r} 0.0) (= (* {r} {r}) {u})))')
        return out

    def script(self, hyps, claim, negate=True):
        self.recips = {}          # per script: only the divisors that occur in it
        hs = [self.rw(sx.parse(h)) for h in list(self.hyps) + list(hyps) if h != 'true']
        cl = self.rw(sx.parse(claim)) if claim is not None else None
        # the vacuity guard (claim None) is asked without the facts about sqrt: true facts of real analysis cannot make the
        # preconditions unsatisfiable, and with them the satisfiability search does not terminate for n = 3
        ax = self.sqrt_axioms(hs + [cl]) if cl is not None else []
        body = [nvwp.PRELUDE] + list(dict.fromkeys(self.wp.decls)) + self.extra
        body += [f'(declare-const {r} Real)' for r in self.recips.values()]
        # r is the reciprocal WHERE the divisor is non-zero (a division in a branch that is not taken may have a zero divisor: the
        # obligations `real-model division is defined` cover the divisions that are executed, under their path condition)
        body += [f'(assert (or (= {d} 0.0) (= (* {d} {r}) 1.0)))' for d, r in self.recips.items()]
        body += [f'(assert {sx.show(h)})' for h in hs] + [f'(assert {a})' for a in ax]
        if cl is not None:
            body.append(f'(assert (not {sx.show(cl)}))' if negate else f'(assert {sx.show(cl)})')
        body.append('(check-sat)')
        return '\n'.join(body) + '\n'

    def abstracted(self, hyps, claim, terms, hint):
        """generalisation: every occurrence of the given (large) terms in the hypotheses and the claim is replaced by a fresh real constant
        (sound: the obligation is then shown for ALL values of these sub-terms).  Terms are compared as printed."""
        names = []
        for k, t in enumerate(terms):
            nm = f'|{hint}@{k}|'
            d = f'(declare-const {nm} Real)'
            if d not in self.extra:
                self.extra.append(d)
            names.append(nm)
        order = sorted(range(len(terms)), key=lambda k: -len(terms[k]))

        def sub(x):
            for k in order:
                x = x.replace(terms[k], names[k])
            return x
        return [sub(h) for h in list(self.hyps) + list(hyps)], sub(claim)

    def vc(self, label, hyps, claim, about='', line=None, timeout=30, abstract=None):
        if abstract:
            hyps, claim = self.abstracted(hyps, claim, abstract[0], abstract[1])
            saved, self.hyps = self.hyps, []
            try:
                return self.vc(label, hyps, claim, about, line, timeout)
            finally:
                self.hyps = saved
        v = VC(f'{self.tag}/{label}', self.script(hyps, claim), about=about or label, source={'file': self.path, 'line': line}, timeout=timeout, solvers=SOLVERS)
        v.bound = self.bound
        return v

    def canary(self, hyps=()):
        v = VC(f'{self.tag}/reachability canary: preconditions and callee contracts are satisfiable', self.script(hyps, None),
               about='vacuity guard (must be sat)', source={'file': self.path}, expect='sat', timeout=30, solvers=SOLVERS)
        v.bound = self.bound
        return v

    def from_wp(self, wp=None, hyps=(), abstract=None):
        """the obligations the walk itself produced (divisions defined, callee preconditions, index ranges)"""
        wp = wp or self.wp
        out, counts = [], {}
        for label, guard, claim, line, facts in wp.obligations:
            if claim == 'true':
                continue
            key = (label, line)
            counts[key] = counts.get(key, 0) + 1
            nm = re.sub(r'\s+', '-', label.split(' (')[0].strip()) + (f'@line{line}' if line else '') + (f'#{counts[key]}' if counts[key] > 1 else '') + f': {label}'
            out.append(self.vc(nm, list(hyps) + list(facts) + [guard], claim, about=label, line=line, abstract=abstract(label) if abstract else None))
        return out


def conj(ts):
    ts = [t for t in ts if t != 'true']
    return 'true' if not ts else ts[0] if len(ts) == 1 else '(and ' + ' '.join(ts) + ')'


def eqs(a, b):
    return conj([f'(= {x} {y})' for x, y in zip(a, b)])


def flat(m):
    return [x for r in m for x in r]
