"""C01, part 4: the non-linear conjugate-gradient FORMULAS of src/solver/cgd.cpp, over the reals, at fixed dimension n (bounded stand-ins).

(a) the beta helpers ::HS ::FR ::PR ::CD ::LS ::DY ::N ::DYHS ::DYCD ::FRPR equal their textbook definitions
    (pg = g_k, cg = g_k+1, pd = d_k, y = cg - pg; Hager & Zhang, "A survey of nonlinear conjugate gradient methods", table 1.1; N = (1.6)-(1.7) of
    Hager & Zhang 2005, "A new conjugate gradient method with guaranteed descent and an efficient line search"):
        HS = cg.y / pd.y     FR = cg.cg / pg.pg     PR = cg.y / pg.pg     CD = -cg.cg / pd.pg     LS = -cg.y / pd.pg     DY = cg.cg / pd.y
        N  = max(eta_k, (y - 2 pd |y|^2 / pd.y) . cg / pd.y),   eta_k = -1 / (|pd| min(eta, |pg|))
        DYHS = max(0, min(DY, HS))      DYCD = cg.cg / max(pd.y, -pd.pg)      FRPR = -FR if PR < -FR, PR if |PR| <= FR, else FR
    a helper that calls another uses the callee's PROVED clause and obliges its precondition;
(b) the ten `beta` overrides return the formula of their solver: hs -> max(HS, 0), fr -> FR, pr -> max(PR, 0), cd -> CD, ls -> max(LS, 0), dy -> DY,
    n -> N with eta = parameter solver::cgdN::eta, dycd -> DYCD, dyhs -> DYHS, frpr -> FRPR, with (pg, pd, cg) passed in this order;
(c) one iteration of solver_cgd_t::do_minimize (iterwp): first iteration d = -g; otherwise beta = this->beta(pstate.gx, pdescent, cstate.gx), the
    candidate is -g + beta * pdescent, the line search gets -g instead iff the code's restart test fires (candidate not a descent direction, or
    |g.pg| >= orthotest * g.g: Powell's restart, N&W (5.52)); the direction is a descent direction when g != 0; at the end of the iteration
    pstate / pdescent hold the gradient and the direction the line search started from (what the next beta is computed from).
Preconditions (hypotheses, see `assumptions`): the denominators are non-zero: pg.pg != 0 (not converged), pd.pg != 0 (pd was a descent direction
at pg), pd.y != 0 (curvature condition), eta > 0, pd != 0.
"""
import re

import astload
from nvwp import V, Unsupported
from cxx2c import unwrap, strip_cv, qual
from linalg import LinWP, Vcg, AV, RV, t_dot, conj, eqs, real_of
from eig import rmax, rmin, rabs
from iterwp import IterWP, walk_iteration, Opaque

TU = 'src/solver/cgd.cpp'
FLT = 'solver_cgd_'                 # one clang run for do_minimize and the ten beta overrides
ANON = '(anonymous namespace)::'


def fninfo(cname, cxx, path, fn):
    return {'c_name': cname, 'cxx': cxx, 'file': path, 'line': fn.get('loc', {}).get('line') or fn.get('_line'), 'sha': astload.file_hash(path)}


def sub(a, b):
    return [f'(- {x} {y})' for x, y in zip(a, b)]


def nz(t):
    return f'(not (= {t} 0.0))'


def norm(v):
    return f'(nv_sqrt {t_dot(v, v)})'


def textbook(name, pg, pd, cg, eta=None):
    """(term, preconditions)"""
    y = sub(cg, pg)
    if name == 'HS':
        return f'(/ {t_dot(cg, y)} {t_dot(pd, y)})', [nz(t_dot(pd, y))]
    if name == 'FR':
        return f'(/ {t_dot(cg, cg)} {t_dot(pg, pg)})', [nz(t_dot(pg, pg))]
    if name == 'PR':
        return f'(/ {t_dot(cg, y)} {t_dot(pg, pg)})', [nz(t_dot(pg, pg))]
    if name == 'CD':
        return f'(/ (- {t_dot(cg, cg)}) {t_dot(pd, pg)})', [nz(t_dot(pd, pg))]
    if name == 'LS':
        return f'(/ (- {t_dot(cg, y)}) {t_dot(pd, pg)})', [nz(t_dot(pd, pg))]
    if name == 'DY':
        return f'(/ {t_dot(cg, cg)} {t_dot(pd, y)})', [nz(t_dot(pd, y))]
    if name == 'N':
        dy = t_dot(pd, y)
        w = [f'(- {yi} (/ (* (* 2.0 {di}) {t_dot(y, y)}) {dy}))' for yi, di in zip(y, pd)]
        bn = f'(/ {t_dot(w, cg)} {dy})'
        etak = f'(/ (- 1.0) (* {norm(pd)} {rmin(eta, norm(pg))}))'
        return rmax(etak, bn), [nz(dy), nz(t_dot(pd, pd)), nz(t_dot(pg, pg)), f'(> {eta} 0.0)']
    if name == 'DYHS':
        (dy_, p1), (hs, p2) = textbook('DY', pg, pd, cg), textbook('HS', pg, pd, cg)
        return rmax('0.0', rmin(dy_, hs)), p1 + [p for p in p2 if p not in p1]
    if name == 'DYCD':
        den = rmax(t_dot(pd, y), f'(- {t_dot(pd, pg)})')
        return f'(/ {t_dot(cg, cg)} {den})', [nz(den)]
    if name == 'FRPR':
        (fr, p1), (pr, p2) = textbook('FR', pg, pd, cg), textbook('PR', pg, pd, cg)
        return f'(ite (< {pr} (- {fr})) (- {fr}) (ite (<= {rabs(pr)} {fr}) {pr} {fr}))', p1 + [p for p in p2 if p not in p1]
    raise KeyError(name)


HELPERS = ['HS', 'FR', 'PR', 'CD', 'LS', 'DY', 'N', 'DYHS', 'DYCD', 'FRPR']
BETAS = {'hs': ('HS', True), 'fr': ('FR', False), 'pr': ('PR', True), 'cd': ('CD', False), 'ls': ('LS', True), 'dy': ('DY', False),
         'n': ('N', False), 'dycd': ('DYCD', False), 'dyhs': ('DYHS', False), 'frpr': ('FRPR', False)}


def h_beta_helper(wp, node, args, callee):
    """call of one of the helpers: PROVED clause (result == textbook term of the argument values), precondition obliged"""
    name = callee['referencedDecl']['name']
    vals = [wp.ev(a) for a in args]
    if len(vals) not in (3, 4) or not all(isinstance(v, AV) and not isinstance(v, RV) for v in vals[:3]) or len({len(v.c) for v in vals[:3]}) != 1:
        raise Unsupported(f'{wp.name}: ::{name} called with something that is not three vectors of one dimension')
    if (name == 'N') != (len(vals) == 4):
        raise Unsupported(f'{wp.name}: ::{name} called with {len(vals)} arguments')
    eta = real_of(wp, vals[3]) if len(vals) == 4 else None
    term, pre = textbook(name, vals[0].c, vals[1].c, vals[2].c, eta)
    for k, p in enumerate(pre):
        wp.oblige(f'precondition {k + 1} of ::{name} (denominator non-zero / eta > 0)', p, node)
    wp.called = getattr(wp, 'called', []) + [name]
    return V(term, 'Real', 'double')


def bind3(wp, fn, n):
    keys = [k for k, p in wp.bind_params(fn)]
    if len(keys) not in (3, 4):
        raise Unsupported(f'{wp.name}: unexpected parameters {keys}')
    vecs = []
    for k, nm in zip(keys[:3], ('pg', 'pd', 'cg')):
        vecs.append(list(wp.input_array(k, nm, str(n)).c))
    eta = None
    if len(keys) == 4:
        wp.env[keys[3]] = wp.const('|eta|', 'Real', 'double')
        eta = '|eta|'
    return vecs, eta


def helper_vcs(name, n, info):
    path = astload.REPO + '/' + TU
    docs = astload.dump(TU, ANON)
    c = {tuple(astload.param_types(f)): f for f in astload.find_definitions(docs, name) if f.get('kind') == 'FunctionDecl'}
    if len(c) != 1:
        raise astload.ExtractionError(f'{len(c)} definitions of ::{name} in {TU}')
    fn = list(c.values())[0]
    wp = LinWP(f'cgd_{name}[n={n}]', n)
    wp.calls = [(r'^(' + '|'.join(HELPERS) + r')\|', h_beta_helper)] + list(wp.calls)
    (pg, pd, cg), eta = bind3(wp, fn, n)
    rets = []
    wp.post = lambda w, rv: (rets.append((w.guard, rv)), [])[1]
    wp.run(fn, path)
    if len(rets) != 1 or rets[0][1] is None:
        raise Unsupported(f'{wp.name}: {len(rets)} return paths')
    if n == 1:
        info.append(fninfo(f'cgd_{name}', f'::{name}(pg, pd, cg{", eta" if eta else ""})', path, fn))
    term, pre = textbook(name, pg, pd, cg, eta)
    g = Vcg(wp, wp.name, hyps=pre, bound=f'dimension n = {n}', path=path)
    line = fn.get('loc', {}).get('line') or fn.get('_line')
    out = g.from_wp()
    out.append(g.vc(f'textbook: ::{name} returns its textbook formula', [], f'(= {real_of(wp, rets[0][1])} {term})', line=line))
    out.append(g.canary())
    return out


def beta_vcs(cls, n, info):
    path = astload.REPO + '/' + TU
    helper, plus = BETAS[cls]
    fn = astload.find_definition(TU, FLT, 'beta', select=lambda d: f'solver_cgd_{cls}_t' in (d.get('mangledName') or ''))
    wp = LinWP(f'cgd_beta_{cls}[n={n}]', n)
    wp.calls = [(r'^(' + '|'.join(HELPERS) + r')\|', h_beta_helper)] + list(wp.calls)
    wp.members = [(r'^value\|.*parameter_t', lambda w, node, args, obj: w.env['|parameter|']),
                  (r'^parameter\|', lambda w, node, args, obj: V('0', 'Int', 'int'))] + list(wp.members)
    wp.env['|parameter|'] = wp.const('|eta|', 'Real', 'double')
    (pg, pd, cg), _ = bind3(wp, fn, n)
    rets = []
    wp.post = lambda w, rv: (rets.append((w.guard, rv)), [])[1]
    wp.run(fn, path)
    if len(rets) != 1 or rets[0][1] is None:
        raise Unsupported(f'{wp.name}: {len(rets)} return paths')
    if n == 1:
        info.append(fninfo(f'cgd_beta_{cls}', f'solver_cgd_{cls}_t::beta', path, fn))
    term, pre = textbook(helper, pg, pd, cg, '|eta|')
    want = rmax(term, '0.0') if plus else term
    g = Vcg(wp, wp.name, hyps=pre, bound=f'dimension n = {n}', path=path)
    line = fn.get('loc', {}).get('line') or fn.get('_line')
    out = g.from_wp()
    out.append(g.vc(f'textbook: cgd-{cls} uses beta = {"max(" + helper + ", 0)" if plus else helper} of (pg, pd, cg)', [], f'(= {real_of(wp, rets[0][1])} {want})', line=line))
    out.append(g.canary())
    return out


# ------------------------------------------------------------------------------------------------- the iteration
def head_state(wp):
    wp.new_state('cstate', 'cur')
    wp.new_state('pstate', 'prev')
    wp.new_vec('cdescent', 'cdescent')
    wp.new_vec('pdescent', 'pdescent')


def iteration_vcs(n, first, info):
    path = astload.REPO + '/' + TU
    name = f'cgd_iteration[n={n}{",first" if first else ""}]'
    betas = []

    def setup(wp):
        def h_beta(w, node, args, obj):
            vals = [w.ev(a) for a in args]
            b = w.fresh('Real', 'beta', 'double')
            betas.append((vals, b.t, w.guard))
            return b
        wp.iter_members = [(r'^beta\|', h_beta)] + list(wp.iter_members)
    wp, fn = walk_iteration(name, n, TU, FLT, scenario='first' if first else 'generic', head=None if first else head_state, setup=setup)
    line = fn.get('loc', {}).get('line') or fn.get('_line')
    if n == 1 and first:
        info.append(fninfo('cgd_iteration', 'solver_cgd_t::do_minimize (one iteration of the main loop)', path, fn))
    e = wp.entry_env
    for k in ('cstate.gx', 'pstate.gx', 'cdescent', 'pdescent'):
        if not isinstance(e.get(k), AV):
            raise Unsupported(f'{name}: no vector {k} at the loop head')
    g0, pg0, pd0, x0 = list(e['cstate.gx'].c), list(e['pstate.gx'].c), list(e['pdescent'].c), list(e['cstate.x'].c)
    ls = [o for o in wp.obs if o['kind'] == 'lsearch']
    if len(ls) != 1:
        raise Unsupported(f'{name}: {len(ls)} line searches in one iteration')
    ls = ls[0]
    g = Vcg(wp, name, bound=f'dimension n = {n}', path=path)
    out = g.from_wp()
    neg = [f'(- {t})' for t in g0]
    same_state = conj([eqs(ls['gx'], g0), eqs(ls['x'], x0)])
    if first:
        if e['cdescent'].c:
            raise Unsupported(f'{name}: the direction is not empty when the loop is entered')
        out.append(g.vc('first-direction: the first line search gets -g and starts from the initial state', [ls['guard']], conj([eqs(ls['d'], neg), same_state]), line=line))
    else:
        ok = len(betas) == 1 and len(betas[0][0]) == 3 and all(isinstance(v, AV) for v in betas[0][0])
        claim = 'false'
        if ok:
            (a_pg, a_pd, a_cg), b, _ = betas[0]
            cand = [f'(+ (- {gi}) (* {b} {di}))' for gi, di in zip(g0, pd0)]
            orth = wp.params.get('solver::cgd::orthotest')
            restart = f'(or (not (< {t_dot(g0, cand)} 0.0)) (>= {rabs(t_dot(g0, pg0))} (* {orth.t} {t_dot(g0, g0)})))' if orth is not None else 'false'
            claim = conj([eqs(a_pg.c, pg0), eqs(a_pd.c, pd0), eqs(a_cg.c, g0), f'(ite {restart} {eqs(ls["d"], neg)} {eqs(ls["d"], cand)})', same_state])
        out.append(g.vc('direction: beta is computed from (pstate.gx, pdescent, cstate.gx); the line search gets -g + beta * pdescent, or -g iff the restart test '
                        '(not a descent direction, or |g.pg| >= orthotest * g.g) fires', [ls['guard']], claim, line=line))
    out.append(g.vc('descent: g != 0 => g.d < 0 for the direction handed to the line search', [ls['guard'], f'(not (= {t_dot(g0, g0)} 0.0))'],
                    f'(< {t_dot(g0, ls["d"])} 0.0)', line=line))
    end = wp.end_env
    claim = 'false'
    if isinstance(end.get('pdescent'), AV) and isinstance(end.get('pstate.gx'), AV) and len(end['pdescent'].c) == n:
        claim = conj([eqs(end['pdescent'].c, ls['d']), eqs(end['pstate.gx'].c, g0), eqs(end['pstate.x'].c, x0), eqs(end['cdescent'].c, ls['d']),
                      eqs(end['cstate.gx'].c, ls['gx_new']), eqs(end['cstate.x'].c, ls['x_new'])])
    out.append(g.vc('carry: at the end of the iteration pstate is the state and pdescent / cdescent the direction the line search started from, cstate its result',
                    [wp.end_guard], claim, line=line))
    out.append(g.canary([wp.end_guard]))
    return out
