import os
import sys
sys.path.insert(0, os.path.join(os.path.dirname(os.path.abspath(__file__)), '..', 'solver'))
import common
import formulas
from core import Fn, Target


def build(tier):
    gt = Fn('state_gradient_test', 'src/solver/state.cpp', 'gradient_test', flt='solver_state_t::gradient_test',
            select=lambda d: len([c for c in d['inner'] if c['kind'] == 'ParmVarDecl']) == 1,
            self_struct='struct nv_state_num', types=[(r'vector_cmap_t|tensor_cmap_t<double, 1|tensor_t<nano::tensor_c(map|array)_storage_t, double, 1', 'struct nv_vec_id')],
            members=[(r'^lpNorm\|.*<Eigen::Infinity>', 'nv_lpnorm_inf'), (r'^lpNorm\|', 'nv_lpnorm_other')],
            calls=[(r'^max\|const double &', 'nv_fmax({0}, {1})'), (r'^fabs\|', 'nv_fabs({0})')])
    gt0 = Fn('state_gradient_test0', 'src/solver/state.cpp', 'gradient_test', flt='solver_state_t::gradient_test',
             select=lambda d: len([c for c in d['inner'] if c['kind'] == 'ParmVarDecl']) == 0,
             self_struct='struct nv_state_num', types=[(r'vector_cmap_t|tensor_cmap_t<double, 1|tensor_t<nano::tensor_c(map|array)_storage_t, double, 1', 'struct nv_vec_id'),
                                                       (r'^nano::vector_t$|tensor_t<nano::tensor_vector_storage_t, double, 1', 'struct nv_vec_id')],
             members=[(r'^gradient_test\|.*#1', 'state_gradient_test')],
             calls=[(r'^ctor\|.*tensor_c(map|array)_storage_t, double, 1|^ctor\|nano::vector_cmap_t', '{0}'), (r'^operator tensor_t|^operator nano::tensor_t', '{0}')])
    ts = common.targets(['NV_C01'])
    ts.append(Target('state_gradient_test', [gt], 'specs/C01/gradient_test.h'))
    ts.append(Target('state_gradient_test0', [gt0, gt], 'specs/C01/gradient_test.h', replace=['state_gradient_test']))
    bounded, finfo = formulas.build(tier)
    return {
        'targets': ts, 'vcs': [], 'bounded': bounded, 'functions': finfo,
        'decided': ['BOUNDED (vector dimension n = 1, 2, 3; L-BFGS history of 0, 1, 2 pairs; reals): the update formulas satisfy the secant equation / equal the '
                    'textbook formulas: the mechanism the convergence clause rests on.  quasi-Newton: every inverse-Hessian update of src/solver/quasi.cpp '
                    '(SR1 with and without skipping rule, DFP_, DFP, BFGS_, BFGS, HOSHINO, FLETCHER) gives H+ dg == dx, keeps a symmetric H symmetric, and equals '
                    'its textbook formula (BFGS: (I - r dx dg\')H(I - r dg dx\') + r dx dx\'; DFP: H + dx dx\'/(dx.dg) - H dg dg\' H/(dg.H.dg); Hoshino / Fletcher: '
                    'the Broyden-family member with their switch parameter); the five update overrides hand (H, x+ - x, g+ - g) to their formula; one iteration of '
                    'solver_quasi_t::do_minimize hands -H g to the line search (H = I at the start, -g with H reset to I when -H g is not a descent direction) and '
                    'calls update with the states before / after the line search.  L-BFGS: the two-loop recursion of solver_lbfgs_t::do_minimize returns '
                    '-H_k g with H_k the textbook L-BFGS matrix of the stored pairs and initial matrix (s.y / y.y) I of the most recent pair (N&W (7.19), (7.20)), '
                    'in particular H_k y_last == s_last; the stored pairs are (x+ - x, g+ - g) of the last `history` iterations.  CGD: the ten beta formulas equal '
                    'their textbook definitions, each cgd-* solver uses its own, the direction is -g + beta d, restarted to -g exactly when the code\'s restart test '
                    '(not a descent direction, or Powell\'s |g.pg| >= orthotest g.g) fires.  For all three: the direction handed to the line search is a descent '
                    'direction whenever g != 0',
                    'truthfulness of `converged` for gd, cgd-*, lbfgs, bfgs/dfp/sr1/hoshino/fletcher (their four do_minimize bodies): the returned state has status converged only if its own gradient test -- evaluated on its own value and gradient, one consistent evaluation -- was below epsilon, for every line search, function and tolerance (both havocked)',
                    'gradient_test(gx) = lpNorm_inf(gx) / max(1, |fx|), gradient_test() passes the state\'s own gradient'],
        'not_decided': ['convergence within 1500 evaluations and the accuracy bound on quadratics (first sentence of the property): global convergence of a floating-point quasi-Newton iteration is not a per-call contract; the update formulas it rests on are checked over the reals at n <= 3 only (bounded stand-ins, never counted as proved)',
                        'the update formulas in floating point (rounding, cancellation in dx.dg), and Eigen storage aliasing in `H = expression of H`',
                        'NaN handling inside Eigen reductions'],
        'assumptions': ['solver_state_t{function, x0} and state.update(x) are one evaluation at the given point (assumed contract)',
                        'Eigen lpNorm<Infinity> returns max_k |g_k| (assumed contract of the dependency)',
                        'all vector algebra of the solvers is erased in the CBMC targets (listed per run under dropped_statements); the line search is used through the contract proved in C07',
                        'formula obligations: double is treated as real; Eigen / nano tensor operators (+ - * / on vectors and matrices, products, transpose, dot, norm, identity) have their mathematical meaning and a right-hand side is evaluated before it is assigned (closed list: docstring of specs/C01/linalg.py and specs/C06/eig.py)',
                        'formula obligations, preconditions stated as hypotheses: curvature along the accepted step dx.dg != 0 (guaranteed by line searches that enforce a Wolfe curvature condition, an assumption for Armijo-only backtracking), dg.H.dg != 0 where the DFP term occurs (H positive definite), dx.dg != dg.H.dg where Fletcher / SR1 divide by it, s_i.y_i != 0 for every stored L-BFGS pair, cgd: pg.pg != 0, pd.pg != 0, pd.y != 0, pd != 0, eta > 0; guarded SR1: r > 0, dx != 0 and dx != H dg (for dx == H dg the code divides 0 by 0 and H becomes NaN: the skipping rule |denom| >= r |dx| |dx - H dg| holds as 0 >= 0; do_minimize masks it by its restart)',
                        'formula obligations: solver_state_t is a pair of vectors (x, gx); the state after lsearch.get and the values of gradient_test / done / valid / fcalls / gcalls / parameters are arbitrary; has_descent(d) == (gx.d < 0) is the contract proved in C07 (pred_smt)'],
        'trusted': [],
    }


_REPLAYED = {}


def replay(rp):
    """protocol counterexamples of solver_t::done / do_minimize are driven on the real solvers by a scripted function"""
    import replaylib
    out = {'reproduced': False, 'runs': []}
    family = {'quasi': 'quasi', 'lbfgs': 'lbfgs', 'cgd': 'cgd'}.get(rp['target'].split('_')[0]) if '[' in rp['target'] else None
    if '/mut_C01_' in os.environ.get('NV_SCRATCH', '') or os.environ.get('NV_NO_NATIVE_REPLAY'):
        # canary-mutation self test of the thorough tier (it only looks at the refuted obligation; its private scratch would force a
        # full library build per canary) / mutation loops
        out['skipped'] = 'canary-mutation run / NV_NO_NATIVE_REPLAY'
        return out
    if family:
        # formula obligations: the real solver runs on a fixed quadratic with a spy line search that records the direction it is handed;
        # the driver recomputes the textbook direction from the recorded states (replay/C01_formulas_replay.cpp)
        if family not in _REPLAYED:
            exe = replaylib.build_with_library('replay/C01_formulas_replay.cpp', 'C01_formulas_replay')
            _REPLAYED[family] = replaylib.run_driver(exe, [family])
        rc, so, se = _REPLAYED[family]
        out['runs'].append({'args': [family], 'exit': rc, 'output': so.strip()[:3000]})
        out['reproduced'] = rc == 1
        if rc != 1:
            out['note'] = 'the directions on the replay quadratic agree with the textbook ones: the refuted clause does not show in this scenario'
        return out
    if not any(k in rp['target'] for k in ('solver_done', 'do_minimize')):
        out['note'] = 'no scripted function for this target: the replay file carries the verifier output only'
        return out
    exe = replaylib.build_with_library('replay/C02_replay.cpp', 'C02_replay')
    rc, so, se = replaylib.run_driver(exe, [])
    out['runs'].append({'exit': rc, 'output': so.strip()[:3000]})
    out['reproduced'] = rc == 1
    return out
