import os
import sys
sys.path.insert(0, os.path.join(os.path.dirname(os.path.abspath(__file__)), '..', 'solver'))
import common
from core import Fn, Target


def build(tier):
    gt = Fn('state_gradient_test', 'src/solver/state.cpp', 'gradient_test', flt='solver_state_t::gradient_test',
            select=lambda d: len([c for c in d['inner'] if c['kind'] == 'ParmVarDecl']) == 1,
            self_struct='struct nv_state_num', types=[(r'vector_cmap_t|tensor_cmap_t<double, 1|tensor_t<nano::tensor_c(map|array)_storage_t, double, 1', 'struct nv_vec_id')],
            members=[(r'^lpNorm\|.*<Eigen::Infinity>', 'nv_lpnorm_inf'), (r'^lpNorm\|', 'nv_lpnorm_other')],
            calls=[(r'^max\|const double &', 'nv_fmax({0}, {1})'), (r'^fabs\|', 'nv_fabs({0})')])
    gt0 = Fn('state_gradient_test0', 'src/solver/state.cpp', 'gradient_test', flt='solver_state_t::gradient_test',
             select=lambda d: len([c for c in d['inner'] if c['kind'] == 'ParmVarDecl']) == 0,
             self_struct='struct nv_state_num', types=[(r'vector_cmap_t|tensor_cmap_t<double, 1|tensor_t<nano::tensor_c(map|array)_storage_t, double, 1', 'struct nv_vec_id'),
                                                       (r'^nano::vector_t$|tensor_t<nano::tensor_vector_storage_t, double, 1', 'struct nv_vec_id')],
             members=[(r'^gradient_test\|.*#1', 'state_gradient_test')],
             calls=[(r'^ctor\|.*tensor_c(map|array)_storage_t, double, 1|^ctor\|nano::vector_cmap_t', '{0}'), (r'^operator tensor_t|^operator nano::tensor_t', '{0}')])
    ts = common.targets(['NV_C01'])
    ts.append(Target('state_gradient_test', [gt], 'specs/C01/gradient_test.h'))
    ts.append(Target('state_gradient_test0', [gt0, gt], 'specs/C01/gradient_test.h', replace=['state_gradient_test']))
    return {
        'targets': ts, 'vcs': [],
        'decided': ['truthfulness of `converged` for gd, cgd-*, lbfgs, bfgs/dfp/sr1/hoshino/fletcher (their four do_minimize bodies): the returned state has status converged only if its own gradient test -- evaluated on its own value and gradient, one consistent evaluation -- was below epsilon, for every line search, function and tolerance (both havocked)',
                    'gradient_test(gx) = lpNorm_inf(gx) / max(1, |fx|), gradient_test() passes the state\'s own gradient'],
        'not_decided': ['convergence within 1500 evaluations and the accuracy bound on quadratics (first sentence of the property): global convergence of a floating-point quasi-Newton iteration is not a per-call contract',
                        'NaN handling inside Eigen reductions'],
        'assumptions': ['solver_state_t{function, x0} and state.update(x) are one evaluation at the given point (assumed contract)',
                        'Eigen lpNorm<Infinity> returns max_k |g_k| (assumed contract of the dependency)',
                        'all vector algebra of the solvers is erased (listed per run under dropped_statements); the line search is used through the contract proved in C07'],
        'trusted': [],
    }


def replay(rp):
    """protocol counterexamples of solver_t::done / do_minimize are driven on the real solvers by a scripted function"""
    import replaylib
    out = {'reproduced': False, 'runs': []}
    if not any(k in rp['target'] for k in ('solver_done', 'do_minimize')):
        out['note'] = 'no scripted function for this target: the replay file carries the verifier output only'
        return out
    exe = replaylib.build_with_library('replay/C02_replay.cpp', 'C02_replay')
    rc, so, se = replaylib.run_driver(exe, [])
    out['runs'].append({'exit': rc, 'output': so.strip()[:3000]})
    out['reproduced'] = rc == 1
    return out
