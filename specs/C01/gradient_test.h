/* C01: the convergence criterion is the one in the property text: max|grad f(x)| / max(1, |f(x)|).
 * Floating-point arithmetic is uninterpreted here, so the clause pins the *expression*: numerator = inf-norm of the
 * given gradient, denominator = max(1, |m_fx|), combined by one division. */
#include "nv_base.h"
struct nv_vec_id { uint64_t id; };
struct nv_state_num { double m_fx; struct nv_vec_id m_gx; };
double __CPROVER_uninterpreted_lpnorm_inf(uint64_t);
static double nv_lpnorm_inf(const struct nv_vec_id* v) { return __CPROVER_uninterpreted_lpnorm_inf(v->id); }
double __CPROVER_uninterpreted_lpnorm_other(uint64_t);
static double nv_lpnorm_other(const struct nv_vec_id* v) { return __CPROVER_uninterpreted_lpnorm_other(v->id); }   /* any other norm */
static double nv_fmax(double a, double b) { return (a < b) ? b : a; }
static double nv_fabs(double a) { return __CPROVER_fabs(a); }
#define NV_CONTRACT_state_gradient_test \
__CPROVER_requires(__CPROVER_is_fresh(self, sizeof(*self))) \
__CPROVER_assigns() \
__CPROVER_ensures(NV_SAME(__CPROVER_return_value, NV_FDIV(__CPROVER_uninterpreted_lpnorm_inf(gx.id), nv_fmax(1.0, nv_fabs(self->m_fx)))))
#define NV_CONTRACT_state_gradient_test0 \
__CPROVER_requires(__CPROVER_is_fresh(self, sizeof(*self))) \
__CPROVER_assigns() \
__CPROVER_ensures(NV_SAME(__CPROVER_return_value, NV_FDIV(__CPROVER_uninterpreted_lpnorm_inf(self->m_gx.id), nv_fmax(1.0, nv_fabs(self->m_fx)))))
