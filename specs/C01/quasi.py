"""C01, part 2: the quasi-Newton inverse-Hessian update FORMULAS of src/solver/quasi.cpp, over the reals, at fixed dimension n
(bounded stand-ins).

The instantiated bodies of ::SR1 (3 and 4 parameters), ::DFP_, ::DFP, ::BFGS_, ::BFGS, ::HOSHINO, ::FLETCHER are walked by
linalg.LinWP on a symbolic n x n matrix H and symbolic n-vectors dx, dg.  Obligations per function and n:
  secant      H+ * dg == dx                                     (the quasi-Newton / secant equation)
  symmetric   H == H'  =>  H+ == H+'
  textbook    BFGS_/BFGS:  H+ == (I - r dx dg') H (I - r dg dx') + r dx dx',  r = 1 / (dg.dx)          [Nocedal & Wright (6.17)]
              DFP_/DFP:    H+ == H + dx dx' / (dx.dg) - H dg dg' H / (dg.H.dg)                          [N&W (6.15), inverse form]
              SR1(3):      H+ == H + (dx - H dg)(dx - H dg)' / ((dx - H dg).dg)                         [N&W (6.25)]
              SR1(4):      the update is applied iff |(dx - H dg).dg| >= r |dx| |dx - H dg| (N&W (6.26)), else H+ == H
              HOSHINO:     H+ == (1 - t) DFP_(H, dx, dg) + t BFGS_(H, dx, dg),  t = dx.dg / (dx.dg + dg.H.dg)   (Broyden family; also written out)
              FLETCHER:    Fletcher's switch: the DFP update for p < 0, the BFGS update for p > 1, the SR1 update otherwise,
                           p = dx.dg / (dx.dg - dg.H.dg); thorough tier, n <= 2: this is the Broyden member t = min(max(p, 0), 1) (SR1 is t = p)
  plus the walk's own obligations (every division the code performs has a non-zero divisor, callee preconditions).
A call of one helper from another yields a matrix of fresh constants about which exactly the callee's PROVED clauses are known (== textbook
formula of the argument values; secant equation; symmetry) and obliges the callee's precondition (denominators non-zero).
One iteration of solver_quasi_t::do_minimize (iterwp): see iteration_vcs.
The five `update` overrides are walked too: the helper receives (H, curr.x() - prev.x(), curr.gx() - prev.gx() [, r]).

Preconditions (stated as hypotheses; see `assumptions`): dx.dg != 0 (curvature along the step), dg.H.dg != 0 where DFP occurs,
dx.dg != dg.H.dg where FLETCHER / SR1 divide by it, (dx - H dg).dg != 0 for the unguarded SR1; guarded SR1: r > 0, dx != 0,
dx != H dg (then the skipping rule itself excludes a zero denominator).
"""
import re

import astload
from nvwp import V, Unsupported
from cxx2c import unwrap, strip_cv, qual
from linalg import (LinWP, Vcg, AV, MV, RV, t_dot, t_matvec, t_matmul, t_outer, t_ident, t_transpose, t_madd, t_mscale, conj, eqs,
                    flat, real_of)

TU = 'src/solver/quasi.cpp'


def fninfo(cname, cxx, path, fn):
    return {'c_name': cname, 'cxx': cxx, 'file': path, 'line': fn.get('loc', {}).get('line') or fn.get('_line'), 'sha': astload.file_hash(path)}


ANON = '(anonymous namespace)::'
MEMBERS = 'solver_quasi_'            # one clang run for do_minimize and the five update overrides


def helper(name, nparams):
    docs = astload.dump(TU, ANON)
    c = [f for f in astload.find_definitions(docs, name) if astload.template_args(f) and len(astload.param_types(f)) == nparams
         and f.get('kind') == 'FunctionDecl']
    uniq = {tuple(astload.param_types(f)): f for f in c}
    if len(uniq) != 1:
        raise astload.ExtractionError(f'{len(uniq)} instantiations of ::{name} with {nparams} parameters in {TU}')
    return list(uniq.values())[0]


# ------------------------------------------------------------------------------------------------- textbook formulas (terms)
def tb_bfgs(H, dx, dg):
    n = len(dx)
    r = f'(/ 1.0 {t_dot(dg, dx)})'
    L = t_madd(t_ident(n), t_mscale(t_outer(dx, dg), r), '-')
    R = t_madd(t_ident(n), t_mscale(t_outer(dg, dx), r), '-')
    return t_madd(t_matmul(t_matmul(L, H), R), t_mscale(t_outer(dx, dx), r))


def tb_dfp(H, dx, dg):
    Hg = t_matvec(H, dg)
    gH = t_matvec(t_transpose(H), dg)
    return t_madd(t_madd(H, t_mscale(t_outer(dx, dx), t_dot(dx, dg), '/')), t_mscale(t_outer(Hg, gH), t_dot(dg, Hg), '/'), '-')


def tb_sr1(H, dx, dg):
    v = [f'(- {a} {b})' for a, b in zip(dx, t_matvec(H, dg))]
    return t_madd(H, t_mscale(t_outer(v, v), t_dot(v, dg), '/'))


def tb_broyden(H, dx, dg, theta):
    return t_madd(t_mscale(tb_dfp(H, dx, dg), f'(- 1.0 {theta})'), t_mscale(tb_bfgs(H, dx, dg), theta))


def sr1_denominator(H, dx, dg):
    return t_dot([f'(- {a} {b})' for a, b in zip(dx, t_matvec(H, dg))], dg)


def pre_terms(which, H, dx, dg):
    """preconditions of a helper on the given argument terms (the denominators it can meet are non-zero)"""
    dxdg, gHg = t_dot(dx, dg), t_dot(dg, t_matvec(H, dg))
    p = {'dxdg': f'(not (= {dxdg} 0.0))', 'gHg': f'(not (= {gHg} 0.0))', 'diff': f'(not (= {sr1_denominator(H, dx, dg)} 0.0))'}
    return {'BFGS_': [p['dxdg']], 'BFGS': [p['dxdg']], 'DFP_': [p['dxdg'], p['gHg']], 'DFP': [p['dxdg'], p['gHg']], 'SR1': [p['diff']],
            'HOSHINO': [p['dxdg'], p['gHg'], f'(not (= (+ {dxdg} {gHg}) 0.0))'],
            'FLETCHER': [p['dxdg'], p['gHg'], f'(not (= (- {dxdg} {gHg}) 0.0))', p['diff']]}[which]


TEXTBOOK = {'BFGS_': tb_bfgs, 'BFGS': tb_bfgs, 'DFP_': tb_dfp, 'DFP': tb_dfp, 'SR1': tb_sr1}


# ------------------------------------------------------------------------------------------------- callee contracts
def h_helper(wp, node, args, callee):
    """call of ::DFP_ / ::BFGS_ (value) or ::DFP / ::BFGS / ::SR1 (H updated in place).  The result is a matrix of FRESH constants M about
    which exactly the clauses PROVED for the callee are known: `defs` M == textbook formula of the argument values; `props` M * dg == dx and
    (H symmetric => M symmetric).  The caller's obligations choose which of the two (equivalent) descriptions they are proved from."""
    name = callee['referencedDecl']['name']
    if name == 'SR1' and len(args) != 3:
        raise Unsupported(f'{wp.name}: call of the guarded ::SR1 from another helper')
    H, dx, dg = wp.ev(args[0]), wp.ev(args[1]), wp.ev(args[2])
    if not (isinstance(H, MV) and isinstance(dx, AV) and isinstance(dg, AV) and H.rows == H.cols == len(dx.c) == len(dg.c)):
        raise Unsupported(f'{wp.name}: ::{name} called with something that is not (matrix, vector, vector) of one dimension')
    for k, p in enumerate(pre_terms(name, H.m, dx.c, dg.c)):
        wp.oblige(f'precondition {k + 1} of ::{name} (denominator non-zero)', p, node)
    n = H.rows
    wp.ncalls = getattr(wp, 'ncalls', 0) + 1
    M = [[wp.leaf(f'{name}#{wp.ncalls}_{i}_{j}', 'e') for j in range(n)] for i in range(n)]
    g = wp.guard
    imp = lambda t: t if g == 'true' else f'(=> {g} {t})'
    wp.contract_defs = getattr(wp, 'contract_defs', []) + [imp(eqs(flat(M), flat(TEXTBOOK[name](H.m, dx.c, dg.c))))]
    sym = lambda X: conj([f'(= {X[i][j]} {X[j][i]})' for i in range(n) for j in range(i + 1, n)])
    wp.contract_props = getattr(wp, 'contract_props', []) + [imp(eqs(t_matvec(M, dg.c), dx.c)), imp(f'(=> {sym(H.m)} {sym(M)})')]
    wp.called = getattr(wp, 'called', []) + [name]
    wp.results = getattr(wp, 'results', []) + [(name, M, [list(r) for r in H.m], list(dx.c), list(dg.c))]
    if name.endswith('_'):
        return MV(M)
    key = wp.key_of(args[0])
    if not isinstance(wp.env.get(key), MV):
        raise Unsupported(f'{wp.name}: ::{name} updates something that is not a stored matrix')
    wp.env[key] = MV(M)
    wp.ver[key] = wp.ver.get(key, 0) + 1
    wp.written = getattr(wp, 'written', set()) | {key}
    return V('0', 'Int', 'int')


def walk(name, nparams, n):
    fn = helper(name, nparams)
    wp = LinWP(f'quasi_{name}{nparams if name == "SR1" else ""}[n={n}]', n)
    wp.calls = [(r'^(DFP_|BFGS_|DFP|BFGS|SR1)\|', h_helper)] + list(wp.calls)
    keys = [k for k, p in wp.bind_params(fn)]
    if keys[:3] != ['H', 'dx', 'dg'] and len(keys) < 3:
        raise Unsupported(f'{wp.name}: unexpected parameters {keys}')
    kH, kdx, kdg = keys[:3]
    H = wp.input_matrix(kH, 'H', n, n)
    dx = wp.input_array(kdx, 'dx', str(n))
    dg = wp.input_array(kdg, 'dg', str(n))
    if nparams == 4:
        wp.env[keys[3]] = wp.const('|r|', 'Real', 'double')
    H0, dx0, dg0 = [list(r) for r in H.m], list(dx.c), list(dg.c)
    rets = []
    wp.post = lambda w, rv: (rets.append((w.guard, rv)), [])[1]
    wp.run(fn, astload.REPO + '/' + TU)
    if len(rets) != 1:
        raise Unsupported(f'{wp.name}: {len(rets)} return paths')
    rv = rets[0][1]
    if name.endswith('_'):
        if not isinstance(rv, MV):
            raise Unsupported(f'{wp.name}: does not return a matrix')
        wp.check_fresh(rv, 'returned expression')
        Hn = rv.m
    else:
        if kH not in getattr(wp, 'written', ()):
            raise Unsupported(f'{wp.name}: H is never written')
        Hn = wp.env[kH].m
    return wp, fn, H0, dx0, dg0, Hn


def helper_vcs(name, nparams, n, info, thorough=False):
    path = astload.REPO + '/' + TU
    wp, fn, H, dx, dg, Hn = walk(name, nparams, n)
    tag = wp.name
    line = fn.get('loc', {}).get('line') or fn.get('_line')
    if n == 1:
        info.append(fninfo(f'quasi_{name}{nparams if name == "SR1" else ""}', f'::{name}<Eigen difference expression>({nparams} parameters)', path, fn))
    sqn = lambda v: t_dot(v, v)
    if nparams == 4:
        v = [f'(- {a} {b})' for a, b in zip(dx, t_matvec(H, dg))]
        pre = ['(> |r| 0.0)', f'(not (= {sqn(dx)} 0.0))', f'(not (= {sqn(v)} 0.0))']
    else:
        pre = pre_terms(name, H, dx, dg)
    g = Vcg(wp, tag, hyps=pre, bound=f'dimension n = {n}', path=path)
    defs, props = getattr(wp, 'contract_defs', []), getattr(wp, 'contract_props', [])
    if nparams == 4:
        # "the skipping rule excludes a zero denominator" does not depend on what |dx|^2, |dx - H dg|^2 and the denominator are made of: they are
        # generalised to arbitrary reals, the first two non-negative (lemma: a sum of squares is non-negative)
        a, c, den = sqn(dx), sqn(v), sr1_denominator(H, dx, dg)
        out = [g.vc('lemma: |dx|^2 and |dx - H dg|^2 are non-negative', [], f'(and (>= {a} 0.0) (>= {c} 0.0))', line=line, abstract=(list(v), 'component'))]
        out += g.from_wp(hyps=defs + [f'(>= {a} 0.0)', f'(>= {c} 0.0)'], abstract=lambda label: ([a, c, den], 'sr1') if label.startswith('precondition') else None)
    else:
        out = g.from_wp(hyps=defs)
    sym_in = conj([f'(= {H[i][j]} {H[j][i]})' for i in range(n) for j in range(i + 1, n)])
    sym_out = conj([f'(= {Hn[i][j]} {Hn[j][i]})' for i in range(n) for j in range(i + 1, n)])
    if nparams == 4:
        den = sr1_denominator(H, dx, dg)
        v = [f'(- {a} {b})' for a, b in zip(dx, t_matvec(H, dg))]
        apply_ = f'(>= (ite (>= {den} 0.0) {den} (- {den})) (* (* |r| (nv_sqrt {sqn(dx)})) (nv_sqrt {sqn(v)})))'
        tb = tb_sr1(H, dx, dg)
        out.append(g.vc('skipping-rule: the SR1 update is applied iff |(dx - H dg).dg| >= r |dx| |dx - H dg|, otherwise H is unchanged', defs,
                        f'(ite {apply_} {eqs(flat(Hn), flat(tb))} {eqs(flat(Hn), flat(H))})', line=line))
        out.append(g.vc('secant-equation: H+ * dg == dx whenever the update is applied', props + [apply_], eqs(t_matvec(Hn, dg), dx), line=line))
    else:
        out.append(g.vc('secant-equation: H+ * dg == dx', props, eqs(t_matvec(Hn, dg), dx), line=line))
        if name in TEXTBOOK:
            out.append(g.vc(f'textbook: H+ equals the {name.strip("_")} formula', defs, eqs(flat(Hn), flat(TEXTBOOK[name](H, dx, dg))), line=line))
        dxdg, gHg = t_dot(dx, dg), t_dot(dg, t_matvec(H, dg))
        res = getattr(wp, 'results', [])
        on_inputs = all(flat(a[2]) == flat(H) and a[3] == dx and a[4] == dg for a in res)
        by = {}
        for a in res:
            by.setdefault(a[0], []).append(a[1])
        if name == 'HOSHINO':
            theta = f'(/ {dxdg} (+ {dxdg} {gHg}))'
            claim = 'false'
            if on_inputs and sorted(by) == ['BFGS_', 'DFP_'] and all(len(v) == 1 for v in by.values()):
                claim = eqs(flat(Hn), flat(t_madd(t_mscale(by['DFP_'][0], f'(- 1.0 {theta})'), t_mscale(by['BFGS_'][0], theta))))
            out.append(g.vc('textbook: H+ is the Broyden-family member (1 - t) DFP_(H, dx, dg) + t BFGS_(H, dx, dg) with t = dx.dg / (dx.dg + dg.H.dg)', [],
                            claim, line=line))
            if n <= 2 or thorough:
                out.append(g.vc('textbook-expanded: H+ equals (1 - t) DFP + t BFGS written out', defs, eqs(flat(Hn), flat(tb_broyden(H, dx, dg, theta))), line=line, timeout=60))
        if name == 'FLETCHER':
            p = f'(/ {dxdg} (- {dxdg} {gHg}))'
            claim = 'false'
            if on_inputs and sorted(by) == ['BFGS', 'DFP', 'SR1'] and all(len(v) == 1 for v in by.values()):
                claim = f'(ite (< {p} 0.0) {eqs(flat(Hn), flat(by["DFP"][0]))} (ite (> {p} 1.0) {eqs(flat(Hn), flat(by["BFGS"][0]))} {eqs(flat(Hn), flat(by["SR1"][0]))}))'
            out.append(g.vc('textbook: Fletcher\'s switch: H+ is the DFP update for p < 0, the BFGS update for p > 1, the SR1 update otherwise, p = dx.dg / (dx.dg - dg.H.dg)',
                            [], claim, line=line))
            if thorough and n <= 2:
                theta = f'(ite (< {p} 0.0) 0.0 (ite (> {p} 1.0) 1.0 {p}))'
                out.append(g.vc('lemma: the switch is the Broyden-family member t = min(max(p, 0), 1) (SR1 is the member t = p)',
                                defs + [sym_in], eqs(flat(Hn), flat(tb_broyden(H, dx, dg, theta))), line=line, timeout=120))
    if n > 1:
        out.append(g.vc('symmetric: H symmetric => H+ symmetric', props + [sym_in], sym_out, line=line))
    out.append(g.canary())          # the callee clauses define fresh constants (always satisfiable once the obliged preconditions hold): not part of the guard
    return out, wp


HELPERS = [('SR1', 3), ('SR1', 4), ('DFP_', 3), ('DFP', 3), ('BFGS_', 3), ('BFGS', 3), ('HOSHINO', 3), ('FLETCHER', 3)]


# ------------------------------------------------------------------------------------------------- the update overrides
def update_vcs(cls, helper_name, n, info):
    """solver_quasi_<cls>_t::update(prev, curr, H): the helper gets (H, curr.x() - prev.x(), curr.gx() - prev.gx())"""
    path = astload.REPO + '/' + TU
    fn = astload.find_definition(TU, MEMBERS, 'update', select=lambda d: f'solver_quasi_{cls}_t' in (d.get('mangledName') or ''))
    wp = LinWP(f'quasi_update_{cls}[n={n}]', n)
    seen = []

    def h_call(w, node, args, callee):
        nm = callee['referencedDecl']['name']
        vals = [w.ev(a) for a in args]
        seen.append((nm, vals, node, w.key_of(args[0])))
        return V('0', 'Int', 'int')

    def h_state(field):
        def h(w, node, args, obj):
            u = unwrap(obj)
            if u.get('kind') != 'DeclRefExpr':
                raise Unsupported(f'{w.name}: state accessor on {u.get("kind")}')
            key = u['referencedDecl']['name'] + '.' + field
            return w.read_stored(key, w.env[key])
        return h

    def h_param(w, node, args, obj):
        return w.env['|parameter|']
    wp.calls = [(r'^(SR1|DFP|BFGS|HOSHINO|FLETCHER|DFP_|BFGS_)\|', h_call)] + list(wp.calls)
    wp.members = [(r'^x\|.*solver_state_t', h_state('x')), (r'^gx\|.*solver_state_t', h_state('gx')),
                  (r'^value\|.*parameter_t', h_param), (r'^parameter\|', lambda w, node, args, obj: V('0', 'Int', 'int'))] + list(wp.members)
    keys = [k for k, p in wp.bind_params(fn)]
    if len(keys) != 3:
        raise Unsupported(f'{wp.name}: unexpected parameters {keys}')
    kp, kc, kH = keys
    for k, nm in ((kp, 'prev'), (kc, 'curr')):
        wp.input_array(k + '.x', nm + '_x', str(n))
        wp.input_array(k + '.gx', nm + '_gx', str(n))
    H = wp.input_matrix(kH, 'H', n, n)
    wp.env['|parameter|'] = wp.const('|r|', 'Real', 'double')
    wp.post = lambda w, rv: []
    wp.run(fn, path)
    if n == 1:
        info.append(fninfo(f'quasi_update_{cls}', f'solver_quasi_{cls}_t::update', path, fn))
    g = Vcg(wp, wp.name, bound=f'dimension n = {n}', path=path)
    line = fn.get('loc', {}).get('line') or fn.get('_line')
    ok = len(seen) == 1 and seen[0][0] == helper_name and seen[0][3] == kH
    dxs = [f'(- |curr_x@{k}| |prev_x@{k}|)' for k in range(n)]
    dgs = [f'(- |curr_gx@{k}| |prev_gx@{k}|)' for k in range(n)]
    claim = 'false'
    if ok:
        nm, vals, node, _ = seen[0]
        if isinstance(vals[0], MV) and isinstance(vals[1], AV) and isinstance(vals[2], AV) and not isinstance(vals[1], RV) and not isinstance(vals[2], RV):
            claim = conj([eqs(flat(vals[0].m), flat(H.m)), eqs(vals[1].c, dxs), eqs(vals[2].c, dgs)] +
                         ([f'(= {real_of(wp, vals[3])} |r|)'] if len(vals) == 4 else []))
    out = g.from_wp()
    out.append(g.vc(f'arguments: {cls}::update hands (H, curr.x - prev.x, curr.gx - prev.gx) to ::{helper_name}, once, and H is the matrix it updates', [], claim, line=line))
    out.append(g.canary())
    return out


UPDATES = [('sr1', 'SR1'), ('dfp', 'DFP'), ('bfgs', 'BFGS'), ('hoshino', 'HOSHINO'), ('fletcher', 'FLETCHER')]


# ------------------------------------------------------------------------------------------------- one iteration of do_minimize
def iteration_vcs(n, first, info):
    """solver_quasi_t::do_minimize, one iteration (iterwp): the candidate direction is -H g (H = I when the loop is entered); the line search gets the
    candidate if it is a descent direction, else -g with H reset to I; after a line search that continues, H is rescaled to (dx.dg / dg.dg) I when this
    was the first iteration and the initialisation is `scaled`, then update(prev, curr, H) is called with prev / curr the states before / after the
    line search; first_iteration is false afterwards."""
    from iterwp import IterWP, walk_iteration
    path = astload.REPO + '/' + TU
    name = f'quasi_iteration[n={n}{",first" if first else ""}]'
    ups = []

    def head(wp):
        wp.new_state('cstate', 'cur')
        wp.new_state('pstate', 'prev')
        wp.new_vec('descent', 'descent')
        wp.input_matrix('H', 'H', n, n)
        wp.owned.add('H')
        wp.env['first_iteration'] = wp.const('|first_iteration|', 'Bool', 'bool')

    def setup(wp):
        def h_update(w, node, args, obj):
            if len(args) != 3:
                raise Unsupported(f'{w.name}: update with {len(args)} arguments')
            prev, curr = w.state_var(args[0]), w.state_var(args[1])
            Hv = w.ev(args[2])
            key = w.key_of(args[2])
            if not isinstance(Hv, MV) or not isinstance(w.env.get(key), MV):
                raise Unsupported(f'{w.name}: update of something that is not a stored matrix')
            ups.append({'prev_x': list(w.env[prev + '.x'].c), 'prev_gx': list(w.env[prev + '.gx'].c), 'curr_x': list(w.env[curr + '.x'].c),
                        'curr_gx': list(w.env[curr + '.gx'].c), 'H': [list(r) for r in Hv.m], 'guard': w.guard, 'key': key})
            w.nfresh += 1
            w.input_matrix(key, f'H_updated#{w.nfresh}', Hv.rows, Hv.cols)
            return V('0', 'Int', 'int')
        wp.iter_members = [(r'^update\|', h_update)] + list(wp.iter_members)
    wp, fn = walk_iteration(name, n, 'src/solver/quasi.cpp', MEMBERS, scenario='first' if first else 'generic',
                            head=None if first else head, setup=setup)
    line = fn.get('loc', {}).get('line') or fn.get('_line')
    if n == 1 and first:
        info.append(fninfo('quasi_iteration', 'solver_quasi_t::do_minimize (one iteration of the main loop)', path, fn))
    e = wp.entry_env
    if not isinstance(e.get('H'), MV) or not isinstance(e.get('cstate.gx'), AV) or 'first_iteration' not in e:
        raise Unsupported(f'{name}: no matrix H / state cstate / flag first_iteration at the loop head')
    H0, g0, x0, fi = [list(r) for r in e['H'].m], list(e['cstate.gx'].c), list(e['cstate.x'].c), e['first_iteration'].t
    hd = [o for o in wp.obs if o['kind'] == 'has_descent' and o['state'] == 'cstate']
    ls = [o for o in wp.obs if o['kind'] == 'lsearch']
    if len(hd) != 1 or len(ls) != 1:
        raise Unsupported(f'{name}: {len(hd)} has_descent tests and {len(ls)} line searches in one iteration')
    hd, ls = hd[0], ls[0]
    # curvature along the accepted step (see `assumptions`): dx.dg != 0 for the states before / after a line search that continues
    curv = f'(not (= {t_dot([f"(- {a} {b})" for a, b in zip(ls["x_new"], x0)], [f"(- {a} {b})" for a, b in zip(ls["gx_new"], g0)])} 0.0))'
    g = Vcg(wp, name, hyps=[curv], bound=f'dimension n = {n}', path=path)
    out = g.from_wp()
    neg = lambda v: [f'(- {t})' for t in v]
    I = t_ident(n)
    same_state = conj([eqs(hd['gx'], g0), eqs(ls['gx'], g0), eqs(ls['x'], x0)])
    if first:
        out.append(g.vc('initial-matrix: H is the identity and first_iteration is set when the loop is entered', [], conj([eqs(flat(H0), flat(I)), fi]), line=line))
    out.append(g.vc('direction: the candidate direction is -H g', [hd['guard']], conj([eqs(hd['d'], neg(t_matvec(H0, g0))), same_state]), line=line))
    cand_ok = f'(< {t_dot(g0, hd["d"])} 0.0)'
    out.append(g.vc('restart: the line search gets the candidate if g.candidate < 0, else -g, and starts from the current state', [ls['guard']],
                    conj([f'(ite {cand_ok} {eqs(ls["d"], hd["d"])} {eqs(ls["d"], neg(g0))})', same_state]), line=line))
    out.append(g.vc('descent: g != 0 => g.d < 0 for the direction handed to the line search', [ls['guard'], f'(not (= {t_dot(g0, g0)} 0.0))'],
                    f'(< {t_dot(g0, ls["d"])} 0.0)', line=line))
    claim = 'false'
    init = wp.params.get('solver::quasi::initialization')
    if len(ups) == 1 and ups[0]['key'] == 'H' and init is not None:
        u = ups[0]
        scaled = dict(astload.enum_constants('src/solver/quasi.cpp', 'nano::quasi_initialization')).get('scaled')
        dx, dg = [f'(- {a} {b})' for a, b in zip(ls['x_new'], x0)], [f'(- {a} {b})' for a, b in zip(ls['gx_new'], g0)]
        gamma = f'(/ {t_dot(dx, dg)} {t_dot(dg, dg)})'
        Hr = [[f'(ite {cand_ok} {H0[i][j]} {I[i][j]})' for j in range(n)] for i in range(n)]
        want = [[f'(ite (and {fi} (= {init.t} {scaled})) (* {I[i][j]} {gamma}) {Hr[i][j]})' for j in range(n)] for i in range(n)]
        claim = conj([eqs(u['prev_x'], x0), eqs(u['prev_gx'], g0), eqs(u['curr_x'], ls['x_new']), eqs(u['curr_gx'], ls['gx_new']), eqs(flat(u['H']), flat(want)),
                      '(not ' + wp.end_env['first_iteration'].t + ')' if 'first_iteration' in wp.end_env else 'false'])
    out.append(g.vc('update-call: update(prev, curr, H) gets the states before / after the line search and H (reset to I after a restart, rescaled to '
                    '(dx.dg / dg.dg) I in the first iteration of the `scaled` initialisation); first_iteration is cleared', [wp.end_guard], claim, line=line))
    out.append(g.canary([wp.end_guard]))
    return out
