/* C14: xclass_stats_t (src/dataset/stats.cpp: alloc_xclass_stats, ::update(xclass_stats_t&, sample, values), ::done(xclass_stats_t&),
 * make_xclass_stats) -- class counts and per-sample class weights of categorical features / targets
 * (include/nano/dataset/stats.h: "number of samples for each distinct labeling", "class (hash) index for each sample",
 * "class (hash) weight for each sample ... useful for handling unbalanced classification problems").
 * What is contract-shaped here: the INDEX DISCIPLINE (class indices live in [-1, #classes), -1 = unlabeled / unknown labeling; every
 * class / sample access is in range) and the DEFINING FORMULA of the weights
 *      weight(sample) = 0                                   if the sample has no class,
 *                     = norm / count(class(sample))         otherwise,      norm = 1 / SUM_c 1 / count(c),
 * so that every class receives the same total weight (count(c) * norm / count(c); lemma over the reals in spec.py).
 * Ghost positions: nv_gk an arbitrary class, nv_gs an arbitrary sample.  m_class_samples is tracked at nv_gk, m_sample_classes and
 * m_sample_weights at nv_gs.  A claim about "the class of sample nv_gs" is made for the case class == nv_gk (nv_gk is arbitrary). */
#ifndef NV_C14_XCLASS_H
#define NV_C14_XCLASS_H
int64_t nv_gk;
struct nv_hashes { int64_t n; };                       /* hashes_t: the sorted hashes of the distinct labelings; only the count matters here */
struct nv_labels { int64_t rows; };                    /* sclass_cmap_t / mclass_cmap_t: one labeling per sample; contents arbitrary */
struct nv_label { int64_t row; };                      /* one labeling: values(sample) resp. values.array(sample): of which sample */
struct nv_iview { int64_t* g; int64_t n, k; };         /* integer 1-D Eigen view (indices_t::array()) */
struct nv_xstats { struct nv_hashes m_class_hashes; struct nv_gvi m_class_samples, m_sample_classes; struct nv_gvd m_sample_weights; };
#define NV_XS_OK(s) (0 <= (s)->m_class_hashes.n && (s)->m_class_hashes.n <= NV_MAXN && (s)->m_class_samples.n == (s)->m_class_hashes.n && (s)->m_class_samples.k == nv_gk \
  && 0 <= (s)->m_sample_classes.n && (s)->m_sample_classes.n <= NV_MAXN && (s)->m_sample_weights.n == (s)->m_sample_classes.n \
  && (s)->m_sample_classes.k == nv_gs && (s)->m_sample_weights.k == nv_gs)
#define NV_K(s) ((s)->m_class_hashes.n)
#define NV_CLASS_OK(c, s) (-1 <= (c) && (c) < NV_K(s))
#define NV_GK_IN(s) (0 <= nv_gk && nv_gk < NV_K(s))
#define NV_GS_IN(s) (0 <= nv_gs && nv_gs < (s)->m_sample_classes.n)

/* ---- dependencies (ASSUMED) */
/* make_hashes(values): some number of distinct labelings (src/dataset/hash.cpp) */
static struct nv_hashes nv_make_hashes(const struct nv_labels* v) { struct nv_hashes h; h.n = nv_nondet_int64_t(); __CPROVER_assume(0 <= h.n && h.n <= NV_MAXN); return h; }
/* ::nano::find(hashes, values) (include/nano/dataset/hash.h: lower_bound over the sorted hashes): -1 or a position in [0, hashes.size()) */
int64_t nv_w_find;
static int64_t nv_hash_find(const struct nv_hashes* h)
{ int64_t r = nv_nondet_int64_t(); __CPROVER_assume(-1 <= r && r < h->n); nv_w_find = r; return r; }
static int64_t nv_labels_rows(const struct nv_labels* v) { return v->rows; }
static struct nv_label nv_labels_at(const struct nv_labels* v, int64_t i)
{ struct nv_label l; __CPROVER_assert(0 <= i && i < v->rows, "values(sample): sample in range"); l.row = i; return l; }
/* tensor.resize(n) (vector storage): n coefficients, contents indeterminate */
static void nv_gvi_resize(struct nv_gvi* t, int64_t n, int64_t k) { t->n = n; t->k = k; t->g = nv_nondet_int64_t(); }
static void nv_gvd_resize(struct nv_gvd* t, int64_t n, int64_t k) { t->n = n; t->k = k; t->g = nv_nondet_double(); }
static struct nv_iview nv_iview_of(struct nv_gvi* t) { struct nv_iview v; v.g = &t->g; v.n = t->n; v.k = t->k; return v; }
/* element access by MEMBER (spec hook xclass_elem_hook): untracked cells hold arbitrary values that satisfy the representation
 * invariant of the member -- counts in [0, 2^62] (bounded by the number of samples), classes in [-1, #classes) (established for an
 * ARBITRARY sample by the contract of ::update, target xstats_update_*) */
int64_t nv_x_K;     /* #classes of the object under consideration (defined by the contracts) */
static int64_t* nv_xcount_at(struct nv_gvi* t, int64_t i)
{
  __CPROVER_assert(0 <= i && i < t->n, "m_class_samples(class): class index in range");
  if (i == t->k) return &t->g;
  nv_other_i = nv_nondet_int64_t(); __CPROVER_assume(0 <= nv_other_i && nv_other_i <= (1LL << 62));
  return &nv_other_i;
}
static int64_t* nv_xclass_at(struct nv_gvi* t, int64_t i)
{
  __CPROVER_assert(0 <= i && i < t->n, "m_sample_classes(sample): sample index in range");
  if (i == t->k) return &t->g;
  nv_other_i = nv_nondet_int64_t(); __CPROVER_assume(-1 <= nv_other_i && nv_other_i < nv_x_K);
  return &nv_other_i;
}
/* E.sum() (ASSUMED, Eigen): adds the coefficients of E: an uninterpreted function of the summand at the ghost coefficient */
double __CPROVER_uninterpreted_rsum(double);
#define NV_RSUM(x) __CPROVER_uninterpreted_rsum(x)
int64_t nv_red_calls, nv_red_n;
static double nv_reduce_sum(double summand, int64_t n) { nv_red_calls = (nv_red_calls < NV_MAXN) ? nv_red_calls + 1 : nv_red_calls; nv_red_n = n; return NV_RSUM(summand); }

/* ============================================================================================== alloc_xclass_stats(values)
 * one count per distinct labeling, all zero; one class slot and one weight slot per sample */
#define NV_CONTRACT_xstats_alloc \
__CPROVER_requires(__CPROVER_is_fresh(values, sizeof(*values)) && 0 <= values->rows && values->rows <= NV_MAXN) \
__CPROVER_assigns() \
__CPROVER_ensures(NV_XS_OK(&NV_RET) && NV_RET.m_sample_classes.n == values->rows && NV_RET.m_class_samples.g == 0)

/* ============================================================================================== ::update(stats, sample, values)
 * c = find(hashes, values) in [-1, #classes); the count of class c (and of no other class) grows by one; sample's class slot holds c;
 * the other samples' slots and the weights are not written */
#define NV_CONTRACT_XUPDATE \
__CPROVER_requires(__CPROVER_is_fresh(stats, sizeof(*stats)) && NV_XS_OK(stats) && 0 <= sample && sample < stats->m_sample_classes.n) \
__CPROVER_requires(0 <= stats->m_class_samples.g && stats->m_class_samples.g < (1LL << 62) && nv_x_K == NV_K(stats)) \
__CPROVER_assigns(stats->m_class_samples.g, stats->m_sample_classes.g, nv_other_i, nv_w_find) \
__CPROVER_ensures(NV_CLASS_OK(nv_w_find, stats)) \
__CPROVER_ensures(stats->m_class_samples.g == __CPROVER_old(stats->m_class_samples.g) + ((NV_GK_IN(stats) && nv_w_find == nv_gk) ? 1 : 0)) \
__CPROVER_ensures(sample == nv_gs ? stats->m_sample_classes.g == nv_w_find : stats->m_sample_classes.g == __CPROVER_old(stats->m_sample_classes.g))
#define NV_CONTRACT_xstats_update_s NV_CONTRACT_XUPDATE
#define NV_CONTRACT_xstats_update_m NV_CONTRACT_XUPDATE

/* ============================================================================================== ::done(stats)
 * for an arbitrary sample: weight 0 without a class, norm / count(class) with norm = 1 / SUM_c 1/count(c) otherwise (stated for class ==
 * nv_gk); counts and classes are not written; the reduction runs once over all #classes counts */
double nv_x_norm, nv_x_w;     /* ghosts defined by the precondition (no uninterpreted function inside a loop invariant) */
#define NV_X_NORM(cnt) NV_FDIV(1.0, NV_RSUM(NV_FDIV(1.0, (double)(cnt))))
#define NV_X_DONE_POST(s) (NV_GS_IN(s) ==> (((s)->m_sample_classes.g < 0 ==> (s)->m_sample_weights.g == 0.0) \
  && (((s)->m_sample_classes.g >= 0 && (s)->m_sample_classes.g == nv_gk) ==> NV_IDENT((s)->m_sample_weights.g, nv_x_w))))
#define NV_CONTRACT_xstats_done \
__CPROVER_requires(__CPROVER_is_fresh(stats, sizeof(*stats)) && NV_XS_OK(stats) && nv_x_K == NV_K(stats) && nv_red_calls == 0) \
/* representation invariant at the tracked cells (::update establishes it): the class of a sample is -1 or a class index; a class that \
 * some sample belongs to was counted at least once */ \
__CPROVER_requires((NV_GS_IN(stats) ==> NV_CLASS_OK(stats->m_sample_classes.g, stats)) && 0 <= stats->m_class_samples.g && stats->m_class_samples.g <= (1LL << 62)) \
__CPROVER_requires(NV_IDENT(nv_x_norm, NV_X_NORM(stats->m_class_samples.g)) && NV_IDENT(nv_x_w, NV_FDIV(nv_x_norm, (double)stats->m_class_samples.g))) \
__CPROVER_assigns(stats->m_sample_weights.g, nv_other_d, nv_other_i, nv_red_calls, nv_red_n) \
__CPROVER_ensures(NV_X_DONE_POST(stats) && ((NV_GK_IN(stats)) ==> (nv_red_calls == 1 && nv_red_n == NV_K(stats))))
#define NV_LOOP_xstats_done_1 \
__CPROVER_assigns(sample, stats->m_sample_weights.g, nv_other_d, nv_other_i) \
__CPROVER_loop_invariant(0 <= sample && sample <= samples && samples == stats->m_sample_classes.n && (NV_GK_IN(stats) ==> NV_IDENT(norm, nv_x_norm))) \
__CPROVER_loop_invariant(sample > nv_gs ==> NV_X_DONE_POST(stats)) \
__CPROVER_decreases(samples - sample)

/* ============================================================================================== make_xclass_stats(values)
 * protocol: allocate for these values, ::update once per sample (every sample, its own labeling), ::done once afterwards, return the
 * finalised object.  The wrappers count the calls at the ghost sample; the callees are used through their contracts. */
int64_t nv_x_upd_gs, nv_x_upd_all, nv_x_done_calls, nv_x_alloc_calls;
struct nv_xstats xstats_alloc(const struct nv_labels* values);
void xstats_done(struct nv_xstats* stats);
/* ::update<int> / ::update<Eigen array> are both proved against NV_CONTRACT_XUPDATE (targets xstats_update_s / xstats_update_m); the
 * caller uses that contract, whichever instantiation it calls (the labeling itself is not modelled) */
void xstats_update_c(struct nv_xstats* stats, int64_t sample) NV_CONTRACT_XUPDATE;
static struct nv_xstats nv_x_alloc(const struct nv_labels* values) { nv_x_alloc_calls = nv_x_alloc_calls + 1; return xstats_alloc(values); }
static void nv_x_update(struct nv_xstats* stats, int64_t sample, struct nv_label lab)
{
  __CPROVER_assert(nv_x_done_calls == 0, "::update: never after ::done");
  __CPROVER_assert(lab.row == sample, "::update(stats, sample, values): the labeling of this very sample");
  if (sample == nv_gs) nv_x_upd_gs = nv_x_upd_gs + 1;
  nv_x_K = NV_K(stats);
  xstats_update_c(stats, sample);
}
static void nv_x_done(struct nv_xstats* stats)
{
  __CPROVER_assert(nv_x_done_calls == 0, "::done is called once");
  nv_x_done_calls = nv_x_done_calls + 1; nv_x_K = NV_K(stats); nv_red_calls = 0;
  /* the specification's weight for (ghost sample, ghost class), from the counts as they are when ::done is called */
  nv_x_norm = NV_X_NORM(stats->m_class_samples.g); nv_x_w = NV_FDIV(nv_x_norm, (double)stats->m_class_samples.g);
  xstats_done(stats);
}
#define NV_CONTRACT_xstats_make \
__CPROVER_requires(__CPROVER_is_fresh(values, sizeof(*values)) && 0 <= values->rows && values->rows <= NV_MAXN) \
__CPROVER_requires(nv_x_upd_gs == 0 && nv_x_done_calls == 0 && nv_x_alloc_calls == 0) \
__CPROVER_assigns(nv_x_upd_gs, nv_x_done_calls, nv_x_alloc_calls, nv_x_K, nv_x_norm, nv_x_w, nv_other_d, nv_other_i, nv_w_find, nv_red_calls, nv_red_n) \
__CPROVER_ensures(nv_x_alloc_calls == 1 && nv_x_done_calls == 1 && NV_XS_OK(&NV_RET) && NV_RET.m_sample_classes.n == values->rows) \
__CPROVER_ensures(NV_GS_IN(&NV_RET) ? nv_x_upd_gs == 1 : nv_x_upd_gs == 0) \
/* the returned object is the finalised one: the weight of the ghost sample is the formula of the returned counts */ \
__CPROVER_ensures(NV_X_DONE_POST(&NV_RET) && NV_IDENT(nv_x_w, NV_FDIV(NV_X_NORM(NV_RET.m_class_samples.g), (double)NV_RET.m_class_samples.g))) \
__CPROVER_ensures(NV_GS_IN(&NV_RET) ==> NV_CLASS_OK(NV_RET.m_sample_classes.g, &NV_RET))
#define NV_CONTRACT_xstats_make_s NV_CONTRACT_xstats_make
#define NV_CONTRACT_xstats_make_m NV_CONTRACT_xstats_make
#define NV_X_MAKE_LOOP \
__CPROVER_assigns(sample, nv_x_upd_gs, nv_x_K, nv_other_i, nv_w_find, stats.m_class_samples.g, stats.m_sample_classes.g) \
__CPROVER_loop_invariant(0 <= sample && sample <= samples && samples == values->rows && NV_XS_OK(&stats) && stats.m_sample_classes.n == values->rows) \
__CPROVER_loop_invariant(nv_x_done_calls == 0 && nv_x_alloc_calls == 1 && nv_x_upd_gs == ((0 <= nv_gs && nv_gs < sample) ? 1 : 0)) \
__CPROVER_loop_invariant(0 <= stats.m_class_samples.g && stats.m_class_samples.g <= sample) \
__CPROVER_loop_invariant((0 <= nv_gs && nv_gs < sample) ==> NV_CLASS_OK(stats.m_sample_classes.g, &stats)) \
__CPROVER_decreases(samples - sample)
#define NV_LOOP_xstats_make_s_1 NV_X_MAKE_LOOP
#define NV_LOOP_xstats_make_m_1 NV_X_MAKE_LOOP
#endif
