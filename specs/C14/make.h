/* C14: scalar_stats_t::make_flatten_stats / make_targets_stats / make_feature_stats (src/dataset/stats.cpp).
 * Property clauses: "categorical columns are never rescaled" -- the enable mask handed to ::done is 0 exactly for the
 * columns of categorical (single- / multi-label) features; "statistics computed from any data" -- every sample of the given
 * index list is folded into the ONE statistics object exactly once (whatever the batch size), ::done runs once, after the
 * last batch, on that object, and the finalised object is what is returned.
 *
 * Model (protocol; the numerics of ::update / ::done are the contracts proved by the targets stats_update / stats_done and are
 * havoc here):
 *   dataset_t      shape only (columns, features, size of the target dims) + GHOST COLUMN KINDS: the ghost column nv_gc belongs
 *                  to the ghost feature nv_gf whose kind is nv_gf_kind; every other column / feature is arbitrary.
 *   batches        (tensor{1,2,4}d_(c)map_t returned by flatten / targets / select / reshape): rows x inner (inner NAMES the
 *                  product of the trailing dims) + provenance: which accessor, which sample range [b, e) of which index list,
 *                  which feature.
 *   coverage ghost nv_gi = an arbitrary position of the index list; nv_cov counts the ::update calls whose batch contains it. */
#ifndef NV_C14_MAKE_H
#define NV_C14_MAKE_H

/* ---------------------------------------------------------------------------------------------- features */
#define NV_K_INVALID 0
#define NV_K_SCLASS 1
#define NV_K_MCLASS 2
#define NV_K_SCALAR 3
#define NV_K_STRUCT 4
struct nv_feature { uint8_t kind; int64_t dsize; int64_t id; };     /* feature_t: kind, size(dims()), which feature (-1: the target) */
#define NV_CATEGORICAL(kind) ((kind) == NV_K_SCLASS || (kind) == NV_K_MCLASS)
/* include/nano/feature.h (ASSUMED, read off the inline definitions): is_sclass / is_mclass / is_scalar / is_struct are mutually
 * exclusive, all false for an invalid feature; is_scalar <=> continuous and size(dims) == 1, is_struct <=> continuous and size(dims) > 1 */
static _Bool nv_feat_valid(const struct nv_feature* f) { return f->kind != NV_K_INVALID; }
static _Bool nv_feat_is_sclass(const struct nv_feature* f) { return f->kind == NV_K_SCLASS; }
static _Bool nv_feat_is_mclass(const struct nv_feature* f) { return f->kind == NV_K_MCLASS; }
static _Bool nv_feat_is_scalar(const struct nv_feature* f) { return f->kind == NV_K_SCALAR; }
static _Bool nv_feat_is_struct(const struct nv_feature* f) { return f->kind == NV_K_STRUCT; }
static int64_t nv_feat_dsize(const struct nv_feature* f) { return f->dsize; }        /* ::nano::size(feature.dims()) */
#define NV_FEAT_WF(f) ((f).kind <= NV_K_STRUCT && (f).dsize >= 1 && (f).dsize <= NV_MAXN && ((f).kind == NV_K_SCALAR ==> (f).dsize == 1) && ((f).kind == NV_K_STRUCT ==> (f).dsize > 1))

/* ---------------------------------------------------------------------------------------------- dataset */
struct nv_dataset { int64_t columns, features, tsize; struct nv_feature target; };
int64_t nv_gf; uint8_t nv_gf_kind; int64_t nv_gf_dsize;   /* the feature of the ghost column, its kind and size(dims) */
int64_t nv_gi;                             /* ghost position in the sample index list */
#define NV_DS_OK(ds) (__CPROVER_is_fresh(ds, sizeof(*(ds))) && 0 <= (ds)->columns && (ds)->columns <= NV_MAXN && 0 <= (ds)->features && (ds)->features <= NV_MAXN \
  && 1 <= (ds)->tsize && (ds)->tsize <= NV_MAXN && NV_FEAT_WF((ds)->target) && (ds)->target.id == -1 \
  && 0 <= nv_gf && NV_FEAT_WF(nv_gf_feature()))
static struct nv_feature nv_gf_feature(void) { struct nv_feature f; f.kind = nv_gf_kind; f.dsize = nv_gf_dsize; f.id = nv_gf; return f; }
static int64_t nv_ds_columns(const struct nv_dataset* ds) { return ds->columns; }
static int64_t nv_ds_tsize(const struct nv_dataset* ds) { return ds->tsize; }                      /* ::nano::size(dataset.target_dims()) */
static const struct nv_feature* nv_ds_target(const struct nv_dataset* ds) { return &ds->target; }
/* column2feature (ASSUMED; C08): the feature a flatten column belongs to: an index in [0, features()); the ghost column belongs to nv_gf */
static int64_t nv_ds_column2feature(const struct nv_dataset* ds, int64_t column)
{
  __CPROVER_assert(0 <= column && column < ds->columns, "dataset.column2feature(column): 0 <= column < columns()");
  if (column == nv_gc) { __CPROVER_assume(nv_gf < ds->features); return nv_gf; }
  int64_t f = nv_nondet_int64_t(); __CPROVER_assume(0 <= f && f < ds->features); return f;
}
static struct nv_feature nv_ds_feature(const struct nv_dataset* ds, int64_t ifeature)
{
  struct nv_feature f;
  __CPROVER_assert(0 <= ifeature && ifeature < ds->features, "dataset.feature(i): 0 <= i < features()");
  if (ifeature == nv_gf) return nv_gf_feature();
  f.kind = nv_nondet_u8(); f.dsize = nv_nondet_int64_t(); f.id = ifeature;
  __CPROVER_assume(NV_FEAT_WF(f));
  return f;
}

/* ---------------------------------------------------------------------------------------------- index list, ranges, batches */
struct nv_samples { int64_t n, b, e; };       /* indices_cmap_t: a view [b, e) of the index list of length n given to the function */
struct nv_mrange { int64_t b, e; };           /* tensor_range_t */
struct nv_buf { int64_t dummy; };             /* tensor2d_t / tensor4d_t scratch buffers: contents irrelevant here */
#define NV_SRC_FLATTEN 1
#define NV_SRC_TARGETS 2
#define NV_SRC_SCALAR 3
#define NV_SRC_STRUCT 4
struct nv_batch { int64_t rows, inner; int64_t b, e, n; int32_t src; int64_t feat; int32_t rank; };
static int64_t nv_imin(int64_t a, int64_t b) { return (b < a) ? b : a; }
static struct nv_mrange nv_make_range(int64_t b, int64_t e) { struct nv_mrange r; r.b = b; r.e = e; return r; }
static int64_t nv_range_size(const struct nv_mrange* r) { return r->e - r->b; }
static int64_t nv_samples_size(const struct nv_samples* s) { return s->e - s->b; }
/* samples.slice(range): C16 (tslice): 0 <= begin <= end <= size<0>() */
static struct nv_samples nv_samples_slice(struct nv_samples s, struct nv_mrange r)
{
  __CPROVER_assert(0 <= r.b && r.b <= r.e && r.e <= s.e - s.b, "samples.slice(range): 0 <= begin <= end <= size()");
  struct nv_samples v; v.n = s.n; v.b = s.b + r.b; v.e = s.b + r.e; return v;
}
/* dataset.flatten / targets / select (ASSUMED; proved in C08): one row per listed sample, in the order of the list;
 * flatten: columns() columns; targets: dims = (samples, target_dims); select(scalar): rank 1; select(struct): (samples, feature dims) */
static struct nv_batch nv_batch_of(struct nv_samples s, int32_t src, int64_t inner, int64_t feat, int32_t rank)
{ struct nv_batch v; v.rows = s.e - s.b; v.inner = inner; v.b = s.b; v.e = s.e; v.n = s.n; v.src = src; v.feat = feat; v.rank = rank; return v; }
static struct nv_batch nv_ds_flatten(const struct nv_dataset* ds, struct nv_samples s) { return nv_batch_of(s, NV_SRC_FLATTEN, ds->columns, -1, 2); }
static struct nv_batch nv_ds_targets(const struct nv_dataset* ds, struct nv_samples s) { return nv_batch_of(s, NV_SRC_TARGETS, ds->tsize, -1, 4); }
static struct nv_batch nv_ds_select_scalar(const struct nv_dataset* ds, struct nv_samples s, int64_t ifeature)
{
  __CPROVER_assert(0 <= ifeature && ifeature < ds->features, "dataset.select(samples, feature, buffer): feature in range");
  return nv_batch_of(s, NV_SRC_SCALAR, 1, ifeature, 1);
}
static struct nv_batch nv_ds_select_struct(const struct nv_dataset* ds, struct nv_samples s, int64_t ifeature)
{
  __CPROVER_assert(0 <= ifeature && ifeature < ds->features, "dataset.select(samples, feature, buffer): feature in range");
  int64_t d = nv_nondet_int64_t(); __CPROVER_assume(1 <= d && d <= NV_MAXN);
  return nv_batch_of(s, NV_SRC_STRUCT, (ifeature == nv_gf) ? nv_gf_dsize : d, ifeature, 4);
}
/* values.reshape(r, -1) (contract proved for the real treshape in specs/C16; see wrap.h): r != 0; for r == size<0>() the result is
 * the rank-2 view rows x (product of the trailing dims) of the same data; anything else is a view this model knows nothing about */
static struct nv_batch nv_batch_reshape2(struct nv_batch t, int64_t r, int64_t c)
{
  __CPROVER_assert((r >= 0 || r == -1) && (c >= 0 || c == -1) && !(r == -1 && c == -1), "reshape(r, c): every size is >= 0 except at most one -1");
  __CPROVER_assert(!(c == -1 && r == 0) && !(r == -1 && c == 0), "reshape with a -1: the other extent is non-zero (integer division by zero otherwise)");
  struct nv_batch v = t; v.rank = 2;
  if (!(r == t.rows && (c == -1 || c == t.inner))) { v.rows = r; v.inner = nv_nondet_int64_t(); v.src = 0; }
  return v;
}

/* ---------------------------------------------------------------------------------------------- the statistics object */
/* scalar_stats_t{dims}: the contract PROVED by target stats_ctor (stats.h), as a value */
int64_t nv_ctor_calls, nv_ctor_dims;
static struct nv_stats nv_stats_make(int64_t dims)
{
  struct nv_stats s;
  __CPROVER_assert(0 <= dims && dims <= NV_MAXN, "scalar_stats_t(dims): precondition of the constructor contract");
  nv_ctor_calls = nv_ctor_calls + 1; nv_ctor_dims = dims;
  s.m_samples = nv_gvi_full(dims, 0, nv_gc);
  s.m_min = nv_gvd_full(dims, NV_DBL_MAX, nv_gc); s.m_max = nv_gvd_full(dims, -NV_DBL_MAX, nv_gc);
  s.m_mean = nv_gvd_full(dims, 0.0, nv_gc); s.m_stdev = nv_gvd_full(dims, 0.0, nv_gc);
  s.m_div_range = nv_gvd_full(dims, 1.0, nv_gc); s.m_mul_range = nv_gvd_full(dims, 1.0, nv_gc);
  s.m_div_stdev = nv_gvd_full(dims, 1.0, nv_gc); s.m_mul_stdev = nv_gvd_full(dims, 1.0, nv_gc);
  return s;
}
/* ::update(stats, values): protocol side of the contract proved by target stats_update.  Obligations: its size assert; the batch is
 * what the expected accessor returned for a NON-EMPTY range of the function's index list; always the same statistics object, not
 * yet finalised.  Effect: the accumulators of the tracked column are havocked (their fold is the business of stats_update). */
int32_t nv_exp_src; int64_t nv_exp_feat;       /* which accessor / feature the batches must come from (set by the contract) */
int64_t nv_upd_calls, nv_cov, nv_done_calls; struct nv_stats* nv_the_stats;
static void nv_mk_update(struct nv_stats* stats, struct nv_batch values)
{
  __CPROVER_assert(values.rank == 2 && values.inner == stats->m_min.n, "::update precondition (its assert): values.size<1>() == stats.m_min.size()");
  __CPROVER_assert(values.src == nv_exp_src && values.feat == nv_exp_feat, "::update: the batch comes from the accessor of this statistics kind (flatten / targets / select of this feature)");
  __CPROVER_assert(0 <= values.b && values.b < values.e && values.e <= values.n && values.rows == values.e - values.b, "::update: the batch is a non-empty range of the given samples");
  __CPROVER_assert(nv_done_calls == 0, "::update: never after ::done");
  __CPROVER_assert(nv_upd_calls == 0 || stats == nv_the_stats, "::update: every batch is folded into the same statistics object");
  nv_the_stats = stats;
  __CPROVER_assume(nv_upd_calls < NV_MAXN); nv_upd_calls = nv_upd_calls + 1;
  if (values.b <= nv_gi && nv_gi < values.e) { __CPROVER_assume(nv_cov < NV_MAXN); nv_cov = nv_cov + 1; }
  stats->m_samples.g = nv_nondet_int64_t(); stats->m_min.g = nv_nondet_double(); stats->m_max.g = nv_nondet_double();
  stats->m_mean.g = nv_nondet_double(); stats->m_stdev.g = nv_nondet_double();
}
/* ::done(stats, enable_scaling): obligations: once, after every sample was folded exactly once, on the object the batches were folded
 * into (or on a fresh one when there were no samples); records the mask at the ghost column; effect: the statistics of the tracked
 * column are havocked and remembered, so that the postcondition can say "the returned object is the finalised one". */
_Bool nv_mask_present; uint8_t nv_mask; int64_t nv_mask_n, nv_n_samples;
int64_t nv_fin_samples; double nv_fin_mean, nv_fin_div_range, nv_fin_mul_stdev;
static void nv_mk_done(struct nv_stats* stats, struct nv_gvu enable)
{
  __CPROVER_assert(nv_done_calls == 0, "::done is called once");
  __CPROVER_assert(nv_upd_calls == 0 || stats == nv_the_stats, "::done finalises the statistics object the batches were folded into");
  __CPROVER_assert((0 <= nv_gi && nv_gi < nv_n_samples) ? nv_cov == 1 : nv_cov == 0, "::done runs after every listed sample was folded exactly once");
  __CPROVER_assert(enable.k == stats->m_min.k, "nv ghost-element model: mask and statistics are tracked at the same column");
  nv_done_calls = nv_done_calls + 1; nv_the_stats = stats;
  nv_mask_n = enable.n; nv_mask_present = (0 <= enable.k && enable.k < enable.n); nv_mask = enable.g;
  nv_fin_samples = nv_nondet_int64_t(); nv_fin_mean = nv_nondet_double(); nv_fin_div_range = nv_nondet_double(); nv_fin_mul_stdev = nv_nondet_double();
  stats->m_samples.g = nv_fin_samples; stats->m_mean.g = nv_fin_mean; stats->m_div_range.g = nv_fin_div_range; stats->m_mul_stdev.g = nv_fin_mul_stdev;
  stats->m_min.g = nv_nondet_double(); stats->m_max.g = nv_nondet_double(); stats->m_stdev.g = nv_nondet_double();
  stats->m_mul_range.g = nv_nondet_double(); stats->m_div_stdev.g = nv_nondet_double();
}
/* tensor_mem_t<uint8_t, 1>(n): n coefficients, contents indeterminate */
static struct nv_gvu nv_gvu_make(int64_t n) { struct nv_gvu t; t.g = nv_nondet_u8(); t.n = n; t.k = nv_gc; return t; }
static struct nv_gvu nv_gvu_full(int64_t n, uint8_t v, int64_t k) { struct nv_gvu t; t.g = v; t.n = n; t.k = k; return t; }
static uint8_t* nv_gvu_mat(struct nv_gvu* t, int64_t i)
{
  __CPROVER_assert(0 <= i && i < t->n, "tensor(i): index in range");
  if (i == t->k) return &t->g;
  nv_other_u = nv_nondet_u8();
  return &nv_other_u;
}

/* ---------------------------------------------------------------------------------------------- contracts */
#define NV_MK_GHOSTS nv_upd_calls, nv_cov, nv_done_calls, nv_the_stats, nv_mask_present, nv_mask, nv_mask_n, nv_fin_samples, nv_fin_mean, nv_fin_div_range, \
  nv_fin_mul_stdev, nv_ctor_calls, nv_ctor_dims, nv_other_u, nv_thrown
#define NV_MK_REQUIRES(SRC, FEAT) \
__CPROVER_requires(NV_DS_OK(dataset) && samples.b == 0 && 0 <= samples.e && samples.e <= NV_MAXN && samples.n == samples.e && nv_n_samples == samples.n) \
/* batch >= 1: the callers (src/dataset/iterator.cpp) use the default 1000; batch == 0 would not terminate (reported, not a clause of C14) */ \
__CPROVER_requires(1 <= batch && batch <= NV_MAXN) \
__CPROVER_requires(nv_upd_calls == 0 && nv_cov == 0 && nv_done_calls == 0 && nv_ctor_calls == 0 && nv_exp_src == (SRC) && nv_exp_feat == (FEAT))
/* the returned object is the one ::done finalised, sized `DIMS`, ::done ran exactly once after all samples were folded (asserted in the
 * stubs), and the mask covers every column */
#define NV_MK_COMMON(DIMS) (nv_done_calls == 1 && nv_ctor_calls == 1 && nv_ctor_dims == (DIMS) && NV_RET.m_min.n == (DIMS) && NV_RET.m_samples.n == (DIMS) && nv_mask_n == (DIMS) \
  && NV_RET.m_samples.g == nv_fin_samples && NV_IDENT(NV_RET.m_mean.g, nv_fin_mean) && NV_IDENT(NV_RET.m_div_range.g, nv_fin_div_range) && NV_IDENT(NV_RET.m_mul_stdev.g, nv_fin_mul_stdev) \
  && ((0 <= nv_gi && nv_gi < nv_n_samples) ? nv_cov == 1 : nv_cov == 0))
#define NV_GC_IN(DIMS) (0 <= nv_gc && nv_gc < (DIMS))

/* make_flatten_stats: "categorical columns are never rescaled": for an arbitrary flatten column, scaling is enabled iff the feature
 * the column belongs to is not categorical */
#define NV_CONTRACT_stats_make_flatten NV_MK_REQUIRES(NV_SRC_FLATTEN, -1) \
__CPROVER_assigns(NV_MK_GHOSTS) \
__CPROVER_ensures(!nv_thrown && NV_MK_COMMON(dataset->columns)) \
__CPROVER_ensures(NV_GC_IN(dataset->columns) ==> (nv_mask_present && (nv_mask == 0) == NV_CATEGORICAL(nv_gf_kind) && (nv_mask == 0 || nv_mask == 1)))
/* the two loops are told apart by their LOOP VARIABLE (NV_LOOPVAR_<fn>_<k>, emitted by the engine), not by their order: the mask may
 * be built before or after the batches are folded */
#define NV_CAT2(a, b) a##b
#define NV_CAT(a, b) NV_CAT2(a, b)
#define NV_LOOP_stats_make_flatten_1 NV_CAT(NV_MKFL_LOOP_, NV_LOOPVAR_stats_make_flatten_1)
#define NV_LOOP_stats_make_flatten_2 NV_CAT(NV_MKFL_LOOP_, NV_LOOPVAR_stats_make_flatten_2)
#define NV_MKFL_LOOP_i \
__CPROVER_assigns(i, NV_MK_GHOSTS, stats.m_samples.g, stats.m_min.g, stats.m_max.g, stats.m_mean.g, stats.m_stdev.g) \
__CPROVER_loop_invariant(0 <= i && i < size + batch && size == samples.e && nv_done_calls == 0 && !nv_thrown && nv_ctor_calls == 1 && nv_ctor_dims == dataset->columns) \
__CPROVER_loop_invariant(NV_STATS_OK(&stats, nv_gc) && stats.m_min.n == dataset->columns && (nv_upd_calls == 0 || nv_the_stats == &stats)) \
__CPROVER_loop_invariant(nv_cov == ((0 <= nv_gi && nv_gi < i && nv_gi < size) ? 1 : 0)) \
__CPROVER_decreases(size + batch - i)
#define NV_MKFL_LOOP_column \
__CPROVER_assigns(column, enable_scaling.g, nv_other_u) \
__CPROVER_loop_invariant(0 <= column && column <= enable_scaling.n && enable_scaling.n == dataset->columns && enable_scaling.k == nv_gc) \
__CPROVER_loop_invariant((NV_GC_IN(dataset->columns) && column > nv_gc) ==> (enable_scaling.g == (NV_CATEGORICAL(nv_gf_kind) ? 0 : 1))) \
__CPROVER_decreases(enable_scaling.n - column)

/* make_targets_stats: throws iff the dataset has no (valid) target; otherwise the mask is all zeros for a categorical target and all
 * ones for a continuous one */
#define NV_CONTRACT_stats_make_targets NV_MK_REQUIRES(NV_SRC_TARGETS, -1) \
__CPROVER_assigns(NV_MK_GHOSTS) \
__CPROVER_ensures(nv_thrown == (dataset->target.kind == NV_K_INVALID)) \
__CPROVER_ensures(nv_thrown ? (nv_upd_calls == 0 && nv_done_calls == 0) : NV_MK_COMMON(dataset->tsize)) \
__CPROVER_ensures((!nv_thrown && NV_GC_IN(dataset->tsize)) ==> (nv_mask_present && (nv_mask == 0) == NV_CATEGORICAL(dataset->target.kind) && (nv_mask == 0 || nv_mask == 1)))
#define NV_MK_BATCH_LOOP(DIMS) \
__CPROVER_assigns(i, NV_MK_GHOSTS, stats.m_samples.g, stats.m_min.g, stats.m_max.g, stats.m_mean.g, stats.m_stdev.g) \
__CPROVER_loop_invariant(0 <= i && i < size + batch && size == samples.e && nv_done_calls == 0 && !nv_thrown && nv_ctor_calls == 1 && nv_ctor_dims == (DIMS)) \
__CPROVER_loop_invariant(NV_STATS_OK(&stats, nv_gc) && stats.m_min.n == (DIMS) && (nv_upd_calls == 0 || nv_the_stats == &stats)) \
__CPROVER_loop_invariant(nv_cov == ((0 <= nv_gi && nv_gi < i && nv_gi < size) ? 1 : 0)) \
__CPROVER_decreases(size + batch - i)
#define NV_LOOP_stats_make_targets_1 NV_MK_BATCH_LOOP(dataset->tsize)

/* make_feature_stats: throws iff the feature is not continuous (categorical or invalid); otherwise every component is rescaled */
/* the feature `ifeature` is the ghost feature (nv_gf == ifeature): kind nv_gf_kind, size(dims) nv_gf_dsize */
#define NV_CONTRACT_stats_make_feature NV_MK_REQUIRES((nv_gf_kind == NV_K_SCALAR ? NV_SRC_SCALAR : NV_SRC_STRUCT), ifeature) \
__CPROVER_requires(0 <= ifeature && ifeature < dataset->features && nv_gf == ifeature /* dataset.feature(i) asserts the range */) \
__CPROVER_assigns(NV_MK_GHOSTS) \
__CPROVER_ensures(nv_thrown == !(nv_gf_kind == NV_K_SCALAR || nv_gf_kind == NV_K_STRUCT)) \
__CPROVER_ensures(nv_thrown ? (nv_upd_calls == 0 && nv_done_calls == 0) : NV_MK_COMMON(nv_gf_dsize)) \
__CPROVER_ensures((!nv_thrown && NV_GC_IN(nv_gf_dsize)) ==> (nv_mask_present && nv_mask == 1))
#define NV_LOOP_stats_make_feature_1 NV_MK_BATCH_LOOP(nv_gf_dsize)
#define NV_LOOP_stats_make_feature_2 NV_MK_BATCH_LOOP(nv_gf_dsize)
#endif
