/* C14, rank-4 wrappers: scalar_stats_t::scale / upscale(scaling_type, tensor4d_map_t) (src/dataset/stats.cpp).
 *     assert(values.size() == m_min.size() * values.size<0>());
 *     scale(scaling, values.reshape(values.size<0>(), -1));
 * They hand the rank-2 kernel (contracts in stats.h, proved by the targets stats_scale / stats_upscale and used here by
 * replacement) the SAME data viewed as (samples) x (product of the trailing dims), and the kernel's size precondition
 * `columns == m_min.size()` is exactly the wrapper's assert.
 *
 * tensor4d_map_t, ghost-element model: dims (rows, d1, d2, d3); `inner` NAMES the product d1*d2*d3 (never computed on the
 * C side: engine/README "Products must be NAMED"); the tracked coefficient is (sample kr, flat trailing offset kc), which
 * is the row-major position kr * inner + kc of the data. */
#ifndef NV_C14_WRAP_H
#define NV_C14_WRAP_H
struct nv_t4d { double* g; int64_t rows, inner, kr, kc; };
#define NV_T4D_OK(t, KR, KC) ((t).rows >= 0 && (t).rows <= NV_MAXN && (t).inner >= 0 && (t).inner <= NV_MAXN && (t).kr == (KR) && (t).kc == (KC) \
  && __CPROVER_is_fresh((t).g, sizeof(double)))

/* values.reshape(r, c) with c == -1 (ASSUMED contract; it is the contract PROVED for the real treshape in specs/C16:
 * "reshape keeps the data pointer", "dims[0] == sizes[0]", "the -1 is inferred as size() divided by the product of the other
 * sizes", precondition "the product of the others is NON-ZERO (otherwise the code divides by zero) and divides size()").
 * With size() == rows * inner:  r == rows (and c == -1 or c == inner)  =>  the (inferred) extent is inner and row-major positions coincide, so the tracked
 * coefficient (kr, kc) of the rank-4 map is coefficient (kr, kc) of the rank-2 map.  Any other request yields a view of
 * which this model knows nothing (arbitrary column count, arbitrary tracked position). */
int64_t nv_reshape_calls;
static struct nv_t2d nv_t4d_reshape2(struct nv_t4d t, int64_t r, int64_t c)
{
  struct nv_t2d v;
  __CPROVER_assert((r >= 0 || r == -1) && (c >= 0 || c == -1) && !(r == -1 && c == -1), "reshape(r, c): every size is >= 0 except at most one -1");
  __CPROVER_assert(!(c == -1 && r == 0) && !(r == -1 && c == 0), "reshape with a -1: the other extent is non-zero (the inferred extent is -size() / -r: integer division by zero otherwise)");
  nv_reshape_calls = nv_reshape_calls + 1;
  v.g = t.g; v.rows = r;
  if (r == t.rows && (c == -1 || c == t.inner)) { v.cols = t.inner; v.kr = t.kr; v.kc = t.kc; }
  else
  {
    v.cols = nv_nondet_int64_t(); v.kr = nv_nondet_int64_t(); v.kc = nv_nondet_int64_t();
    __CPROVER_assume(0 <= v.cols && v.cols <= NV_MAXN);
  }
  return v;
}

/* the wrapper's own precondition (its assert):  size() == m_min.size() * size<0>()  with size() == rows * inner.
 * For rows >= 1 this is  inner == m_min.size()  (lemma over Int, proved by back end B: lemma/rank-4 ...).
 * rows >= 1: every caller in src/dataset/iterator.cpp passes a non-empty batch (parallel map never produces an empty
 * chunk); for rows == 0 the assert holds for ANY trailing dims and reshape(0, -1) divides by zero: see
 * FINDING_empty_batch_rank4.md.  The first obligation of nv_t4d_reshape2 states exactly this requirement. */
#define NV_WRAP_REQUIRES \
__CPROVER_requires(__CPROVER_is_fresh(self, sizeof(*self)) && NV_STATS_OK(self, nv_gc) && NV_T4D_OK(values, nv_gs, nv_gc)) \
__CPROVER_requires(values.rows >= 1 && values.inner == self->m_min.n) \
__CPROVER_requires(NV_IDENT(nv_v0, *values.g) && nv_reshape_calls == 0)
/* property clause, rank 4: at an arbitrary (sample nv_gs, trailing offset nv_gc) the stored value is the kernel's formula of the
 * value that was there (the rank-2 contract, literally), an invalid mode throws with the values untouched; the statistics are
 * not written (frame); the data were reshaped exactly once */
#define NV_IN4(t) (0 <= (t).kr && (t).kr < (t).rows && 0 <= (t).kc && (t).kc < (t).inner)
#define NV_WRAP_ENSURES \
__CPROVER_assigns(*values.g, nv_other_d, nv_thrown, nv_reshape_calls) \
__CPROVER_ensures(nv_thrown == !NV_VALID_MODE(scaling) && nv_reshape_calls == 1) \
__CPROVER_ensures((NV_VALID_MODE(scaling) && NV_IN4(values)) ? NV_IDENT(*values.g, nv_x_expected) : NV_IDENT(*values.g, nv_v0))
#define NV_CONTRACT_stats_scale4 NV_WRAP_REQUIRES \
__CPROVER_requires(NV_IDENT(nv_x_expected, NV_NAN2ZERO(NV_SEL(NV_F_SCALE, scaling, nv_v0, self)))) \
NV_WRAP_ENSURES
#define NV_CONTRACT_stats_upscale4 NV_WRAP_REQUIRES \
__CPROVER_requires(NV_IDENT(nv_x_expected, NV_SEL(NV_F_UPSCALE, scaling, nv_v0, self))) \
NV_WRAP_ENSURES
#endif
