/* C14 (e): src/linear.cpp ::fit -- the (statistics, scaling) pairs handed to nano::upscale are the ones the training data
 * were scaled with.  Built ON TOP of the protocol model of specs/C11/linear.h (included before this file by the generated
 * prelude: ghost provenance tags on every tensor; its nv_upscale stub asserts "the flatten / targets statistics of the
 * iterator the objective was fitted over, in this order" and "the scaling the objective was fitted with").  C11 drops the
 * cache_flatten / cache_targets calls; here they are modelled, because they FREEZE the scaling of the data:
 *   src/dataset/iterator.cpp (ASSUMED, read off the code): cache_flatten(max) may or may not succeed; when it succeeds the
 *   cache holds flatten(dataset.flatten(..)) = the inputs scaled with (m_flatten_stats, scaling() AT THAT MOMENT) and every
 *   later flatten(tnum, range) returns slices of the cache; likewise cache_targets with (m_targets_stats, m_scaling).
 * (That flatten(data) / targets(data) scale with exactly the pair the getters flatten_stats() / targets_stats() / scaling()
 * return is proved on the real iterator code by the targets it_* of specs/C14/iter.h.) */
#ifndef NV_C14_FIT_H
#define NV_C14_FIT_H
_Bool nv_c_flat_cached, nv_c_targ_cached; int32_t nv_c_flat_scaling, nv_c_targ_scaling; uint64_t nv_c_flat_it, nv_c_targ_it;
static _Bool nv_c14_cache_flatten(struct nv_fiter* it)
{ nv_c_flat_cached = nv_nondet__Bool(); if (nv_c_flat_cached) { nv_c_flat_scaling = it->scaling; nv_c_flat_it = it->id; } return nv_c_flat_cached; }
static _Bool nv_c14_cache_targets(struct nv_fiter* it)
{ nv_c_targ_cached = nv_nondet__Bool(); if (nv_c_targ_cached) { nv_c_targ_scaling = it->scaling; nv_c_targ_it = it->id; } return nv_c_targ_cached; }
/* model.make_function(iterator, loss, params): the objective reads its batches through `iterator`: cached batches keep the
 * scaling they were cached with, the others are scaled with the iterator's current scaling */
static struct nv_lfunction nv_c14_make_function(const struct nv_linear* model, const struct nv_fiter* it, struct nv_lt params)
{
  __CPROVER_assert(!nv_c_flat_cached || (nv_c_flat_it == it->id && nv_c_flat_scaling == it->scaling), "fit: the cached inputs were scaled with the scaling the objective is fitted with (and reported to upscale)");
  __CPROVER_assert(!nv_c_targ_cached || (nv_c_targ_it == it->id && nv_c_targ_scaling == it->scaling), "fit: the cached targets were scaled with the scaling the objective is fitted with (and reported to upscale)");
  return nv_make_function(model, it, params);
}
/* the contract of C11's linear_fit_inner (same clauses), plus the cache ghosts in the frame */
#define NV_CONTRACT_linear_fit_prov \
__CPROVER_requires(NV_LT_FRESH(NV_ARG_linear_fit_prov_0) && NV_LT_FRESH(NV_ARG_linear_fit_prov_2) && NV_LT_FRESH(NV_ARG_linear_fit_prov_7)) \
__CPROVER_requires(!nv_c_flat_cached && !nv_c_targ_cached) \
__CPROVER_assigns(nv_id_counter, nv_minimized, nv_lf_state, nv_upscaled, nv_lstat_sink, nv_c_flat_cached, nv_c_targ_cached, nv_c_flat_scaling, nv_c_targ_scaling, nv_c_flat_it, nv_c_targ_it) \
__CPROVER_ensures(nv_minimized == __CPROVER_old(nv_minimized) + 1 && nv_upscaled == __CPROVER_old(nv_upscaled) + 1) \
__CPROVER_ensures(NV_FITTED(__CPROVER_return_value.m_weights, NV_PART_WEIGHTS, NV_ARG_linear_fit_prov_2->id, NV_ARG_linear_fit_prov_5.id)) \
__CPROVER_ensures(NV_FITTED(__CPROVER_return_value.m_bias, NV_PART_BIAS, NV_ARG_linear_fit_prov_2->id, NV_ARG_linear_fit_prov_5.id))
#endif
