/* C14: feature scaling (src/dataset/stats.cpp).  C models, assumed contracts of the dependencies and the contracts of
 * the extracted functions.  Universal statements over columns / rows are stated at ghost indices (DESIGN 4.3):
 *   nv_gc  an arbitrary column (component of the statistics),   nv_gs  an arbitrary sample (row of the value matrix).
 * Every global is nondeterministic at entry (goto-instrument --nondet-static), so the ghost indices are arbitrary. */
#ifndef NV_C14_STATS_H
#define NV_C14_STATS_H
#include "nv_base.h"

/* ---------------------------------------------------------------------------------------------- type models */
/* rank-1 tensors are modelled by their length and ONE element, the one at the ghost column nv_gc (`g`).
 * Element access t(i) goes through nv_gvd_at / nv_gvi_at / nv_gvu_at: in-range check, the ghost cell for i == nv_gc, a
 * scratch cell with forgotten contents for any other i.  No symbolic-length array is ever allocated. */
struct nv_gvd { double g; int64_t n; };                  /* tensor1d_t (owning storage): the ghost element is held inline */
struct nv_gvi { int64_t g; int64_t n; };                 /* indices_t */
struct nv_gvu { uint8_t g; int64_t n; };                 /* tensor_mem_t<uint8_t, 1> */
#define NV_MAXN 1000000
#define NV_GVD_OK(t) ((t).n >= 0 && (t).n <= NV_MAXN)
#define NV_GVI_OK(t) ((t).n >= 0 && (t).n <= NV_MAXN)
#define NV_GVU_OK(t) ((t).n >= 0 && (t).n <= NV_MAXN)
struct nv_stats                                          /* nano::scalar_stats_t */
{
  struct nv_gvi m_samples;
  struct nv_gvd m_min, m_max, m_mean, m_stdev, m_div_range, m_mul_range, m_div_stdev, m_mul_stdev;
};
/* representation invariant of scalar_stats_t (constructor: all nine tensors have `dims` components) */
#define NV_STATS_FRESH(s) (__CPROVER_is_fresh(s, sizeof(struct nv_stats)) && NV_GVI_OK((s)->m_samples) \
  && NV_GVD_OK((s)->m_min) && NV_GVD_OK((s)->m_max) && NV_GVD_OK((s)->m_mean) && NV_GVD_OK((s)->m_stdev) \
  && NV_GVD_OK((s)->m_div_range) && NV_GVD_OK((s)->m_mul_range) && NV_GVD_OK((s)->m_div_stdev) && NV_GVD_OK((s)->m_mul_stdev) \
  && (s)->m_min.n == (s)->m_samples.n && (s)->m_max.n == (s)->m_samples.n && (s)->m_mean.n == (s)->m_samples.n \
  && (s)->m_stdev.n == (s)->m_samples.n && (s)->m_div_range.n == (s)->m_samples.n && (s)->m_mul_range.n == (s)->m_samples.n \
  && (s)->m_div_stdev.n == (s)->m_samples.n && (s)->m_mul_stdev.n == (s)->m_samples.n)
/* a rank-2 map (tensor2d_map_t / tensor2d_cmap_t): its extents and ONE element, the one at (nv_gs, nv_gc) */
struct nv_t2d { double* g; int64_t rows, cols; };
#define NV_T2D_OK(t) ((t).rows >= 0 && (t).rows <= NV_MAXN && (t).cols >= 0 && (t).cols <= NV_MAXN && __CPROVER_is_fresh((t).g, sizeof(double)))

/* bit-identical doubles (distinguishes -0.0 from 0.0 and NaN payloads, as the congruence of the uninterpreted float
 * operations does): "the stored value is exactly that value" */
union nv_bits { double d; uint64_t u; };
#define NV_BITS(x) (((union nv_bits){ .d = (x) }).u)
#define NV_IDENT(a, b) (NV_BITS(a) == NV_BITS(b))
static uint8_t nv_nondet_u8(void) { uint8_t x; return x; }

int64_t nv_gc;   /* ghost column */
int64_t nv_gs;   /* ghost sample (row) */

/* ---------------------------------------------------------------------------------------------- scalar dependencies */
static double nv_fmin(double a, double b) { return (b < a) ? b : a; }          /* std::min: (b < a) ? b : a */
static double nv_fmax(double a, double b) { return (a < b) ? b : a; }          /* std::max: (a < b) ? b : a */
static _Bool  nv_isfinite(double a) { return __CPROVER_isfinited(a); }         /* std::isfinite */
#define NV_ISFIN(x) __CPROVER_isfinited(x)
/* epsilon2<scalar_t>() = roundpow10(sqrt(DBL_EPSILON)): assumed to be some positive finite constant < 1 */
double nv_eps;
#define NV_EPS_OK (0.0 < nv_eps && nv_eps < 1.0)
static double nv_epsilon2(void) { return nv_eps; }
/* std::sqrt: a function (uninterpreted), with the IEEE facts: NaN for negative / NaN arguments, a non-negative
 * non-NaN result otherwise */
double __CPROVER_uninterpreted_sqrt(double);
#define NV_SQRT(x) __CPROVER_uninterpreted_sqrt(x)
static double nv_sqrt(double x)
{
  double r = NV_SQRT(x);
  __CPROVER_assume((x >= 0.0) ? (r >= 0.0) : (r != r));
  return r;
}
/* the only arithmetic fact used about the uninterpreted float operations: the IEEE difference of two finite numbers
 * a >= b is a non-negative number (possibly +inf), never NaN.  NV_FSUBM is NV_FSUB plus that fact. */
#define NV_USUB(a, b) __CPROVER_uninterpreted_fsub(a, b)      /* the raw uninterpreted difference: used in contracts */
static double nv_fsub_mono(double a, double b)
{
  double r = NV_USUB(a, b);
  __CPROVER_assume((NV_ISFIN(a) && NV_ISFIN(b) && a >= b) ==> (r >= 0.0));
  return r;
}

#undef NV_FSUB
#define NV_FSUB(a, b) nv_fsub_mono(a, b)                          /* what extracted code calls for a double `-` */

/* ============================================================================================== ::update
 * "missing values ... without affecting the statistics": per column, the statistics are the fold of
 *      finite v:  count+1, sum+v, sumsq+v*v, min(min,v), max(max,v)        non-finite v: nothing
 * over the rows of that column, each row consumed exactly once, in order.  The specification's accumulator for the
 * ghost column is advanced by the stub that models reading values(sample, column). */
int64_t nv_spec_rows; _Bool nv_spec_ok; int64_t nv_spec_n0;   /* rows consumed, in order?, count on entry */
int64_t nv_spec_n; double nv_spec_sum, nv_spec_sq, nv_spec_min, nv_spec_max;
double nv_w_value;   /* witness: last value read in the ghost column */
static double nv_t2d_read(const struct nv_t2d* t, int64_t r, int64_t c)
{
  __CPROVER_assert(0 <= r && r < t->rows && 0 <= c && c < t->cols, "values(sample, column): indices in range");
  double v = nv_nondet_double();     /* arbitrary matrix contents, NaN and infinities included */
  if (c == nv_gc)
  {
    nv_w_value = v;
    nv_spec_ok = nv_spec_ok && (r == nv_spec_rows);
    nv_spec_rows = nv_spec_rows + 1;
    if (NV_ISFIN(v))
    {
      nv_spec_n = nv_spec_n + 1;
      nv_spec_sum = NV_FADD(nv_spec_sum, v);
      nv_spec_sq = NV_FADD(nv_spec_sq, NV_FMUL(v, v));
      nv_spec_min = (v < nv_spec_min) ? v : nv_spec_min;
      nv_spec_max = (nv_spec_max < v) ? v : nv_spec_max;
    }
  }
  return v;
}
/* element access t(i): the ghost column is the real cell; any other column is a scratch cell with forgotten contents
 * (counts are only known to be in [0, 2^62]: they are bounded by the number of samples ever seen, so `+= 1` cannot
 * overflow) */
double nv_other_d; int64_t nv_other_i; uint8_t nv_other_u;
static double* nv_gvd_at(struct nv_gvd* t, int64_t i)
{
  __CPROVER_assert(0 <= i && i < t->n, "tensor(i): index in range");
  if (i == nv_gc) return &t->g;
  nv_other_d = nv_nondet_double();
  return &nv_other_d;
}
static int64_t* nv_gvi_at(struct nv_gvi* t, int64_t i)
{
  __CPROVER_assert(0 <= i && i < t->n, "tensor(i): index in range");
  if (i == nv_gc) return &t->g;
  nv_other_i = nv_nondet_int64_t();
  __CPROVER_assume(0 <= nv_other_i && nv_other_i <= (1LL << 62));
  return &nv_other_i;
}
static const uint8_t* nv_gvu_at(const struct nv_gvu* t, int64_t i)
{
  __CPROVER_assert(0 <= i && i < t->n, "tensor(i): index in range");
  if (i == nv_gc) return &t->g;
  nv_other_u = nv_nondet_u8();
  return &nv_other_u;
}
/* accumulator invariant of one column (established by the constructor: count 0, min = DBL_MAX, max = -DBL_MAX;
 * preserved by ::update -- proved below): no sample yet, or finite min <= max */
#define NV_DBL_MAX 1.7976931348623157e308
#define NV_ACC_INV(n, mn, mx) ((n) >= 0 && (((n) == 0) ? ((mn) == NV_DBL_MAX && (mx) == -NV_DBL_MAX) : (NV_ISFIN(mn) && NV_ISFIN(mx) && (mn) <= (mx))))
#define NV_COL(s, f) ((s)->f.g)
#define NV_SPEC_IS_STATS(s) (NV_COL(s, m_samples) == nv_spec_n && NV_IDENT(NV_COL(s, m_mean), nv_spec_sum) && NV_IDENT(NV_COL(s, m_stdev), nv_spec_sq) \
  && NV_IDENT(NV_COL(s, m_min), nv_spec_min) && NV_IDENT(NV_COL(s, m_max), nv_spec_max))

#define NV_CONTRACT_stats_update \
__CPROVER_requires(NV_STATS_FRESH(stats) && __CPROVER_is_fresh(values, sizeof(*values)) && values->rows >= 0 && values->rows <= NV_MAXN) \
__CPROVER_requires(values->cols == stats->m_min.n /* the assert on the first line of ::update; callers pass dataset.columns() wide batches */) \
__CPROVER_requires(0 <= nv_gc && nv_gc < stats->m_samples.n) \
__CPROVER_requires(NV_COL(stats, m_samples) <= (1LL << 62) && NV_ACC_INV(NV_COL(stats, m_samples), NV_COL(stats, m_min), NV_COL(stats, m_max))) \
__CPROVER_requires(nv_spec_rows == 0 && nv_spec_ok && NV_SPEC_IS_STATS(stats) && nv_spec_n0 == nv_spec_n) \
__CPROVER_assigns(NV_COL(stats, m_samples), NV_COL(stats, m_mean), NV_COL(stats, m_stdev), NV_COL(stats, m_min), NV_COL(stats, m_max)) \
__CPROVER_assigns(nv_spec_rows, nv_spec_ok, nv_spec_n, nv_spec_sum, nv_spec_sq, nv_spec_min, nv_spec_max, nv_w_value, nv_other_d, nv_other_i) \
/* every row of the column was consumed exactly once, in order, and the statistics are the specification's fold */ \
__CPROVER_ensures(nv_spec_ok && nv_spec_rows == values->rows && NV_SPEC_IS_STATS(stats)) \
/* the count never exceeds the rows seen; the accumulator invariant is preserved (finite min <= max once a sample counted) */ \
__CPROVER_ensures(NV_COL(stats, m_samples) >= __CPROVER_old(NV_COL(stats, m_samples)) && NV_COL(stats, m_samples) <= __CPROVER_old(NV_COL(stats, m_samples)) + values->rows) \
__CPROVER_ensures(NV_ACC_INV(NV_COL(stats, m_samples), NV_COL(stats, m_min), NV_COL(stats, m_max)))

#define NV_UPDATE_INV(extra) (nv_spec_ok && NV_SPEC_IS_STATS(stats) && nv_spec_rows == sample + (extra) \
  && nv_spec_n >= nv_spec_n0 && nv_spec_n <= nv_spec_n0 + nv_spec_rows \
  && NV_ACC_INV(nv_spec_n, nv_spec_min, nv_spec_max))
#define NV_UPDATE_LOOP_ASSIGNS \
  NV_COL(stats, m_samples), NV_COL(stats, m_mean), NV_COL(stats, m_stdev), NV_COL(stats, m_min), NV_COL(stats, m_max), \
  nv_spec_rows, nv_spec_ok, nv_spec_n, nv_spec_sum, nv_spec_sq, nv_spec_min, nv_spec_max, nv_w_value, nv_other_d, nv_other_i
#define NV_LOOP_stats_update_1 \
__CPROVER_assigns(sample, NV_UPDATE_LOOP_ASSIGNS) \
__CPROVER_loop_invariant(0 <= sample && sample <= samples && samples == values->rows && NV_UPDATE_INV(0)) \
__CPROVER_decreases(samples - sample)
#define NV_LOOP_stats_update_2 \
__CPROVER_assigns(column, NV_UPDATE_LOOP_ASSIGNS) \
__CPROVER_loop_invariant(0 <= column && column <= columns && columns == values->cols && NV_UPDATE_INV(column > nv_gc ? 1 : 0)) \
__CPROVER_decreases(columns - column)

/* ============================================================================================== ::done
 * per column (ghost column nv_gc), N = number of finite samples, `disabled` = the column's enable flag is present and 0
 * ("categorical columns are never rescaled"):
 *   N <= 1 or disabled  =>  div_* = mul_* = 1, stdev = 0 (neutral scaling)
 *   N == 0 or disabled  =>  min = max = mean = 0
 *   N  > 1 and enabled  =>  mean = sum/N, stdev = sqrt((sumsq - sum*sum/N)/(N-1)),
 *                           mul_range = max(max-min, eps), div_range = 1/mul_range  (the same denominator, bit-exact),
 *                           mul_stdev = max(stdev, eps),   div_stdev = 1/mul_stdev,
 *                           and both multipliers are numbers >= eps > 0  (so that div * mul = 1 over the reals) */
#define NV_DIS (nv_gc < enable_scaling->n && enable_scaling->g == 0)   /* enable_scaling is never written */
#define nv_fmax_m(a, b) (((a) < (b)) ? (b) : (a))
/* the specification's values for the ghost column, as functions of the accumulators on entry.  They are ghost globals
 * *defined* by the precondition (CBMC admits no uninterpreted function inside a loop invariant); being otherwise
 * unconstrained ghosts, the defining equations narrow nothing. */
int64_t nv_s_n; double nv_s_min, nv_s_max, nv_s_sum, nv_s_sq;         /* accumulators on entry */
double nv_s_mean, nv_s_stdev, nv_s_mul_range, nv_s_div_range, nv_s_mul_stdev, nv_s_div_stdev;
#define NV_S_DN ((double)nv_s_n)
#define NV_DONE_SPEC_DEFS (nv_s_n == NV_COL(stats, m_samples) && NV_IDENT(nv_s_min, NV_COL(stats, m_min)) && NV_IDENT(nv_s_max, NV_COL(stats, m_max)) \
  && NV_IDENT(nv_s_sum, NV_COL(stats, m_mean)) && NV_IDENT(nv_s_sq, NV_COL(stats, m_stdev)) \
  && NV_IDENT(nv_s_mean, NV_FDIV(nv_s_sum, NV_S_DN)) \
  && NV_IDENT(nv_s_stdev, NV_SQRT(NV_FDIV(NV_USUB(nv_s_sq, NV_FDIV(NV_FMUL(nv_s_sum, nv_s_sum), NV_S_DN)), NV_USUB(NV_S_DN, 1.0)))) \
  && NV_IDENT(nv_s_mul_range, nv_fmax_m(NV_USUB(nv_s_max, nv_s_min), nv_eps)) && NV_IDENT(nv_s_div_range, NV_FDIV(1.0, nv_s_mul_range)) \
  && NV_IDENT(nv_s_mul_stdev, nv_fmax_m(nv_s_stdev, nv_eps)) && NV_IDENT(nv_s_div_stdev, NV_FDIV(1.0, nv_s_mul_stdev)))
#define NV_DONE_C1 (NV_COL(stats, m_samples) == nv_s_n)
#define NV_DONE_C2 ((nv_s_n <= 1 || NV_DIS) ==> (NV_COL(stats, m_div_range) == 1.0 && NV_COL(stats, m_mul_range) == 1.0 && NV_COL(stats, m_div_stdev) == 1.0 \
                        && NV_COL(stats, m_mul_stdev) == 1.0 && NV_COL(stats, m_stdev) == 0.0))
#define NV_DONE_C3 ((nv_s_n == 0 || NV_DIS) ==> (NV_COL(stats, m_min) == 0.0 && NV_COL(stats, m_max) == 0.0 && NV_COL(stats, m_mean) == 0.0))
#define NV_DONE_C4 ((nv_s_n == 1 && !NV_DIS) ==> (NV_IDENT(NV_COL(stats, m_min), nv_s_min) && NV_IDENT(NV_COL(stats, m_max), nv_s_max) && NV_IDENT(NV_COL(stats, m_mean), nv_s_sum)))
#define NV_DONE_C5 ((nv_s_n > 1 && !NV_DIS) ==> (NV_IDENT(NV_COL(stats, m_min), nv_s_min) && NV_IDENT(NV_COL(stats, m_max), nv_s_max) \
                        && NV_IDENT(NV_COL(stats, m_mean), nv_s_mean) && NV_IDENT(NV_COL(stats, m_stdev), nv_s_stdev)))
#define NV_DONE_C6 ((nv_s_n > 1 && !NV_DIS) ==> (NV_IDENT(NV_COL(stats, m_mul_range), nv_s_mul_range) && NV_IDENT(NV_COL(stats, m_div_range), nv_s_div_range)))
#define NV_DONE_C7 ((nv_s_n > 1 && !NV_DIS) ==> (NV_IDENT(NV_COL(stats, m_mul_stdev), nv_s_mul_stdev) && NV_IDENT(NV_COL(stats, m_div_stdev), nv_s_div_stdev)))
/* the range multiplier is a number >= eps (finite min <= max; the IEEE difference of ordered finite numbers is >= 0) */
#define NV_DONE_C8 (NV_COL(stats, m_mul_range) >= nv_eps)
#define NV_DONE_OBJECTS \
  NV_COL(stats, m_min), NV_COL(stats, m_max), NV_COL(stats, m_mean), NV_COL(stats, m_stdev), NV_COL(stats, m_div_range), NV_COL(stats, m_mul_range), \
  NV_COL(stats, m_div_stdev), NV_COL(stats, m_mul_stdev), nv_other_d, nv_other_i, nv_other_u
#define NV_CONTRACT_stats_done \
__CPROVER_requires(NV_STATS_FRESH(stats) && __CPROVER_is_fresh(enable_scaling, sizeof(*enable_scaling)) && NV_GVU_OK(*enable_scaling)) \
__CPROVER_requires(0 <= nv_gc && nv_gc < stats->m_samples.n && NV_EPS_OK) \
/* accumulator invariant, established by the constructor and preserved by ::update (target stats_update) */ \
__CPROVER_requires(NV_ACC_INV(NV_COL(stats, m_samples), NV_COL(stats, m_min), NV_COL(stats, m_max))) \
__CPROVER_requires(NV_DONE_SPEC_DEFS) \
__CPROVER_assigns(NV_DONE_OBJECTS) \
__CPROVER_ensures(NV_DONE_C1) __CPROVER_ensures(NV_DONE_C2) __CPROVER_ensures(NV_DONE_C3) __CPROVER_ensures(NV_DONE_C4) \
__CPROVER_ensures(NV_DONE_C5) __CPROVER_ensures(NV_DONE_C6) __CPROVER_ensures(NV_DONE_C7) __CPROVER_ensures(NV_DONE_C8) \
/* the deviation multiplier is a number >= eps.  LAST clause on purpose: refuted on the unchanged library (the rounded \
 * variance can be negative, its sqrt is NaN and std::max(NaN, eps) is NaN), see replay/C14_replay.cpp */ \
__CPROVER_ensures(NV_COL(stats, m_mul_stdev) >= nv_eps)

#define NV_LOOP_stats_done_1 \
__CPROVER_assigns(i, NV_DONE_OBJECTS) \
__CPROVER_loop_invariant(0 <= i && i <= size && size == stats->m_samples.n) \
__CPROVER_loop_invariant(i <= nv_gc ==> (NV_IDENT(NV_COL(stats, m_min), nv_s_min) && NV_IDENT(NV_COL(stats, m_max), nv_s_max) \
   && NV_IDENT(NV_COL(stats, m_mean), nv_s_sum) && NV_IDENT(NV_COL(stats, m_stdev), nv_s_sq))) \
__CPROVER_loop_invariant(i > nv_gc ==> (NV_DONE_C1 && NV_DONE_C2 && NV_DONE_C3 && NV_DONE_C4 && NV_DONE_C5 && NV_DONE_C6 && NV_DONE_C7 && NV_DONE_C8)) \
__CPROVER_decreases(size - i)
#endif
