/* C14: feature scaling (src/dataset/stats.cpp).  C models, assumed contracts of the dependencies and the contracts of
 * the extracted functions.  Universal statements over columns / rows are stated at ghost indices (DESIGN 4.3):
 *   nv_gc  an arbitrary column (component of the statistics / feature),   nv_gs  an arbitrary sample (row of the value
 *   matrix) resp. target component.  Arrays are "ghost-element" models: shape + the one coefficient at the ghost position.
 * Every global is nondeterministic at entry (goto-instrument --nondet-static), so the ghost indices are arbitrary. */
#ifndef NV_C14_STATS_H
#define NV_C14_STATS_H
#include "nv_base.h"

/* ---------------------------------------------------------------------------------------------- type models */
/* "ghost-element" arrays: an array is modelled by its shape and ONE coefficient, the one at its ghost position `k`
 * (the contracts fix k to nv_gc / nv_gs).  Element access t(i) goes through nv_*_at: in-range check, the ghost cell for
 * i == k, a scratch cell with forgotten contents for any other i.  No symbolic-length array is ever allocated. */
struct nv_gvd { double g; int64_t n, k; };               /* tensor1d_t (owning storage): the ghost element is held inline */
struct nv_gvi { int64_t g; int64_t n, k; };              /* indices_t */
struct nv_gvu { uint8_t g; int64_t n, k; };              /* tensor_mem_t<uint8_t, 1> */
struct nv_view { double* g; int64_t n, k; };             /* 1-D views: tensor1d_map_t, Eigen::Map<Vector>, Eigen::ArrayWrapper<Map<Vector>> */
struct nv_t2d { double* g; int64_t rows, cols, kr, kc; };/* 2-D views: tensor2d_(c)map_t, Eigen::Map<Matrix>, ArrayWrapper of it */
struct nv_pair_gvd { struct nv_gvd _0, _1; };            /* std::pair<tensor1d_t, tensor1d_t> */
#define NV_MAXN (1LL << 40)        /* symbolic extents: only keeps counters inside int64_t */
#define NV_GV_OK(t, K) ((t).n >= 0 && (t).n <= NV_MAXN && (t).k == (K))
struct nv_stats                                          /* nano::scalar_stats_t */
{
  struct nv_gvi m_samples;
  struct nv_gvd m_min, m_max, m_mean, m_stdev, m_div_range, m_mul_range, m_div_stdev, m_mul_stdev;
};
/* representation invariant of scalar_stats_t (constructor: all nine tensors have `dims` components), tracked at K */
#define NV_STATS_OK(s, K) (NV_GV_OK((s)->m_samples, K) \
  && NV_GV_OK((s)->m_min, K) && NV_GV_OK((s)->m_max, K) && NV_GV_OK((s)->m_mean, K) && NV_GV_OK((s)->m_stdev, K) \
  && NV_GV_OK((s)->m_div_range, K) && NV_GV_OK((s)->m_mul_range, K) && NV_GV_OK((s)->m_div_stdev, K) && NV_GV_OK((s)->m_mul_stdev, K) \
  && (s)->m_min.n == (s)->m_samples.n && (s)->m_max.n == (s)->m_samples.n && (s)->m_mean.n == (s)->m_samples.n \
  && (s)->m_stdev.n == (s)->m_samples.n && (s)->m_div_range.n == (s)->m_samples.n && (s)->m_mul_range.n == (s)->m_samples.n \
  && (s)->m_div_stdev.n == (s)->m_samples.n && (s)->m_mul_stdev.n == (s)->m_samples.n)
#define NV_STATS_FRESH(s) (__CPROVER_is_fresh(s, sizeof(struct nv_stats)) && NV_STATS_OK(s, nv_gc))
#define NV_VIEW_OK(v, K) ((v).n >= 0 && (v).n <= NV_MAXN && (v).k == (K) && __CPROVER_is_fresh((v).g, sizeof(double)))
#define NV_T2D_OK(t, KR, KC) ((t).rows >= 0 && (t).rows <= NV_MAXN && (t).cols >= 0 && (t).cols <= NV_MAXN && (t).kr == (KR) && (t).kc == (KC) \
  && __CPROVER_is_fresh((t).g, sizeof(double)))

/* bit-identical doubles (distinguishes -0.0 from 0.0 and NaN payloads, as the congruence of the uninterpreted float
 * operations does): "the stored value is exactly that value" */
union nv_bits { double d; uint64_t u; };
#define NV_BITS(x) (((union nv_bits){ .d = (x) }).u)
#define NV_IDENT(a, b) (NV_BITS(a) == NV_BITS(b))
static uint8_t nv_nondet_u8(void) { uint8_t x; return x; }

int64_t nv_gc;   /* ghost column */
int64_t nv_gs;   /* ghost sample (row) */

/* ---------------------------------------------------------------------------------------------- scalar dependencies */
static double nv_fmin(double a, double b) { return (b < a) ? b : a; }          /* std::min: (b < a) ? b : a */
static double nv_fmax(double a, double b) { return (a < b) ? b : a; }          /* std::max: (a < b) ? b : a */
static _Bool  nv_isfinite(double a) { return __CPROVER_isfinited(a); }         /* std::isfinite */
#define NV_ISFIN(x) __CPROVER_isfinited(x)
/* epsilon2<scalar_t>() = roundpow10(sqrt(DBL_EPSILON)): assumed to be some positive finite constant < 1 */
double nv_eps;
#define NV_EPS_OK (0.0 < nv_eps && nv_eps < 1.0)
static double nv_epsilon2(void) { return nv_eps; }
/* std::sqrt: a function (uninterpreted), with the IEEE facts: NaN for negative / NaN arguments, a non-negative
 * non-NaN result otherwise */
double __CPROVER_uninterpreted_sqrt(double);
#define NV_SQRT(x) __CPROVER_uninterpreted_sqrt(x)
static double nv_sqrt(double x)
{
  double r = NV_SQRT(x);
  __CPROVER_assume((x >= 0.0) ? (r >= 0.0) : (r != r));
  return r;
}
/* the only arithmetic fact used about the uninterpreted float operations: the IEEE difference of two finite numbers
 * a >= b is a non-negative number (possibly +inf), never NaN.  Extracted code calls nv_fsub_mono for every double `-`. */
#define NV_USUB(a, b) __CPROVER_uninterpreted_fsub(a, b)      /* the raw uninterpreted difference: used in contracts */
static double nv_fsub_mono(double a, double b)
{
  double r = NV_USUB(a, b);
  __CPROVER_assume((NV_ISFIN(a) && NV_ISFIN(b) && a >= b) ==> (r >= 0.0));
  return r;
}

#undef NV_FSUB
#define NV_FSUB(a, b) nv_fsub_mono(a, b)                          /* what extracted code calls for a double `-` */

/* ============================================================================================== scalar_stats_t(dims)
 * establishes the representation invariant and the accumulator invariant NV_ACC_INV of every column (count 0,
 * min = DBL_MAX, max = -DBL_MAX), zero sums and neutral scaling */
#define NV_CONTRACT_stats_ctor \
__CPROVER_requires(__CPROVER_is_fresh(self, sizeof(*self)) && 0 <= dims && dims <= NV_MAXN) \
__CPROVER_assigns(*self) \
__CPROVER_ensures(NV_STATS_OK(self, nv_gc) && self->m_samples.n == dims) \
__CPROVER_ensures(NV_COL(self, m_samples) == 0 && NV_COL(self, m_mean) == 0.0 && NV_COL(self, m_stdev) == 0.0) \
__CPROVER_ensures(NV_ACC_INV(NV_COL(self, m_samples), NV_COL(self, m_min), NV_COL(self, m_max))) \
__CPROVER_ensures(NV_COL(self, m_div_range) == 1.0 && NV_COL(self, m_mul_range) == 1.0 && NV_COL(self, m_div_stdev) == 1.0 && NV_COL(self, m_mul_stdev) == 1.0)

/* ============================================================================================== ::update
 * "missing values ... without affecting the statistics": per column, the statistics are the fold of
 *      finite v:  count+1, sum+v, sumsq+v*v, min(min,v), max(max,v)        non-finite v: nothing
 * over the rows of that column, each row consumed exactly once, in order.  The specification's accumulator for the
 * ghost column is advanced by the stub that models reading values(sample, column). */
int64_t nv_spec_rows; _Bool nv_spec_ok; int64_t nv_spec_n0;   /* rows consumed, in order?, count on entry */
int64_t nv_spec_n; double nv_spec_sum, nv_spec_sq, nv_spec_min, nv_spec_max;
double nv_w_value;   /* witness: last value read in the ghost column */
static double nv_t2d_read(const struct nv_t2d* t, int64_t r, int64_t c)
{
  __CPROVER_assert(0 <= r && r < t->rows && 0 <= c && c < t->cols, "values(sample, column): indices in range");
  double v = nv_nondet_double();     /* arbitrary matrix contents, NaN and infinities included */
  if (c == t->kc)
  {
    nv_w_value = v;
    nv_spec_ok = nv_spec_ok && (r == nv_spec_rows);
    nv_spec_rows = nv_spec_rows + 1;
    if (NV_ISFIN(v))
    {
      nv_spec_n = nv_spec_n + 1;
      nv_spec_sum = NV_FADD(nv_spec_sum, v);
      nv_spec_sq = NV_FADD(nv_spec_sq, NV_FMUL(v, v));
      nv_spec_min = (v < nv_spec_min) ? v : nv_spec_min;
      nv_spec_max = (nv_spec_max < v) ? v : nv_spec_max;
    }
  }
  return v;
}
/* element access t(i): the ghost column is the real cell; any other column is a scratch cell with forgotten contents
 * (counts are only known to be in [0, 2^62]: they are bounded by the number of samples ever seen, so `+= 1` cannot
 * overflow) */
double nv_other_d; int64_t nv_other_i; uint8_t nv_other_u;
static double* nv_gvd_at(struct nv_gvd* t, int64_t i)
{
  __CPROVER_assert(0 <= i && i < t->n, "tensor(i): index in range");
  if (i == t->k) return &t->g;
  nv_other_d = nv_nondet_double();
  return &nv_other_d;
}
static int64_t* nv_gvi_at(struct nv_gvi* t, int64_t i)
{
  __CPROVER_assert(0 <= i && i < t->n, "tensor(i): index in range");
  if (i == t->k) return &t->g;
  nv_other_i = nv_nondet_int64_t();
  __CPROVER_assume(0 <= nv_other_i && nv_other_i <= (1LL << 62));
  return &nv_other_i;
}
static const uint8_t* nv_gvu_at(const struct nv_gvu* t, int64_t i)
{
  __CPROVER_assert(0 <= i && i < t->n, "tensor(i): index in range");
  if (i == t->k) return &t->g;
  nv_other_u = nv_nondet_u8();
  return &nv_other_u;
}
/* accumulator invariant of one column (established by the constructor: count 0, min = DBL_MAX, max = -DBL_MAX;
 * preserved by ::update -- proved below): no sample yet, or finite min <= max */
#define NV_DBL_MAX 1.7976931348623157e308
#define NV_ACC_INV(n, mn, mx) ((n) >= 0 && (((n) == 0) ? ((mn) == NV_DBL_MAX && (mx) == -NV_DBL_MAX) : (NV_ISFIN(mn) && NV_ISFIN(mx) && (mn) <= (mx))))
#define NV_COL(s, f) ((s)->f.g)
#define NV_SPEC_IS_STATS(s) (NV_COL(s, m_samples) == nv_spec_n && NV_IDENT(NV_COL(s, m_mean), nv_spec_sum) && NV_IDENT(NV_COL(s, m_stdev), nv_spec_sq) \
  && NV_IDENT(NV_COL(s, m_min), nv_spec_min) && NV_IDENT(NV_COL(s, m_max), nv_spec_max))

#define NV_CONTRACT_stats_update \
__CPROVER_requires(NV_STATS_FRESH(stats) && __CPROVER_is_fresh(values, sizeof(*values)) && values->rows >= 0 && values->rows <= NV_MAXN && values->kc == nv_gc) \
__CPROVER_requires(values->cols == stats->m_min.n /* the assert on the first line of ::update; callers pass dataset.columns() wide batches */) \
__CPROVER_requires(0 <= nv_gc && nv_gc < stats->m_samples.n) \
__CPROVER_requires(NV_COL(stats, m_samples) <= (1LL << 62) && NV_ACC_INV(NV_COL(stats, m_samples), NV_COL(stats, m_min), NV_COL(stats, m_max))) \
__CPROVER_requires(nv_spec_rows == 0 && nv_spec_ok && NV_SPEC_IS_STATS(stats) && nv_spec_n0 == nv_spec_n) \
__CPROVER_assigns(NV_COL(stats, m_samples), NV_COL(stats, m_mean), NV_COL(stats, m_stdev), NV_COL(stats, m_min), NV_COL(stats, m_max)) \
__CPROVER_assigns(nv_spec_rows, nv_spec_ok, nv_spec_n, nv_spec_sum, nv_spec_sq, nv_spec_min, nv_spec_max, nv_w_value, nv_other_d, nv_other_i) \
/* every row of the column was consumed exactly once, in order, and the statistics are the specification's fold */ \
__CPROVER_ensures(nv_spec_ok && nv_spec_rows == values->rows && NV_SPEC_IS_STATS(stats)) \
/* the count never exceeds the rows seen; the accumulator invariant is preserved (finite min <= max once a sample counted) */ \
__CPROVER_ensures(NV_COL(stats, m_samples) >= __CPROVER_old(NV_COL(stats, m_samples)) && NV_COL(stats, m_samples) <= __CPROVER_old(NV_COL(stats, m_samples)) + values->rows) \
__CPROVER_ensures(NV_ACC_INV(NV_COL(stats, m_samples), NV_COL(stats, m_min), NV_COL(stats, m_max)))

#define NV_UPDATE_INV(extra) (nv_spec_ok && NV_SPEC_IS_STATS(stats) && nv_spec_rows == sample + (extra) \
  && nv_spec_n >= nv_spec_n0 && nv_spec_n <= nv_spec_n0 + nv_spec_rows \
  && NV_ACC_INV(nv_spec_n, nv_spec_min, nv_spec_max))
#define NV_UPDATE_LOOP_ASSIGNS \
  NV_COL(stats, m_samples), NV_COL(stats, m_mean), NV_COL(stats, m_stdev), NV_COL(stats, m_min), NV_COL(stats, m_max), \
  nv_spec_rows, nv_spec_ok, nv_spec_n, nv_spec_sum, nv_spec_sq, nv_spec_min, nv_spec_max, nv_w_value, nv_other_d, nv_other_i
#define NV_LOOP_stats_update_1 \
__CPROVER_assigns(sample, NV_UPDATE_LOOP_ASSIGNS) \
__CPROVER_loop_invariant(0 <= sample && sample <= samples && samples == values->rows && NV_UPDATE_INV(0)) \
__CPROVER_decreases(samples - sample)
#define NV_LOOP_stats_update_2 \
__CPROVER_assigns(column, NV_UPDATE_LOOP_ASSIGNS) \
__CPROVER_loop_invariant(0 <= column && column <= columns && columns == values->cols && NV_UPDATE_INV(column > nv_gc ? 1 : 0)) \
__CPROVER_decreases(columns - column)

/* ============================================================================================== ::done
 * per column (ghost column nv_gc), N = number of finite samples, `disabled` = the column's enable flag is present and 0
 * ("categorical columns are never rescaled"):
 *   N <= 1 or disabled  =>  div_* = mul_* = 1, stdev = 0 (neutral scaling)
 *   N == 0 or disabled  =>  min = max = mean = 0
 *   N  > 1 and enabled  =>  mean = sum/N, stdev = sqrt(max((sumsq - sum*sum/N)/(N-1), 0)),
 *                           mul_range = max(max-min, eps), div_range = 1/mul_range  (the same denominator, bit-exact),
 *                           mul_stdev = max(stdev, eps),   div_stdev = 1/mul_stdev,
 *                           and both multipliers are numbers >= eps > 0  (so that div * mul = 1 over the reals) */
#define NV_DIS (nv_gc < enable_scaling->n && enable_scaling->g == 0)   /* enable_scaling is never written */
#define nv_fmax_m(a, b) (((a) < (b)) ? (b) : (a))
/* the specification's values for the ghost column, as functions of the accumulators on entry.  They are ghost globals
 * *defined* by the precondition (CBMC admits no uninterpreted function inside a loop invariant); being otherwise
 * unconstrained ghosts, the defining equations narrow nothing. */
int64_t nv_s_n; double nv_s_min, nv_s_max, nv_s_sum, nv_s_sq;         /* accumulators on entry */
double nv_s_mean, nv_s_stdev, nv_s_mul_range, nv_s_div_range, nv_s_mul_stdev, nv_s_div_stdev;
#define NV_S_DN ((double)nv_s_n)
#define NV_DONE_SPEC_DEFS (nv_s_n == NV_COL(stats, m_samples) && NV_IDENT(nv_s_min, NV_COL(stats, m_min)) && NV_IDENT(nv_s_max, NV_COL(stats, m_max)) \
  && NV_IDENT(nv_s_sum, NV_COL(stats, m_mean)) && NV_IDENT(nv_s_sq, NV_COL(stats, m_stdev)) \
  && NV_IDENT(nv_s_mean, NV_FDIV(nv_s_sum, NV_S_DN)) \
  /* the deviation is the square root of the variance clamped at 0 (the rounded variance of constant values can be < 0) */ \
  && NV_IDENT(nv_s_stdev, NV_SQRT(nv_fmax_m(0.0, NV_FDIV(NV_USUB(nv_s_sq, NV_FDIV(NV_FMUL(nv_s_sum, nv_s_sum), NV_S_DN)), NV_USUB(NV_S_DN, 1.0))))) \
  && NV_IDENT(nv_s_mul_range, NV_F_DONE_MUL(NV_F_DONE_RANGE(nv_s_max, nv_s_min), nv_eps)) && NV_IDENT(nv_s_div_range, NV_F_DONE_DIV(nv_s_mul_range)) \
  && NV_IDENT(nv_s_mul_stdev, NV_F_DONE_MUL(nv_s_stdev, nv_eps)) && NV_IDENT(nv_s_div_stdev, NV_F_DONE_DIV(nv_s_mul_stdev)))
#define NV_DONE_C1 (NV_COL(stats, m_samples) == nv_s_n)
#define NV_DONE_C2 ((nv_s_n <= 1 || NV_DIS) ==> (NV_COL(stats, m_div_range) == 1.0 && NV_COL(stats, m_mul_range) == 1.0 && NV_COL(stats, m_div_stdev) == 1.0 \
                        && NV_COL(stats, m_mul_stdev) == 1.0 && NV_COL(stats, m_stdev) == 0.0))
#define NV_DONE_C3 ((nv_s_n == 0 || NV_DIS) ==> (NV_COL(stats, m_min) == 0.0 && NV_COL(stats, m_max) == 0.0 && NV_COL(stats, m_mean) == 0.0))
#define NV_DONE_C4 ((nv_s_n == 1 && !NV_DIS) ==> (NV_IDENT(NV_COL(stats, m_min), nv_s_min) && NV_IDENT(NV_COL(stats, m_max), nv_s_max) && NV_IDENT(NV_COL(stats, m_mean), nv_s_sum)))
#define NV_DONE_C5 ((nv_s_n > 1 && !NV_DIS) ==> (NV_IDENT(NV_COL(stats, m_min), nv_s_min) && NV_IDENT(NV_COL(stats, m_max), nv_s_max) \
                        && NV_IDENT(NV_COL(stats, m_mean), nv_s_mean) && NV_IDENT(NV_COL(stats, m_stdev), nv_s_stdev)))
#define NV_DONE_C6 ((nv_s_n > 1 && !NV_DIS) ==> (NV_IDENT(NV_COL(stats, m_mul_range), nv_s_mul_range) && NV_IDENT(NV_COL(stats, m_div_range), nv_s_div_range)))
#define NV_DONE_C7 ((nv_s_n > 1 && !NV_DIS) ==> (NV_IDENT(NV_COL(stats, m_mul_stdev), nv_s_mul_stdev) && NV_IDENT(NV_COL(stats, m_div_stdev), nv_s_div_stdev)))
/* the range multiplier is a number >= eps (finite min <= max; the IEEE difference of ordered finite numbers is >= 0) */
#define NV_DONE_C8 (NV_COL(stats, m_mul_range) >= nv_eps)
#define NV_DONE_C9 (NV_COL(stats, m_mul_stdev) >= nv_eps)
#define NV_DONE_OBJECTS \
  NV_COL(stats, m_min), NV_COL(stats, m_max), NV_COL(stats, m_mean), NV_COL(stats, m_stdev), NV_COL(stats, m_div_range), NV_COL(stats, m_mul_range), \
  NV_COL(stats, m_div_stdev), NV_COL(stats, m_mul_stdev), nv_other_d, nv_other_i, nv_other_u
#define NV_CONTRACT_stats_done \
__CPROVER_requires(NV_STATS_FRESH(stats) && __CPROVER_is_fresh(enable_scaling, sizeof(*enable_scaling)) && NV_GV_OK(*enable_scaling, nv_gc)) \
__CPROVER_requires(0 <= nv_gc && nv_gc < stats->m_samples.n && NV_EPS_OK) \
/* accumulator invariant, established by the constructor and preserved by ::update (target stats_update) */ \
__CPROVER_requires(NV_ACC_INV(NV_COL(stats, m_samples), NV_COL(stats, m_min), NV_COL(stats, m_max))) \
__CPROVER_requires(NV_DONE_SPEC_DEFS) \
__CPROVER_assigns(NV_DONE_OBJECTS) \
__CPROVER_ensures(NV_DONE_C1) __CPROVER_ensures(NV_DONE_C2) __CPROVER_ensures(NV_DONE_C3) __CPROVER_ensures(NV_DONE_C4) \
__CPROVER_ensures(NV_DONE_C5) __CPROVER_ensures(NV_DONE_C6) __CPROVER_ensures(NV_DONE_C7) __CPROVER_ensures(NV_DONE_C8) \
/* the deviation multiplier is a number >= eps (was refuted before the variance was clamped at 0: sqrt of a slightly \
 * negative rounded variance is NaN and std::max(NaN, eps) is NaN; see known_findings.txt and replay/C14_replay.cpp) */ \
__CPROVER_ensures(NV_DONE_C9)

#define NV_LOOP_stats_done_1 \
__CPROVER_assigns(i, NV_DONE_OBJECTS) \
__CPROVER_loop_invariant(0 <= i && i <= size && size == stats->m_samples.n) \
__CPROVER_loop_invariant(i <= nv_gc ==> (NV_IDENT(NV_COL(stats, m_min), nv_s_min) && NV_IDENT(NV_COL(stats, m_max), nv_s_max) \
   && NV_IDENT(NV_COL(stats, m_mean), nv_s_sum) && NV_IDENT(NV_COL(stats, m_stdev), nv_s_sq))) \
__CPROVER_loop_invariant(i > nv_gc ==> (NV_DONE_C1 && NV_DONE_C2 && NV_DONE_C3 && NV_DONE_C4 && NV_DONE_C5 && NV_DONE_C6 && NV_DONE_C7 && NV_DONE_C8 && NV_DONE_C9)) \
__CPROVER_decreases(size - i)

/* ============================================================================================== views
 * assumed contracts of the tensor / Eigen view constructors: a view aliases the storage of what it views */
static struct nv_view nv_view_of(struct nv_gvd* t) { struct nv_view v; v.g = &t->g; v.n = t->n; v.k = t->k; return v; }
/* values.array(sample) of a rank-2 map: the 1-D array view of row `sample` (the tracked row aliases the tracked
 * coefficient; any other row is the scratch cell, contents forgotten) */
static struct nv_view nv_t2d_row(struct nv_t2d* t, int64_t r)
{
  struct nv_view v;
  __CPROVER_assert(0 <= r && r < t->rows, "tensor.array(sample): row index in range");
  v.n = t->cols; v.k = t->kc;
  if (r == t->kr) v.g = t->g; else { nv_other_d = nv_nondet_double(); v.g = &nv_other_d; }
  return v;
}
static double* nv_view_at(struct nv_view* t, int64_t i)
{
  __CPROVER_assert(0 <= i && i < t->n, "array(i): index in range");
  if (i == t->k) return t->g;
  nv_other_d = nv_nondet_double();
  return &nv_other_d;
}
/* Eigen matrix * vector, coefficient A.kr (assumed contract: some double; the ghosts record on which operand values it
 * was evaluated -- the tracked coefficients -- and how often) */
double nv_dot_val, nv_dot_w, nv_dot_v; int64_t nv_dot_calls;
static double nv_cw_matvec(struct nv_t2d A, struct nv_view v)
{
  nv_dot_val = nv_nondet_double(); nv_dot_w = *A.g; nv_dot_v = *v.g; nv_dot_calls = nv_dot_calls + 1;
  return nv_dot_val;
}
/* make_full_tensor<scalar_t>(make_dims(n), value): every coefficient is `value`, so whichever coefficient k the model
 * chooses to track holds `value` (the spec passes the position at which the statistics are tracked) */
static struct nv_gvd nv_gvd_full(int64_t n, double value, int64_t k) { struct nv_gvd t; t.g = value; t.n = n; t.k = k; return t; }
static struct nv_gvi nv_gvi_full(int64_t n, int64_t value, int64_t k) { struct nv_gvi t; t.g = value; t.n = n; t.k = k; return t; }
/* tensor copy assignment (vector storage: resizes, copies every coefficient) */
static void nv_gvd_assign(struct nv_gvd* d, const struct nv_gvd* s) { *d = *s; }

#define NVE_scaling_type_none 0
#define NVE_scaling_type_mean 1
#define NVE_scaling_type_minmax 2
#define NVE_scaling_type_standard 3
/* the formulas NV_F_* (scale, upscale, make_scaling pair, converted weights / bias) are generated by spec.py from the
 * same expression trees the SMT lemmas over the reals are printed from */
#define NV_SEL(F, mode, V, S) ((mode) == NVE_scaling_type_none ? F##_none(V, S) : (mode) == NVE_scaling_type_mean ? F##_mean(V, S) \
  : (mode) == NVE_scaling_type_minmax ? F##_minmax(V, S) : F##_standard(V, S))
#define NV_NAN2ZERO(x) (NV_ISFIN(x) ? (x) : 0.0)     /* "missing values become zero" */
#define NV_IN1(v) (0 <= (v).k && (v).k < (v).n)
#define NV_IN2(t) (0 <= (t).kr && (t).kr < (t).rows && 0 <= (t).kc && (t).kc < (t).cols)

/* ============================================================================================== nan2zero */
#define NV_CONTRACT_stats_nan2zero \
__CPROVER_requires(__CPROVER_is_fresh(values, sizeof(*values)) && values->n >= 0 && values->n <= NV_MAXN && __CPROVER_is_fresh(values->g, sizeof(double))) \
__CPROVER_assigns(*values->g, nv_other_d) \
__CPROVER_ensures(NV_IN1(*values) ? NV_IDENT(*values->g, NV_NAN2ZERO(__CPROVER_old(*values->g))) : NV_IDENT(*values->g, __CPROVER_old(*values->g)))
#define NV_LOOP_stats_nan2zero_1 \
__CPROVER_assigns(i, *values->g, nv_other_d) \
__CPROVER_loop_invariant(0 <= i && i <= size && size == values->n) \
__CPROVER_loop_invariant((NV_IN1(*values) && i > values->k) ? NV_IDENT(*values->g, NV_NAN2ZERO(__CPROVER_loop_entry(*values->g))) \
                                                             : NV_IDENT(*values->g, __CPROVER_loop_entry(*values->g))) \
__CPROVER_decreases(size - i)

/* ============================================================================================== scale / upscale
 * at the ghost coefficient (sample nv_gs, column nv_gc) of the value matrix, v0 its value on entry:
 *   scale:    none: nan2zero(v0)   mean: nan2zero((v0-mean)*div_range)   minmax: nan2zero((v0-min)*div_range)
 *             standard: nan2zero((v0-mean)*div_stdev)          -- NaN -> 0 happens AFTER scaling
 *   upscale:  none: v0             mean: mean + v0*mul_range   minmax: min + v0*mul_range   standard: mean + v0*mul_stdev
 *   any other mode: throws, values untouched.  The statistics are never written (frame). */
double nv_v0, nv_x_expected;    /* ghosts defined by the preconditions (no uninterpreted function inside loop invariants) */
#define NV_SCALE_REQUIRES \
__CPROVER_requires(__CPROVER_is_fresh(self, sizeof(*self)) && NV_STATS_OK(self, nv_gc) && NV_T2D_OK(values, nv_gs, nv_gc)) \
__CPROVER_requires(values.cols == self->m_min.n /* the assert on the first line; callers scale dataset.columns()-wide batches */) \
__CPROVER_requires(NV_IDENT(nv_v0, *values.g))
#define NV_VALID_MODE(m) ((m) <= NVE_scaling_type_standard)
#define NV_CONTRACT_stats_scale NV_SCALE_REQUIRES \
__CPROVER_requires(NV_IDENT(nv_x_expected, NV_NAN2ZERO(NV_SEL(NV_F_SCALE, scaling, nv_v0, self)))) \
__CPROVER_assigns(*values.g, nv_other_d, nv_thrown) \
__CPROVER_ensures(nv_thrown == !NV_VALID_MODE(scaling)) \
__CPROVER_ensures((NV_VALID_MODE(scaling) && NV_IN2(values)) ? NV_IDENT(*values.g, nv_x_expected) : NV_IDENT(*values.g, nv_v0))
#define NV_SCALE_LOOP \
__CPROVER_assigns(sample, *values.g, nv_other_d) \
__CPROVER_loop_invariant(0 <= sample && sample <= samples && samples == values.rows) \
__CPROVER_loop_invariant((NV_IN2(values) && sample > values.kr) ? NV_IDENT(*values.g, nv_x_expected) : NV_IDENT(*values.g, nv_v0)) \
__CPROVER_decreases(samples - sample)
#define NV_LOOP_stats_scale_1 NV_SCALE_LOOP
#define NV_LOOP_stats_scale_2 NV_SCALE_LOOP
#define NV_LOOP_stats_scale_3 NV_SCALE_LOOP
#define NV_LOOP_stats_scale_4 NV_SCALE_LOOP
#define NV_CONTRACT_stats_upscale NV_SCALE_REQUIRES \
__CPROVER_requires(NV_IDENT(nv_x_expected, NV_SEL(NV_F_UPSCALE, scaling, nv_v0, self))) \
__CPROVER_assigns(*values.g, nv_other_d, nv_thrown) \
__CPROVER_ensures(nv_thrown == !NV_VALID_MODE(scaling)) \
__CPROVER_ensures((NV_VALID_MODE(scaling) && NV_IN2(values)) ? NV_IDENT(*values.g, nv_x_expected) : NV_IDENT(*values.g, nv_v0))
#define NV_LOOP_stats_upscale_1 NV_SCALE_LOOP
#define NV_LOOP_stats_upscale_2 NV_SCALE_LOOP
#define NV_LOOP_stats_upscale_3 NV_SCALE_LOOP

/* ============================================================================================== make_scaling
 * the affine form (w, b) of `scale`: per column  w = div_X,  b = -off * div_X  with the SAME (off, X) as scale/upscale use
 * for that mode; (1, 0) for mode none, for an unknown mode and for uninitialised statistics */
#define NV_MS_PLAIN(stats, scaling) ((scaling) == NVE_scaling_type_none || !NV_VALID_MODE(scaling) || (stats)->m_min.n <= 0)
#define NV_MS_W(stats, scaling) (NV_MS_PLAIN(stats, scaling) ? 1.0 : NV_SEL(NV_F_MSW, scaling, 0.0, stats))
#define NV_MS_B(stats, scaling) (NV_MS_PLAIN(stats, scaling) ? 0.0 : NV_SEL(NV_F_MSB, scaling, 0.0, stats))
#define NV_RET __CPROVER_return_value
#define NV_MS_ENSURES(stats, scaling) \
__CPROVER_ensures(NV_RET._0.n == (stats)->m_min.n && NV_RET._1.n == (stats)->m_min.n && NV_RET._0.k == (stats)->m_min.k && NV_RET._1.k == (stats)->m_min.k) \
__CPROVER_ensures(NV_IN1(NV_RET._0) ==> (NV_IDENT(NV_RET._0.g, NV_MS_W(stats, scaling)) && NV_IDENT(NV_RET._1.g, NV_MS_B(stats, scaling))))
#define NV_CONTRACT_stats_make_scaling \
__CPROVER_requires(__CPROVER_is_fresh(stats, sizeof(*stats)) && NV_STATS_OK(stats, stats->m_samples.k)) \
__CPROVER_assigns() \
NV_MS_ENSURES(stats, scaling)

/* ============================================================================================== nano::upscale
 * "converting [weights, bias] with the library's affine up-scaling": at the ghost coefficient (target t = nv_gs,
 * feature f = nv_gc), with (fw, fb) / (tw, tb) the make_scaling pairs of the flatten / target statistics,
 *    W'[t,f] = W[t,f] / tw[t] * fw[f]        b'[t] = ((W fb)[t] + b[t] - tb[t]) / tw[t]
 * where the product (W fb)[t] was evaluated exactly once, on the ORIGINAL weights and on fb. */
#define NV_CONTRACT_stats_affine_upscale \
__CPROVER_requires(__CPROVER_is_fresh(flatten_stats, sizeof(*flatten_stats)) && NV_STATS_OK(flatten_stats, nv_gc)) \
__CPROVER_requires(__CPROVER_is_fresh(targets_stats, sizeof(*targets_stats)) && NV_STATS_OK(targets_stats, nv_gs)) \
__CPROVER_requires(NV_T2D_OK(weights, nv_gs, nv_gc) && NV_VIEW_OK(bias, nv_gs)) \
/* the three asserts on the first lines; linear.cpp passes weights (targets x columns) and bias (targets) */ \
__CPROVER_requires(bias.n == targets_stats->m_min.n && weights.rows == targets_stats->m_min.n && weights.cols == flatten_stats->m_min.n) \
__CPROVER_requires(nv_dot_calls == 0) \
__CPROVER_assigns(*weights.g, *bias.g, nv_dot_val, nv_dot_w, nv_dot_v, nv_dot_calls) \
__CPROVER_ensures(NV_IN2(weights) ==> NV_IDENT(*weights.g, NV_F_WNEW(__CPROVER_old(*weights.g), NV_MS_W(targets_stats, targets_scaling), NV_MS_W(flatten_stats, flatten_scaling)))) \
__CPROVER_ensures(NV_IN1(bias) ==> (nv_dot_calls == 1 && (NV_IN2(weights) ==> (NV_IDENT(nv_dot_w, __CPROVER_old(*weights.g)) && NV_IDENT(nv_dot_v, NV_MS_B(flatten_stats, flatten_scaling)))))) \
__CPROVER_ensures(NV_IN1(bias) ==> NV_IDENT(*bias.g, NV_F_BNEW(nv_dot_val, __CPROVER_old(*bias.g), NV_MS_B(targets_stats, targets_scaling), NV_MS_W(targets_stats, targets_scaling))))
#endif
