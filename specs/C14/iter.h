/* C14 (e), iterator side (src/dataset/iterator.cpp, include/nano/dataset/iterator.h): the batches a flatten / targets
 * iterator delivers are scaled with exactly the (statistics, scaling) pair that its getters flatten_stats() / targets_stats() /
 * scaling() return -- which is the pair src/linear.cpp ::fit hands to nano::upscale (target linear_fit_prov, fit.h) -- and the
 * statistics are those of the (dataset, samples) the iterator was constructed over.
 * Statistics and tensors are modelled BY IDENTITY (ghost ids); what scale() computes is the business of stats.h / wrap.h. */
#ifndef NV_C14_ITER_H
#define NV_C14_ITER_H
struct nv_sid { uint64_t id; };                         /* scalar_stats_t: which statistics */
struct nv_data { uint64_t id; };                        /* tensor{2,4}d_(c)map_t: which data */
struct nv_isamples { uint64_t id; };                    /* indices_cmap_t: which index list */
struct nv_ids { uint64_t id; _Bool target_valid; };     /* dataset_t */
struct nv_ifeat { _Bool valid; };                       /* feature_t (the target) */
struct nv_ibase { struct nv_ids* m_dataset; };          /* base_dataset_iterator_t */
struct nv_bufs { uint64_t n; };                         /* std::vector<tensorNd_t>: one buffer per thread */
struct nv_cache { int64_t rows; };                      /* tensor4d_t / tensor2d_t: the cache of scaled batches */
struct nv_tit { struct nv_ids* m_dataset; struct nv_isamples m_samples; int64_t m_batch; uint8_t m_scaling; struct nv_cache m_targets; struct nv_sid m_targets_stats; struct nv_bufs m_targets_buffers; };   /* targets_iterator_t (with its base) */
struct nv_fit { struct nv_tit base; struct nv_cache m_flatten; struct nv_sid m_flatten_stats; struct nv_bufs m_flatten_buffers; };                     /* flatten_iterator_t */
/* scalar_stats_t::scale(scaling, data) (contracts: stats.h, wrap.h): records which statistics scaled which data with which mode */
int64_t nv_sc_calls; uint64_t nv_sc_stats, nv_sc_data; uint8_t nv_sc_mode;
static void nv_sid_scale(const struct nv_sid* s, uint8_t scaling, struct nv_data data)
{ nv_sc_calls = (nv_sc_calls < 1000) ? nv_sc_calls + 1 : nv_sc_calls; nv_sc_stats = s->id; nv_sc_mode = scaling; nv_sc_data = data.id; }
/* make_targets_stats / make_flatten_stats(dataset, samples) (targets stats_make_targets / stats_make_flatten): the statistics OF these
 * samples of this dataset: identity = an uninterpreted function of (kind, dataset, samples); scalar_stats_t{}: the empty statistics (id 0) */
uint64_t __CPROVER_uninterpreted_statsid(uint64_t, uint64_t, uint64_t);
#define NV_STATS_OF(kind, ds, smp) __CPROVER_uninterpreted_statsid(kind, ds, smp)
static struct nv_sid nv_make_tstats(const struct nv_ids* ds, struct nv_isamples s) { struct nv_sid r; r.id = NV_STATS_OF(2, ds->id, s.id); return r; }
static struct nv_sid nv_make_fstats(const struct nv_ids* ds, struct nv_isamples s) { struct nv_sid r; r.id = NV_STATS_OF(1, ds->id, s.id); return r; }
static struct nv_sid nv_sid_empty(void) { struct nv_sid r; r.id = 0; return r; }
static struct nv_ifeat nv_ids_target(const struct nv_ids* ds) { struct nv_ifeat f; f.valid = ds->target_valid; return f; }
static _Bool nv_ifeat_valid(struct nv_ifeat f) { return f.valid; }
static struct nv_bufs nv_bufs_make(uint64_t n) { struct nv_bufs b; b.n = n; return b; }
static uint64_t nv_concurrency(void) { return nv_nondet_uint64_t(); }

#define NV_RET __CPROVER_return_value
#define NV_TIT_FRESH(p) __CPROVER_is_fresh(p, sizeof(struct nv_tit))
#define NV_FIT_FRESH(p) __CPROVER_is_fresh(p, sizeof(struct nv_fit))
/* getters / setter (inline, iterator.h) */
#define NV_CONTRACT_it_scaling_get __CPROVER_requires(NV_TIT_FRESH(self)) __CPROVER_assigns() __CPROVER_ensures(NV_RET == self->m_scaling)
#define NV_CONTRACT_it_scaling_set __CPROVER_requires(NV_TIT_FRESH(self)) __CPROVER_assigns(self->m_scaling) __CPROVER_ensures(self->m_scaling == NV_ARG_it_scaling_set_1)
#define NV_CONTRACT_it_targets_stats __CPROVER_requires(NV_TIT_FRESH(self)) __CPROVER_assigns() __CPROVER_ensures(NV_RET == &self->m_targets_stats)
#define NV_CONTRACT_it_flatten_stats __CPROVER_requires(NV_FIT_FRESH(self)) __CPROVER_assigns() __CPROVER_ensures(NV_RET == &self->m_flatten_stats)
/* targets(data) / flatten(data): the data are scaled exactly once, with the iterator's own targets / flatten statistics and its current
 * scaling -- the values the getters return -- and handed back */
#define NV_CONTRACT_it_targets \
__CPROVER_requires(NV_TIT_FRESH(self) && nv_sc_calls == 0) __CPROVER_assigns(nv_sc_calls, nv_sc_stats, nv_sc_data, nv_sc_mode) \
__CPROVER_ensures(nv_sc_calls == 1 && nv_sc_stats == self->m_targets_stats.id && nv_sc_mode == self->m_scaling && nv_sc_data == NV_ARG_it_targets_1.id && NV_RET.id == NV_ARG_it_targets_1.id)
#define NV_CONTRACT_it_flatten \
__CPROVER_requires(NV_FIT_FRESH(self) && nv_sc_calls == 0) __CPROVER_assigns(nv_sc_calls, nv_sc_stats, nv_sc_data, nv_sc_mode) \
__CPROVER_ensures(nv_sc_calls == 1 && nv_sc_stats == self->m_flatten_stats.id && nv_sc_mode == self->base.m_scaling && nv_sc_data == NV_ARG_it_flatten_1.id && NV_RET.id == NV_ARG_it_flatten_1.id)
/* constructors: the statistics are those of the samples of the dataset the iterator iterates over (none for a dataset without target);
 * the scaling starts as `none` (default member initialiser) */
#define NV_CONTRACT_it_ctor_targets \
__CPROVER_requires(NV_TIT_FRESH(self) && __CPROVER_is_fresh(dataset, sizeof(*dataset))) __CPROVER_assigns(*self) \
/* (the base sub-object base_dataset_iterator_t{dataset}, a reference to the dataset, is not modelled) */ \
__CPROVER_ensures(self->m_samples.id == samples.id && self->m_scaling == NVE_scaling_type_none) \
__CPROVER_ensures(self->m_targets_stats.id == (dataset->target_valid ? NV_STATS_OF(2, dataset->id, samples.id) : 0))
/* flatten_iterator_t{dataset, samples}: the base is constructed over the same (dataset, samples); the flatten statistics are those of
 * these samples of this dataset */
#define NV_CONTRACT_it_ctor_flatten \
__CPROVER_requires(NV_FIT_FRESH(self) && __CPROVER_is_fresh(dataset, sizeof(*dataset))) __CPROVER_assigns(*self) \
__CPROVER_ensures(self->base.m_samples.id == samples.id && self->base.m_scaling == NVE_scaling_type_none) \
__CPROVER_ensures(self->base.m_targets_stats.id == (dataset->target_valid ? NV_STATS_OF(2, dataset->id, samples.id) : 0)) \
__CPROVER_ensures(self->m_flatten_stats.id == NV_STATS_OF(1, dataset->id, samples.id))
#endif
