"""C14 -- feature scaling is invertible; the un-scaled linear model is the same predictor (src/dataset/stats.cpp)."""
import astload
from core import Fn, Target, VC

TU = 'src/dataset/stats.cpp'
H = 'specs/C14/stats.h'
TYPES = [(r'^nano::scalar_stats_t$', 'struct nv_stats'),
         (r'tensor_t<nano::tensor_vector_storage_t, unsigned char, 1|^tensor_mem_t<uint8_t, 1>$', 'struct nv_gvu'),
         (r'tensor_t<nano::tensor_(c|m)array_storage_t, double, 2|^nano::tensor2d_c?map_t$', 'struct nv_t2d'),
         (r'^nano::scaling_type$', 'uint8_t')]
SCALAR_CALLS = [(r'^epsilon2\|', 'nv_epsilon2()'), (r'^sqrt\|double \(double\)', 'nv_sqrt({0})'),
                (r'^max\|const double &\(const double &, const double &\)', 'nv_fmax({0}, {1})'),
                (r'^min\|const double &\(const double &, const double &\)', 'nv_fmin({0}, {1})'),
                (r'^isfinite\|', 'nv_isfinite({0})')]


ELEM = [(r'^operator\(\)\|.*\|nano::tensor_t<nano::tensor_vector_storage_t, double, 1', '(*nv_gvd_at({&0}, {1}))'),
        (r'^operator\(\)\|.*\|nano::tensor_t<nano::tensor_vector_storage_t, long, 1', '(*nv_gvi_at({&0}, {1}))'),
        (r'^operator\(\)\|.*\|nano::tensor_t<nano::tensor_vector_storage_t, unsigned char, 1', '(*nv_gvu_at({&0}, {1}))')]


def psel(sub):
    return lambda d: sub in ' '.join(astload.param_types(d))


def build(tier):
    done = Fn('stats_done', TU, 'done', flt='done', select=psel('scalar_stats_t'), types=TYPES,
              calls=SCALAR_CALLS + ELEM,
              members=[(r'^size\|', '{*self}.n')])
    update = Fn('stats_update', TU, 'update', flt='update', select=psel('scalar_stats_t'), types=TYPES,
                calls=SCALAR_CALLS + ELEM + [(r'^operator\(\)\|.*\|nano::tensor_t<nano::tensor_carray_storage_t, double, 2', 'nv_t2d_read({&0}, {1}, {2})')],
                members=[(r'^size\|.*tensor_base_t<double, 2.*\|<0>$', '{*self}.rows'), (r'^size\|.*tensor_base_t<double, 2.*\|<1>$', '{*self}.cols'),
                         (r'^size\|.*tensor_base_t<(double|long), 1', '{*self}.n')])
    targets = [Target('stats_done', [done], H), Target('stats_update', [update], H)]
    return {'targets': targets, 'vcs': [], 'decided': [], 'not_decided': [], 'assumptions': [], 'trusted': []}
