/* C11: gboost_model_t::fit (src/gboost/model.cpp) -- the fold-averaging block and the final statistics.
 * Property: "the final boosting model predicts the average of the per-fold models of the optimum trial" and "the final
 * error and loss statistics in the returned result equal those recomputed from scratch by predicting with the
 * corresponding stored model on the corresponding samples".
 * Contract-shaped part proved here (all numerics erased, every object is a ghost counter / identity):
 *   bias     = zero, plus the bias of extra(optimum_trial, fold) for every fold exactly once, then times 1/folds once;
 *   learners = cleared, plus one clone of every learner of every fold's model (ghost element (fold, position): cloned
 *              exactly once), merged, and after merging every learner (ghost position) scaled by 1/folds exactly once;
 *   final statistics = gboost::evaluate of predictions made by the FINAL model (no change of the model after predicting),
 *              selected by the `samples` given to fit(), stored exactly once. */
#include "selected.h"

/* ---- models */
struct nv_bias { int64_t adds; int64_t g_added; int32_t scaled; int64_t fold; int64_t trial; double v; };   /* tensor1d_t (= vector_t): m_bias as ghost history; make_vector(v) as its one value */
struct nv_biasv { struct nv_bias* b; };                        /* m_bias.vector() */
struct nv_wl { int64_t fold, pos; };                           /* rwlearner_t / wlearner_t: where the learner sits (fold -1: this model's list) */
struct nv_wlist { uint64_t size; int64_t fold; };              /* rwlearners_t */
struct nv_it { int64_t pos; const struct nv_wlist* of; };      /* rwlearners_t::const_iterator */
struct nv_fold_result { int64_t trial, fold; struct nv_bias m_bias; struct nv_wlist m_wlearners; };   /* gboost::result_t held by extra(trial, fold) */
struct nv_any { int64_t trial, fold; };                        /* std::any */
struct nv_mlresult { int64_t trials, folds, optimum; };        /* ml::result_t */
struct nv_outputs { uint64_t model; uint64_t by; int64_t n; }; /* tensor4d_t predictions: of which model version, for which index list */
struct nv_titer { uint64_t by; };                              /* targets_iterator_t{dataset, samples}: iterates over which index list */
struct nv_gmodel { struct nv_bias m_bias; struct nv_wlist m_wlearners; struct nv_vec m_prototypes; };

#define NV_ID_ALL 3
#define NV_ID_FIT 4
/* bit-pattern identity of doubles: NV_IDENT of types.h */

/* ---- ghosts */
int64_t nv_folds, nv_opt_trial;          /* what fit_result.folds() / optimum_trial() returned */
double  nv_inv_folds;                    /* == 1.0 / (double)folds (uninterpreted division), fixed in the requires clause */
int64_t nv_g_fold, nv_g_pos, nv_g_size;  /* ghost element: learner nv_g_pos of fold nv_g_fold, whose list has nv_g_size learners */
uint64_t nv_clones, nv_g_clones;         /* clones pushed into m_wlearners: all / of the ghost element */
uint64_t nv_premerge;                    /* size of m_wlearners when merge was called */
int64_t nv_g2;                           /* ghost position in the merged list */
uint64_t nv_scales, nv_g2_scaled;        /* scale(1/folds) calls on learners of the merged list: all / on position nv_g2 */
_Bool nv_merged;
uint64_t nv_model_ver;                    /* ghost version of the model: bumped by every change of its bias / learners */
static void nv_model_changed(void) { __CPROVER_assume(nv_model_ver < UINT64_MAX - 1); nv_model_ver = nv_model_ver + 1; }
uint64_t nv_eval_id, nv_eval_model, nv_eval_over;   /* the latest evaluation: identity of the values, model version predicted with, index list */
uint64_t nv_stored_id, nv_stored_by, nv_stored;     /* fit_result.store(values): identity, selection, number of calls */
struct nv_fold_result nv_fold_obj;       /* the object extra(trial, fold) refers to */
struct nv_wl nv_elem;                    /* the element an iterator refers to */

static int64_t nv_param_batch(void) { return nv_nondet_int64_t(); }
static _Bool nv_vec_empty(const struct nv_vec* v) { return v->size == 0; }
/* ml::tune: ASSUMED to return a result with at least one trial and one fold (C13; splitter parameter domain) */
static struct nv_mlresult nv_tune(const struct nv_indices* samples)
{ struct nv_mlresult r; r.trials = nv_nondet_int64_t(); r.folds = nv_folds; r.optimum = nv_opt_trial;
  __CPROVER_assume(1 <= r.trials && r.trials <= 1000000 && 0 <= r.optimum && r.optimum < r.trials); return r; }
static int64_t nv_mlresult_optimum(const struct nv_mlresult* r) { return r->optimum; }    /* C13: result_optimum_trial */
static int64_t nv_mlresult_folds(const struct nv_mlresult* r) { return r->folds; }
static int64_t nv_mlresult_trials(const struct nv_mlresult* r) { return r->trials; }
/* extra(trial, fold): precondition of the function (its asserts; slot arithmetic proved in C13) */
static const struct nv_any* nv_extra(const struct nv_mlresult* r, int64_t trial, int64_t fold)
{
  static struct nv_any a;
  __CPROVER_assert(0 <= trial && trial < r->trials && 0 <= fold && fold < r->folds, "extra(trial, fold): 0 <= trial < trials(), 0 <= fold < folds()");
  a.trial = trial; a.fold = fold; return &a;
}
/* any_cast<gboost::result_t>(&extra): the per-fold model stored by the tuning callback under (trial, fold) (C13: tune) */
static const struct nv_fold_result* nv_any_cast(const struct nv_any* a)
{
  __CPROVER_assert(a->trial == nv_opt_trial, "fit: the per-fold models averaged are those of the optimum trial");
  nv_fold_obj.trial = a->trial; nv_fold_obj.fold = a->fold; nv_fold_obj.m_bias.fold = a->fold; nv_fold_obj.m_bias.trial = a->trial;
  nv_fold_obj.m_wlearners.fold = a->fold;
  nv_fold_obj.m_wlearners.size = nv_nondet_uint64_t();
  __CPROVER_assume(nv_fold_obj.m_wlearners.size <= 1000000);      /* gboost::max_rounds <= 10^6 */
  if (a->fold == nv_g_fold) nv_fold_obj.m_wlearners.size = (uint64_t)nv_g_size;
  return &nv_fold_obj;
}

/* ---- bias */
static struct nv_bias nv_bias_full(double value)
{ __CPROVER_assert(value == 0.0, "fit: the bias accumulator starts from zero"); nv_model_changed(); struct nv_bias b; b.adds = 0; b.g_added = 0; b.scaled = 0; b.fold = -1; b.trial = -1; return b; }
static struct nv_biasv nv_bias_vector(const struct nv_bias* b) { struct nv_biasv v; v.b = (struct nv_bias*)b; return v; }
static void nv_biasv_add(struct nv_biasv dst, struct nv_biasv src)
{
  __CPROVER_assert(dst.b->scaled == 0, "fit: the per-fold biases are summed before the sum is averaged");
  __CPROVER_assert(src.b->trial == nv_opt_trial && src.b->fold >= 0, "fit: what is added to the bias is the bias of a fold model of the optimum trial");
  nv_model_changed(); dst.b->adds = dst.b->adds + 1;
  if (src.b->fold == nv_g_fold) dst.b->g_added = dst.b->g_added + 1;
}
static void nv_biasv_scale(struct nv_biasv dst, double factor)
{
  __CPROVER_assert(NV_IDENT(factor, nv_inv_folds), "fit: the bias sum is multiplied by 1 / folds");
  nv_model_changed(); __CPROVER_assume(dst.b->scaled < 1000); dst.b->scaled = dst.b->scaled + 1;
}
static struct nv_bias nv_vec1_make(double v) { struct nv_bias r; r.v = v; r.adds = 0; r.g_added = 0; r.scaled = 0; r.fold = -1; r.trial = -1; return r; }

/* ---- learner lists */
static void nv_wlist_clear(struct nv_wlist* l) { nv_model_changed(); l->size = 0; nv_clones = 0; nv_g_clones = 0; nv_merged = 0; nv_scales = 0; nv_g2_scaled = 0; }
static struct nv_it nv_wlist_begin(const struct nv_wlist* l) { struct nv_it i; i.pos = 0; i.of = l; return i; }
static struct nv_it nv_wlist_end(const struct nv_wlist* l) { struct nv_it i; i.pos = (int64_t)l->size; i.of = l; return i; }
static struct nv_it nv_it_plus(struct nv_it i, int64_t n) { __CPROVER_assume(-1000000 <= n && n <= 1000000 && -1000000000000LL <= i.pos && i.pos <= 1000000000000LL); i.pos = i.pos + n; return i; }
static struct nv_wl* nv_it_deref(struct nv_it i) { nv_elem.fold = i.of->fold; nv_elem.pos = i.pos; return &nv_elem; }
/* wlearner_t::clone: a copy of that learner (ASSUMED) */
static struct nv_wl nv_wl_clone(const struct nv_wl* w) { return *w; }
static void nv_wlist_push(struct nv_wlist* l, struct nv_wl w)
{
  __CPROVER_assume(l->size < 1000000000000ULL && nv_clones < 1000000000000ULL);
  nv_model_changed(); l->size = l->size + 1; nv_clones = nv_clones + 1;
  if (w.fold == nv_g_fold && w.pos == nv_g_pos) nv_g_clones = nv_g_clones + 1;
}
/* wlearner::merge (C10): never increases the number of learners, an empty list stays empty; the merged learners are new
 * objects (none of them scaled yet) */
static void nv_wlist_merge(struct nv_wlist* l)
{ nv_model_changed(); nv_premerge = l->size; uint64_t n = nv_nondet_uint64_t(); __CPROVER_assume(n <= l->size && (l->size > 0 ? n >= 1 : n == 0)); l->size = n; nv_merged = 1; nv_scales = 0; nv_g2_scaled = 0; }
static void nv_wl_scale(const struct nv_wl* w, const struct nv_bias* factor)
{
  __CPROVER_assert(NV_IDENT(factor->v, nv_inv_folds), "fit: every learner is scaled by 1 / folds");
  __CPROVER_assert(w->fold == -1, "fit: the learners scaled are those of the final model");
  __CPROVER_assume(nv_scales < 1000000000000ULL);
  nv_model_changed(); nv_scales = nv_scales + 1;
  if (w->pos == nv_g2) nv_g2_scaled = nv_g2_scaled + 1;
}

/* std::for_each(first, last, f) over a fold model's learners: ASSUMED contract of the algorithm -- f is applied to every
 * element of [first, last) once, in order; f is the extracted lambda (m_wlearners.emplace_back(wlearner->clone())) */
void gmodel_fit_clone(struct nv_gmodel* self, struct nv_wl* wlearner);
static void nv_for_each_clone(struct nv_it first, struct nv_it last, struct nv_gmodel* self)
{
  __CPROVER_assert(first.of == last.of && 0 <= first.pos && first.pos <= last.pos && (uint64_t)last.pos <= first.of->size, "std::for_each: valid range");
  uint64_t size0 = self->m_wlearners.size, g0 = nv_g_clones, c0 = nv_clones;
  int64_t fold = first.of->fold, b = first.pos, e = last.pos;
  for (int64_t k = b; k < e; ++k)
  __CPROVER_assigns(k, self->m_wlearners.size, nv_clones, nv_g_clones, nv_model_ver)
  __CPROVER_loop_invariant(b <= k && k <= e && self->m_wlearners.size == size0 + (uint64_t)(k - b) && nv_clones == c0 + (uint64_t)(k - b))
  __CPROVER_loop_invariant(nv_g_clones == g0 + ((fold == nv_g_fold && b <= nv_g_pos && nv_g_pos < k) ? 1 : 0))
  __CPROVER_decreases(e - k)
  {
    struct nv_wl w; w.fold = fold; w.pos = k;
    gmodel_fit_clone(self, &w);
  }
}

/* ---- final statistics */
static struct nv_indices nv_arange(int64_t lo, int64_t hi)
{ struct nv_indices s; s.n = (hi >= lo && lo >= 0) ? hi - lo : 0; s.id = NV_ID_ALL; return s; }
static void nv_learner_fit_dataset(struct nv_gmodel* self) { }      /* ASSUMED: touches the learner_t base only */
/* learner_t::predict(dataset, samples): the predictions of the CURRENT model for the listed samples */
static struct nv_outputs nv_predict(const struct nv_gmodel* self, struct nv_indices samples)
{ struct nv_outputs o; o.model = nv_model_ver; o.by = samples.id; o.n = samples.n; return o; }
static struct nv_titer nv_titer_make(const struct nv_indices* samples) { struct nv_titer t; t.by = samples->id; return t; }
/* gboost::evaluate(iterator, loss, outputs, values): (error | loss) of outputs against the targets of the iterator's samples */
static void nv_evaluate(const struct nv_titer* it, const struct nv_outputs* outputs, struct nv_tensor2d* values)
{
  __CPROVER_assert(values->rows == 2 && values->cols == outputs->n, "evaluate: values is (2, #outputs) (assert of the function)");
  __CPROVER_assert(it->by == outputs->by, "evaluate: the targets and the outputs are those of the same samples");
  values->id = nv_fresh_id(); values->by = 0; nv_eval_id = values->id; nv_eval_model = outputs->model; nv_eval_over = outputs->by;
}
/* learner_t::evaluate(dataset, samples, loss) = predict + loss on exactly the listed samples */
static struct nv_tensor2d nv_learner_evaluate(const struct nv_gmodel* self, struct nv_indices samples)
{ struct nv_tensor2d v = nv_t2_make(2, samples.n); v.by = samples.id; nv_eval_id = v.id; nv_eval_model = nv_model_ver; nv_eval_over = NV_ID_ALL; return v; }
static void nv_store_final(struct nv_mlresult* r, struct nv_tensor2d values)
{ __CPROVER_assume(nv_stored < 1000); nv_stored = nv_stored + 1; nv_stored_id = values.id; nv_stored_by = values.by; }

/* ---- contracts */
#define NV_CONTRACT_gmodel_fit_clone \
__CPROVER_requires(__CPROVER_is_fresh(self, sizeof(*self)) && __CPROVER_is_fresh(wlearner, sizeof(*wlearner))) \
__CPROVER_assigns(self->m_wlearners.size, nv_clones, nv_g_clones, nv_model_ver) \
__CPROVER_ensures(self->m_wlearners.size == __CPROVER_old(self->m_wlearners.size) + 1 && nv_clones == __CPROVER_old(nv_clones) + 1) \
__CPROVER_ensures(nv_g_clones == __CPROVER_old(nv_g_clones) + ((wlearner->fold == nv_g_fold && wlearner->pos == nv_g_pos) ? 1 : 0))

#define NV_IN_FOLDS(f) (0 <= (f) && (f) < nv_folds)
#define NV_CONTRACT_gmodel_fit \
__CPROVER_requires(__CPROVER_is_fresh(self, sizeof(*self)) && __CPROVER_is_fresh(samples, sizeof(*samples)) && samples->id == NV_ID_FIT && samples->n >= 0 && self->m_wlearners.fold == -1) \
__CPROVER_requires(1 <= nv_folds && nv_folds <= 1000 && NV_IDENT(nv_inv_folds, NV_FDIV(1.0, (double)nv_folds)) && 0 <= nv_g_size && nv_g_size <= 1000000) \
__CPROVER_assigns(*self, nv_thrown, nv_model_ver, nv_fold_obj, nv_elem, nv_clones, nv_g_clones, nv_premerge, nv_scales, nv_g2_scaled, nv_merged, nv_eval_id, nv_eval_model, nv_eval_over, \
                  nv_stored_id, nv_stored_by, nv_stored, nv_id_counter, nv_sel_rows, __CPROVER_object_whole(nv_sel_row), __CPROVER_object_whole(nv_sel_id), __CPROVER_object_whole(nv_sel_by)) \
/* bias: zero + every fold's bias once, then averaged once */ \
__CPROVER_ensures(nv_thrown || (self->m_bias.adds == nv_folds && self->m_bias.scaled == 1 && (!NV_IN_FOLDS(nv_g_fold) || self->m_bias.g_added == 1))) \
/* learners: the (merged) list was built from exactly one clone of every learner of every fold */ \
__CPROVER_ensures(nv_thrown || ((nv_merged ? nv_premerge : self->m_wlearners.size) == nv_clones && (!(NV_IN_FOLDS(nv_g_fold) && 0 <= nv_g_pos && nv_g_pos < nv_g_size) || nv_g_clones == 1))) \
/* after merging every learner is scaled by 1/folds exactly once */ \
__CPROVER_ensures(nv_thrown || (nv_scales == self->m_wlearners.size && (!(0 <= nv_g2 && (uint64_t)nv_g2 < self->m_wlearners.size) || nv_g2_scaled == 1))) \
/* final statistics: evaluated on predictions of the final model, selected by the samples given to fit(), stored once */ \
__CPROVER_ensures(nv_thrown || (nv_stored == __CPROVER_old(nv_stored) + 1 && nv_stored_id == nv_eval_id && nv_eval_model == nv_model_ver && nv_eval_over == NV_ID_ALL)) \
__CPROVER_ensures(nv_thrown || nv_stored_by == NV_ID_FIT)

#define NV_LOOP_gmodel_fit_1 \
__CPROVER_assigns(fold, self->m_bias.adds, self->m_bias.g_added, self->m_wlearners.size, nv_model_ver, nv_clones, nv_g_clones, nv_fold_obj, nv_elem) \
__CPROVER_loop_invariant(0 <= fold && fold <= folds && folds == nv_folds && optimum_trial == nv_opt_trial && 0 <= optimum_trial && optimum_trial < fit_result.trials && fit_result.folds == nv_folds) \
__CPROVER_loop_invariant(self->m_bias.adds == fold && self->m_bias.scaled == 0 && self->m_bias.g_added == ((0 <= nv_g_fold && nv_g_fold < fold) ? 1 : 0)) \
__CPROVER_loop_invariant(self->m_wlearners.size == nv_clones && nv_clones <= (uint64_t)fold * 1000000 && self->m_wlearners.fold == -1 && !nv_merged) \
__CPROVER_loop_invariant(nv_g_clones == ((0 <= nv_g_fold && nv_g_fold < fold && 0 <= nv_g_pos && nv_g_pos < nv_g_size) ? 1 : 0)) \
__CPROVER_decreases(folds - fold)
#define NV_LOOP_gmodel_fit_2 \
__CPROVER_assigns(__begin1.pos, nv_scales, nv_g2_scaled, nv_elem, nv_model_ver) \
__CPROVER_loop_invariant(0 <= __begin1.pos && __begin1.pos <= __end1.pos && __begin1.of == &self->m_wlearners && __end1.pos == (int64_t)self->m_wlearners.size) \
__CPROVER_loop_invariant(nv_scales <= 1000000000000ULL && (int64_t)nv_scales == __begin1.pos && nv_g2_scaled == ((0 <= nv_g2 && nv_g2 < __begin1.pos) ? 1 : 0)) \
__CPROVER_decreases(__end1.pos - __begin1.pos)
